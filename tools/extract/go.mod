module verifextract

go 1.18
