module verifharness

go 1.18

require github.com/at-wat/mqtt-go v0.0.0

require golang.org/x/net v0.33.0 // indirect

replace github.com/at-wat/mqtt-go => /repo
