package main

// An independent MQTT 3.1.1 encoder/decoder written from the OASIS standard, not from the
// library under test. Used (a) as the Go-side property oracle for what the client emits and
// (b) by the scripted broker to read what the client writes and to build what it sends.

import (
	"errors"
	"fmt"
)

type SPkt struct {
	Type  byte // high nibble, e.g. 0x30
	Flags byte
	// CONNECT
	ProtoName                  string
	Level                      byte
	ConnFlags                  byte
	KeepAlive                  uint16
	ClientID                   string
	HasWill                    bool
	WillTopic                  string
	WillPayload                []byte
	WillQoS                    byte
	WillRetain                 bool
	HasUser, HasPass, CleanSes bool
	User, Pass                 string
	// PUBLISH
	Topic   string
	Payload []byte
	QoS     byte
	Retain  bool
	Dup     bool
	// ids
	HasID bool
	ID    uint16
	// SUBSCRIBE / UNSUBSCRIBE
	Filters []string
	QoSs    []byte
	// SUBACK
	Codes []byte
	// CONNACK
	SessionPresent bool
	Code           byte
	RawLen         int // total encoded length
}

var errSpec = errors.New("malformed per MQTT 3.1.1")

func specErr(f string, a ...interface{}) error {
	return fmt.Errorf("%w: "+f, append([]interface{}{errSpec}, a...)...)
}

// specVarInt decodes a variable byte integer (§2.2.3) and insists on the minimal, ≤4-byte form.
func specVarInt(b []byte) (n int, used int, err error) {
	mult := 1
	for i := 0; ; i++ {
		if i >= 4 {
			return 0, 0, specErr("remaining length longer than 4 bytes")
		}
		if i >= len(b) {
			return 0, 0, specErr("truncated remaining length")
		}
		n += int(b[i]&0x7f) * mult
		mult *= 128
		if b[i]&0x80 == 0 {
			used = i + 1
			break
		}
	}
	if used > 1 && b[used-1] == 0 {
		return 0, 0, specErr("non-minimal remaining length")
	}
	return n, used, nil
}

func specEncodeVarInt(n int) []byte {
	var out []byte
	for {
		d := byte(n % 128)
		n /= 128
		if n > 0 {
			d |= 0x80
		}
		out = append(out, d)
		if n == 0 {
			return out
		}
	}
}

func specMinimalLen(n int) int {
	switch {
	case n < 128:
		return 1
	case n < 16384:
		return 2
	case n < 2097152:
		return 3
	}
	return 4
}

type cursor struct {
	b   []byte
	err error
}

func (c *cursor) u8() byte {
	if c.err != nil {
		return 0
	}
	if len(c.b) < 1 {
		c.err = specErr("short body")
		return 0
	}
	v := c.b[0]
	c.b = c.b[1:]
	return v
}
func (c *cursor) u16() uint16 {
	hi := c.u8()
	lo := c.u8()
	return uint16(hi)<<8 | uint16(lo)
}
func (c *cursor) bin() []byte {
	n := int(c.u16())
	if c.err != nil {
		return nil
	}
	if len(c.b) < n {
		c.err = specErr("short string")
		return nil
	}
	v := c.b[:n]
	c.b = c.b[n:]
	return v
}
func (c *cursor) str() string { return string(c.bin()) }

// specDecode decodes one control packet from the front of b.
func specDecode(b []byte) (*SPkt, []byte, error) {
	if len(b) < 2 {
		return nil, nil, specErr("truncated fixed header")
	}
	p := &SPkt{Type: b[0] & 0xf0, Flags: b[0] & 0x0f}
	n, used, err := specVarInt(b[1:])
	if err != nil {
		return nil, nil, err
	}
	if len(b) < 1+used+n {
		return nil, nil, specErr("truncated body: have %d need %d", len(b)-1-used, n)
	}
	body := b[1+used : 1+used+n]
	rest := b[1+used+n:]
	p.RawLen = 1 + used + n
	c := &cursor{b: body}
	wantFlags := func(f byte) {
		if p.Flags != f && c.err == nil {
			c.err = specErr("type %x: reserved flags %x, want %x", p.Type, p.Flags, f)
		}
	}
	switch p.Type {
	case 0x10: // CONNECT
		wantFlags(0)
		p.ProtoName = c.str()
		p.Level = c.u8()
		p.ConnFlags = c.u8()
		p.KeepAlive = c.u16()
		if c.err == nil {
			if p.ProtoName != "MQTT" {
				// the protocol level is the application's choice (WithProtocolLevel) and is compared as a field
				c.err = specErr("protocol name %q", p.ProtoName)
			}
			if p.ConnFlags&0x01 != 0 {
				c.err = specErr("CONNECT reserved flag set")
			}
		}
		p.CleanSes = p.ConnFlags&0x02 != 0
		p.HasWill = p.ConnFlags&0x04 != 0
		p.WillQoS = (p.ConnFlags >> 3) & 3
		p.WillRetain = p.ConnFlags&0x20 != 0
		p.HasPass = p.ConnFlags&0x40 != 0
		p.HasUser = p.ConnFlags&0x80 != 0
		p.ClientID = c.str()
		if c.err == nil {
			if p.WillQoS == 3 {
				c.err = specErr("will QoS 3")
			}
			if !p.HasWill && (p.WillQoS != 0 || p.WillRetain) {
				c.err = specErr("will QoS/retain without will flag [MQTT-3.1.2-11/13/15]")
			}
			if p.HasPass && !p.HasUser {
				c.err = specErr("password flag without user name flag [MQTT-3.1.2-22]")
			}
		}
		if p.HasWill {
			p.WillTopic = c.str()
			p.WillPayload = append([]byte{}, c.bin()...)
		}
		if p.HasUser {
			p.User = c.str()
		}
		if p.HasPass {
			p.Pass = c.str()
		}
	case 0x20: // CONNACK
		wantFlags(0)
		f := c.u8()
		p.SessionPresent = f&1 != 0
		p.Code = c.u8()
	case 0x30: // PUBLISH
		p.Dup = p.Flags&0x08 != 0
		p.QoS = (p.Flags >> 1) & 3
		p.Retain = p.Flags&0x01 != 0
		if p.QoS == 3 {
			return nil, nil, specErr("PUBLISH QoS 3")
		}
		p.Topic = c.str()
		if p.QoS > 0 {
			p.HasID = true
			p.ID = c.u16()
		}
		if c.err == nil {
			p.Payload = append([]byte{}, c.b...)
			c.b = nil
		}
	case 0x40, 0x50, 0x70, 0xb0: // PUBACK PUBREC PUBCOMP UNSUBACK
		wantFlags(0)
		p.HasID = true
		p.ID = c.u16()
	case 0x60: // PUBREL
		wantFlags(2)
		p.HasID = true
		p.ID = c.u16()
	case 0x80: // SUBSCRIBE
		wantFlags(2)
		p.HasID = true
		p.ID = c.u16()
		if c.err == nil && len(c.b) == 0 {
			c.err = specErr("SUBSCRIBE without filters")
		}
		for c.err == nil && len(c.b) > 0 {
			f := c.str()
			q := c.u8()
			if c.err == nil && q > 2 {
				c.err = specErr("SUBSCRIBE requested QoS %d", q)
			}
			p.Filters = append(p.Filters, f)
			p.QoSs = append(p.QoSs, q)
		}
	case 0xa0: // UNSUBSCRIBE
		wantFlags(2)
		p.HasID = true
		p.ID = c.u16()
		if c.err == nil && len(c.b) == 0 {
			c.err = specErr("UNSUBSCRIBE without filters")
		}
		for c.err == nil && len(c.b) > 0 {
			p.Filters = append(p.Filters, c.str())
		}
	case 0x90: // SUBACK
		wantFlags(0)
		p.HasID = true
		p.ID = c.u16()
		if c.err == nil {
			p.Codes = append([]byte{}, c.b...)
			c.b = nil
		}
	case 0xc0, 0xd0, 0xe0: // PINGREQ PINGRESP DISCONNECT
		wantFlags(0)
	default:
		return nil, nil, specErr("unknown packet type %x", p.Type)
	}
	if c.err != nil {
		return nil, nil, c.err
	}
	if len(c.b) != 0 {
		return nil, nil, specErr("type %x: %d trailing bytes in body", p.Type, len(c.b))
	}
	if p.HasID && p.ID == 0 && p.Type != 0x30 {
		return nil, nil, specErr("packet identifier 0")
	}
	if p.Type == 0x30 && p.HasID && p.ID == 0 {
		return nil, nil, specErr("packet identifier 0")
	}
	return p, rest, nil
}

// ---- encoder (broker side) --------------------------------------------------

func specPacket(first byte, body []byte) []byte {
	out := []byte{first}
	out = append(out, specEncodeVarInt(len(body))...)
	return append(out, body...)
}

func specStr(s string) []byte {
	return append([]byte{byte(len(s) >> 8), byte(len(s))}, s...)
}

func specU16(v uint16) []byte { return []byte{byte(v >> 8), byte(v)} }

func specConnAck(sp bool, code byte) []byte {
	f := byte(0)
	if sp {
		f = 1
	}
	return specPacket(0x20, []byte{f, code})
}

func specPublish(topic string, payload []byte, qos byte, retain, dup bool, id uint16) []byte {
	first := byte(0x30) | qos<<1
	if retain {
		first |= 1
	}
	if dup {
		first |= 8
	}
	body := specStr(topic)
	if qos > 0 {
		body = append(body, specU16(id)...)
	}
	body = append(body, payload...)
	return specPacket(first, body)
}

func specAck(first byte, id uint16) []byte { return specPacket(first, specU16(id)) }

func specSubAck(id uint16, codes []byte) []byte {
	return specPacket(0x90, append(specU16(id), codes...))
}
