package main

import (
	"context"
	"errors"
	"io"
	"sync"
	"time"

	mqtt "github.com/at-wat/mqtt-go"
)

// recTransport records what the client writes and lets the test feed bytes to the reader.
// Write never blocks and never fails while open; Read blocks until data, EOF or Close.
type recTransport struct {
	mu      sync.Mutex
	cond    *sync.Cond
	in      []byte
	inEOF   bool
	closed  bool
	out     []byte
	writes  [][]byte
	onWrite func(p []byte) // called outside the lock after recording
	readReq []int          // size of each Read request
	waiting bool           // the reader is blocked in Read with nothing buffered
	refuse  bool           // writes fail although the transport is open
}

func newRecTransport() *recTransport {
	t := &recTransport{}
	t.cond = sync.NewCond(&t.mu)
	return t
}

func (t *recTransport) Read(p []byte) (int, error) {
	t.mu.Lock()
	defer t.mu.Unlock()
	t.readReq = append(t.readReq, len(p))
	for len(t.in) == 0 && !t.inEOF && !t.closed {
		t.waiting = true
		t.cond.Wait()
	}
	t.waiting = false
	if t.closed {
		return 0, io.ErrClosedPipe
	}
	if len(t.in) == 0 {
		return 0, io.EOF
	}
	n := copy(p, t.in)
	t.in = t.in[n:]
	return n, nil
}

func (t *recTransport) Write(p []byte) (int, error) {
	t.mu.Lock()
	if t.closed {
		t.mu.Unlock()
		return 0, io.ErrClosedPipe
	}
	if t.refuse {
		t.mu.Unlock()
		return 0, errors.New("scripted write refusal")
	}
	cp := append([]byte{}, p...)
	t.out = append(t.out, cp...)
	t.writes = append(t.writes, cp)
	cb := t.onWrite
	t.mu.Unlock()
	if cb != nil {
		cb(cp)
	}
	return len(p), nil
}

// Close is deliberately not instantaneous (TLS close_notify, a WebSocket close handshake … take time): whatever
// the library does concurrently with closing a transport gets a chance to be observed in the wrong order.
const scriptedCloseDelay = 300 * time.Microsecond

func (t *recTransport) Close() error {
	time.Sleep(scriptedCloseDelay)
	t.mu.Lock()
	t.closed = true
	t.cond.Broadcast()
	t.mu.Unlock()
	return nil
}

func (t *recTransport) feed(b []byte) {
	t.mu.Lock()
	t.in = append(t.in, b...)
	t.cond.Broadcast()
	t.mu.Unlock()
}

func (t *recTransport) feedEOF() {
	t.mu.Lock()
	t.inEOF = true
	t.cond.Broadcast()
	t.mu.Unlock()
}

func (t *recTransport) written() []byte {
	t.mu.Lock()
	defer t.mu.Unlock()
	return append([]byte{}, t.out...)
}

func (t *recTransport) writeList() [][]byte {
	t.mu.Lock()
	defer t.mu.Unlock()
	return append([][]byte{}, t.writes...)
}

func (t *recTransport) isClosed() bool {
	t.mu.Lock()
	defer t.mu.Unlock()
	return t.closed
}

// connectRec connects c over tr; the accepting CONNACK is fed when the CONNECT packet has been
// written (a broker cannot answer earlier, and the library drops a CONNACK that arrives before
// Connect has registered its channel). The CONNECT bytes are forgotten afterwards.
func connectRec(c *mqtt.BaseClient, tr *recTransport, opts ...mqtt.ConnectOption) (bool, error) {
	tr.mu.Lock()
	prev := tr.onWrite
	fed := false
	tr.onWrite = func(p []byte) {
		tr.mu.Lock()
		first := !fed
		fed = true
		tr.mu.Unlock()
		if first {
			tr.feed(specConnAck(false, 0))
		}
	}
	tr.mu.Unlock()
	sp, err := c.Connect(context.Background(), "cid", opts...)
	tr.mu.Lock()
	tr.onWrite = prev
	tr.out = nil
	tr.writes = nil
	tr.mu.Unlock()
	return sp, err
}

// waitDrained waits until the reader goroutine has consumed everything fed so far and blocks in
// Read again (or the transport is closed / at EOF).
func (t *recTransport) waitDrained() {
	deadline := time.Now().Add(5 * time.Second)
	for {
		t.mu.Lock()
		ok := (len(t.in) == 0 && t.waiting) || t.closed || (len(t.in) == 0 && t.inEOF)
		t.mu.Unlock()
		if ok || time.Now().After(deadline) {
			return
		}
		time.Sleep(100 * time.Microsecond)
	}
}

func (t *recTransport) setRefuse(on bool) {
	t.mu.Lock()
	t.refuse = on
	t.mu.Unlock()
}
