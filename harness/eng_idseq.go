package main

// Engine `idseq` (model-less, C15): identifier sequences on ONE base client in which caller-chosen identifiers and
// failed sends are mixed with generated identifiers while earlier requests are still outstanding:
//
//   preset <start> <preset>   idLast = start; a QoS 1 publish with a generated id stays unacknowledged; a QoS 1 publish
//                             carrying the caller's id <preset> follows; then a Subscribe and an Unsubscribe draw
//                             generated ids: all four outstanding identifiers must be pairwise different and non-zero
//   failsend <start>          a SUBSCRIBE whose Write is held and then fails (the link stays up) while a publish has
//                             drawn the next id behind it; the following requests must not get that id again

import (
	"context"
	"errors"
	"fmt"
	"math/rand"
	"sync"
	"time"

	mqtt "github.com/at-wat/mqtt-go"
)

type gateTransport struct {
	*recTransport
	gmu     sync.Mutex
	armed   bool
	blocked chan struct{}
	gate    chan struct{}
}

func (t *gateTransport) Write(p []byte) (int, error) {
	t.gmu.Lock()
	hold := t.armed && len(p) > 0 && p[0]&0xf0 == 0x80
	if hold {
		t.armed = false
	}
	t.gmu.Unlock()
	if hold {
		close(t.blocked)
		<-t.gate
		return 0, errors.New("transient write error")
	}
	return t.recTransport.Write(p)
}

func init() {
	register(&funcEngine{name: "idseq", par: 8,
		gen: func(rng *rand.Rand, tier string, n int, emit func(string)) {
			for _, st := range []int{10, 65533, 65534, 131070} {
				for _, d := range []int{-1, 0, 1, 2, 300} {
					emit(fmt.Sprintf("preset %d %d", st, (st+d)%65536))
				}
				emit(fmt.Sprintf("failsend %d", st))
			}
			for i := 0; i < n; i++ {
				st := rng.Intn(70000)
				emit(fmt.Sprintf("preset %d %d", st, 1+rng.Intn(65535)))
			}
		},
		exec: func(f []string) Result {
			r := Result{Out: "", Tags: []string{"nontrivial", f[0]}}
			start := uint32(atoi(f[1]))
			ctx, cancel := context.WithCancel(context.Background())
			defer cancel()
			waitWrites := func(tr *recTransport, n int) bool {
				deadline := time.Now().Add(3 * time.Second)
				for len(tr.writeList()) < n {
					if time.Now().After(deadline) {
						return false
					}
					time.Sleep(100 * time.Microsecond)
				}
				return true
			}
			check := func(tr *recTransport, what string) {
				seen := map[uint16]string{}
				for _, w := range tr.writeList() {
					p, _, err := specDecode(w)
					if err != nil || !p.HasID {
						continue
					}
					kind := fmt.Sprintf("%x", p.Type)
					if p.ID == 0 {
						r.Props = append(r.Props, viol("C15", "id-zero", "%s: a request of type %s went out with identifier 0", what, kind))
					}
					if other, dup := seen[p.ID]; dup {
						r.Props = append(r.Props, viol("C15", "duplicate-outstanding-id", "%s: identifier %d is carried by two requests that are both outstanding (types %s and %s)", what, p.ID, other, kind))
					}
					seen[p.ID] = kind
				}
			}
			switch f[0] {
			case "preset":
				preset := uint16(atoi(f[2]))
				if preset == 0 {
					preset = 1
				}
				tr := newRecTransport()
				c := &mqtt.BaseClient{Transport: tr}
				if _, err := connectRec(c, tr); err != nil {
					return r
				}
				c.VerifSetIDLast(start)
				go c.Publish(ctx, &mqtt.Message{Topic: "auto", QoS: mqtt.QoS1, Payload: []byte{1}})
				if !waitWrites(tr, 1) {
					return r
				}
				first, _, _ := specDecode(tr.writeList()[0])
				if first != nil && first.ID == preset {
					return r // the caller happened to choose the outstanding identifier itself: not the library's doing
				}
				go c.Publish(ctx, &mqtt.Message{Topic: "preset", ID: preset, QoS: mqtt.QoS1, Payload: []byte{2}})
				if !waitWrites(tr, 2) {
					return r
				}
				if p, _, err := specDecode(tr.writeList()[1]); err == nil && p.ID != preset {
					r.Props = append(r.Props, viol("C15", "caller-id-changed", "the caller's identifier %d went out as %d", preset, p.ID))
				}
				go c.Subscribe(ctx, mqtt.Subscription{Topic: "s", QoS: mqtt.QoS1})
				if !waitWrites(tr, 3) {
					return r
				}
				go c.Unsubscribe(ctx, "u")
				if !waitWrites(tr, 4) {
					return r
				}
				// a generated identifier that collides with the CALLER's choice is the caller's risk only if the caller chose
				// one the library had not handed out yet; the library must still never repeat its own outstanding ones
				ws := tr.writeList()
				ids := []uint16{}
				for _, w := range ws {
					if p, _, err := specDecode(w); err == nil {
						ids = append(ids, p.ID)
					}
				}
				if len(ids) == 4 && (ids[2] == ids[0] || ids[3] == ids[0] || ids[3] == ids[2]) {
					r.Props = append(r.Props, viol("C15", "duplicate-outstanding-id", "preset %d after start %d: generated identifiers %v repeat one that is still outstanding", preset, start, ids))
				}
				for _, id := range ids {
					if id == 0 {
						r.Props = append(r.Props, viol("C15", "id-zero", "identifier 0 used (ids %v)", ids))
					}
				}
				tr.Close()
			case "failsend":
				base := newRecTransport()
				tr := &gateTransport{recTransport: base, blocked: make(chan struct{}), gate: make(chan struct{})}
				c := &mqtt.BaseClient{Transport: tr}
				errCh := make(chan error, 1)
				go func() { _, err := c.Connect(ctx, "cid"); errCh <- err }()
				if !waitWrites(base, 1) {
					return r
				}
				base.feed(specConnAck(false, 0))
				if err := <-errCh; err != nil {
					return r
				}
				base.mu.Lock()
				base.out, base.writes = nil, nil
				base.mu.Unlock()
				c.VerifSetIDLast(start)
				tr.gmu.Lock()
				tr.armed = true
				tr.gmu.Unlock()
				subErr := make(chan error, 1)
				go func() { _, err := c.Subscribe(ctx, mqtt.Subscription{Topic: "held", QoS: mqtt.QoS1}); subErr <- err }()
				select {
				case <-tr.blocked:
				case <-time.After(3 * time.Second):
					return r
				}
				go c.Publish(ctx, &mqtt.Message{Topic: "behind", QoS: mqtt.QoS1, Payload: []byte{1}})
				// the publish has drawn its identifier and waits for the write lock
				deadline := time.Now().Add(2 * time.Second)
				for c.VerifIDLast() == uint32(start)+1 && time.Now().Before(deadline) {
					time.Sleep(50 * time.Microsecond)
				}
				time.Sleep(500 * time.Microsecond)
				close(tr.gate) // the held SUBSCRIBE write fails; the link stays up
				select {
				case <-subErr:
				case <-time.After(3 * time.Second):
					r.Props = append(r.Props, viol("C11", "call-never-returned", "Subscribe did not return after its write failed"))
					return r
				}
				if !waitWrites(base, 1) {
					return r
				}
				go c.Subscribe(ctx, mqtt.Subscription{Topic: "next", QoS: mqtt.QoS1})
				if !waitWrites(base, 2) {
					return r
				}
				go c.Unsubscribe(ctx, "next2")
				waitWrites(base, 3)
				check(base, fmt.Sprintf("after a failed SUBSCRIBE write (start %d)", start))
				base.Close()
			}
			return r
		}})
}
