package main

// Lock-step runner for the retry / reconnect stack (DESIGN.md §5.0, Appendix B): the real
// ReconnectClient is run over a scripted Dialer and scripted in-memory transports whose peer is an
// MQTT 3.1.1 broker executing inside Write, so that the whole environment of the client is
// decided by the script. After every script event the runner waits for the counters that the
// Lean model predicted for that event (the "plan"); it never forces the client's own progress.

import (
	"context"
	"errors"
	"fmt"
	"io"
	"sort"
	"strings"
	"sync"
	"time"

	mqtt "github.com/at-wat/mqtt-go"
)

type wireEntry struct {
	pkt  *SPkt
	tag  string // "", "!wf", "!lr", "!la", "!si", "!dead"
	conn int
	seq  int // global attempt order
	at   time.Time
}

type rBroker struct {
	grantCap  byte   // highest QoS the broker grants (2 = whatever was requested)
	method    string // "P" deliver on PUBLISH, "R" deliver on PUBREL
	subs      map[string]byte
	subOrder  []string
	q2        map[uint16]bool
	stash     map[uint16]int
	delivered []int
	acked     []string
}

func newRBroker(method string) *rBroker {
	return &rBroker{method: method, subs: map[string]byte{}, q2: map[uint16]bool{}, stash: map[uint16]int{}, grantCap: 2}
}

func (b *rBroker) clearSession() {
	b.subs = map[string]byte{}
	b.q2 = map[uint16]bool{}
	b.stash = map[uint16]int{}
}

type scenario struct {
	mu            sync.Mutex
	cond          *sync.Cond
	faults        []string
	broker        *rBroker
	conns         []*sConn
	wire          []wireEntry
	seq           int
	dialReq       int // DialContext calls so far
	dialCh        chan dialResult
	onErr         []string // "r" / "t" (plain errors are not logged)
	onErrAt       []time.Time
	handled       []string
	cur           int // connection whose CONNACK was accepted last (-1: none)
	msgConn       map[int]int
	states        []string
	cbMismatch    []string // Closed callbacks whose error differs from Err()
	refuseNext    bool     // the next dialled transport refuses the CONNECT write
	deafDialer    bool     // the dialer ignores its context (configuration d1)
	bornCancelled bool     // the next dialled transport belongs to an already cancelled first Connect
	refuseIDStart uint32   // … and its id counter is set to this value at that moment
	dialAt        []time.Time
	endAt         map[int]time.Time
	answerPings   bool        // the broker answers PINGREQ (keep-alive scenarios)
	failAt        []time.Time // the failures that start a back-off wait, in order (dial failure, connection end)
	used          []string    // faults applied so far
}

func (s *scenario) faultsUsed() []string { return s.used }

type dialResult struct {
	ok bool
}

type sConn struct {
	sc             *scenario
	k              int
	closed         bool // transport unusable (local Close, write failure, or peer closed)
	peerEOF        bool // reads return EOF after the buffered data
	in             []byte
	cli            *mqtt.BaseClient
	accepted       bool
	answered       bool // the CONNACK gate has been resolved (accepted, refused or left to time out)
	readerWaiting  bool // the client's reader goroutine is blocked in Read with nothing buffered
	sessionPresent bool
	createdAt      time.Time
	ackAt          time.Time
	refuseConnect  bool // the write of CONNECT fails (scripted)
	bornCancelled  bool // dialled for a Connect whose context was already cancelled
	idStart        uint32
}

// waitDrained waits until the client's reader goroutine has consumed everything fed so far and
// is blocked in Read again: every inbound packet has then been fully processed (handler included).
func (c *sConn) waitDrained() {
	s := c.sc
	deadline := time.Now().Add(5 * time.Second)
	for {
		s.mu.Lock()
		ok := (len(c.in) == 0 && c.readerWaiting) || c.closed
		s.mu.Unlock()
		if ok || time.Now().After(deadline) {
			return
		}
		time.Sleep(100 * time.Microsecond)
	}
}

func (c *sConn) Read(p []byte) (int, error) {
	s := c.sc
	s.mu.Lock()
	defer s.mu.Unlock()
	for len(c.in) == 0 && !c.closed && !c.peerEOF {
		c.readerWaiting = true
		s.cond.Broadcast()
		s.cond.Wait()
	}
	c.readerWaiting = false
	if len(c.in) > 0 {
		n := copy(p, c.in)
		c.in = c.in[n:]
		return n, nil
	}
	if c.peerEOF {
		return 0, io.EOF
	}
	return 0, io.ErrClosedPipe
}

func (c *sConn) Close() error {
	time.Sleep(scriptedCloseDelay)
	s := c.sc
	s.mu.Lock()
	if !c.closed {
		c.closed = true
		if _, ok := s.endAt[c.k]; !ok {
			s.endAt[c.k] = time.Now()
			s.failAt = append(s.failAt, s.endAt[c.k])
		}
	}
	s.cond.Broadcast()
	s.mu.Unlock()
	return nil
}

func (c *sConn) markDeadLocked(peer bool) {
	c.closed = true
	if peer {
		c.peerEOF = true
	}
	if _, ok := c.sc.endAt[c.k]; !ok {
		c.sc.endAt[c.k] = time.Now()
		c.sc.failAt = append(c.sc.failAt, c.sc.endAt[c.k])
	}
}

func msgIndex(p *SPkt) int {
	if len(p.Payload) >= 2 {
		return int(p.Payload[0])<<8 | int(p.Payload[1])
	}
	return -1
}

func (c *sConn) Write(p []byte) (int, error) {
	s := c.sc
	s.mu.Lock()
	defer s.mu.Unlock()
	defer s.cond.Broadcast()
	pkt, rest, err := specDecode(p)
	if err != nil || len(rest) != 0 {
		pkt = &SPkt{Type: 0xff, Payload: append([]byte{}, p...)}
	}
	if pkt.Type == 0x30 && pkt.Topic == "$probe" {
		if c.closed {
			return 0, io.ErrClosedPipe
		}
		return len(p), nil
	}
	entry := wireEntry{pkt: pkt, conn: c.k, seq: s.seq, at: time.Now()}
	s.seq++
	if c.bornCancelled && pkt.Type == 0x10 {
		s.wire = append(s.wire, entry)
		c.cli.VerifSetIDLast(c.idStart)
		c.answered = true // every later write is refused (see below)
		return len(p), nil
	}
	if c.refuseConnect && pkt.Type == 0x10 {
		// the attempt is logged like any CONNECT; the write fails and the transport is unusable from here on
		s.wire = append(s.wire, entry)
		c.cli.VerifSetIDLast(c.idStart) // init() has run; no identifier has been drawn yet
		c.answered = true
		c.closed = true
		if _, ok := s.endAt[c.k]; !ok {
			s.endAt[c.k] = time.Now()
		}
		return 0, errors.New("scripted write failure on CONNECT")
	}
	// A connection attempt that has been resolved negatively (CONNACK refused, never sent and timed out, Connect
	// context cancelled) is about to be closed by the reconnect loop; the task goroutine, released at the same
	// moment, may reach the transport a few microseconds before or after that Close. Both orders are legal runs of
	// the library; the scripted transport makes them indistinguishable by refusing writes from the moment the attempt
	// is resolved (the model: `connectFailed` kills the connection before the released tasks run).
	if c.closed || (c.answered && !c.accepted && pkt.Type != 0x10) {
		entry.tag = "!dead"
		s.wire = append(s.wire, entry)
		return 0, io.ErrClosedPipe
	}
	isRequest := pkt.Type == 0x30 || pkt.Type == 0x60 || pkt.Type == 0x80 || pkt.Type == 0xa0
	fault := "ok"
	if isRequest && len(s.faults) > 0 {
		fault = s.faults[0]
		s.faults = s.faults[1:]
	}
	if fault != "ok" {
		entry.tag = "!" + fault
		s.used = append(s.used, fault)
	}
	s.wire = append(s.wire, entry)
	switch fault {
	case "wf":
		c.markDeadLocked(false)
		return 0, errors.New("scripted write failure")
	case "lr":
		c.markDeadLocked(true)
		return len(p), nil
	case "la":
		s.process(c, pkt, false)
		c.markDeadLocked(true)
		return len(p), nil
	case "si":
		s.process(c, pkt, false)
		return len(p), nil
	}
	if pkt.Type == 0xc0 {
		if s.answerPings {
			c.in = append(c.in, specPacket(0xd0, nil)...)
		}
		return len(p), nil
	}
	s.process(c, pkt, true)
	return len(p), nil
}

// process applies a client packet to the broker; respond=false drops the acknowledgement.
func (s *scenario) process(c *sConn, p *SPkt, respond bool) {
	b := s.broker
	reply := func(x []byte) {
		if respond {
			c.in = append(c.in, x...)
		}
	}
	switch p.Type {
	case 0x30:
		m := msgIndex(p)
		switch p.QoS {
		case 0:
			b.delivered = append(b.delivered, m)
		case 1:
			b.delivered = append(b.delivered, m)
			reply(specAck(0x40, p.ID))
			if respond {
				b.acked = append(b.acked, fmt.Sprintf("p%dq1", m))
			}
		case 2:
			if !b.q2[p.ID] {
				if b.method == "P" {
					b.delivered = append(b.delivered, m)
				} else {
					b.stash[p.ID] = m
				}
				b.q2[p.ID] = true
			}
			reply(specAck(0x50, p.ID))
		}
	case 0x60:
		if m, ok := b.stash[p.ID]; ok {
			b.delivered = append(b.delivered, m)
			delete(b.stash, p.ID)
		}
		delete(b.q2, p.ID)
		reply(specAck(0x70, p.ID))
		if respond {
			b.acked = append(b.acked, fmt.Sprintf("p%dq2", s.msgOfID(p.ID)))
		}
	case 0x80:
		var codes []byte
		var parts []string
		for i, f := range p.Filters {
			if _, ok := b.subs[f]; !ok {
				b.subOrder = append(b.subOrder, f)
			}
			granted := p.QoSs[i]
			if granted > b.grantCap {
				granted = b.grantCap // a broker may grant less than requested (MQTT-3.8.4-6)
			}
			b.subs[f] = granted
			codes = append(codes, granted)
			parts = append(parts, fmt.Sprintf("%s.%d", hexOrDash([]byte(f)), p.QoSs[i]))
		}
		reply(specSubAck(p.ID, codes))
		if respond {
			b.acked = append(b.acked, "s"+strings.Join(parts, ";"))
		}
	case 0xa0:
		var parts []string
		for _, f := range p.Filters {
			delete(b.subs, f)
			parts = append(parts, hexOrDash([]byte(f)))
		}
		reply(specAck(0xb0, p.ID))
		if respond {
			b.acked = append(b.acked, "u"+strings.Join(parts, ";"))
		}
	}
}

// msgOfID finds the message whose PUBLISH most recently carried this packet id.
func (s *scenario) msgOfID(id uint16) int {
	for i := len(s.wire) - 1; i >= 0; i-- {
		if p := s.wire[i].pkt; p.Type == 0x30 && p.HasID && p.ID == id {
			return msgIndex(p)
		}
	}
	return -1
}

// scripted dialer
type sDialer struct{ sc *scenario }

func (d *sDialer) DialContext(ctx context.Context) (*mqtt.BaseClient, error) {
	s := d.sc
	s.mu.Lock()
	s.dialReq++
	s.dialAt = append(s.dialAt, time.Now())
	s.cond.Broadcast()
	s.mu.Unlock()
	var ctxDone <-chan struct{}
	if !s.deafDialer {
		ctxDone = ctx.Done() // a dialer like NoContextDialer does not look at its context
	}
	select {
	case r := <-s.dialCh:
		if !r.ok {
			return nil, errors.New("scripted dial failure")
		}
		s.mu.Lock()
		c := &sConn{sc: s, k: len(s.conns), createdAt: time.Now(), refuseConnect: s.refuseNext, idStart: s.refuseIDStart, bornCancelled: s.bornCancelled}
		s.refuseNext = false
		s.bornCancelled = false
		k := c.k
		var cli *mqtt.BaseClient
		cli = &mqtt.BaseClient{Transport: c, ConnState: func(st mqtt.ConnState, err error) {
			cur := cli.Err()
			s.mu.Lock()
			s.states = append(s.states, fmt.Sprintf("%d:%v:%s", k, st, errClass(err)))
			if st == mqtt.StateClosed && (err == nil || err != cur) {
				// C16: Closed is reported "together with the non-nil error that ended it (which Err() also returns)"
				s.cbMismatch = append(s.cbMismatch, fmt.Sprintf("connection %d: Closed reported with %v, Err() is %v", k, err, cur))
			}
			s.cond.Broadcast()
			s.mu.Unlock()
		}}
		c.cli = cli
		s.conns = append(s.conns, c)
		s.cond.Broadcast()
		s.mu.Unlock()
		return cli, nil
	case <-ctxDone:
		return nil, ctx.Err()
	}
}

type planPoint struct {
	d, w, t, e, r, h, x int
	stuck               bool
}

func parsePlan(s string) []planPoint {
	var out []planPoint
	if s == "" {
		return out
	}
	for _, part := range strings.Split(s, ";") {
		var p planPoint
		var st int
		fmt.Sscanf(part, "d%d,w%d,t%d,e%d,r%d,h%d,x%d,s%d", &p.d, &p.w, &p.t, &p.e, &p.r, &p.h, &p.x, &st)
		p.stuck = st == 1
		out = append(out, p)
	}
	return out
}

const (
	planTimeout = 4 * time.Second
	retryBase   = 4 * time.Millisecond
	retryMax    = 18 * time.Millisecond // not base * 2^n: the clamp itself is exercised (4, 8, 16, 18, 18 …)
	// configuration `w1`
	retrySlowBase = 400 * time.Millisecond
	retrySlowMax  = 900 * time.Millisecond
	// generous: they only fire in scripts that contain a silent fault / an unanswered CONNECT, and a
	// loaded machine must not make them fire anywhere else
	retryRespTimeout = 700 * time.Millisecond
	retryConnTimeout = 700 * time.Millisecond
)

type retryRun struct {
	sc                        *scenario
	cli                       mqtt.ReconnectClient
	rc                        *mqtt.RetryClient
	cfg                       string
	evs                       []string
	accepted                  []string // app requests for which the API returned nil, in order
	acceptedT                 []time.Time
	rejected                  int
	connRet                   string
	retMu                     sync.Mutex
	retFrozen                 bool
	connErr                   error // what ReconnectClient.Connect returned during the script
	connDone                  chan struct{}
	planMiss                  []string
	idStart                   map[int]uint32
	inboundAt                 map[int]string // message -> handler registered when it was fed
	curHandle                 int
	released                  int // dial gate releases so far
	discDone                  chan error
	base, max                 time.Duration // back-off configuration of this run
	cancelled                 bool
	firstAcked                bool
	started                   bool
	startAt, discAt, cancelAt time.Time // zero if the event did not happen (cancelAt: only an effective cancellation)
}

func (r *retryRun) frozenConnRet() string {
	r.retMu.Lock()
	defer r.retMu.Unlock()
	r.retFrozen = true
	return r.connRet
}

func (r *retryRun) oeField() string {
	if strings.Contains(r.cfg, "e0") {
		return "?"
	}
	return joinOr([]string{strings.Join(r.sc.onErr, "")}, "")
}

func isAppEv(ev string) bool {
	return strings.HasPrefix(ev, "pub:") || strings.HasPrefix(ev, "sub:") || strings.HasPrefix(ev, "unsub:")
}

func (r *retryRun) dialPending() bool {
	r.sc.mu.Lock()
	defer r.sc.mu.Unlock()
	return r.sc.dialReq > r.released
}

func (r *retryRun) awaitingConnack(c *sConn) bool {
	r.sc.mu.Lock()
	defer r.sc.mu.Unlock()
	return !c.answered && !c.closed
}

func (r *retryRun) isUp(c *sConn) bool {
	r.sc.mu.Lock()
	defer r.sc.mu.Unlock()
	return c.accepted && !c.closed
}

func msgTopic(m int) string { return fmt.Sprintf("t/%d", m%3) }

// presetID: messages 3, 7, 11, … of a script carry a caller-chosen identifier (the Lean oracle applies the same rule)
func presetID(m, qos int) uint16 {
	if m%4 == 3 && qos > 0 {
		return uint16(20000 + m)
	}
	return 0
}

func msgOf(m int, qos int) *mqtt.Message {
	return &mqtt.Message{Topic: msgTopic(m), Payload: []byte{byte(m >> 8), byte(m), 0xAB}, QoS: mqtt.QoS(qos), Retain: m%2 == 1,
		// the application may hand over a Message whose Dup field is already set (e.g. one it received): the first
		// transmission must still go out with DUP=0 (MQTT-3.3.1-1)
		Dup: m%3 == 2,
		// … and may have chosen the packet identifier itself (C15: used unchanged on every transmission)
		ID: presetID(m, qos)}
}

func (r *retryRun) counters() planPoint {
	s := r.sc
	st := r.rc.Stats()
	s.mu.Lock()
	defer s.mu.Unlock()
	closed := 0
	for _, c := range s.conns {
		if c.closed {
			closed++
		}
	}
	return planPoint{d: s.dialReq, w: len(s.wire), t: st.TotalTasks, e: len(s.onErr), r: st.TotalRetries, h: len(s.handled), x: closed}
}

func (r *retryRun) waitPlan(i int, want planPoint) {
	deadline := time.Now().Add(planTimeout)
	if len(r.planMiss) > 0 {
		// the run has already left the predicted path: do not wait long for later predictions
		deadline = time.Now().Add(planTimeout / 10)
	}
	for {
		c := r.counters()
		if strings.Contains(r.cfg, "e0") {
			want.e = 0
		}
		if c.d >= want.d && c.w >= want.w && c.t >= want.t && c.e >= want.e && c.r >= want.r && c.h >= want.h && c.x >= want.x {
			return
		}
		if time.Now().After(deadline) {
			r.planMiss = append(r.planMiss, fmt.Sprintf("ev%d(%s):want{d%d,w%d,t%d,e%d,r%d,h%d,x%d}got{d%d,w%d,t%d,e%d,r%d,h%d,x%d}", i, r.evs[i],
				want.d, want.w, want.t, want.e, want.r, want.h, want.x, c.d, c.w, c.t, c.e, c.r, c.h, c.x))
			return
		}
		time.Sleep(200 * time.Microsecond)
	}
}

func runRetryScript(cfg, method, faultStr string, evs []string, plan []planPoint) *retryRun {
	sc := &scenario{broker: newRBroker(method), dialCh: make(chan dialResult), cur: -1, msgConn: map[int]int{}, endAt: map[int]time.Time{}}
	sc.cond = sync.NewCond(&sc.mu)
	if strings.Contains(cfg, "g1") {
		sc.broker.grantCap = 1
	}
	sc.deafDialer = strings.Contains(cfg, "d1")
	if faultStr != "-" {
		sc.faults = strings.Split(faultStr, ",")
	}
	r := &retryRun{sc: sc, cfg: cfg, evs: evs, connDone: make(chan struct{}), idStart: map[int]uint32{}, inboundAt: map[int]string{}, curHandle: -1}
	rc := &mqtt.RetryClient{}
	if cfg[1] == '1' {
		rc.ResponseTimeout = retryRespTimeout
	}
	rc.OnError = func(err error) {
		var rte *mqtt.RequestTimeoutError
		_, isRetry := err.(mqtt.ErrorWithRetry)
		kind := ""
		if errors.As(err, &rte) {
			kind = "t"
		} else if isRetry {
			kind = "r"
		}
		if kind != "" {
			sc.mu.Lock()
			sc.onErr = append(sc.onErr, kind)
			sc.onErrAt = append(sc.onErrAt, time.Now())
			sc.cond.Broadcast()
			sc.mu.Unlock()
		}
	}
	if strings.Contains(cfg, "e0") {
		// an application that installs no OnError callback: everything else must work the same
		rc.OnError = nil
	}
	r.rc = rc
	r.base, r.max = retryBase, retryMax
	if strings.HasSuffix(cfg, "w1") {
		// long back-off: the script's events land while the loop waits to redial; `wait` lets the timer fire
		r.base, r.max = retrySlowBase, retrySlowMax
	}
	opts := []mqtt.ReconnectOption{mqtt.WithRetryClient(rc), mqtt.WithReconnectWait(r.base, r.max), mqtt.WithAlwaysResubscribe(cfg[3] == '1')}
	if len(evs)%2 == 1 {
		// options are independent of each other: any order must give the same client
		opts = []mqtt.ReconnectOption{mqtt.WithAlwaysResubscribe(cfg[3] == '1'), mqtt.WithReconnectWait(r.base, r.max), mqtt.WithRetryClient(rc)}
	}
	if cfg[5] == '1' {
		opts = append(opts, mqtt.WithTimeout(retryConnTimeout))
	}
	cli, err := mqtt.NewReconnectClient(&sDialer{sc: sc}, opts...)
	if err != nil {
		panic(err)
	}
	r.cli = cli
	ctx := context.Background()
	connCtx, connCancel := context.WithCancel(ctx)
	defer connCancel()
	r.connRet = "-"
	curConn := func() *sConn {
		sc.mu.Lock()
		defer sc.mu.Unlock()
		if len(sc.conns) == 0 {
			return nil
		}
		return sc.conns[len(sc.conns)-1]
	}
	for i, ev := range evs {
		f := strings.Split(ev, ":")
		switch f[0] {
		case "start":
			if r.cancelled && !sc.deafDialer {
				r.released++ // the one DialContext call of a Connect with a finished context returns by itself
			}
			r.started = true
			r.startAt = time.Now()
			go func() {
				sp, err := cli.Connect(connCtx, "cid", mqtt.WithCleanSession(false), mqtt.WithUserNamePassword("user", "pw"),
					mqtt.WithWill(&mqtt.Message{Topic: "will/t", Payload: []byte{1, 2}, QoS: mqtt.QoS1, Retain: true}))
				// what Connect returned DURING the script (the deferred cancellation at the end of the run also makes a
				// still-waiting Connect return: that is not part of the observed behaviour)
				r.retMu.Lock()
				if !r.retFrozen {
					r.connErr = err
					if err != nil {
						r.connRet = "err"
					} else if sp {
						r.connRet = "1"
					} else {
						r.connRet = "0"
					}
				}
				r.retMu.Unlock()
				// the usual pattern: the context given to Connect is released as soon as it has returned;
				// the client must keep reconnecting, timing out and retransmitting regardless
				connCancel()
				close(r.connDone)
			}()
		case "pub":
			m, q := atoi(f[1]), atoi(f[2])
			if err := cli.Publish(ctx, msgOf(m, q)); err == nil {
				r.accepted = append(r.accepted, fmt.Sprintf("p%dq%d", m, q))
				r.acceptedT = append(r.acceptedT, time.Now())
			} else {
				r.rejected++
			}
		case "sub":
			var subs []mqtt.Subscription
			var parts []string
			for _, it := range strings.Split(f[1], ",") {
				p := strings.Split(it, ".")
				subs = append(subs, mqtt.Subscription{Topic: string(mustDesc(p[0])), QoS: mqtt.QoS(atoi(p[1]))})
				parts = append(parts, p[0]+"."+p[1])
			}
			if _, err := cli.Subscribe(ctx, subs...); err == nil {
				r.accepted = append(r.accepted, "s"+strings.Join(parts, ";"))
				r.acceptedT = append(r.acceptedT, time.Now())
			} else {
				r.rejected++
			}
		case "unsub":
			var ts []string
			var parts []string
			for _, it := range strings.Split(f[1], ",") {
				ts = append(ts, string(mustDesc(it)))
				parts = append(parts, it)
			}
			if err := cli.Unsubscribe(ctx, ts...); err == nil {
				r.accepted = append(r.accepted, "u"+strings.Join(parts, ";"))
				r.acceptedT = append(r.acceptedT, time.Now())
			} else {
				r.rejected++
			}
		case "dialw":
			// the dial succeeds, the transport refuses the very first write (CONNECT)
			if !r.dialPending() {
				break
			}
			sc.mu.Lock()
			r.idStart[len(sc.conns)] = uint32(atoi(f[1]))
			sc.refuseNext = true
			sc.refuseIDStart = uint32(atoi(f[1]))
			sc.failAt = append(sc.failAt, time.Now())
			sc.mu.Unlock()
			r.released++
			select {
			case sc.dialCh <- dialResult{ok: true}:
			case <-time.After(5 * time.Second):
				r.planMiss = append(r.planMiss, fmt.Sprintf("ev%d(%s):no-dial-request", i, ev))
			}
		case "dial+":
			if !r.dialPending() {
				break
			}
			sc.mu.Lock()
			r.idStart[len(sc.conns)] = uint32(atoi(f[1]))
			if r.cancelled && sc.deafDialer && !r.firstAcked {
				// the transport arrives after the Connect context was cancelled: CONNECT is written, Connect fails at
				// once and the loop closes the client; the attempt counts as resolved from the CONNECT write on
				sc.bornCancelled = true
				sc.refuseIDStart = uint32(atoi(f[1]))
			}
			sc.mu.Unlock()
			r.released++
			select {
			case sc.dialCh <- dialResult{ok: true}:
			case <-time.After(5 * time.Second):
				r.planMiss = append(r.planMiss, fmt.Sprintf("ev%d(%s):no-dial-request", i, ev))
			}
		case "dial-":
			if !r.dialPending() {
				break
			}
			r.released++
			sc.mu.Lock()
			sc.failAt = append(sc.failAt, time.Now())
			sc.mu.Unlock()
			select {
			case sc.dialCh <- dialResult{ok: false}:
			case <-time.After(5 * time.Second):
				r.planMiss = append(r.planMiss, fmt.Sprintf("ev%d(%s):no-dial-request", i, ev))
			}
		case "ack+":
			c := curConn()
			if c == nil || !r.awaitingConnack(c) {
				break
			}
			// CONNECT has been written (the previous event waited for it), so init() has run and no
			// identifier has been drawn yet: fix the counter start value the script asks for
			c.cli.VerifSetIDLast(r.idStart[c.k])
			sp := f[1] == "1"
			sc.mu.Lock()
			if !sp {
				sc.broker.clearSession()
			}
			c.accepted = true
			c.sessionPresent = sp
			c.ackAt = time.Now()
			c.answered = true
			sc.cur = c.k
			c.in = append(c.in, specConnAck(sp, 0)...)
			if len(f) > 2 {
				for _, it := range strings.Split(f[2], ",") {
					p := strings.Split(it, ".")
					m, q := atoi(p[0]), atoi(p[1])
					sc.msgConn[m] = c.k
					r.inboundAt[m] = fmt.Sprint(r.curHandle)
					c.in = append(c.in, specPublish("in/"+fmt.Sprint(m), []byte{byte(m >> 8), byte(m)}, byte(q), false, false, uint16(m+1))...)
				}
			}
			sc.cond.Broadcast()
			sc.mu.Unlock()
			c.waitDrained()
			if !r.firstAcked {
				// ReconnectClient.Connect returns now; later events (cancel) must find it returned
				r.firstAcked = true
				select {
				case <-r.connDone:
				case <-time.After(3 * time.Second):
				}
			}
		case "ack-":
			if c := curConn(); c != nil && r.awaitingConnack(c) {
				c.cli.VerifSetIDLast(r.idStart[c.k])
				sc.mu.Lock()
				c.answered = true
				c.in = append(c.in, specConnAck(false, 5)...)
				sc.cond.Broadcast()
				sc.mu.Unlock()
			}
		case "ack0":
			// nothing is sent: the connect timeout has to resolve it
			if c := curConn(); c != nil && r.awaitingConnack(c) {
				c.cli.VerifSetIDLast(r.idStart[c.k])
				sc.mu.Lock()
				c.answered = true
				sc.mu.Unlock()
			}
		case "close":
			// (after Disconnect the model's loop has exited and ignores the broker's actions; a connection that
			// Disconnect left open — see DESIGN.md, observation O1 — is not exercised further)
			if c := curConn(); c != nil && r.isUp(c) && r.discDone == nil {
				sc.mu.Lock()
				c.markDeadLocked(true)
				sc.cond.Broadcast()
				sc.mu.Unlock()
			}
		case "in":
			if c := curConn(); c != nil && r.isUp(c) && r.discDone == nil {
				m, q := atoi(f[1]), atoi(f[2])
				sc.mu.Lock()
				sc.msgConn[m] = c.k
				r.inboundAt[m] = fmt.Sprint(r.curHandle)
				c.in = append(c.in, specPublish("in/"+fmt.Sprint(m), []byte{byte(m >> 8), byte(m)}, byte(q), false, false, uint16(m+1))...)
				sc.cond.Broadcast()
				sc.mu.Unlock()
				c.waitDrained()
			}
		case "handle":
			h := atoi(f[1])
			r.curHandle = h
			cli.Handle(mqtt.HandlerFunc(func(msg *mqtt.Message) {
				m := -1
				if len(msg.Payload) >= 2 {
					m = int(msg.Payload[0])<<8 | int(msg.Payload[1])
				}
				sc.mu.Lock()
				sc.handled = append(sc.handled, fmt.Sprintf("%d:%d:%d", sc.msgConn[m], h, m))
				sc.cond.Broadcast()
				sc.mu.Unlock()
			}))
		case "bad":
			// a protocol error: the broker sends a packet of the reserved type 15; the client must end the connection
			if c := curConn(); c != nil && r.isUp(c) && r.discDone == nil {
				sc.mu.Lock()
				c.in = append(c.in, 0xF0, 0x00)
				sc.cond.Broadcast()
				sc.mu.Unlock()
			}
		case "cancel":
			// the context given to ReconnectClient.Connect is cancelled; a context-aware dialer returns at once
			if !r.cancelled {
				r.cancelled = true
				first := true
				select {
				case <-r.connDone:
					first = false // Connect has returned: the loop no longer depends on this context
				default:
				}
				pending := first && r.dialPending()
				if c := curConn(); first && c != nil && r.awaitingConnack(c) {
					c.cli.VerifSetIDLast(r.idStart[c.k]) // as for every other way a CONNECT attempt ends
					sc.mu.Lock()
					c.answered = true
					sc.mu.Unlock()
				}
				if first && r.started {
					r.cancelAt = time.Now()
				}
				connCancel()
				if pending && !sc.deafDialer {
					r.released++ // that DialContext call has returned ctx.Err() by itself
				}
			}
		case "wait":
			// the back-off timer fires by itself; the plan of this event waits for the dial request
		case "disc":
			// a DialContext in flight is not interrupted by Disconnect: the script says how it ends
			// (dial+ / dial-); if it does not, the gate is released with a failure after the script
			// Disconnect returns when the loop has finished; while the loop is inside Connect (waiting for
			// CONNACK) that takes until the CONNACK gate is resolved, so the script goes on meanwhile
			if r.discDone == nil {
				r.discDone = make(chan error, 1)
				go func() {
					dctx, cancel := context.WithTimeout(ctx, 8*time.Second)
					defer cancel()
					r.discDone <- cli.Disconnect(dctx)
				}()
				// the call has taken effect once the client refuses new requests
				deadline := time.Now().Add(3 * time.Second)
				for time.Now().Before(deadline) && !r.rc.VerifStopped() {
					time.Sleep(100 * time.Microsecond)
				}
				if r.started {
					r.discAt = time.Now()
				}
			}
		}
		// burst mode (`b1`): consecutive application requests are submitted back to back, without waiting until the
		// task goroutine has processed the previous one — several tasks are queued while one is in flight. The
		// queue is FIFO, so the outcome must be the one the model computes for one-at-a-time submission.
		if strings.Contains(cfg, "b1") && i+1 < len(evs) && isAppEv(ev) && isAppEv(evs[i+1]) {
			continue
		}
		if i < len(plan) {
			if plan[i].stuck {
				// the model says the task goroutine is blocked for ever: wait for what can still happen
				want := plan[i]
				want.t, want.r = 0, 0
				r.waitPlan(i, want)
			} else {
				r.waitPlan(i, plan[i])
			}
		}
	}
	// final settle: anything the model did not predict shows up in the trace
	time.Sleep(25 * time.Millisecond)
	if r.cancelled && r.started {
		// Connect returns the context's error (or has returned before the cancellation)
		select {
		case <-r.connDone:
		case <-time.After(3 * time.Second):
			r.planMiss = append(r.planMiss, "cancel:connect-did-not-return")
		}
	}
	if r.discDone != nil {
		if r.dialPending() {
			r.released++
			select {
			case sc.dialCh <- dialResult{ok: false}:
			case <-time.After(2 * time.Second):
			}
		}
		select {
		case err := <-r.discDone:
			if err != nil && errors.Is(err, context.DeadlineExceeded) {
				r.planMiss = append(r.planMiss, "disc:disconnect-did-not-return")
			}
		case <-time.After(9 * time.Second):
			r.planMiss = append(r.planMiss, "disc:disconnect-did-not-return")
		}
	}
	r.frozenConnRet() // before the deferred cancellation of the Connect context
	return r
}

func (r *retryRun) render(stuck bool) string {
	s := r.sc
	st := r.rc.Stats()
	s.mu.Lock()
	defer s.mu.Unlock()
	var conns []string
	for k := range s.conns {
		var pk []string
		for _, e := range s.wire {
			if e.conn != k {
				continue
			}
			if e.pkt.Type == 0x60 {
				m := -1
				for j := len(s.wire) - 1; j >= 0; j-- {
					if w := s.wire[j]; w.seq < e.seq && w.pkt.Type == 0x30 && w.pkt.HasID && w.pkt.ID == e.pkt.ID {
						m = msgIndex(w.pkt)
						break
					}
				}
				pk = append(pk, fmt.Sprintf("R%di%d", m, e.pkt.ID)+e.tag)
				continue
			}
			pk = append(pk, showSPkt(e.pkt)+e.tag)
		}
		conns = append(conns, fmt.Sprintf("c%d[%s]", k, strings.Join(pk, ",")))
	}
	var bs []string
	for f, q := range s.broker.subs {
		bs = append(bs, fmt.Sprintf("%s.%d", hexOrDash([]byte(f)), q))
	}
	sort.Strings(bs)
	var dl []string
	for _, m := range s.broker.delivered {
		dl = append(dl, fmt.Sprint(m))
	}
	qr, qt := fmt.Sprint(st.QueuedRetries), fmt.Sprint(st.QueuedTasks)
	if stuck {
		qr = "0"
	}
	pend := 0
	if s.dialReq > 0 {
		pend = 0
	}
	_ = pend
	return strings.Join(conns, " ") + fmt.Sprintf(" dl=%s bs=%s ak=%s oe=%s hd=%s tt=%d tr=%d qr=%s qt=%s dials=%d ret=%s rej=%d",
		joinOr(dl, ","), joinOr(bs, ","), joinOr(s.broker.acked, ","), r.oeField(), joinOr(s.handled, ","),
		st.TotalTasks, st.TotalRetries, qr, qt, s.dialReq, r.frozenConnRet(), r.rejected)
}

func joinOr(l []string, sep string) string {
	if len(l) == 0 || (len(l) == 1 && l[0] == "") {
		return "-"
	}
	return strings.Join(l, sep)
}

func showSPkt(p *SPkt) string {
	switch p.Type {
	case 0x10:
		return "C"
	case 0x30:
		d := 0
		if p.Dup {
			d = 1
		}
		return fmt.Sprintf("P%dq%di%dd%d", msgIndex(p), p.QoS, p.ID, d)
	case 0x60:
		return fmt.Sprintf("Ri%d", p.ID)
	case 0x80:
		var parts []string
		for i, f := range p.Filters {
			parts = append(parts, fmt.Sprintf("%s.%d", hexOrDash([]byte(f)), p.QoSs[i]))
		}
		return fmt.Sprintf("S%d:%s", p.ID, strings.Join(parts, ";"))
	case 0xa0:
		var parts []string
		for _, f := range p.Filters {
			parts = append(parts, hexOrDash([]byte(f)))
		}
		return fmt.Sprintf("U%d:%s", p.ID, strings.Join(parts, ";"))
	case 0x40:
		return fmt.Sprintf("A%d", p.ID)
	case 0xe0:
		return "X"
	case 0xc0:
		return "G"
	}
	return fmt.Sprintf("?%x", p.Type)
}
