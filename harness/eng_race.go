package main

// Engines for C10 (model-less): concurrent compositions of API callers, inbound traffic and
// reconnects, run in a binary built with -race (the race detector's reports are collected by
// bin/check), over a transport that delivers every Write byte by byte with yields so that two
// unsynchronised writers would interleave; an independent framer must parse the byte stream the
// broker received into whole packets.

import (
	"context"
	"fmt"
	"math/rand"
	"runtime"
	"sync"
	"time"

	mqtt "github.com/at-wat/mqtt-go"
)

// byteTransport: the peer is an auto-answering broker; writes arrive one byte at a time.
type byteTransport struct {
	mu       sync.Mutex
	cond     *sync.Cond
	stream   []byte // everything the client wrote, in arrival order
	parsed   int    // bytes of stream already framed and answered
	in       []byte
	closed   bool
	flood    int // inbound publishes still to push
	floodID  uint16
	pkts     map[string]int
	frameErr string
}

func newByteTransport() *byteTransport {
	t := &byteTransport{pkts: map[string]int{}}
	t.cond = sync.NewCond(&t.mu)
	return t
}

func (t *byteTransport) Read(p []byte) (int, error) {
	t.mu.Lock()
	defer t.mu.Unlock()
	for len(t.in) == 0 && !t.closed {
		t.cond.Wait()
	}
	if len(t.in) == 0 {
		return 0, fmt.Errorf("closed")
	}
	n := copy(p, t.in)
	t.in = t.in[n:]
	return n, nil
}

func (t *byteTransport) Write(p []byte) (int, error) {
	for i := range p {
		t.mu.Lock()
		if t.closed {
			t.mu.Unlock()
			return i, fmt.Errorf("closed")
		}
		t.stream = append(t.stream, p[i])
		t.frameLocked()
		t.mu.Unlock()
		if i%3 == 0 {
			runtime.Gosched()
		}
	}
	return len(p), nil
}

// frameLocked parses complete packets off the stream and answers them like a broker.
func (t *byteTransport) frameLocked() {
	for t.frameErr == "" {
		rest := t.stream[t.parsed:]
		if len(rest) < 2 {
			return
		}
		hl := 0
		for i := 1; i < len(rest) && i <= 4; i++ {
			if rest[i]&0x80 == 0 {
				hl = i + 1
				break
			}
		}
		if hl == 0 {
			if len(rest) > 5 {
				t.frameErr = fmt.Sprintf("unterminated length at offset %d: %x", t.parsed, rest[:6])
			}
			return
		}
		rl, _ := rawVarInt(rest[1:hl])
		if len(rest) < hl+rl {
			return
		}
		pkt, _, err := specDecode(rest[:hl+rl])
		if err != nil {
			t.frameErr = fmt.Sprintf("offset %d: %v: %x", t.parsed, err, rest[:minInt(hl+rl, 24)])
			return
		}
		t.parsed += hl + rl
		t.pkts[fmt.Sprintf("%x", pkt.Type)]++
		switch pkt.Type {
		case 0x10:
			t.in = append(t.in, specConnAck(false, 0)...)
		case 0x30:
			if pkt.QoS == 1 {
				t.in = append(t.in, specAck(0x40, pkt.ID)...)
			} else if pkt.QoS == 2 {
				t.in = append(t.in, specAck(0x50, pkt.ID)...)
			}
			if t.flood > 0 {
				t.flood--
				t.floodID++
				if t.floodID == 0 {
					t.floodID = 1
				}
				t.in = append(t.in, specPublish("in/x", []byte{1, 2, 3}, byte(1+t.flood%2), false, false, t.floodID)...)
			}
		case 0x60:
			t.in = append(t.in, specAck(0x70, pkt.ID)...)
		case 0x50: // client's PUBREC for inbound QoS 2
			t.in = append(t.in, specAck(0x62, pkt.ID)...)
		case 0x80:
			t.in = append(t.in, specSubAck(pkt.ID, pkt.QoSs)...)
		case 0xa0:
			t.in = append(t.in, specAck(0xb0, pkt.ID)...)
		case 0xc0:
			t.in = append(t.in, specPacket(0xd0, nil)...)
		}
		t.cond.Broadcast()
	}
}

func minInt(a, b int) int {
	if a < b {
		return a
	}
	return b
}

func (t *byteTransport) Close() error {
	t.mu.Lock()
	t.closed = true
	t.cond.Broadcast()
	t.mu.Unlock()
	return nil
}

type autoDialer struct {
	mu    sync.Mutex
	conns []*byteTransport
	flood int
}

func (d *autoDialer) DialContext(ctx context.Context) (*mqtt.BaseClient, error) {
	t := newByteTransport()
	t.flood = d.flood
	d.mu.Lock()
	d.conns = append(d.conns, t)
	d.mu.Unlock()
	return &mqtt.BaseClient{Transport: t}, nil
}

func (d *autoDialer) current() *byteTransport {
	d.mu.Lock()
	defer d.mu.Unlock()
	if len(d.conns) == 0 {
		return nil
	}
	return d.conns[len(d.conns)-1]
}

func init() {
	register(&funcEngine{name: "racebase", par: 4,
		gen: func(rng *rand.Rand, tier string, n int, emit func(string)) {
			for i := 0; i < n; i++ {
				emit(fmt.Sprintf("%d %d %d", 2+rng.Intn(14), 10+rng.Intn(30), rng.Intn(1<<30)))
			}
		},
		exec: func(f []string) Result {
			g, k, seed := atoi(f[0]), atoi(f[1]), int64(atoi(f[2]))
			t := newByteTransport()
			t.flood = g * k / 2
			c := &mqtt.BaseClient{Transport: t}
			c.Handle(mqtt.HandlerFunc(func(m *mqtt.Message) { _ = m.Topic }))
			ctx, cancel := context.WithTimeout(context.Background(), 20*time.Second)
			defer cancel()
			if _, err := c.Connect(ctx, "cid"); err != nil {
				return Result{Out: "", Props: []PropResult{viol("C10", "setup", "connect: %v", err)}}
			}
			// the identifier counter wraps within the first few requests of this run
			c.VerifSetIDLast(uint32(0xFFF0 + seed%12))
			var wg sync.WaitGroup
			var mu sync.Mutex
			sent := map[string]int{}
			bigPayload := func(rng *rand.Rand) []byte {
				// now and then a payload of several kilobytes: a writer that does not hold the write
				// lock for the whole packet would be interleaved with the other writers
				if rng.Intn(6) == 0 {
					return randBytes(rng, 4000+rng.Intn(16000))
				}
				return randBytes(rng, rng.Intn(200))
			}
			for i := 0; i < g; i++ {
				wg.Add(1)
				go func(i int) {
					defer wg.Done()
					rng := rand.New(rand.NewSource(seed + int64(i)))
					for j := 0; j < k; j++ {
						var err error
						kind := ""
						ctx := ctx
						if rng.Intn(4) == 0 {
							// a caller that gives up almost at once: its cancellation path runs while the reader goroutine
							// is dispatching acknowledgements for the other callers
							c2, cn := context.WithTimeout(ctx, time.Duration(20+rng.Intn(300))*time.Microsecond)
							defer cn()
							ctx = c2
						}
						switch rng.Intn(9) {
						case 0, 1:
							err = c.Publish(ctx, &mqtt.Message{Topic: fmt.Sprintf("t/%d", i), QoS: mqtt.QoS0, Payload: bigPayload(rng)})
							kind = "30"
						case 2, 3:
							err = c.Publish(ctx, &mqtt.Message{Topic: fmt.Sprintf("t/%d", i), QoS: mqtt.QoS1, Payload: bigPayload(rng)})
							kind = "30"
						case 4:
							err = c.Publish(ctx, &mqtt.Message{Topic: fmt.Sprintf("t/%d", i), QoS: mqtt.QoS2, Payload: randBytes(rng, rng.Intn(50))})
							kind = "30"
						case 5:
							_, err = c.Subscribe(ctx, mqtt.Subscription{Topic: fmt.Sprintf("s/%d/%d", i, j), QoS: mqtt.QoS1})
							kind = "80"
						case 6:
							err = c.Unsubscribe(ctx, fmt.Sprintf("s/%d", i))
							kind = "a0"
						case 7:
							c.Handle(mqtt.HandlerFunc(func(m *mqtt.Message) { _ = m.Payload }))
							_ = c.Stats()
							_ = c.Err()
							_ = c.Done()
						default:
							// Ping uses a single response slot: concurrent pings may starve each other, so one goroutine only
							if i == 0 {
								pctx, pc := context.WithTimeout(ctx, 2*time.Second)
								err = c.Ping(pctx)
								pc()
								kind = "c0"
							}
						}
						if err == nil && kind != "" {
							mu.Lock()
							sent[kind]++
							mu.Unlock()
						}
					}
				}(i)
			}
			wg.Wait()
			time.Sleep(2 * time.Millisecond)
			c.Close()
			<-c.Done()
			r := Result{Out: "", Tags: []string{"nontrivial", fmt.Sprintf("g%d", g/4*4)}}
			t.mu.Lock()
			defer t.mu.Unlock()
			if t.frameErr != "" {
				r.Props = append(r.Props, viol("C10", "packets-interleaved", "the byte stream written by %d concurrent callers is not a concatenation of whole packets: %s", g, t.frameErr))
			}
			for kind, n := range sent {
				if t.pkts[kind] < n {
					r.Props = append(r.Props, viol("C10", "packet-missing", "%d packets of type %s completed but the broker framed %d", n, kind, t.pkts[kind]))
				}
			}
			if t.parsed != len(t.stream) && t.frameErr == "" {
				r.Props = append(r.Props, viol("C10", "trailing-partial-packet", "%d bytes at the end of the stream are not a whole packet", len(t.stream)-t.parsed))
			}
			return r
		}})

	register(&funcEngine{name: "racereconn", par: 4,
		gen: func(rng *rand.Rand, tier string, n int, emit func(string)) {
			for i := 0; i < n; i++ {
				emit(fmt.Sprintf("%d %d %d", 2+rng.Intn(8), 2+rng.Intn(4), rng.Intn(1<<30)))
			}
		},
		exec: func(f []string) Result {
			g, cuts, seed := atoi(f[0]), atoi(f[1]), int64(atoi(f[2]))
			d := &autoDialer{flood: 20}
			rc := &mqtt.RetryClient{ResponseTimeout: 2 * time.Second, OnError: func(error) {}}
			cli, err := mqtt.NewReconnectClient(d, mqtt.WithRetryClient(rc), mqtt.WithReconnectWait(time.Millisecond, 4*time.Millisecond),
				mqtt.WithPingInterval(3*time.Millisecond), mqtt.WithTimeout(2*time.Second))
			if err != nil {
				return Result{Out: ""}
			}
			cli.Handle(mqtt.HandlerFunc(func(m *mqtt.Message) { _ = m.Topic }))
			ctx, cancel := context.WithTimeout(context.Background(), 20*time.Second)
			defer cancel()
			stop := make(chan struct{})
			var wg sync.WaitGroup
			early := seed%2 == 0 // half of the runs start their callers while Connect is still in progress
			connected := make(chan struct{})
			doConnect := func() {
				if _, err := cli.Connect(ctx, "cid", mqtt.WithCleanSession(false)); err != nil {
					panic("connect: " + err.Error())
				}
				close(connected)
			}
			if early {
				go doConnect()
			} else {
				doConnect()
			}
			for i := 0; i < g; i++ {
				wg.Add(1)
				go func(i int) {
					defer wg.Done()
					rng := rand.New(rand.NewSource(seed + int64(i)))
					for j := 0; ; j++ {
						select {
						case <-stop:
							return
						default:
						}
						switch rng.Intn(8) {
						case 0, 1, 2:
							cli.Publish(ctx, &mqtt.Message{Topic: fmt.Sprintf("t/%d", i), QoS: mqtt.QoS(rng.Intn(3)), Payload: randBytes(rng, rng.Intn(64))})
						case 3:
							cli.Subscribe(ctx, mqtt.Subscription{Topic: fmt.Sprintf("s/%d", rng.Intn(4)), QoS: mqtt.QoS1})
						case 4:
							cli.Unsubscribe(ctx, fmt.Sprintf("s/%d", rng.Intn(4)))
						case 5:
							_ = cli.Stats()
							select {
							case <-connected:
							default:
								continue // Client() / Ping need a base client
							}
							if bc := cli.Client(); bc != nil {
								_ = bc.Err()
								_ = bc.Stats()
								_ = bc.Done()
							}
						case 6:
							cli.Handle(mqtt.HandlerFunc(func(m *mqtt.Message) { _ = m.Payload }))
						default:
							select {
							case <-connected:
								pctx, pc := context.WithTimeout(ctx, 50*time.Millisecond)
								cli.Ping(pctx)
								pc()
							default:
							}
						}
						if j%8 == 0 {
							time.Sleep(200 * time.Microsecond)
						}
					}
				}(i)
			}
			<-connected
			for c := 0; c < cuts; c++ {
				time.Sleep(15 * time.Millisecond)
				if t := d.current(); t != nil {
					t.Close()
				}
			}
			time.Sleep(15 * time.Millisecond)
			close(stop)
			wg.Wait()
			dctx, dc := context.WithTimeout(context.Background(), 3*time.Second)
			cli.Disconnect(dctx)
			dc()
			r := Result{Out: "", Tags: []string{"nontrivial", fmt.Sprintf("cuts%d", cuts)}}
			d.mu.Lock()
			defer d.mu.Unlock()
			for k, t := range d.conns {
				t.mu.Lock()
				if t.frameErr != "" {
					r.Props = append(r.Props, viol("C10", "packets-interleaved", "connection %d: the byte stream is not a concatenation of whole packets: %s", k, t.frameErr))
				}
				t.mu.Unlock()
			}
			return r
		}})
}
