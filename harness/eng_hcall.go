package main

// Engine `hcall` (model-less scenarios for C04 / C11 / C17 / C18): what the models treat as atomic or do not
// contain at all — a message handler that calls back into the client from inside its callback, a handler
// that blocks while other calls are made and cancelled, and a transport whose Write blocks (a peer that
// has stopped reading) while the connection has to be closed.
//
//   swap <qos>      the handler replaces itself through Handle from inside its callback; the next message must
//                   reach the new handler and the reader must stay alive (C17, C04)
//   reply <qos>     the handler publishes a QoS 0 reply through the same client from inside its callback (C04, C11)
//   blocked <call>  a handler blocks; meanwhile <call> (ping | pub1 | sub | unsub) is started and its context
//                   cancelled: it must return with the context's error although the reader is busy (C11);
//                   after the handler is released a local Close must end the connection (Done closed)
//   wblock <kind>   the peer stops reading: one Write blocks until the transport is closed; Close() must still
//                   close the transport and Done() must fire (C11); with kind=retry a RetryClient whose request
//                   times out (ResponseTimeout) must close the connection and report the timeout (C18)

import (
	"context"
	"errors"
	"fmt"
	"io"
	"math/rand"
	"strings"
	"sync"
	"time"

	mqtt "github.com/at-wat/mqtt-go"
)

// blockTransport: reads are scripted like recTransport; after `blockAfter` successful writes the next Write
// blocks until Close.
type blockTransport struct {
	*recTransport
	bmu        sync.Mutex
	nWrites    int
	blockAfter int
	blockType  byte // only packets of this type block (0 = any)
	closedCh   chan struct{}
	closeOnce  sync.Once
	blockedNow chan struct{}
	blockOnce  sync.Once
}

func newBlockTransport(blockAfter int, blockType byte) *blockTransport {
	return &blockTransport{recTransport: newRecTransport(), blockAfter: blockAfter, blockType: blockType, closedCh: make(chan struct{}), blockedNow: make(chan struct{})}
}

func (t *blockTransport) Write(p []byte) (int, error) {
	t.bmu.Lock()
	n := t.nWrites
	t.nWrites++
	t.bmu.Unlock()
	if n >= t.blockAfter && (t.blockType == 0 || (len(p) > 0 && p[0]&0xf0 == t.blockType)) {
		t.blockOnce.Do(func() { close(t.blockedNow) })
		<-t.closedCh
		return 0, io.ErrClosedPipe
	}
	return t.recTransport.Write(p)
}

func (t *blockTransport) Close() error {
	t.closeOnce.Do(func() { close(t.closedCh) })
	return t.recTransport.Close()
}

// stallTransport: once armed, the first Write stalls (after half of its bytes) until the gate opens; counts how many
// goroutines are inside Write at once
type stallTransport struct {
	*recTransport
	smu      sync.Mutex
	armed    bool
	inFlight int
	maxSeen  int
	gate     chan struct{}
	stalled  chan struct{}
	once     sync.Once
}

func (t *stallTransport) arm() { t.smu.Lock(); t.armed = true; t.smu.Unlock() }
func (t *stallTransport) maxInFlight() int {
	t.smu.Lock()
	defer t.smu.Unlock()
	return t.maxSeen
}

func (t *stallTransport) Write(p []byte) (int, error) {
	t.smu.Lock()
	t.inFlight++
	if t.inFlight > t.maxSeen {
		t.maxSeen = t.inFlight
	}
	stall := t.armed
	t.armed = false
	t.smu.Unlock()
	defer func() { t.smu.Lock(); t.inFlight--; t.smu.Unlock() }()
	if stall {
		t.once.Do(func() { close(t.stalled) })
		<-t.gate
	}
	return t.recTransport.Write(p)
}

func waitCh(ch <-chan struct{}, d time.Duration) bool {
	if ch == nil {
		return false
	}
	select {
	case <-ch:
		return true
	case <-time.After(d):
		return false
	}
}

func init() {
	register(&funcEngine{name: "hcall", par: 8,
		gen: func(rng *rand.Rand, tier string, n int, emit func(string)) {
			for _, q := range []string{"0", "1", "2"} {
				emit("swap " + q)
				emit("reply " + q)
			}
			for _, c := range []string{"ping", "pub1", "sub", "unsub"} {
				emit("blocked " + c)
			}
			// Handle between an inbound QoS 2 PUBLISH and its PUBREL: the message is handed over at PUBREL time, to the handler
			// registered THEN (base client directly, and through RetryClient.Handle; with and without a handler at PUBLISH time)
			for _, v := range []string{"base first", "base none", "retry first", "retry none"} {
				emit("q2swap " + v)
			}
			emit("rccancel active")
			emit("wlate pubrel")
			emit("wblock close")
			emit("wblock retry")
			emit("wstall pub")
			emit("wstall giveup")
		},
		exec: func(f []string) Result {
			r := Result{Out: "", Tags: []string{"nontrivial", f[0] + "/" + f[1]}}
			bad := func(prop, key, format string, a ...interface{}) {
				r.Props = append(r.Props, viol(prop, key, "%s %s: %s", f[0], f[1], fmt.Sprintf(format, a...)))
			}
			switch f[0] {
			case "q2swap":
				tr := newRecTransport()
				c := &mqtt.BaseClient{Transport: tr}
				var mu sync.Mutex
				var got []string
				mk := func(name string) mqtt.Handler {
					return mqtt.HandlerFunc(func(m *mqtt.Message) {
						mu.Lock()
						got = append(got, name+":"+m.Topic)
						mu.Unlock()
					})
				}
				var rc *mqtt.RetryClient
				handle := func(h mqtt.Handler) { c.Handle(h) }
				if f[1] == "retry" {
					rc = &mqtt.RetryClient{}
					handle = func(h mqtt.Handler) { rc.Handle(h) }
				}
				if f[2] == "first" {
					handle(mk("first"))
				}
				if rc != nil {
					rc.SetClient(context.Background(), c)
					fed := false
					tr.mu.Lock()
					tr.onWrite = func(p []byte) {
						tr.mu.Lock()
						first := !fed && len(p) > 0 && p[0] == 0x10
						if first {
							fed = true
						}
						tr.mu.Unlock()
						if first {
							tr.feed(specConnAck(false, 0))
						}
					}
					tr.mu.Unlock()
					cctx, ccancel := context.WithTimeout(context.Background(), 2*time.Second)
					_, err := rc.Connect(cctx, "cid")
					ccancel()
					if err != nil {
						bad("C04", "setup", "connect: %v", err)
						return r
					}
					tr.mu.Lock()
					tr.onWrite = nil
					tr.out, tr.writes = nil, nil
					tr.mu.Unlock()
				} else if _, err := connectRec(c, tr); err != nil {
					bad("C04", "setup", "connect: %v", err)
					return r
				}
				waitWrites := func(n int) bool {
					deadline := time.Now().Add(2 * time.Second)
					for len(tr.writeList()) < n {
						if time.Now().After(deadline) {
							return false
						}
						time.Sleep(100 * time.Microsecond)
					}
					return true
				}
				tr.feed(specPublish("held", []byte{9}, 2, false, false, 21))
				if !waitWrites(1) {
					bad("C04", "qos2-no-pubrec", "no PUBREC for an inbound QoS 2 PUBLISH")
					tr.Close()
					return r
				}
				mu.Lock()
				early := len(got)
				mu.Unlock()
				if early > 0 {
					bad("C04", "qos2-handed-over-before-pubrel", "the QoS 2 message reached a handler before PUBREL: %v", got)
				}
				handle(mk("second"))
				tr.feed(specAck(0x62, 21))
				if !waitWrites(2) {
					bad("C04", "qos2-no-pubcomp", "no PUBCOMP for PUBREL")
				}
				time.Sleep(2 * time.Millisecond)
				mu.Lock()
				g := append([]string{}, got...)
				mu.Unlock()
				if len(g) != 1 || g[0] != "second:held" {
					bad("C17", "handler-not-current-at-release", "Handle(second) returned before the PUBREL arrived, yet the released QoS 2 message went to %v (expected exactly [second:held])", g)
					bad("C04", "qos2-release-handler", "a QoS 2 message released by PUBREL after Handle(second) was handed to %v", g)
				}
				tr.Close()
				return r
			case "swap", "reply":
				qos := byte(atoi(f[1]))
				tr := newRecTransport()
				c := &mqtt.BaseClient{Transport: tr}
				var mu sync.Mutex
				var got []string
				second := mqtt.HandlerFunc(func(m *mqtt.Message) {
					mu.Lock()
					got = append(got, "second:"+m.Topic)
					mu.Unlock()
				})
				returned := make(chan struct{}, 4)
				first := mqtt.HandlerFunc(func(m *mqtt.Message) {
					mu.Lock()
					got = append(got, "first:"+m.Topic)
					mu.Unlock()
					if f[0] == "swap" {
						c.Handle(second) // a one-shot bootstrap handler installing the steady-state one
					} else {
						ctx, cancel := context.WithTimeout(context.Background(), 2*time.Second)
						c.Publish(ctx, &mqtt.Message{Topic: "reply", QoS: mqtt.QoS0, Payload: []byte{1}})
						cancel()
					}
					returned <- struct{}{}
				})
				c.Handle(first)
				if _, err := connectRec(c, tr); err != nil {
					bad("C04", "setup", "connect: %v", err)
					return r
				}
				feedMsg := func(topic string, id uint16) {
					tr.feed(specPublish(topic, []byte{7}, qos, false, false, id))
					if qos == 2 {
						// PUBREC is written first, then PUBREL releases the message to the handler
						deadline := time.Now().Add(2 * time.Second)
						for len(tr.writeList()) == 0 && time.Now().Before(deadline) {
							time.Sleep(100 * time.Microsecond)
						}
						tr.feed(specAck(0x62, id))
					}
				}
				feedMsg("m1", 11)
				select {
				case <-returned:
				case <-time.After(3 * time.Second):
					bad("C04", "handler-callback-deadlock", "the handler did not return from calling %s on its own client (reader goroutine deadlocked)", map[string]string{"swap": "Handle", "reply": "Publish(QoS 0)"}[f[0]])
					bad("C11", "reader-stuck-in-handler", "the reader goroutine is stuck inside a handler that only called back into the client")
					if f[0] == "swap" {
						bad("C17", "handler-replaced-from-handler", "Handle called from inside the current handler never returned: the new handler is never used, on this or any later connection")
					}
					tr.Close()
					return r
				}
				tr.mu.Lock()
				tr.out, tr.writes = nil, nil
				tr.mu.Unlock()
				feedMsg("m2", 12)
				deadline := time.Now().Add(3 * time.Second)
				for time.Now().Before(deadline) {
					mu.Lock()
					n := len(got)
					mu.Unlock()
					if n >= 2 {
						break
					}
					time.Sleep(200 * time.Microsecond)
				}
				mu.Lock()
				g := append([]string{}, got...)
				mu.Unlock()
				want := []string{"first:m1", "second:m2"}
				if f[0] == "reply" {
					want = []string{"first:m1", "first:m2"}
				}
				if fmt.Sprint(g) != fmt.Sprint(want) {
					bad("C04", "handover-after-handler-callback", "hand-overs %v, expected %v", g, want)
					if f[0] == "swap" {
						bad("C17", "handler-replaced-from-handler", "after Handle(second) from inside the first handler the hand-overs were %v, expected %v", g, want)
					}
				}
				c.Close()
				if !waitCh(c.Done(), 3*time.Second) {
					bad("C11", "done-not-closed", "Done() not closed after Close()")
				}
			case "blocked":
				tr := newRecTransport()
				c := &mqtt.BaseClient{Transport: tr}
				release := make(chan struct{})
				entered := make(chan struct{}, 1)
				c.Handle(mqtt.HandlerFunc(func(m *mqtt.Message) {
					entered <- struct{}{}
					<-release
				}))
				if _, err := connectRec(c, tr); err != nil {
					bad("C11", "setup", "connect: %v", err)
					return r
				}
				tr.feed(specPublish("slow", []byte{1}, 0, false, false, 0))
				select {
				case <-entered:
				case <-time.After(3 * time.Second):
					bad("C04", "setup", "handler was not called")
					return r
				}
				ctx, cancel := context.WithCancel(context.Background())
				errCh := make(chan error, 1)
				go func() {
					switch f[1] {
					case "ping":
						errCh <- c.Ping(ctx)
					case "pub1":
						errCh <- c.Publish(ctx, &mqtt.Message{Topic: "t", QoS: mqtt.QoS1, Payload: []byte{1}})
					case "sub":
						_, err := c.Subscribe(ctx, mqtt.Subscription{Topic: "t", QoS: mqtt.QoS1})
						errCh <- err
					default:
						errCh <- c.Unsubscribe(ctx, "t")
					}
				}()
				// the request is written although the reader is busy in the handler …
				deadline := time.Now().Add(2 * time.Second)
				for len(tr.writeList()) == 0 && time.Now().Before(deadline) {
					time.Sleep(100 * time.Microsecond)
				}
				if len(tr.writeList()) == 0 {
					bad("C11", "call-blocked-by-handler", "%s did not even write its request while a message handler was running", f[1])
				}
				// … and it returns as soon as its context is cancelled
				cancel()
				select {
				case err := <-errCh:
					if !errors.Is(err, context.Canceled) {
						bad("C11", "cancel-wrong-error", "%s returned %v on cancellation while a handler was running", f[1], err)
					}
				case <-time.After(3 * time.Second):
					bad("C11", "cancel-not-honoured", "%s did not return when its context was cancelled while a message handler was running", f[1])
				}
				close(release)
				c.Close()
				if !waitCh(c.Done(), 3*time.Second) {
					bad("C11", "done-not-closed", "Done() not closed after the handler was released and the transport closed")
				}
			case "wstall":
				// a Write that stalls in the middle of a PUBLISH while the publisher's context expires; another caller
				// (Ping) must not get into Transport.Write before the stalled write has returned (C10: the lock covers
				// the whole packet, whatever happens to the caller's context)
				base := newRecTransport()
				st := &stallTransport{recTransport: base, gate: make(chan struct{}), stalled: make(chan struct{})}
				c := &mqtt.BaseClient{Transport: st}
				errCh := make(chan error, 1)
				go func() { _, err := c.Connect(context.Background(), "cid"); errCh <- err }()
				deadline := time.Now().Add(2 * time.Second)
				for len(base.writeList()) == 0 && time.Now().Before(deadline) {
					time.Sleep(100 * time.Microsecond)
				}
				base.feed(specConnAck(false, 0))
				if err := <-errCh; err != nil {
					bad("C10", "setup", "connect: %v", err)
					return r
				}
				st.arm()
				pctx, pc := context.WithTimeout(context.Background(), 40*time.Millisecond)
				defer pc()
				pubDone := make(chan error, 1)
				go func() {
					pubDone <- c.Publish(pctx, &mqtt.Message{Topic: "stalled", QoS: mqtt.QoS1, Payload: make([]byte, 3000)})
				}()
				if !waitCh(st.stalled, 3*time.Second) {
					bad("C10", "setup", "the PUBLISH write did not start")
					return r
				}
				time.Sleep(80 * time.Millisecond) // the publisher's context has expired; its Write is still in progress
				if f[1] == "giveup" {
					// a second caller waits for the write lock and gives up (its context ends) while the first write is still
					// stalled: whatever it does on its way out must not let a third caller into Transport.Write
					gctx, gc := context.WithTimeout(context.Background(), 20*time.Millisecond)
					gaveUp := make(chan struct{})
					go func() { c.Ping(gctx); close(gaveUp) }()
					waitCh(gaveUp, 300*time.Millisecond) // unchanged code: still waiting for the lock (a plain mutex), which is fine too
					gc()
				}
				pingDone := make(chan error, 1)
				go func() {
					qctx, qc := context.WithTimeout(context.Background(), 2*time.Second)
					defer qc()
					pingDone <- c.Ping(qctx)
				}()
				time.Sleep(30 * time.Millisecond)
				if n := st.maxInFlight(); n > 1 {
					bad("C10", "concurrent-transport-write", "%d goroutines were inside Transport.Write at the same time: a second packet was started while a stalled write of the first was still in progress", n)
				}
				close(st.gate)
				select {
				case <-pubDone:
				case <-time.After(3 * time.Second):
					bad("C10", "stalled-writer-never-returned", "the Publish whose Write had stalled did not return within 3 s after the transport accepted its packet (it cannot get out of the write lock)")
					bad("C11", "call-never-returned", "Publish did not return although its context expired and its Write finished")
				}
				base.feed(specPacket(0xd0, nil))
				select {
				case <-pingDone:
				case <-time.After(3 * time.Second):
				}
				if n := st.maxInFlight(); n > 1 {
					bad("C10", "concurrent-transport-write", "%d goroutines were inside Transport.Write at the same time", n)
				}
				base.Close()
			case "rccancel":
				// the context given to ReconnectClient.Connect ends at the very moment the CONNACK has been accepted (cancelled from
				// the ConnState callback reporting Active): whatever Connect returns, the connection loop must go on watching the
				// connection, and a later Disconnect must complete (C11; C09: the loop survives)
				tr := newRecTransport()
				fed := false
				tr.onWrite = func(p []byte) {
					tr.mu.Lock()
					first := !fed && len(p) > 0 && p[0] == 0x10
					if first {
						fed = true
					}
					tr.mu.Unlock()
					if first {
						tr.feed(specConnAck(false, 0))
					}
				}
				cctx, ccancel := context.WithCancel(context.Background())
				defer ccancel()
				dials := 0
				var dmu sync.Mutex
				dialer := mqtt.DialerFunc(func(ctx context.Context) (*mqtt.BaseClient, error) {
					dmu.Lock()
					dials++
					n := dials
					dmu.Unlock()
					if n > 1 {
						<-ctx.Done()
						return nil, ctx.Err()
					}
					return &mqtt.BaseClient{Transport: tr, ConnState: func(s mqtt.ConnState, err error) {
						if s == mqtt.StateActive {
							ccancel()
						}
					}}, nil
				})
				cli, err := mqtt.NewReconnectClient(dialer, mqtt.WithReconnectWait(time.Millisecond, 2*time.Millisecond))
				if err != nil {
					bad("C09", "setup", "NewReconnectClient: %v", err)
					return r
				}
				connRet := make(chan error, 1)
				go func() { _, err := cli.Connect(cctx, "cid"); connRet <- err }()
				select {
				case <-connRet: // nil or the context's error: both are acceptable at this instant
				case <-time.After(3 * time.Second):
					bad("C11", "call-never-returned", "ReconnectClient.Connect did not return although its context was cancelled")
				}
				time.Sleep(5 * time.Millisecond)
				dctx, dcancel := context.WithTimeout(context.Background(), 1500*time.Millisecond)
				derr := make(chan error, 1)
				go func() { derr <- cli.Disconnect(dctx) }()
				select {
				case e := <-derr:
					if e != nil {
						bad("C11", "disconnect-did-not-return", "Disconnect after a Connect whose context ended as the CONNACK was accepted returned %v (the connection loop no longer reacts)", e)
					}
				case <-time.After(3 * time.Second):
					bad("C11", "call-never-returned", "Disconnect did not return")
				}
				dcancel()
				tr.Close()
			case "wlate":
				// a Transport.Write that looks at its argument late (a slow link): while the PUBREL of an outbound QoS 2 publish
				// is inside Write, an inbound QoS 1 PUBLISH has to be acknowledged. Every packet must reach the wire as it was
				// built: PUBREL with the publish's identifier, then exactly one PUBACK with the inbound identifier (C04, C10)
				base := newRecTransport()
				st := &stallTransport{recTransport: base, gate: make(chan struct{}), stalled: make(chan struct{})}
				c := &mqtt.BaseClient{Transport: st}
				c.Handle(mqtt.HandlerFunc(func(*mqtt.Message) {}))
				errCh := make(chan error, 1)
				go func() { _, err := c.Connect(context.Background(), "cid"); errCh <- err }()
				waitN := func(n int) bool {
					deadline := time.Now().Add(2 * time.Second)
					for len(base.writeList()) < n {
						if time.Now().After(deadline) {
							return false
						}
						time.Sleep(100 * time.Microsecond)
					}
					return true
				}
				if !waitN(1) {
					bad("C10", "setup", "no CONNECT")
					return r
				}
				base.feed(specConnAck(false, 0))
				if err := <-errCh; err != nil {
					bad("C10", "setup", "connect: %v", err)
					return r
				}
				pubDone := make(chan error, 1)
				go func() {
					pctx, pc := context.WithTimeout(context.Background(), 3*time.Second)
					defer pc()
					pubDone <- c.Publish(pctx, &mqtt.Message{Topic: "out", QoS: mqtt.QoS2, Payload: []byte{1}})
				}()
				if !waitN(2) {
					bad("C10", "setup", "no PUBLISH")
					return r
				}
				pub, _, err := specDecode(base.writeList()[1])
				if err != nil {
					bad("C05", "setup", "PUBLISH does not decode: %v", err)
					return r
				}
				st.arm()
				base.feed(specAck(0x50, pub.ID))
				if !waitCh(st.stalled, 3*time.Second) {
					bad("C10", "setup", "the PUBREL write did not start")
					return r
				}
				base.feed(specPublish("in", []byte{2}, 1, false, false, 7))
				time.Sleep(3 * time.Millisecond) // the reader has built its PUBACK and waits for the write lock
				close(st.gate)
				if !waitN(4) {
					bad("C04", "inbound-not-acknowledged", "no PUBACK for the inbound QoS 1 PUBLISH after the stalled PUBREL write finished (writes: %d)", len(base.writeList()))
				}
				base.feed(specAck(0x70, pub.ID))
				select {
				case <-pubDone:
				case <-time.After(3 * time.Second):
				}
				var seen []string
				for _, w := range base.writeList()[2:] {
					if p, _, err := specDecode(w); err == nil {
						seen = append(seen, fmt.Sprintf("%x:%d", p.Type, p.ID))
					} else {
						seen = append(seen, "undecodable")
					}
				}
				want := []string{fmt.Sprintf("60:%d", pub.ID), "40:7"}
				if strings.Join(seen, ",") != strings.Join(want, ",") {
					bad("C04", "ack-packets-corrupted", "PUBREL %d stalled inside Transport.Write while an inbound QoS 1 PUBLISH (id 7) was acknowledged: the wire shows %v, expected %v (exactly one PUBACK with the inbound identifier, the PUBREL intact)", pub.ID, seen, want)
					bad("C10", "packet-changed-during-write", "a packet changed while it was inside Transport.Write: wire %v, expected %v", seen, want)
				}
				base.Close()
			case "wblock":
				if f[1] == "close" {
					// an inbound QoS 1 message whose PUBACK write blocks (peer stopped reading); Close() from the application
					tr := newBlockTransport(1, 0x40)
					c := &mqtt.BaseClient{Transport: tr}
					if err := connectBlock(c, tr); err != nil {
						bad("C11", "setup", "connect: %v", err)
						return r
					}
					tr.feed(specPublish("in", []byte{1}, 1, false, false, 9))
					if !waitCh(tr.blockedNow, 3*time.Second) {
						bad("C11", "setup", "the PUBACK write did not happen")
						return r
					}
					closed := make(chan struct{})
					go func() { c.Close(); close(closed) }()
					if !waitCh(closed, 3*time.Second) {
						bad("C11", "close-blocked-by-writer", "Close() did not return while another goroutine was blocked in Transport.Write")
						tr.Close()
					}
					if !waitCh(c.Done(), 3*time.Second) {
						bad("C11", "done-not-closed", "Done() not closed after Close() with a blocked writer")
					}
					return r
				}
				// RetryClient with ResponseTimeout: the PUBLISH is written, its PUBACK never comes, an inbound QoS 1
				// message makes the reader block in the PUBACK write; the timeout must close the connection
				tr := newBlockTransport(2, 0x40)
				c := &mqtt.BaseClient{Transport: tr}
				var mu sync.Mutex
				var errs []error
				rc := &mqtt.RetryClient{ResponseTimeout: 150 * time.Millisecond, OnError: func(err error) {
					mu.Lock()
					errs = append(errs, err)
					mu.Unlock()
				}}
				rc.SetClient(context.Background(), c)
				connErr := make(chan error, 1)
				go func() {
					_, err := rc.Connect(context.Background(), "cid")
					connErr <- err
				}()
				deadline := time.Now().Add(2 * time.Second)
				for len(tr.writeList()) == 0 && time.Now().Before(deadline) {
					time.Sleep(100 * time.Microsecond)
				}
				tr.feed(specConnAck(false, 0))
				if err := <-connErr; err != nil {
					bad("C18", "setup", "connect: %v", err)
					return r
				}
				if err := rc.Publish(context.Background(), &mqtt.Message{Topic: "t", QoS: mqtt.QoS1, Payload: []byte{1}}); err != nil {
					bad("C18", "setup", "publish: %v", err)
					return r
				}
				deadline = time.Now().Add(2 * time.Second)
				for len(tr.writeList()) < 2 && time.Now().Before(deadline) {
					time.Sleep(100 * time.Microsecond)
				}
				tr.feed(specPublish("in", []byte{1}, 1, false, false, 9)) // its PUBACK write blocks
				if !waitCh(tr.blockedNow, 3*time.Second) {
					bad("C18", "setup", "the PUBACK write did not happen")
					return r
				}
				if !waitCh(c.Done(), 3*time.Second) {
					bad("C18", "not-closed-after-timeout", "the connection was not closed after the response timeout while another write was blocked in the transport")
					tr.Close()
				}
				mu.Lock()
				var rte *mqtt.RequestTimeoutError
				seen := false
				for _, e := range errs {
					if errors.As(e, &rte) {
						seen = true
					}
				}
				mu.Unlock()
				if !seen {
					bad("C18", "no-timeout-error", "no RequestTimeoutError was reported for the unanswered request")
				}
			}
			return r
		}})
}

func connectBlock(c *mqtt.BaseClient, tr *blockTransport) error {
	errCh := make(chan error, 1)
	go func() {
		_, err := c.Connect(context.Background(), "cid")
		errCh <- err
	}()
	deadline := time.Now().Add(2 * time.Second)
	for len(tr.writeList()) == 0 && time.Now().Before(deadline) {
		time.Sleep(100 * time.Microsecond)
	}
	tr.feed(specConnAck(false, 0))
	select {
	case err := <-errCh:
		return err
	case <-time.After(3 * time.Second):
		return errors.New("connect did not return")
	}
}
