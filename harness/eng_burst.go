package main

// Engine `burst` (model-less, C03 / C01): the retry model makes one task one atomic step and lets the
// application act only between tasks; that is sound for the unchanged code because the task queue is FIFO
// and a request does nothing but enter it. This stream probes exactly that assumption on the real code: one
// goroutine submits QoS 1 publishes at its own pace (sub-millisecond pauses) while an automatic environment
// answers dials and CONNECTs at once and a fault plan cuts the connection every few requests, so that
// requests are submitted while others are in flight, queued, being retransmitted or waiting for a reconnect.
// Afterwards: first transmissions in submission order (C03), per-connection order (C03), nothing lost (C01).

import (
	"context"
	"fmt"
	"math/rand"
	"strings"
	"sync"
	"time"

	mqtt "github.com/at-wat/mqtt-go"
)

func init() {
	register(&funcEngine{name: "burst", par: 8,
		gen: func(rng *rand.Rand, tier string, n int, emit func(string)) {
			emit("1 120 7")
			emit("2 200 4")
			emit("3 60 2")
			for i := 0; i < n; i++ {
				emit(fmt.Sprintf("%d %d %d", rng.Intn(1<<30), 40+rng.Intn(200), 2+rng.Intn(12)))
			}
		},
		exec: func(f []string) Result {
			seed, n, every := int64(atoi(f[0])), atoi(f[1]), atoi(f[2])
			rng := rand.New(rand.NewSource(seed))
			r := Result{Out: "", Tags: []string{"nontrivial", fmt.Sprintf("n%d", n/50*50)}}
			sc := &scenario{broker: newRBroker("P"), dialCh: make(chan dialResult), cur: -1, msgConn: map[int]int{}, endAt: map[int]time.Time{}}
			sc.cond = sync.NewCond(&sc.mu)
			// fault plan over request packets: a cut roughly every `every` requests
			for i := 0; i < 4*n; i++ {
				if i > 0 && rng.Intn(every) == 0 {
					sc.faults = append(sc.faults, []string{"la", "lr", "wf"}[rng.Intn(3)])
				} else {
					sc.faults = append(sc.faults, "ok")
				}
			}
			rc := &mqtt.RetryClient{OnError: func(error) {}}
			cli, err := mqtt.NewReconnectClient(&sDialer{sc: sc}, mqtt.WithRetryClient(rc), mqtt.WithReconnectWait(500*time.Microsecond, 2*time.Millisecond))
			if err != nil {
				return r
			}
			stop := make(chan struct{})
			var wg sync.WaitGroup
			wg.Add(1)
			go func() { // the environment: dials succeed, CONNECT is accepted with the session kept
				defer wg.Done()
				released := 0
				answered := map[int]bool{}
				for {
					select {
					case <-stop:
						return
					default:
					}
					sc.mu.Lock()
					pending := sc.dialReq > released
					var toAck *sConn
					for _, c := range sc.conns {
						if answered[c.k] || c.closed {
							continue
						}
						for _, e := range sc.wire {
							if e.conn == c.k && e.pkt.Type == 0x10 {
								toAck = c
							}
						}
					}
					if toAck != nil {
						answered[toAck.k] = true
						toAck.accepted, toAck.sessionPresent, toAck.answered, toAck.ackAt = true, true, true, time.Now()
						sc.cur = toAck.k
						toAck.in = append(toAck.in, specConnAck(len(sc.conns) > 1, 0)...)
						sc.cond.Broadcast()
					}
					sc.mu.Unlock()
					if pending {
						select {
						case sc.dialCh <- dialResult{ok: true}:
							released++
						case <-time.After(time.Millisecond):
						}
						continue
					}
					if toAck == nil {
						time.Sleep(50 * time.Microsecond)
					}
				}
			}()
			ctx, cancel := context.WithTimeout(context.Background(), 20*time.Second)
			defer cancel()
			if _, err := cli.Connect(ctx, "cid", mqtt.WithCleanSession(false)); err != nil {
				close(stop)
				wg.Wait()
				r.Props = append(r.Props, viol("C09", "setup", "connect: %v", err))
				return r
			}
			for m := 1; m <= n; m++ {
				if err := cli.Publish(ctx, &mqtt.Message{Topic: "t/b", Payload: []byte{byte(m >> 8), byte(m), 0xAB}, QoS: mqtt.QoS1}); err != nil {
					r.Props = append(r.Props, viol("C01", "burst-rejected", "Publish %d returned %v", m, err))
				}
				if d := rng.Intn(8); d > 0 {
					time.Sleep(time.Duration(d*40) * time.Microsecond)
				}
			}
			// everything must be acknowledged within a generous bound (the environment is friendly: only the planned cuts)
			deadline := time.Now().Add(15 * time.Second)
			for time.Now().Before(deadline) {
				sc.mu.Lock()
				done := len(sc.broker.acked) >= n
				sc.mu.Unlock()
				if done {
					break
				}
				time.Sleep(500 * time.Microsecond)
			}
			close(stop)
			wg.Wait()
			sc.mu.Lock()
			defer sc.mu.Unlock()
			acked := map[string]bool{}
			for _, a := range sc.broker.acked {
				acked[a] = true
			}
			var lost []string
			for m := 1; m <= n; m++ {
				if !acked[fmt.Sprintf("p%dq1", m)] {
					lost = append(lost, fmt.Sprint(m))
				}
			}
			if len(lost) > 0 {
				r.Props = append(r.Props, viol("C01", "burst-lost", "%d of %d accepted QoS 1 publishes were never acknowledged although the broker stayed reachable (first: %s); connections %d", len(lost), n, lost[0], len(sc.conns)))
			}
			// first transmissions in submission order; on every connection non-decreasing
			seen := map[int]bool{}
			last := 0
			lastOn := map[int]int{}
			for _, e := range sc.wire {
				if e.pkt.Type != 0x30 {
					continue
				}
				m := msgIndex(e.pkt)
				if m < lastOn[e.conn] {
					r.Props = append(r.Props, viol("C03", "burst-connection-order", "connection %d carries message %d after message %d (%d messages, cut every ~%d requests, seed %d)", e.conn, m, lastOn[e.conn], n, every, seed))
					break
				}
				lastOn[e.conn] = m
				if !seen[m] {
					seen[m] = true
					if m < last {
						r.Props = append(r.Props, viol("C03", "burst-first-transmission-order", "message %d was transmitted for the first time after message %d (%d messages, cut every ~%d requests, seed %d)", m, last, n, every, seed))
						break
					}
					last = m
				}
			}
			r.Tags = append(r.Tags, fmt.Sprintf("conns%d", len(sc.conns)/5*5), "faults:"+strings.Join(uniqStrings(sc.used), ","))
			return r
		}})
}

func uniqStrings(l []string) []string {
	seen := map[string]bool{}
	var out []string
	for _, x := range l {
		if !seen[x] {
			seen[x] = true
			out = append(out, x)
		}
	}
	return out
}
