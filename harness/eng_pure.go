package main

// Engines for C14 (topic filters, ServeMux), C15 (packet identifiers), C08 (established
// subscription bookkeeping).

import (
	"fmt"
	"math/rand"
	"sort"
	"strings"
	"sync"

	mqtt "github.com/at-wat/mqtt-go"
)

// ---- independent reading of MQTT 3.1.1 §4.7 ------------------------------------

func specLevels(s string) []string {
	var out []string
	cur := ""
	for i := 0; i < len(s); i++ {
		if s[i] == '/' {
			out = append(out, cur)
			cur = ""
		} else {
			cur += string(s[i])
		}
	}
	return append(out, cur)
}

func specValidFilter(s string) bool {
	if s == "" {
		return false
	}
	lv := specLevels(s)
	for i, l := range lv {
		if strings.Contains(l, "+") && l != "+" {
			return false
		}
		if strings.Contains(l, "#") && (l != "#" || i != len(lv)-1) {
			return false
		}
	}
	return true
}

func specMatch(f, t []string) bool {
	if len(f) == 0 {
		return len(t) == 0
	}
	if f[0] == "#" {
		return true // valid filters have '#' only last: matches parent and all descendants
	}
	if len(t) == 0 {
		return false
	}
	if f[0] == "+" || f[0] == t[0] {
		return specMatch(f[1:], t[1:])
	}
	return false
}

func allStrings(alpha string, maxLen int) []string {
	out := []string{""}
	prev := []string{""}
	for l := 1; l <= maxLen; l++ {
		var cur []string
		for _, p := range prev {
			for i := 0; i < len(alpha); i++ {
				cur = append(cur, p+string(alpha[i]))
			}
		}
		out = append(out, cur...)
		prev = cur
	}
	return out
}

func randFilterString(rng *rand.Rand) string {
	parts := []string{"a", "b", "+", "#", "", "a+", "#b", "é", "sensor", "$SYS"}
	n := 1 + rng.Intn(5)
	var ls []string
	for i := 0; i < n; i++ {
		ls = append(ls, parts[rng.Intn(len(parts))])
	}
	return strings.Join(ls, "/")
}

func randTopicString(rng *rand.Rand) string {
	parts := []string{"a", "b", "", "é", "sensor", "c", "$d", "$", "d$"}
	n := 1 + rng.Intn(5)
	var ls []string
	for i := 0; i < n; i++ {
		ls = append(ls, parts[rng.Intn(len(parts))])
	}
	return strings.Join(ls, "/")
}

func intsStr(xs []int) string {
	if len(xs) == 0 {
		return "-"
	}
	var ss []string
	for _, x := range xs {
		ss = append(ss, fmt.Sprint(x))
	}
	return strings.Join(ss, ",")
}

func init() {
	register(&funcEngine{name: "filter",
		gen: func(rng *rand.Rand, tier string, n int, emit func(string)) {
			maxLen := 4
			if tier == "thorough" {
				maxLen = 6
			}
			for _, s := range allStrings("ab+#/", maxLen) {
				emit(descBytes([]byte(s)))
			}
			for i := 0; i < n; i++ {
				emit(descBytes([]byte(randFilterString(rng))))
			}
		},
		exec: func(f []string) Result {
			s := string(mustDesc(f[0]))
			lv, err := mqtt.VerifNewTopicFilter(s)
			r := Result{Tags: []string{"nontrivial", errClass(err)}}
			if err != nil {
				r.Out = errClass(err)
			} else {
				var hs []string
				for _, l := range lv {
					hs = append(hs, hexOrDash([]byte(l)))
				}
				r.Out = "ok " + strings.Join(hs, ",")
			}
			if (err == nil) != specValidFilter(s) {
				r.Props = append(r.Props, viol("C14", "validate", "filter %q accepted=%v but valid=%v", s, err == nil, specValidFilter(s)))
			}
			return r
		}})

	register(&funcEngine{name: "match",
		gen: func(rng *rand.Rand, tier string, n int, emit func(string)) {
			fl, tl := 3, 3
			if tier == "thorough" {
				fl, tl = 4, 4
			}
			topics := allStrings("ab/", tl)
			for _, f := range allStrings("ab+#/", fl) {
				if !specValidFilter(f) {
					continue
				}
				for _, t := range topics {
					emit(descBytes([]byte(f)) + " " + descBytes([]byte(t)))
				}
			}
			// `$` inside a topic (only a leading `$` of the whole topic is special, §4.7.2), against wildcards at that level
			for _, t := range []string{"price/$usd", "a/$", "a/$b/c", "a/b$", "a/b/$SYS", "x/$/y"} {
				for _, f := range []string{"price/+", "a/+", "a/+/c", "a/#", "#", "+/+", "+/$b/c", "a/$b/#", "x/+/y", "+/#", "a/b/+"} {
					emit(descBytes([]byte(f)) + " " + descBytes([]byte(t)))
				}
			}
			// deep topics: every depth 1..12, with the literal filter, + at every level, # after every prefix,
			// and filters one level shorter / longer
			for d := 1; d <= 12; d++ {
				var lv []string
				for j := 0; j < d; j++ {
					lv = append(lv, string(rune('a'+j)))
				}
				topic := strings.Join(lv, "/")
				em := func(f string) { emit(descBytes([]byte(f)) + " " + descBytes([]byte(topic))) }
				em(topic)
				em(topic + "/#")
				em(topic + "/+")
				em(topic + "/z")
				for j := 0; j < d; j++ {
					c := append([]string{}, lv...)
					c[j] = "+"
					em(strings.Join(c, "/"))
					em(strings.Join(append(append([]string{}, lv[:j]...), "#"), "/"))
					if j > 0 {
						em(strings.Join(lv[:j], "/"))
						em(strings.Join(lv[:j], "/") + "/+")
					}
				}
			}
			for i := 0; i < n; i++ {
				emit(descBytes([]byte(randFilterString(rng))) + " " + descBytes([]byte(randTopicString(rng))))
			}
		},
		exec: func(f []string) Result {
			fs, ts := string(mustDesc(f[0])), string(mustDesc(f[1]))
			lv, err := mqtt.VerifNewTopicFilter(fs)
			if err != nil {
				return Result{Out: "invalid", Tags: []string{"invalid"}}
			}
			got := mqtt.VerifMatch(lv, ts)
			r := Result{Out: fmt.Sprint(got), Tags: []string{"nontrivial", fmt.Sprint(got)}}
			if specValidFilter(fs) && !strings.HasPrefix(ts, "$") {
				if want := specMatch(specLevels(fs), specLevels(ts)); want != got {
					r.Props = append(r.Props, viol("C14", "match", "filter %q topic %q: Match=%v, §4.7 says %v", fs, ts, got, want))
				}
			}
			return r
		}})

	// exhaustive Go-side sweep against the Go oracle (no model line: too many pairs for a line each)
	register(&funcEngine{name: "matchsweep",
		gen: func(rng *rand.Rand, tier string, n int, emit func(string)) {
			if tier == "thorough" {
				emit("6 6")
			} else {
				emit("5 4")
			}
		},
		exec: func(f []string) Result {
			fl, tl := atoi(f[0]), atoi(f[1])
			topics := allStrings("ab/", tl)
			var tlv [][]string
			for _, t := range topics {
				tlv = append(tlv, specLevels(t))
			}
			r := Result{Out: ""}
			pairs := 0
			for _, fs := range allStrings("ab+#/", fl) {
				lv, err := mqtt.VerifNewTopicFilter(fs)
				if (err == nil) != specValidFilter(fs) {
					r.Props = append(r.Props, viol("C14", "validate", "filter %q accepted=%v valid=%v", fs, err == nil, specValidFilter(fs)))
					continue
				}
				if err != nil {
					continue
				}
				sl := specLevels(fs)
				for i, t := range topics {
					pairs++
					if got, want := mqtt.VerifMatch(lv, t), specMatch(sl, tlv[i]); got != want && len(r.Props) < 5 {
						r.Props = append(r.Props, viol("C14", "match", "filter %q topic %q: Match=%v, §4.7 says %v", fs, t, got, want))
					}
				}
			}
			r.Tags = []string{"nontrivial", fmt.Sprintf("pairs=%d", pairs)}
			return r
		}})

	register(&funcEngine{name: "mux",
		gen: func(rng *rand.Rand, tier string, n int, emit func(string)) {
			emit("612f62 612f2b 23 612f 2b2f62 61 612f62")
			for i := 0; i < n; i++ {
				k := 1 + rng.Intn(6)
				parts := []string{descBytes([]byte(randTopicString(rng)))}
				for j := 0; j < k; j++ {
					parts = append(parts, descBytes([]byte(randFilterString(rng))))
				}
				emit(strings.Join(parts, " "))
			}
		},
		exec: func(f []string) Result {
			topic := string(mustDesc(f[0]))
			mux := &mqtt.ServeMux{}
			var reg, called, want []int
			for i, fx := range f[1:] {
				i := i
				fs := string(mustDesc(fx))
				if err := mux.Handle(fs, mqtt.HandlerFunc(func(m *mqtt.Message) { called = append(called, i) })); err == nil {
					reg = append(reg, i)
					if specValidFilter(fs) && specMatch(specLevels(fs), specLevels(topic)) {
						want = append(want, i)
					}
				}
			}
			mux.Serve(&mqtt.Message{Topic: topic, Payload: []byte{1}})
			r := Result{Out: fmt.Sprintf("reg=%s called=%s", intsStr(reg), intsStr(called)), Tags: []string{"nontrivial", fmt.Sprintf("called%d", len(called))}}
			if !strings.HasPrefix(topic, "$") && intsStr(want) != intsStr(called) {
				r.Props = append(r.Props, viol("C14", "mux-dispatch", "topic %q: handlers called %v, matching filters %v", topic, called, want))
			}
			return r
		}})

	// a ServeMux used over time: Handle and Serve calls interleaved (every Serve must see exactly the handlers
	// registered before it), topics served repeatedly
	register(&funcEngine{name: "muxseq",
		gen: func(rng *rand.Rand, tier string, n int, emit func(string)) {
			emit("S:612f62 H:612f23 S:612f62 H:23 S:63 S:612f62")
			emit("S:61 S:61 H:61 S:61 H:2b S:61 S:62 H:62 S:62")
			// the same filter string registered twice with another matching filter in between: registration order is the call order
			emit("H:73656e736f722f2b2f74656d70 H:73656e736f722f23 H:73656e736f722f2b2f74656d70 S:73656e736f722f312f74656d70 H:23 H:73656e736f722f23 S:73656e736f722f312f74656d70")
			// topics deeper than every registered filter, the deepest filters ending in + / #
			emit("H:73706f72742f2b H:2b S:73706f72742f74656e6e69732f706c6179657231 S:612f62 S:73706f72742f74656e6e6973 H:2b2f2b2f23 S:612f62 S:612f622f632f64")
			emit("H:2b2f2b S:61 S:612f62 S:612f622f63 S:612f622f632f64 S:2f2f2f")
			deep := "612f622f632f642f652f662f672f682f69" // a/b/c/d/e/f/g/h/i (nine levels)
			emit("H:" + deep + " H:612f622f632f642f652f662f672f682f2b H:612f622f632f642f652f662f672f2b S:" + deep + " S:612f622f632f642f652f662f672f68")
			for i := 0; i < n; i++ {
				pool := []string{descBytes([]byte(randTopicString(rng))), descBytes([]byte(randTopicString(rng))), "612f62", "61"}
				k := 3 + rng.Intn(10)
				var ops []string
				for j := 0; j < k; j++ {
					if rng.Intn(2) == 0 {
						if rng.Intn(3) == 0 {
							// a filter that matches one of the pool topics for sure
							ops = append(ops, "H:"+pool[rng.Intn(len(pool))])
						} else {
							ops = append(ops, "H:"+descBytes([]byte(randFilterString(rng))))
						}
					} else {
						ops = append(ops, "S:"+pool[rng.Intn(len(pool))])
					}
				}
				emit(strings.Join(ops, " "))
			}
		},
		exec: func(f []string) Result {
			mux := &mqtt.ServeMux{}
			var called []int
			var outs []string
			type reg struct {
				i  int
				fs string
			}
			var regs []reg
			r := Result{Tags: []string{"nontrivial"}}
			nh := 0
			for _, op := range f {
				arg := string(mustDesc(op[2:]))
				if op[0] == 'H' {
					i := nh
					nh++
					if err := mux.Handle(arg, mqtt.HandlerFunc(func(m *mqtt.Message) { called = append(called, i) })); err == nil {
						regs = append(regs, reg{i, arg})
					}
					continue
				}
				called = nil
				mux.Serve(&mqtt.Message{Topic: arg, Payload: []byte{1}})
				outs = append(outs, intsStr(called))
				var want []int
				for _, g := range regs {
					if specValidFilter(g.fs) && specMatch(specLevels(g.fs), specLevels(arg)) {
						want = append(want, g.i)
					}
				}
				if !strings.HasPrefix(arg, "$") && intsStr(want) != intsStr(called) {
					r.Props = append(r.Props, viol("C14", "mux-dispatch-over-time", "Serve(%q) after %d Handle calls: handlers called %v, registered matching filters %v", arg, nh, called, want))
				}
			}
			r.Out = strings.Join(outs, ";")
			return r
		}})

	// ---- C15 ------------------------------------------------------------------
	register(&funcEngine{name: "ids",
		gen: func(rng *rand.Rand, tier string, n int, emit func(string)) {
			for _, st := range []uint32{0, 1, 65533, 65534, 65535, 65536, 131070, 4294967294, 4294967295, 4294901759, 4294901760} {
				emit(fmt.Sprintf("%d %d", st, 6))
				emit(fmt.Sprintf("%d %d", st, 65535))
			}
			emit("7 65536") // one more than the window: the first id comes back
			for i := 0; i < n; i++ {
				emit(fmt.Sprintf("%d %d", rng.Uint32(), 1+rng.Intn(40)))
			}
			if tier == "thorough" {
				for i := 0; i < 40; i++ {
					emit(fmt.Sprintf("%d %d", rng.Uint32(), 65535))
				}
			}
		},
		exec: func(f []string) Result {
			start, n := uint32(atoi(f[0])), atoi(f[1])
			c := &mqtt.BaseClient{}
			c.VerifSetIDLast(start)
			ids := make([]int, n)
			seen := map[int]bool{}
			nodup := true
			h := uint64(7)
			r := Result{Tags: []string{"nontrivial"}}
			for i := range ids {
				ids[i] = int(c.VerifNewID())
				if ids[i] == 0 {
					r.Props = append(r.Props, viol("C15", "id-zero", "newID returned 0 (start %d, call %d)", start, i))
				}
				if seen[ids[i]] {
					nodup = false
				}
				seen[ids[i]] = true
				h = (h*131 + uint64(ids[i]) + 1) % 4294967291
			}
			if n <= 65535 && !nodup {
				r.Props = append(r.Props, viol("C15", "dup-in-window", "ids repeat within %d consecutive calls from %d", n, start))
			}
			if n <= 64 {
				r.Out = fmt.Sprintf("ctr=%d ids=%s", c.VerifIDLast(), intsStr(ids))
			} else {
				r.Out = fmt.Sprintf("ctr=%d n=%d sum=%d nodup=%v", c.VerifIDLast(), n, h, nodup)
			}
			return r
		}})
	register(&funcEngine{name: "idconc",
		gen: func(rng *rand.Rand, tier string, n int, emit func(string)) {
			for _, st := range []uint32{0, 65000, 4294967000} {
				for _, g := range []int{2, 8, 64} {
					emit(fmt.Sprintf("%d %d %d", st, g, 65535/g))
				}
			}
		},
		exec: func(f []string) Result {
			start, g, k := uint32(atoi(f[0])), atoi(f[1]), atoi(f[2])
			c := &mqtt.BaseClient{}
			c.VerifSetIDLast(start)
			res := make([][]uint16, g)
			var wg sync.WaitGroup
			for i := 0; i < g; i++ {
				wg.Add(1)
				go func(i int) {
					defer wg.Done()
					for j := 0; j < k; j++ {
						res[i] = append(res[i], c.VerifNewID())
					}
				}(i)
			}
			wg.Wait()
			r := Result{Out: "", Tags: []string{"nontrivial", fmt.Sprintf("g%d", g)}}
			seen := map[uint16]bool{}
			for _, l := range res {
				for _, id := range l {
					if id == 0 {
						r.Props = append(r.Props, viol("C15", "id-zero", "concurrent newID returned 0"))
					}
					if seen[id] {
						r.Props = append(r.Props, viol("C15", "dup-concurrent", "id %d handed out twice among %d concurrent calls (start %d)", id, g*k, start))
						return r
					}
					seen[id] = true
				}
			}
			return r
		}})
	register(&funcEngine{name: "initid",
		gen: func(rng *rand.Rand, tier string, n int, emit func(string)) { emit(fmt.Sprint(n)) },
		exec: func(f []string) Result {
			r := Result{Out: "", Tags: []string{"nontrivial"}}
			c := &mqtt.BaseClient{}
			for i := 0; i < atoi(f[0]); i++ {
				c.VerifInitID()
				if v := c.VerifIDLast(); v < 1 || v > 0xFFFE {
					r.Props = append(r.Props, viol("C15", "initid-range", "initID set counter to %d", v))
				}
			}
			return r
		}})

	// ---- C08: established-subscription bookkeeping ----------------------------
	register(&funcEngine{name: "subs",
		gen: func(rng *rand.Rand, tier string, n int, emit func(string)) {
			emit("S:61.0 S:61.1 U:61")
			emit("S:61.0,62.1 U:62,62")
			emit("S:61.1,61.2 U:63")
			emit("S:61.0,62.1,63.2 U:61,63")
			topics := []string{"61", "62", "63"}
			if tier == "thorough" {
				// all histories of <= 4 single/double-filter calls over 2 topics x 2 qos
				var ops []string
				for _, t := range topics[:2] {
					for q := 0; q < 2; q++ {
						ops = append(ops, fmt.Sprintf("S:%s.%d", t, q))
					}
					ops = append(ops, "U:"+t)
				}
				ops = append(ops, "S:61.1,62.0", "S:61.0,61.1", "U:61,62", "U:62,62")
				var rec func(prefix []string, depth int)
				rec = func(prefix []string, depth int) {
					if len(prefix) > 0 {
						emit(strings.Join(prefix, " "))
					}
					if depth == 0 {
						return
					}
					for _, o := range ops {
						rec(append(append([]string{}, prefix...), o), depth-1)
					}
				}
				rec(nil, 4)
			}
			for i := 0; i < n; i++ {
				k := 1 + rng.Intn(7)
				var ops []string
				for j := 0; j < k; j++ {
					m := 1 + rng.Intn(3)
					var items []string
					if rng.Intn(5) < 3 {
						for x := 0; x < m; x++ {
							items = append(items, fmt.Sprintf("%s.%d", topics[rng.Intn(3)], rng.Intn(3)))
						}
						ops = append(ops, "S:"+strings.Join(items, ","))
					} else {
						for x := 0; x < m; x++ {
							items = append(items, topics[rng.Intn(3)])
						}
						ops = append(ops, "U:"+strings.Join(items, ","))
					}
				}
				emit(strings.Join(ops, " "))
			}
		},
		exec: func(f []string) Result {
			var d []mqtt.Subscription
			net := map[string]int{}
			for _, op := range f {
				kind, items := op[:1], strings.Split(op[2:], ",")
				if kind == "S" {
					var subs []mqtt.Subscription
					for _, it := range items {
						p := strings.Split(it, ".")
						subs = append(subs, mqtt.Subscription{Topic: string(mustDesc(p[0])), QoS: mqtt.QoS(atoi(p[1]))})
						net[string(mustDesc(p[0]))] = atoi(p[1])
					}
					d = mqtt.VerifApplySubs(d, subs)
				} else {
					var ts []string
					for _, it := range items {
						ts = append(ts, string(mustDesc(it)))
						delete(net, string(mustDesc(it)))
					}
					d = mqtt.VerifApplyUnsubs(d, ts)
				}
			}
			var parts []string
			got := map[string]int{}
			dup := false
			for _, e := range d {
				parts = append(parts, fmt.Sprintf("%s.%d", hexOrDash([]byte(e.Topic)), e.QoS))
				if _, ok := got[e.Topic]; ok {
					dup = true
				}
				got[e.Topic] = int(e.QoS)
			}
			out := "-"
			if len(parts) > 0 {
				out = strings.Join(parts, ",")
			}
			r := Result{Out: out, Tags: []string{"nontrivial", fmt.Sprintf("len%d", len(d))}}
			if dup || fmt.Sprint(sortedMap(got)) != fmt.Sprint(sortedMap(net)) {
				r.Props = append(r.Props, viol("C08", "bookkeeping", "established list %v does not equal the net effect %v of %v", sortedMap(got), sortedMap(net), f))
			}
			return r
		}})
}

func sortedMap(m map[string]int) []string {
	var out []string
	for k, v := range m {
		out = append(out, fmt.Sprintf("%s=%d", k, v))
	}
	sort.Strings(out)
	return out
}
