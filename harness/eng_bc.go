package main

// Engine `bc`: the base client as an LTS (C07, C11, C16): scripted API calls, acknowledgements in a
// scripted order (own, foreign, wrong-kind, unsolicited), cancellations and connection endings at
// every step of every exchange.

import (
	"bufio"
	"context"
	"errors"
	"fmt"
	"io"
	"math/rand"
	"os"
	"sort"
	"strings"
	"sync"
	"sync/atomic"
	"time"

	mqtt "github.com/at-wat/mqtt-go"
)

type bcEngine struct {
	once  sync.Once
	plans map[string]string
}

func (e *bcEngine) Name() string  { return "bc" }
func (e *bcEngine) Parallel() int { return 32 }
func (e *bcEngine) WantsID()      {}

func loadPlanFile() map[string]string {
	plans := map[string]string{}
	path := os.Getenv("VERIF_PLAN")
	if path == "" {
		return plans
	}
	f, err := os.Open(path)
	if err != nil {
		return plans
	}
	defer f.Close()
	sc := bufio.NewScanner(f)
	sc.Buffer(make([]byte, 1<<20), 1<<28)
	for sc.Scan() {
		id, rest, _ := strings.Cut(sc.Text(), " ")
		if _, plan, ok := strings.Cut(rest, " || "); ok {
			plans[id] = plan
		}
	}
	return plans
}

type bcCall struct {
	kind    string
	id      int
	n       int
	cancel  context.CancelFunc
	ret     string
	err     error
	done    bool
	retEv   int // event during which the return was observed
	startEv int
	wrote   bool
	fastAck string // the acknowledgement event a fast broker delivered during the call's own start event
}

func (e *bcEngine) Gen(rng *rand.Rand, tier string, n int, emit func(string)) {
	emit("conn ack:0:0 pub:1:5 pub:2:6 sub:2:7 pa:9 pr:6 pa:5 sa:7:01 pc:6 ping cancel:4 eof")
	emit("conn cancel:0")
	emit("conn eof")
	emit("conn ack:0:5 pub:1:3")
	emit("conn ack:0:0 pub:2:5 pr:5 pr:5 pc:5 pub:2:6 pr:6 pr:6 pr:6 pc:6") // duplicate PUBRECs between PUBREL and PUBCOMP
	emit("conn ack:0:6 pub:1:3 pa:3 eof")                                   // reserved return codes are refusals too
	// inbound and outbound exchanges that happen to use the same packet identifier (the two directions have separate identifier spaces)
	emit("conn ack:0:0 pub:2:5 pr:5 in:2:5 pc:5 rel:5 in:1:5 pub:1:5 pa:5")
	emit("conn ack:0:0 in:2:5 pub:2:5 pr:5 pc:5 rel:5 rel:5")
	emit("conn ack:0:0 in:2:7 in:1:7 pub:1:7 pa:7 pub:2:7 pr:7 rel:7 pc:7 unsub:7 ua:7 in:2:7 sub:1:7 sa:7:01 rel:7")
	emit("conn ack:1:132 ping pg lclose")
	emit("conn ack:0:255 disc")
	emit("conn ack:1:0 pub:2:9 pr:9 cancel:1 pc:9 disc")
	emit("conn ack:0:0 ping pub:1:1 sub:1:2 unsub:3 pub:2:4 bad")
	emit("conn ack:0:0 ping pub:1:1 sub:1:2 unsub:3 pub:2:4 lclose")
	emit("conn ack:0:0 ping pg pub:1:1 disc pa:1")
	emit("pub:1:1 conn wf:1 ack:0:0 pub:1:2 wf:0 pub:1:3 pa:3")
	emit("conn ack:0:0 pub:1:7 pub:1:7 pa:7 pa:7")
	emit("conn ack:0:0 ping pg pg pg eof")
	emit("conn ack:0:0 ping pg pg pg pub:1:3 bad")
	emit("conn ack:0:0 ack:0:0 ack:1:0 ack:0:0 pub:1:3 bad")
	emit("conn ack:0:0 ack:0:5 ack:0:0 ping pg eof")
	emit("conn ack:0:0 pub:1:5 disc pa:5")
	emit("conn ack:0:0 sub:1:7 sa:7:0001")
	emit("wf:1 conn lclose")
	// every request kind with an acknowledgement of every OTHER kind carrying its identifier injected before its own
	// acknowledgement, on a connection where every waiter map has been used before (all five maps exist)
	{
		warm := "pub:1:1 pa:1 pub:2:2 pr:2 pc:2 sub:1:3 sa:3:01 unsub:4 ua:4"
		own := map[string][]string{"pub:1:5": {"pa:5"}, "pub:2:5": {"pr:5", "pc:5"}, "sub:1:5": {"sa:5:01"}, "unsub:5": {"ua:5"}}
		var ks []string
		for k := range own {
			ks = append(ks, k)
		}
		sort.Strings(ks)
		for _, k := range ks {
			for _, foreign := range []string{"pa:5", "pr:5", "pc:5", "sa:5:01", "ua:5"} {
				isOwn := false
				for _, o := range own[k] {
					if o == foreign {
						isOwn = true
					}
				}
				if isOwn {
					continue
				}
				emit("conn ack:0:0 " + warm + " " + k + " " + foreign + " " + strings.Join(own[k], " "))
			}
		}
	}
	// a very fast broker: the acknowledgement is processed before the request's Write returns
	emit("conn ack:0:0 fast unsub:5 ua:5 fast pub:1:6 pa:6 fast sub:2:7 sa:7:0102 fast ping pg fast pub:2:8 pr:8 pc:8")
	emit("conn ack:0:0 pub:1:3 fast unsub:4 ua:4 pa:3 fast pub:2:9 pr:9 fast ping pg pc:9")
	// PUBCOMP processed before the Write of its PUBREL returns
	emit("conn ack:0:0 pub:2:5 fastrel pr:5 pc:5 pub:2:6 fastrel pr:6 pc:6")
	emit("conn ack:0:0 pub:1:3 pub:2:5 pub:2:7 fastrel pr:5 pc:5 pa:3 fastrel pr:7 pc:7")
	// a PINGRESP that arrives after its Ping gave up must not answer the next Ping (C13: a silent peer stays detectable)
	emit("conn ack:0:0 ping cancel:1 pg ping")
	emit("conn ack:0:0 ping cancel:1 pg ping pg ping cancel:3 pg pg ping")
	emit("conn ack:0:0 pub:1:2 ping cancel:2 pg pa:2 ping unsub:3 ua:3")
	// … and answers another outstanding request in the same breath (two SUBACKs back to back while the second caller is still writing)
	emit("conn ack:0:0 sub:1:5 fast2 sub:1:6 sa:6:80 sa:5:01")
	emit("conn ack:0:0 sub:2:5 fast2 sub:1:6 sa:6:02 sa:5:0180 pub:1:7 fast2 unsub:8 ua:8 pa:7")
	emit("conn ack:0:0 pub:2:3 pr:3 fast2 pub:1:4 pa:4 pc:3 sub:1:9 fast2 ping pg sa:9:00")
	// inbound application messages: acknowledged by the reader itself; a failing acknowledgement write ends the connection with an error
	emit("conn ack:0:0 in:0:0 in:1:5 in:2:6 in:2:6 rel:6 rel:6 rel:9 pub:1:5 pa:5")
	emit("conn ack:0:0 pub:1:3 wf:1 in:1:5 pa:3")
	emit("conn ack:0:0 sub:1:4 wf:1 in:2:5")
	emit("conn ack:0:0 in:2:5 ping wf:1 rel:5 pg")
	emit("conn ack:0:0 wf:1 in:0:0 rel:7 wf:0 in:1:2")
	emit("wf:1 conn eof")
	emit("wf:1 conn wf:0 pub:1:1 lclose")
	if tier == "thorough" {
		// every request kind x every step of its exchange x every cause, alone and with other blocked calls
		kinds := map[string][]string{
			"pub:1:5": {"pa:5"}, "pub:2:5": {"pr:5", "pc:5"}, "sub:2:5": {"sa:5:0102"}, "unsub:5": {"ua:5"}, "ping": {"pg"},
		}
		causes := []string{"cancel:K", "eof", "lclose", "bad", "disc"}
		others := [][]string{{}, {"pub:1:20"}, {"pub:1:20", "sub:1:21", "pub:2:22", "ping"}}
		var keys []string
		for k := range kinds {
			keys = append(keys, k)
		}
		sort.Strings(keys)
		for _, k := range keys {
			acks := kinds[k]
			for step := 0; step <= len(acks); step++ {
				for _, cause := range causes {
					for _, oth := range others {
						evs := []string{"conn", "ack:0:0"}
						evs = append(evs, oth...)
						idx := 1 + len(oth)
						evs = append(evs, k)
						evs = append(evs, acks[:step]...)
						evs = append(evs, strings.ReplaceAll(cause, "K", fmt.Sprint(idx)))
						evs = append(evs, acks[step:]...)
						emit(strings.Join(evs, " "))
					}
				}
			}
		}
		for _, cause := range []string{"cancel:0", "eof", "lclose", "bad"} {
			emit("conn " + cause + " ack:0:0")
		}
	}
	for i := 0; i < n; i++ {
		var evs []string
		if rng.Intn(12) == 0 {
			evs = append(evs, "pub:1:1")
		}
		if rng.Intn(15) == 0 {
			evs = append(evs, "wf:1") // the CONNECT write itself fails
		}
		evs = append(evs, "conn")
		switch rng.Intn(10) {
		case 0:
			evs = append(evs, "cancel:"+fmt.Sprint(len(evs)-1))
		case 1:
			evs = append(evs, fmt.Sprintf("ack:0:%d", []int{1, 2, 3, 4, 5, 6, 7, 0x84, 255}[rng.Intn(9)]))
		default:
			evs = append(evs, fmt.Sprintf("ack:%d:0", rng.Intn(2)))
		}
		ncalls := len(evs) - 1
		ids := []int{1, 2, 3, 4, 65535}
		var open []string // acks that would complete something
		steps := 3 + rng.Intn(16)
		for j := 0; j < steps; j++ {
			id := ids[rng.Intn(len(ids))]
			switch x := rng.Intn(27); {
			case x < 3:
				evs = append(evs, fmt.Sprintf("pub:1:%d", id))
				open = append(open, fmt.Sprintf("pa:%d", id))
				ncalls++
			case x < 6:
				evs = append(evs, fmt.Sprintf("pub:2:%d", id))
				open = append(open, fmt.Sprintf("pr:%d", id), fmt.Sprintf("pc:%d", id))
				ncalls++
			case x < 8:
				nf := 1 + rng.Intn(3)
				evs = append(evs, fmt.Sprintf("sub:%d:%d", nf, id))
				codes := ""
				k := nf
				if rng.Intn(5) == 0 {
					k = rng.Intn(4)
				}
				for c := 0; c < k; c++ {
					codes += fmt.Sprintf("%02x", []int{0, 1, 2, 0x80}[rng.Intn(4)])
				}
				if codes == "" {
					codes = "-"
				}
				open = append(open, fmt.Sprintf("sa:%d:%s", id, codes))
				ncalls++
			case x < 10:
				evs = append(evs, fmt.Sprintf("unsub:%d", id))
				open = append(open, fmt.Sprintf("ua:%d", id))
				ncalls++
			case x < 11:
				evs = append(evs, "ping")
				open = append(open, "pg")
				ncalls++
			case x < 17 && len(open) > 0:
				k := rng.Intn(len(open))
				evs = append(evs, open[k])
				open = append(open[:k], open[k+1:]...)
			case x < 19:
				// foreign / unsolicited / wrong-kind acknowledgement
				evs = append(evs, []string{"pa", "pr", "pc", "ua"}[rng.Intn(4)]+":"+fmt.Sprint(ids[rng.Intn(len(ids))]))
			case x < 20:
				if rng.Intn(3) == 0 {
					evs = append(evs, "ack:0:0") // an unsolicited CONNACK after the handshake
				} else {
					evs = append(evs, fmt.Sprintf("sa:%d:00", ids[rng.Intn(len(ids))]))
				}
			case x < 22 && ncalls > 0:
				evs = append(evs, fmt.Sprintf("cancel:%d", rng.Intn(ncalls)))
			case x < 23:
				evs = append(evs, []string{"eof", "lclose", "bad", "disc", "wf:1", "wf:0"}[rng.Intn(6)])
			default:
				switch rng.Intn(4) {
				case 0:
					evs = append(evs, "pg")
				case 1, 2:
					evs = append(evs, fmt.Sprintf("in:%d:%d", rng.Intn(3), ids[rng.Intn(len(ids))]))
				default:
					evs = append(evs, fmt.Sprintf("rel:%d", ids[rng.Intn(len(ids))]))
				}
			}
		}
		if rng.Intn(2) == 0 {
			evs = append(evs, []string{"eof", "lclose", "bad", "disc"}[rng.Intn(4)])
		}
		// some requests are answered by a very fast broker (acknowledgement processed before Write returns)
		var evs2 []string
		for _, ev := range evs {
			t := strings.Split(ev, ":")
			ack := ""
			switch {
			case t[0] == "pub" && t[1] == "1":
				ack = "pa:" + t[2]
			case t[0] == "pub" && t[1] == "2":
				ack = "pr:" + t[2]
			case t[0] == "sub":
				ack = "sa:" + t[2] + ":" + strings.Repeat("01", atoi(t[1]))
			case t[0] == "unsub":
				ack = "ua:" + t[1]
			case t[0] == "ping":
				ack = "pg"
			}
			if ack != "" && rng.Intn(6) == 0 {
				evs2 = append(evs2, []string{"fast", "fast2"}[rng.Intn(2)], ev, ack)
			} else {
				evs2 = append(evs2, ev)
			}
		}
		// … and the second half of a QoS 2 exchange: PUBCOMP inside the PUBREL write, where the script has them adjacent
		var evs3 []string
		for k, ev := range evs2 {
			if strings.HasPrefix(ev, "pr:") && k+1 < len(evs2) && evs2[k+1] == "pc:"+ev[3:] && (k == 0 || !strings.HasPrefix(evs2[k-1], "fast")) && rng.Intn(2) == 0 {
				evs3 = append(evs3, "fastrel")
			}
			evs3 = append(evs3, ev)
		}
		emit(strings.Join(evs3, " "))
	}
}

// bcAckBytes: the bytes a broker sends for an acknowledgement token (nil if the token is not one)
func bcAckBytes(ev string) []byte {
	t := strings.Split(ev, ":")
	switch t[0] {
	case "pa":
		return specAck(0x40, uint16(atoi(t[1])))
	case "pr":
		return specAck(0x50, uint16(atoi(t[1])))
	case "pc":
		return specAck(0x70, uint16(atoi(t[1])))
	case "sa":
		return specSubAck(uint16(atoi(t[1])), mustDesc(t[2]))
	case "ua":
		return specAck(0xb0, uint16(atoi(t[1])))
	case "pg":
		return specPacket(0xd0, nil)
	}
	return nil
}

func bcRet(kind string, subs []mqtt.Subscription, err error) string {
	if err == nil {
		if kind == "sub" {
			var b []byte
			for _, s := range subs {
				b = append(b, byte(s.QoS))
			}
			return "oksub:" + hexOrDash(b)
		}
		return "ok"
	}
	_, retry := err.(mqtt.ErrorWithRetry)
	r := ""
	if retry {
		r = "+r"
	}
	var ce *mqtt.ConnectionError
	switch {
	case errors.Is(err, context.Canceled), errors.Is(err, context.DeadlineExceeded):
		return "ctx" + r
	case errors.Is(err, mqtt.ErrInvalidSubAck):
		return "invalidsuback"
	case errors.As(err, &ce):
		return fmt.Sprintf("refused:%d", ce.Code)
	case errors.Is(err, mqtt.ErrNotConnected):
		return "notconnected"
	case errors.Is(err, mqtt.ErrClosedTransport):
		return "closed" + r
	}
	return "werr" + r
}

func (e *bcEngine) Exec(f []string) Result {
	e.once.Do(func() { e.plans = loadPlanFile() })
	id, evs := f[0], f[1:]
	var plan []string
	if p, ok := e.plans[id]; ok {
		plan = strings.Split(p, ";")
	}
	tr := newRecTransport()
	var mu sync.Mutex
	var cbs []string
	var cbErrs []error
	c := &mqtt.BaseClient{Transport: tr, ConnState: func(s mqtt.ConnState, err error) {
		mu.Lock()
		cbs = append(cbs, fmt.Sprintf("%v:%s", s, bcErrClass(err)))
		cbErrs = append(cbErrs, err)
		mu.Unlock()
	}}
	var calls []*bcCall
	nReturned := func() int {
		mu.Lock()
		defer mu.Unlock()
		n := 0
		for _, cl := range calls {
			if cl.done {
				n++
			}
		}
		return n
	}
	doneClosed := func() bool {
		ch := c.Done()
		if ch == nil {
			return false
		}
		select {
		case <-ch:
			return true
		default:
			return false
		}
	}
	var props []PropResult
	var planMiss []string
	var doneSeen bool
	var errAtDone error
	curEv := 0
	var evRets [][]int // calls that returned during each event
	pendingFast := ""
	start := func(kind string, cid, n int) {
		ctx, cancel := context.WithCancel(context.Background())
		cl := &bcCall{kind: kind, id: cid, n: n, cancel: cancel, startEv: curEv, fastAck: pendingFast}
		pendingFast = ""
		mu.Lock()
		calls = append(calls, cl)
		mu.Unlock()
		go func() {
			var err error
			var subs []mqtt.Subscription
			switch kind {
			case "conn":
				_, err = c.Connect(ctx, "cid")
			case "pub1":
				err = c.Publish(ctx, &mqtt.Message{Topic: "t", ID: uint16(cid), QoS: mqtt.QoS1, Payload: []byte{1}})
			case "pub2":
				err = c.Publish(ctx, &mqtt.Message{Topic: "t", ID: uint16(cid), QoS: mqtt.QoS2, Payload: []byte{2}})
			case "sub":
				var req []mqtt.Subscription
				for i := 0; i < n; i++ {
					req = append(req, mqtt.Subscription{Topic: fmt.Sprintf("f/%d", i), QoS: mqtt.QoS2})
				}
				subs, err = c.Subscribe(ctx, req...)
			case "unsub":
				err = c.Unsubscribe(ctx, "f/0")
			case "ping":
				err = c.Ping(ctx)
			case "disc":
				err = c.Disconnect(ctx)
			}
			mu.Lock()
			cl.ret = bcRet(kind, subs, err)
			cl.err = err
			cl.done = true
			cl.retEv = curEv
			mu.Unlock()
		}()
	}
	inited := false
	fastNext := 0
	fed := map[int]bool{}        // acknowledgement events already delivered by a "fast" broker
	fedReq := map[int]int{}      // fast / fast2: the request event during which a fed event was (to be) delivered
	relFired := map[int]*int32{} // fastrel: did the armed PUBREL hook fire (keyed by the PUBCOMP event)
	extraFed := map[int]string{} // fast2: the second acknowledgement event delivered during the request event i
	for i, ev := range evs {
		mu.Lock()
		curEv = i
		mu.Unlock()
		if fastNext > 0 && inited && i+1 < len(evs) && (strings.HasPrefix(ev, "pub:") || strings.HasPrefix(ev, "sub:") || strings.HasPrefix(ev, "unsub:") || ev == "ping") {
			// a very fast broker: the acknowledgement (the next event) has been read and processed by the client's
			// reader goroutine before the request's Write returns to the calling goroutine; with fast2 the event after
			// it (an acknowledgement for some other outstanding request) as well
			if ack := bcAckBytes(evs[i+1]); ack != nil {
				fed[i+1] = true
				pendingFast = evs[i+1]
				var ack2 []byte
				evID := func(e string) string { // the packet identifier an event is about ("" for ping / pingresp)
					t := strings.Split(e, ":")
					switch t[0] {
					case "pub", "sub":
						if len(t) > 2 {
							return t[2]
						}
					case "unsub", "pa", "pr", "pc", "sa", "ua":
						if len(t) > 1 {
							return t[1]
						}
					}
					return ""
				}
				// the second packet must be about ANOTHER request (otherwise it would overtake the client's own reaction
				// to the first one, e.g. PUBCOMP before PUBREL was sent: a different scenario from the scripted one)
				// … and must be inert: an acknowledgement that makes the client neither write (PUBREC → PUBREL) nor close the
				// connection (a SUBACK whose code count does not match its request), because that reaction would race with
				// what the writing caller does next
				inert := func(e string) bool {
					t := strings.Split(e, ":")
					switch t[0] {
					case "pa", "pc", "ua":
						return true
					case "sa":
						if len(t) < 3 {
							return false
						}
						for k := i - 1; k >= 0; k-- { // the LATEST Subscribe with that identifier owns the waiter
							t2 := strings.Split(evs[k], ":")
							if t2[0] == "sub" && len(t2) > 2 && t2[2] == t[1] {
								return atoi(t2[1]) == len(mustDesc(t[2]))
							}
						}
					}
					return false
				}
				if fastNext == 2 && i+2 < len(evs) && evID(evs[i+2]) != evID(ev) && evID(evs[i+2]) != "" && inert(evs[i+2]) {
					if ack2 = bcAckBytes(evs[i+2]); ack2 != nil {
						fed[i+2] = true
						extraFed[i] = evs[i+2]
					}
				}
				var once sync.Once
				fired := new(int32)
				relFired[i+1] = fired
				fedReq[i+1] = i
				if ack2 != nil {
					relFired[i+2] = fired
					fedReq[i+2] = i
				}
				tr.mu.Lock()
				tr.onWrite = func(p []byte) {
					once.Do(func() {
						atomic.StoreInt32(fired, 1)
						tr.feed(ack)
						tr.waitDrained()
						if ack2 != nil {
							tr.feed(ack2)
							tr.waitDrained()
						}
					})
				}
				tr.mu.Unlock()
			}
			fastNext = 0
		}
		before := map[int]bool{}
		mu.Lock()
		for j, cl := range calls {
			if cl.done {
				before[j] = true
			}
		}
		mu.Unlock()
		t := strings.Split(ev, ":")
		if fed[i] {
			if f, ok := relFired[i]; ok && atomic.LoadInt32(f) == 0 {
				// the hook was armed but the write it waits for never reached the transport (fastrel: a duplicate PUBREC, a
				// publish that had given up; fast / fast2: the request's write was refused): the acknowledgement arrives as an
				// ordinary event, and the hook is disarmed so that it cannot fire on some later write
				tr.mu.Lock()
				tr.onWrite = nil
				tr.mu.Unlock()
				if rq, ok := fedReq[i]; ok {
					delete(extraFed, rq)
				} else {
					delete(extraFed, i-1) // fastrel: keyed by the PUBREC event
				}
				if pendingFast == evs[i] {
					pendingFast = ""
				}
			} else {
				t = []string{"already-fed"}
			}
		}
		switch t[0] {
		case "fastrel":
			// a very fast broker, second half of QoS 2: the PUBCOMP (the event after the next `pr:`) is read and processed by the
			// reader goroutine before the Write of the PUBREL it answers returns to the publishing goroutine
			if inited && i+2 < len(evs) && strings.HasPrefix(evs[i+1], "pr:") && evs[i+2] == "pc:"+evs[i+1][3:] {
				if ack := bcAckBytes(evs[i+2]); ack != nil {
					fed[i+2] = true
					extraFed[i+1] = evs[i+2]
					var once sync.Once
					fired := new(int32)
					relFired[i+2] = fired
					tr.mu.Lock()
					tr.onWrite = func(p []byte) {
						if len(p) > 0 && p[0] == 0x62 {
							once.Do(func() {
								atomic.StoreInt32(fired, 1)
								tr.feed(ack)
								tr.waitDrained()
							})
						}
					}
					tr.mu.Unlock()
				}
			}
		case "fast":
			fastNext = 1
		case "fast2":
			fastNext = 2
		case "conn":
			start("conn", 0, 0)
			if !inited {
				// a watcher like the reconnect loop's: woken by Done(), it looks at Err() at once
				go func() {
					var ch <-chan struct{}
					for i := 0; i < 20000 && ch == nil; i++ {
						ch = c.Done()
						if ch == nil {
							time.Sleep(50 * time.Microsecond)
						}
					}
					if ch == nil {
						return
					}
					<-ch
					e := c.Err()
					mu.Lock()
					doneSeen, errAtDone = true, e
					mu.Unlock()
				}()
			}
			inited = true
		case "pub":
			start("pub"+t[1], atoi(t[2]), 0)
		case "sub":
			if inited {
				c.VerifSetIDLast(uint32(atoi(t[2]) - 1))
			}
			start("sub", atoi(t[2]), atoi(t[1]))
		case "unsub":
			if inited {
				c.VerifSetIDLast(uint32(atoi(t[1]) - 1))
			}
			start("unsub", atoi(t[1]), 0)
		case "ping":
			start("ping", 0, 0)
		case "disc":
			start("disc", 0, 0)
		case "ack":
			tr.feed(specConnAck(t[1] == "1", byte(atoi(t[2]))))
		case "pa":
			tr.feed(specAck(0x40, uint16(atoi(t[1]))))
		case "pr":
			tr.feed(specAck(0x50, uint16(atoi(t[1]))))
		case "pc":
			tr.feed(specAck(0x70, uint16(atoi(t[1]))))
		case "sa":
			tr.feed(specSubAck(uint16(atoi(t[1])), mustDesc(t[2])))
		case "ua":
			tr.feed(specAck(0xb0, uint16(atoi(t[1]))))
		case "pg":
			tr.feed(specPacket(0xd0, nil))
		case "in":
			tr.feed(specPublish("in/t", []byte{7}, byte(atoi(t[1])), false, false, uint16(atoi(t[2]))))
		case "rel":
			tr.feed(specAck(0x62, uint16(atoi(t[1]))))
		case "bad":
			tr.feed([]byte{0xf0, 0x00})
		case "cancel":
			k := atoi(t[1])
			mu.Lock()
			if k < len(calls) {
				calls[k].cancel()
			}
			mu.Unlock()
		case "eof":
			tr.feedEOF()
		case "lclose":
			c.Close()
		case "wf":
			tr.setRefuse(t[1] == "1")
		}
		switch t[0] {
		case "ack", "pa", "pr", "pc", "sa", "ua", "pg", "bad", "in", "rel":
			if inited {
				tr.waitDrained()
			}
		}
		if i < len(plan) {
			var wr, ww, wc, wd int
			fmt.Sscanf(plan[i], "r%d,w%d,c%d,d%d", &wr, &ww, &wc, &wd)
			deadline := time.Now().Add(5 * time.Second)
			for {
				mu.Lock()
				nc := len(cbs)
				mu.Unlock()
				if nReturned() >= wr && len(tr.writeList()) >= ww && nc >= wc && (wd == 0 || doneClosed()) {
					break
				}
				if time.Now().After(deadline) {
					planMiss = append(planMiss, fmt.Sprintf("ev%d(%s):want{%s}got{r%d,w%d,c%d}", i, ev, plan[i], nReturned(), len(tr.writeList()), nc))
					break
				}
				time.Sleep(100 * time.Microsecond)
			}
		} else {
			time.Sleep(3 * time.Millisecond)
		}
		var newly []int
		mu.Lock()
		for j, cl := range calls {
			if cl.done && !before[j] {
				newly = append(newly, j)
			}
		}
		mu.Unlock()
		evRets = append(evRets, newly)
	}
	time.Sleep(2 * time.Millisecond)
	// ---- render ----
	mu.Lock()
	var rets []string
	for j, cl := range calls {
		if cl.done {
			rets = append(rets, fmt.Sprintf("%d:%s", j, cl.ret))
		}
	}
	cbsCopy := append([]string{}, cbs...)
	mu.Unlock()
	var ws []string
	for _, w := range tr.writeList() {
		if p, _, err := specDecode(w); err == nil {
			switch p.Type {
			case 0x10:
				ws = append(ws, "C")
			case 0x30:
				ws = append(ws, fmt.Sprintf("P%di%d", p.QoS, p.ID))
			case 0x60:
				ws = append(ws, fmt.Sprintf("R%d", p.ID))
			case 0x40:
				ws = append(ws, fmt.Sprintf("a%d", p.ID))
			case 0x50:
				ws = append(ws, fmt.Sprintf("r%d", p.ID))
			case 0x70:
				ws = append(ws, fmt.Sprintf("c%d", p.ID))
			case 0x80:
				ws = append(ws, fmt.Sprintf("S%dn%d", p.ID, len(p.Filters)))
			case 0xa0:
				ws = append(ws, fmt.Sprintf("U%d", p.ID))
			case 0xc0:
				ws = append(ws, "G")
			case 0xe0:
				ws = append(ws, "X")
			default:
				ws = append(ws, fmt.Sprintf("?%x", p.Type))
			}
		} else {
			ws = append(ws, "?")
		}
	}
	state := "New"
	for _, cb := range cbsCopy {
		state, _, _ = strings.Cut(cb, ":")
	}
	dn := 0
	if doneClosed() {
		dn = 1
	}
	out := fmt.Sprintf("rets=%s writes=%s cbs=%s err=%s done=%d state=%s", joinOr(rets, ","), joinOr(ws, ","), joinOr(cbsCopy, ","), bcErrClass(c.Err()), dn, state)
	if len(planMiss) > 0 {
		out += " PLANMISS=" + strings.Join(planMiss, "|")
	}
	r := Result{Out: out, Tags: []string{"nontrivial", fmt.Sprintf("calls%d", len(calls)/3*3)}}

	// ---- property oracles (independent of the model) ----
	mu.Lock()
	defer mu.Unlock()
	// C07: a call returns success only during the event that is its own acknowledgement
	for j, cl := range calls {
		if !cl.done || !strings.HasPrefix(cl.ret, "ok") {
			continue
		}
		ev := evs[cl.retEv]
		want := ""
		switch cl.kind {
		case "conn":
			want = "ack:"
		case "pub1":
			want = fmt.Sprintf("pa:%d", cl.id)
		case "pub2":
			want = fmt.Sprintf("pc:%d", cl.id)
		case "sub":
			want = fmt.Sprintf("sa:%d:", cl.id)
		case "unsub":
			want = fmt.Sprintf("ua:%d", cl.id)
		case "ping":
			want = "pg"
		case "disc":
			want = "disc"
		}
		matches := func(e string) bool { return e == want || (strings.HasSuffix(want, ":") && strings.HasPrefix(e, want)) }
		// acknowledgements a fast broker delivered while a request was being written (during event k) count for returns
		// observed during events k, k+1 (the fed acknowledgement's own slot) and k+2 (fast2's second slot)
		cands := []string{}
		if cl.fastAck != "" && cl.retEv <= cl.startEv+2 {
			cands = append(cands, cl.fastAck)
		}
		for k := cl.retEv; k >= 0 && k >= cl.retEv-2; k-- {
			if x, ok := extraFed[k]; ok {
				cands = append(cands, x)
			}
		}
		for _, x := range cands {
			if !matches(ev) && matches(x) {
				ev = x
			}
		}
		if !matches(ev) && cl.kind == "ping" {
			// C13: a Ping that succeeds without a PINGRESP of its own (e.g. on a response left over from an earlier Ping that
			// gave up) hides a silent peer from the keep-alive for a whole interval
			props = append(props, viol("C13", "ping-answered-without-pingresp", "Ping (call %d) returned success during event %q: no PINGRESP arrived after its PINGREQ", j, ev))
		}
		if !matches(ev) {
			props = append(props, viol("C07", "completed-without-own-ack", "call %d (%s id %d) returned success during event %q, its own acknowledgement is %q", j, cl.kind, cl.id, ev, want))
		}
		if cl.kind == "pub2" {
			// PUBREC must have come before
			seen := false
			for _, e2 := range evs[:cl.retEv+1] { // +1: with fastrel the call returns during its PUBREC event
				if e2 == fmt.Sprintf("pr:%d", cl.id) {
					seen = true
				}
			}
			if !seen {
				props = append(props, viol("C07", "pubcomp-without-pubrec", "QoS 2 call %d completed without PUBREC", j))
			}
		}
		if cl.kind == "sub" {
			codes := strings.SplitN(ev, ":", 3)
			if len(codes) == 3 && "oksub:"+codes[2] != cl.ret {
				props = append(props, viol("C07", "suback-codes", "Subscribe returned %s for SUBACK codes %s", cl.ret, codes[2]))
			}
		}
	}
	for j, cl := range calls {
		if cl.done && cl.ret == "invalidsuback" {
			// the SUBACK that ended the call: the event during which it returned, or one a fast broker fed during that event
			src := evs[cl.retEv]
			if !strings.HasPrefix(src, fmt.Sprintf("sa:%d:", cl.id)) {
				src = ""
				cands := []string{cl.fastAck}
				for k := cl.retEv; k >= 0 && k >= cl.retEv-2; k-- {
					cands = append(cands, extraFed[k])
				}
				for _, x := range cands {
					if strings.HasPrefix(x, fmt.Sprintf("sa:%d:", cl.id)) {
						src = x
					}
				}
			}
			ev := strings.SplitN(src, ":", 3)
			if len(ev) == 3 && len(mustDesc(ev[2])) == cl.n {
				props = append(props, viol("C07", "suback-count", "call %d: ErrInvalidSubAck although the SUBACK carried %d codes for %d filters", j, cl.n, cl.n))
			}
		}
	}
	// C11: cancellation and connection end release blocked calls
	ended := false
	// events at which the reader fails to write the acknowledgement of an inbound PUBLISH / PUBREL (the transport
	// refuses writes): the reader returns that error, i.e. the connection ends there
	ackFail := map[int]bool{}
	{
		wfOn, connStarted, over := false, false, false
		q2 := map[int]bool{}
		for i, ev := range evs {
			t := strings.Split(ev, ":")
			switch t[0] {
			case "conn":
				connStarted = true
			case "wf":
				wfOn = t[1] == "1"
			case "eof", "lclose", "bad":
				if connStarted {
					over = true
				}
			case "in":
				if connStarted && !over && atoi(t[1]) >= 1 {
					if wfOn {
						ackFail[i], over = true, true
					} else if atoi(t[1]) == 2 {
						q2[atoi(t[2])] = true
					}
				}
			case "rel":
				if connStarted && !over && q2[atoi(t[1])] {
					delete(q2, atoi(t[1]))
					if wfOn {
						ackFail[i], over = true, true
					}
				}
			}
		}
	}
	for i, ev := range evs {
		if strings.HasPrefix(ev, "cancel:") {
			k := atoi(ev[7:])
			if k < len(calls) && calls[k].startEv < i && (!calls[k].done || calls[k].retEv > i) {
				props = append(props, viol("C11", "cancel-not-honoured", "call %d (%s) did not return when its context was cancelled (event %d)", k, calls[k].kind, i))
			} else if k < len(calls) && calls[k].startEv < i && calls[k].retEv == i && !errors.Is(calls[k].err, context.Canceled) {
				props = append(props, viol("C11", "cancel-wrong-error", "call %d returned %v on cancellation, not the context's error", k, calls[k].err))
			}
		}
		if inited && (ev == "eof" || ev == "lclose" || ev == "bad" || ackFail[i]) {
			started := false
			for _, e2 := range evs[:i] {
				if e2 == "conn" {
					started = true
				}
			}
			if !started {
				continue
			}
			ended = true
			for k, cl := range calls {
				if !cl.done || cl.retEv > i {
					// calls started before this event must have returned by now
					startedBefore := false
					n := 0
					for _, e2 := range evs[:i] {
						if isCallEv(e2) {
							if n == k {
								startedBefore = true
							}
							n++
						}
					}
					if startedBefore {
						props = append(props, viol("C11", "blocked-after-connection-end", "call %d (%s) still blocked after the connection ended (%s)", k, cl.kind, ev))
					}
				}
			}
		}
	}
	// C07 (converse, `C07.own_ack_completes`): on a connection that stays healthy for the whole script, a request whose
	// identifier no other request of its kind uses and which is never cancelled completes once its own
	// acknowledgement(s) have arrived after it was made — however fast the broker answers
	{
		healthy := false
		for _, ev := range evs {
			if strings.HasPrefix(ev, "ack:") && strings.HasSuffix(ev, ":0") {
				healthy = true
			}
		}
		for _, ev := range evs {
			t := strings.Split(ev, ":")
			switch t[0] {
			case "eof", "lclose", "bad", "disc", "wf":
				healthy = false
			case "ack":
				if !strings.HasSuffix(ev, ":0") {
					healthy = false
				}
			}
		}
		if len(ackFail) > 0 || invalidSubAckSeen(rets) {
			healthy = false
		}
		cancelled := map[int]bool{}
		for _, ev := range evs {
			if strings.HasPrefix(ev, "cancel:") {
				cancelled[atoi(ev[7:])] = true
			}
		}
		idUse := map[string]int{}
		for _, cl := range calls {
			idUse[fmt.Sprintf("%s:%d", cl.kind, cl.id)]++
		}
		connAt := -1
		for i, ev := range evs {
			if strings.HasPrefix(ev, "ack:") && connAt < 0 {
				connAt = i
			}
		}
		for k, cl := range calls {
			if !healthy || cancelled[k] || cl.startEv < connAt || idUse[fmt.Sprintf("%s:%d", cl.kind, cl.id)] != 1 {
				continue
			}
			var need []string
			switch cl.kind {
			case "pub1":
				need = []string{fmt.Sprintf("pa:%d", cl.id)}
			case "pub2":
				need = []string{fmt.Sprintf("pr:%d", cl.id), fmt.Sprintf("pc:%d", cl.id)}
			case "unsub":
				need = []string{fmt.Sprintf("ua:%d", cl.id)}
			case "sub":
				need = []string{fmt.Sprintf("sa:%d:", cl.id)}
			default:
				continue
			}
			pos, ok := cl.startEv, true
			for _, nd := range need {
				found := -1
				for j := pos + 1; j < len(evs); j++ {
					if evs[j] == nd || (strings.HasSuffix(nd, ":") && strings.HasPrefix(evs[j], nd) && len(mustDesc(strings.SplitN(evs[j], ":", 3)[2])) == cl.n) {
						found = j
						break
					}
				}
				if found < 0 {
					ok = false
					break
				}
				pos = found
			}
			if ok && !(cl.done && strings.HasPrefix(cl.ret, "ok")) {
				if cl.kind == "pub2" {
					props = append(props, viol("C02", "qos2-exchange-stuck", "QoS 2 publish (call %d, id %d) did not complete (%q) although PUBREC and PUBCOMP both arrived, in that order, after it was made, on a healthy connection: the message's exchange never ends", k, cl.id, cl.ret))
				}
				props = append(props, viol("C07", "own-ack-not-honoured", "call %d (%s id %d) is still blocked (or failed: %q) although its own acknowledgement %v arrived after it was made, on a healthy connection", k, cl.kind, cl.id, cl.ret, need))
			}
		}
	}
	// C04: inbound QoS 1 / QoS 2 flows are acknowledged whatever else happens on the connection (outbound requests
	// with the same identifiers, their acknowledgements, cancellations): each PUBLISH qos 1 → one PUBACK, each first
	// PUBLISH qos 2 → PUBREC, each PUBREL of a message received and not yet released → one PUBCOMP
	{
		conn, over, wfOn := false, false, false
		q2 := map[int]bool{}
		var want []string
		for i, ev := range evs {
			t := strings.Split(ev, ":")
			switch t[0] {
			case "ack":
				if t[2] == "0" && !conn && !over {
					conn = true
				} else if t[2] != "0" && !conn {
					over = true
				}
			case "eof", "lclose", "bad", "disc", "cancel":
				over = true // conservative: no claim after anything that may end or disturb the connection
			case "wf":
				wfOn = t[1] == "1"
				over = true
			case "sa":
				over = true // a SUBACK of the wrong length ends the connection
			case "in":
				if conn && !over && !wfOn && !ackFail[i] {
					id := atoi(t[2])
					switch t[1] {
					case "1":
						want = append(want, fmt.Sprintf("a%d", id))
					case "2":
						want = append(want, fmt.Sprintf("r%d", id))
						q2[id] = true
					}
				}
			case "rel":
				if conn && !over && !wfOn {
					if id := atoi(t[1]); q2[id] {
						delete(q2, id)
						want = append(want, fmt.Sprintf("c%d", id))
					}
				}
			}
		}
		var got []string
		for _, w := range ws {
			if len(w) > 1 && (w[0] == 'a' || w[0] == 'r' || w[0] == 'c') {
				got = append(got, w)
			}
		}
		// the acknowledgements claimed above must appear, in this order, among those written
		gi := 0
		for _, w := range want {
			for gi < len(got) && got[gi] != w {
				gi++
			}
			if gi == len(got) {
				props = append(props, viol("C04", "inbound-flow-broken-by-outbound-traffic", "acknowledgement %s of an inbound message was not written (expected, in order, %v; written %v)", w, want, got))
				break
			}
			gi++
		}
	}
	// C06: a malformed packet ends the link. If the first thing that can end the connection in this script is a
	// malformed packet (`bad`: reserved packet type 15) arriving on an established reader, the client must close with
	// ErrInvalidPacket, whatever it was doing (e.g. after unsolicited PINGRESPs)
	{
		firstEnd, connStarted := -1, false
		for i, ev := range evs {
			t := strings.Split(ev, ":")
			if t[0] == "conn" {
				connStarted = true
			}
			if connStarted && firstEnd < 0 && (t[0] == "eof" || t[0] == "lclose" || t[0] == "bad" || t[0] == "disc" || t[0] == "wf" || ackFail[i] ||
				(t[0] == "ack" && t[2] != "0") || t[0] == "cancel" || t[0] == "sa") {
				firstEnd = i
			}
		}
		if firstEnd >= 0 && evs[firstEnd] == "bad" && (dn != 1 || bcErrClass(c.Err()) != "E:InvalidPacket") {
			props = append(props, viol("C06", "malformed-packet-did-not-end-link", "a packet of the reserved type 15 arrived on a healthy connection (event %d) but Done() closed=%v and Err()=%v", firstEnd, dn == 1, c.Err()))
		}
	}
	// Disconnect never waits for anything: it returns within its own event, also while other calls are blocked
	for k, cl := range calls {
		if cl.kind == "disc" && (!cl.done || cl.retEv > cl.startEv) {
			props = append(props, viol("C11", "disconnect-blocked", "Disconnect (call %d) did not return at once", k))
		}
	}
	if ended && dn == 0 {
		props = append(props, viol("C11", "done-not-closed", "the connection ended but Done() is not closed (reader goroutine still running)"))
	}
	// C16: state callbacks, Err() and Done()
	nActive, nClosed, nDisc := 0, 0, 0
	acceptedSeen := false
	for _, ev := range evs {
		if strings.HasPrefix(ev, "ack:") && strings.HasSuffix(ev, ":0") {
			acceptedSeen = true
		}
	}
	discCalled := false
	for _, ev := range evs {
		if ev == "disc" {
			discCalled = true
		}
	}
	for i, cb := range cbsCopy {
		st, ec, _ := strings.Cut(cb, ":")
		switch st {
		case "Active":
			nActive++
			if !acceptedSeen {
				props = append(props, viol("C16", "active-without-connack", "Active reported without an accepting CONNACK"))
			}
		case "Closed":
			nClosed++
			if ec == "ok" {
				props = append(props, viol("C16", "closed-without-error", "Closed reported with a nil error"))
			}
			if cbErrs[i] != c.Err() {
				props = append(props, viol("C16", "closed-error-differs", "Closed reported %v but Err() is %v", cbErrs[i], c.Err()))
			}
			if nDisc > 0 {
				props = append(props, viol("C16", "closed-after-disconnected", "Closed reported after Disconnected"))
			}
		case "Disconnected":
			nDisc++
		}
	}
	if nActive > 1 || nClosed > 1 || nDisc > 1 {
		props = append(props, viol("C16", "state-repeated", "callbacks %v", cbsCopy))
	}
	if discCalled && nDisc != 1 {
		props = append(props, viol("C16", "disconnected-not-reported", "Disconnect was called, callbacks %v", cbsCopy))
	}
	if ended && !discCalledBefore(evs) && nClosed != 1 {
		props = append(props, viol("C16", "closed-not-reported", "the connection ended without Disconnect, callbacks %v", cbsCopy))
	}
	if ended && !discCalled && doneSeen && errAtDone == nil && c.Err() != nil {
		props = append(props, viol("C16", "done-before-error", "a goroutine woken by Done() saw Err()==nil although the connection had ended with %v: Done() was closed before the error was stored (the reconnect loop would take this for a graceful end and stop)", c.Err()))
	}
	if !ended && nClosed == 0 && !invalidSubAckSeen(rets) && c.Err() != nil {
		props = append(props, viol("C16", "err-on-healthy-connection", "Err() = %v on a connection that has not ended", c.Err()))
	}
	if (dn == 1) != (ended || discSucceeded(calls) || invalidSubAckSeen(rets)) && inited {
		props = append(props, viol("C16", "done-mismatch", "Done() closed=%v but connection ended=%v", dn == 1, ended || discSucceeded(calls)))
	}
	r.Props = props
	return r
}

func isCallEv(e string) bool {
	for _, p := range []string{"conn", "pub:", "sub:", "unsub:", "ping", "disc"} {
		if e == p || (strings.HasSuffix(p, ":") && strings.HasPrefix(e, p)) {
			return true
		}
	}
	return false
}

// discCalledBefore: was Disconnect called before the first connection-ending event?
func discCalledBefore(evs []string) bool {
	for _, e := range evs {
		if e == "disc" {
			return true
		}
		if e == "eof" || e == "lclose" || e == "bad" {
			return false
		}
	}
	return false
}

func discSucceeded(calls []*bcCall) bool {
	for _, c := range calls {
		if c.kind == "disc" && c.done && c.ret == "ok" {
			return true
		}
	}
	return false
}

func invalidSubAckSeen(rets []string) bool {
	for _, r := range rets {
		if strings.HasSuffix(r, ":invalidsuback") {
			return true
		}
	}
	return false
}

// bcErrClass: error classes of this stream (a closed in-memory pipe is just "some error")
func bcErrClass(err error) string {
	if err != nil && errors.Is(err, io.ErrClosedPipe) {
		return "E:other"
	}
	return errClass(err)
}

func init() { register(&bcEngine{}) }
