package main

// Engine for C19: error chains built from the library's real wrappers, fmt %w, ConnectionError,
// RequestTimeoutError and a struct with an exported Err field; errors.Is against every node,
// every sentinel and fresh non-members.

import (
	"context"
	"errors"
	"fmt"
	"io"
	"math/rand"
	"strings"
	"time"

	mqtt "github.com/at-wat/mqtt-go"
)

var sentinels = []error{
	mqtt.ErrInvalidPacket, mqtt.ErrInvalidPacketLength, mqtt.ErrInvalidRune, mqtt.ErrClosedTransport,
	mqtt.ErrPayloadLenExceeded, mqtt.ErrInvalidQoS, mqtt.ErrNotConnected, context.Canceled, context.DeadlineExceeded,
	mqtt.ErrPingTimeout, mqtt.ErrConnectionFailed, io.ErrUnexpectedEOF, mqtt.ErrInvalidSubAck, mqtt.ErrClosedClient,
	mqtt.ErrInvalidTopicFilter, mqtt.ErrKeepAliveDisabled,
}

type fieldErr struct{ Err error }

func (e *fieldErr) Error() string { return "fieldErr: " + e.Err.Error() }

func rtoErr(canceled bool) error {
	rc := &mqtt.RetryClient{ResponseTimeout: time.Nanosecond}
	parent, cancel := context.WithCancel(context.Background())
	if canceled {
		cancel()
	}
	ctx2, c2 := mqtt.VerifNewRequestTimeoutError(rc, parent)
	defer c2()
	defer cancel()
	<-ctx2.Done()
	return ctx2.Err()
}

func init() {
	register(&funcEngine{name: "err",
		gen: func(rng *rand.Rand, tier string, n int, emit func(string)) {
			targets := "n0 n1 n2 n3 n4 s0 s1 s3 s7 s8 s10 x0 x1 eof"
			emit("W.s0 " + targets)
			emit("W.eof " + targets)
			emit("R.eof " + targets)
			emit("W.nil " + targets)
			emit("R.nil " + targets)
			emit("R.s3 " + targets)
			emit("W.R.T.s8 " + targets)
			emit("R.T.s7 " + targets)
			emit("W.D.s1 " + targets)
			emit("W.F.C.s10 " + targets)
			emit("F.W.W.R.x0 " + targets)
			ctors := "WRFCD"
			if tier == "thorough" {
				// all chains up to depth 4 over the constructor alphabet, over three leaves
				var rec func(prefix []string, depth int)
				rec = func(prefix []string, depth int) {
					for _, leaf := range []string{"s3", "x0", "eof"} {
						emit(strings.Join(append(append([]string{}, prefix...), leaf), ".") + " " + targets)
					}
					if depth == 0 {
						return
					}
					for _, c := range ctors {
						rec(append(append([]string{}, prefix...), string(c)), depth-1)
					}
				}
				rec(nil, 4)
			}
			for i := 0; i < n; i++ {
				depth := rng.Intn(13)
				var parts []string
				for j := 0; j < depth; j++ {
					parts = append(parts, string(ctors[rng.Intn(len(ctors))]))
				}
				leaf := fmt.Sprintf("s%d", rng.Intn(len(sentinels)))
				switch rng.Intn(8) {
				case 0:
					leaf = "x0"
				case 1:
					leaf = "eof"
				case 2:
					leaf = "T." + []string{"s7", "s8"}[rng.Intn(2)]
				}
				parts = append(parts, leaf)
				var ts []string
				for j := 0; j <= depth; j++ {
					ts = append(ts, fmt.Sprintf("n%d", j))
				}
				for j := 0; j < len(sentinels); j++ {
					ts = append(ts, fmt.Sprintf("s%d", j))
				}
				ts = append(ts, "x0", "x1", "eof")
				emit(strings.Join(parts, ".") + " " + strings.Join(ts, " "))
			}
		},
		exec: func(f []string) Result {
			parts := strings.Split(f[0], ".")
			fresh := map[string]error{}
			getFresh := func(k string) error {
				if e, ok := fresh[k]; ok {
					return e
				}
				fresh[k] = errors.New("fresh " + k)
				return fresh[k]
			}
			leafTok := parts[len(parts)-1]
			var cur error
			switch {
			case leafTok == "nil":
				cur = nil
			case leafTok == "eof":
				cur = io.EOF
			case leafTok[0] == 's':
				cur = sentinels[atoi(leafTok[1:])]
			case leafTok[0] == 'x':
				cur = getFresh(leafTok)
			}
			leaf := cur
			var nodes []error  // created nodes, innermost first
			var causes []error // everything reachable by Unwrap / Err field
			if leaf != nil {
				causes = append(causes, leaf)
			}
			belowOpaque := false // an rto node hides what is below it; fieldErr hides it from std Unwrap
			plain := true        // chain uses only W R F C
			retryFn := func(ctx context.Context, cli *mqtt.BaseClient) error { return nil }
			for i := len(parts) - 2; i >= 0; i-- {
				var nw error
				switch parts[i] {
				case "W":
					nw = mqtt.VerifWrapError(cur, "w")
				case "R":
					nw = mqtt.VerifWrapErrorWithRetry(cur, retryFn, "r")
				case "F":
					nw = fmt.Errorf("f: %w", cur)
				case "C":
					nw = &mqtt.ConnectionError{Err: cur, Code: 3}
				case "D":
					nw = &fieldErr{Err: cur}
					plain = false
				case "T":
					nw = rtoErr(cur == context.Canceled)
					plain = false
					belowOpaque = true
					causes = nil // the embedded context error is not reachable by any walk
				}
				if nw != cur {
					nodes = append(nodes, nw)
					causes = append(causes, nw)
				}
				cur = nw
			}
			_ = belowOpaque
			r := Result{Tags: []string{"nontrivial", fmt.Sprintf("depth%d", (len(parts)-1)/3*3)}}
			if cur == nil {
				r.Out = "top=nil"
				if leaf != nil {
					r.Props = append(r.Props, viol("C19", "nil-result", "wrapping a non-nil error gave nil: %s", f[0]))
				}
				return r
			}
			if leaf == nil && len(parts) > 1 && (parts[len(parts)-2] == "W" || parts[len(parts)-2] == "R") {
				// wrapError(nil) must be nil; reaching here means something was built on top by F/C/D
			}
			inCauses := func(t error) bool {
				for _, c := range causes {
					if c == t {
						return true
					}
				}
				return false
			}
			var bits []byte
			for _, tt := range f[1:] {
				var t error
				switch {
				case tt == "eof":
					t = io.EOF
				case tt[0] == 'n':
					k := atoi(tt[1:])
					if k < len(nodes) {
						t = nodes[k]
					} else {
						t = errors.New("absent node")
					}
				case tt[0] == 's':
					t = sentinels[atoi(tt[1:])]
				case tt[0] == 'x':
					t = getFresh(tt)
				}
				var got bool
				if perr := guard(func() error { got = errors.Is(cur, t); return nil }); perr != nil {
					r.Props = append(r.Props, viol("C19", "is-panic", "errors.Is panicked on %s target %s", f[0], tt))
				}
				if got {
					bits = append(bits, '1')
				} else {
					bits = append(bits, '0')
				}
				if got && !inCauses(t) {
					r.Props = append(r.Props, viol("C19", "is-unsound", "errors.Is(%s, %s) = true but the target is not in the chain", f[0], tt))
				}
				if !got && plain && inCauses(t) {
					r.Props = append(r.Props, viol("C19", "is-incomplete", "errors.Is(%s, %s) = false but the target is in the chain", f[0], tt))
				}
			}
			top := "node"
			if cur == io.EOF {
				top = "eof"
			} else if len(nodes) == 0 {
				top = "leaf"
			}
			_, hasRetry := cur.(mqtt.ErrorWithRetry)
			var rte *mqtt.RequestTimeoutError
			isRto := errors.As(cur, &rte)
			r.Out = fmt.Sprintf("top=%s is=%s retry=%v rto=%v", top, bits, hasRetry, isRto)
			// io.EOF is passed through unwrapped by the library wrappers
			if leaf == io.EOF {
				onlyLib := true
				for _, p := range parts[:len(parts)-1] {
					if p != "W" && p != "R" {
						onlyLib = false
					}
				}
				if onlyLib && cur != io.EOF {
					r.Props = append(r.Props, viol("C19", "eof-wrapped", "io.EOF was wrapped by %s", f[0]))
				}
			}
			if parts[0] == "R" && leaf != nil && !(leaf == io.EOF && top == "eof") && !hasRetry {
				r.Props = append(r.Props, viol("C19", "retry-handle-lost", "wrapErrorWithRetry result does not implement ErrorWithRetry: %s", f[0]))
			}
			// an expired response timeout is identifiable through the library's wrapping
			hasT, stdVisible := false, true
			for _, p := range parts[:len(parts)-1] {
				if p == "T" {
					hasT = true
					break
				}
				if p == "D" {
					stdVisible = false
				}
			}
			if hasT && stdVisible && !isRto {
				r.Props = append(r.Props, viol("C19", "rto-not-identifiable", "RequestTimeoutError not found by errors.As in %s", f[0]))
			}
			return r
		}})
}
