// Command harness drives the real at-wat/mqtt-go code (built from /repo with -tags verif)
// over generated or recorded cases, one case per line, and prints one canonical output line
// per case so that it can be diffed against the Lean oracle. It also evaluates the Go-side
// property oracles (the executable reading of each property) on what the implementation did.
package main

import (
	"bufio"
	"encoding/json"
	"flag"
	"fmt"
	"math/rand"
	"os"
	"runtime"
	"runtime/debug"
	"sort"
	"strconv"
	"strings"
	"sync"
	"time"
)

// PropResult is a property-oracle verdict on one case.
type PropResult struct {
	Prop string // e.g. C05
	Key  string // canonical failing-input class (for known findings)
	Desc string
}

// Result of executing one case on the implementation.
type Result struct {
	Out   string       // canonical output (compared with the Lean oracle); "" = engine has no model line
	Props []PropResult // property violations observed on the implementation
	Tags  []string     // branch / shape tags for the input distribution
}

// Engine is one correspondence stream.
type Engine interface {
	Name() string
	// Gen emits case field strings (without id).
	Gen(rng *rand.Rand, tier string, n int, emit func(string))
	Exec(fields []string) Result
	Parallel() int // how many cases may run concurrently
}

var engines = map[string]Engine{}

func register(e Engine) { engines[e.Name()] = e }

func main() {
	if len(os.Args) < 2 {
		fmt.Fprintln(os.Stderr, "usage: harness gen|exec|list ...")
		os.Exit(2)
	}
	switch os.Args[1] {
	case "list":
		var names []string
		for n := range engines {
			names = append(names, n)
		}
		sort.Strings(names)
		fmt.Println(strings.Join(names, "\n"))
	case "gen":
		fs := flag.NewFlagSet("gen", flag.ExitOnError)
		eng := fs.String("engine", "", "engine name")
		seed := fs.Int64("seed", 1, "seed")
		n := fs.Int("n", 100, "number of random cases")
		tier := fs.String("tier", "quick", "quick|thorough")
		prefix := fs.String("prefix", "g", "case id prefix")
		fs.Parse(os.Args[2:])
		e, ok := engines[*eng]
		if !ok {
			fmt.Fprintln(os.Stderr, "unknown engine", *eng)
			os.Exit(2)
		}
		rng := rand.New(rand.NewSource(*seed))
		w := bufio.NewWriterSize(os.Stdout, 1<<20)
		i := 0
		e.Gen(rng, *tier, *n, func(f string) {
			name := e.Name()
			if strings.HasPrefix(f, "@") { // "@engine fields": case for another engine's executor
				sp := strings.SplitN(f[1:], " ", 2)
				name, f = sp[0], sp[1]
			}
			fmt.Fprintf(w, "%s%d %s %s\n", *prefix, i, name, f)
			i++
		})
		w.Flush()
	case "exec":
		fs := flag.NewFlagSet("exec", flag.ExitOnError)
		cases := fs.String("cases", "", "case file")
		out := fs.String("out", "", "output file (canonical lines)")
		props := fs.String("props", "", "property oracle result file")
		stats := fs.String("stats", "", "stats json file")
		resume := fs.Bool("resume", false, "keep the results in <out>.part, skip the cases listed in <out>.blame, run the rest")
		fs.Parse(os.Args[2:])
		if err := execCases(*cases, *out, *props, *stats, *resume); err != nil {
			fmt.Fprintln(os.Stderr, err)
			os.Exit(2)
		}
	default:
		fmt.Fprintln(os.Stderr, "unknown subcommand")
		os.Exit(2)
	}
}

type caseLine struct {
	id     string
	engine string
	fields []string
	raw    string
}

func execCases(casesPath, outPath, propsPath, statsPath string, resume bool) error {
	f, err := os.Open(casesPath)
	if err != nil {
		return err
	}
	defer f.Close()
	var cs []caseLine
	sc := bufio.NewScanner(f)
	sc.Buffer(make([]byte, 1<<20), 1<<30)
	for sc.Scan() {
		line := sc.Text()
		if line == "" || strings.HasPrefix(line, "#") {
			continue
		}
		toks := strings.Split(line, " ")
		if len(toks) < 2 {
			return fmt.Errorf("bad case line %q", line)
		}
		cs = append(cs, caseLine{id: toks[0], engine: toks[1], fields: toks[2:], raw: line})
	}
	if err := sc.Err(); err != nil {
		return err
	}
	results := make([]Result, len(cs))
	have := make([]bool, len(cs))
	// results are appended to <out>.part as they finish, so that after a crash of the process
	// (a panic in a library goroutine, memory exhaustion) the driver can resume with the rest
	partPath := outPath + ".part"
	if resume {
		if pf, err := os.Open(partPath); err == nil {
			psc := bufio.NewScanner(pf)
			psc.Buffer(make([]byte, 1<<20), 1<<30)
			for psc.Scan() {
				var rec struct {
					I int
					R Result
				}
				if json.Unmarshal(psc.Bytes(), &rec) == nil && rec.I >= 0 && rec.I < len(cs) {
					results[rec.I], have[rec.I] = rec.R, true
				}
			}
			pf.Close()
		}
		if bf, err := os.ReadFile(outPath + ".blame"); err == nil {
			for _, tok := range strings.Fields(string(bf)) {
				if i, err := strconv.Atoi(tok); err == nil && i >= 0 && i < len(cs) && !have[i] {
					results[i], have[i] = Result{Out: "process-crash"}, true
				}
			}
		}
	} else {
		os.Remove(partPath)
	}
	partF, _ := os.OpenFile(partPath, os.O_APPEND|os.O_CREATE|os.O_WRONLY, 0o644)
	var partMu sync.Mutex
	// journal of started / finished cases: if a library goroutine panics the whole process dies,
	// and the driver finds the in-flight cases here
	jf, _ := os.Create(outPath + ".journal")
	var jmu sync.Mutex
	journal := func(tag string, i int) {
		if jf != nil {
			jmu.Lock()
			fmt.Fprintf(jf, "%s %d\n", tag, i)
			jmu.Unlock()
		}
	}
	// group by engine parallelism
	var wg sync.WaitGroup
	sems := map[string]chan struct{}{}
	for name, e := range engines {
		p := e.Parallel()
		if p < 1 {
			p = 1
		}
		if v := os.Getenv("VERIF_PAR"); v != "" {
			// the driver lowers the parallelism when a crash could not be pinned on one case
			if n, err := strconv.Atoi(v); err == nil && n >= 1 && n < p {
				p = n
			}
		}
		sems[name] = make(chan struct{}, p)
	}
	for i := range cs {
		if have[i] {
			continue
		}
		e, ok := engines[cs[i].engine]
		if !ok {
			results[i] = Result{Out: "bad-engine"}
			continue
		}
		sem := sems[cs[i].engine]
		sem <- struct{}{}
		wg.Add(1)
		go func(i int, e Engine) {
			defer wg.Done()
			defer func() { <-sem }()
			journal("S", i)
			fields := cs[i].fields
			if _, ok := e.(interface{ WantsID() }); ok {
				fields = append([]string{cs[i].id}, fields...)
			}
			results[i] = safeExec(e, fields)
			if os.Getenv("VERIF_PAR") == "1" {
				// sequential fallback after an unattributable crash: give back what the last case
				// allocated, so that a crash now belongs to the case that is running
				runtime.GC()
				debug.FreeOSMemory()
			}
			journal("E", i)
			if partF != nil {
				b, _ := json.Marshal(struct {
					I int
					R Result
				}{i, results[i]})
				partMu.Lock()
				partF.Write(append(b, '\n'))
				partMu.Unlock()
			}
		}(i, e)
	}
	wg.Wait()

	ow, err := os.Create(outPath)
	if err != nil {
		return err
	}
	bw := bufio.NewWriterSize(ow, 1<<20)
	pw, err := os.Create(propsPath)
	if err != nil {
		return err
	}
	bp := bufio.NewWriter(pw)
	tagCount := map[string]int{}
	distinct := map[string]bool{}
	nontrivial := 0
	for i, r := range results {
		// the oracle prints "<id> <out>"; engine name is dropped on the model side too
		fmt.Fprintf(bw, "%s %s\n", cs[i].id, r.Out)
		for _, p := range r.Props {
			fmt.Fprintf(bp, "%s\t%s\t%s\t%s\t%s\n", cs[i].id, p.Prop, p.Key, p.Desc, cs[i].raw)
		}
		nt := false
		for _, t := range r.Tags {
			tagCount[cs[i].engine+":"+t]++
			if t == "nontrivial" {
				nt = true
			}
		}
		if nt {
			key := cs[i].engine + " " + strings.Join(cs[i].fields, " ")
			if !distinct[key] {
				distinct[key] = true
				nontrivial++
			}
		}
	}
	bw.Flush()
	ow.Close()
	bp.Flush()
	pw.Close()
	if statsPath != "" {
		st := map[string]interface{}{
			"evaluations":         len(cs),
			"distinct_nontrivial": nontrivial,
			"tags":                tagCount,
		}
		b, _ := json.MarshalIndent(st, "", " ")
		if err := os.WriteFile(statsPath, b, 0o644); err != nil {
			return err
		}
	}
	return nil
}

func safeExec(e Engine, fields []string) Result {
	ch := make(chan Result, 1)
	go func() {
		defer func() {
			if x := recover(); x != nil {
				ch <- Result{Out: "harness-panic:" + strings.ReplaceAll(fmt.Sprint(x), " ", "_")}
			}
		}()
		ch <- e.Exec(fields)
	}()
	select {
	case r := <-ch:
		return r
	case <-time.After(caseTimeout):
		// a case that never finishes is reported, not waited for (the goroutine is abandoned)
		return Result{Out: "case-timeout", Props: []PropResult{{Prop: "HARNESS", Key: "case-timeout", Desc: "case did not finish"}}}
	}
}

var caseTimeout = 120 * time.Second
