package main

// Engine `tloop` (C01; model `Mqtt.TaskLoop`): the goroutine that runs a RetryClient's queued requests, and how it
// notices that SetClient installed a new client. A RetryClient is driven DIRECTLY (no reconnect loop), so that the
// harness decides when SetClient and Connect happen relative to requests that are running or waiting:
//
//   S   SetClient(a fresh BaseClient on a fresh scripted transport); earlier transports stay open
//   C   RetryClient.Connect on the current client, answered with CONNACK at once; returns before the next token
//       (ignored if there is no client yet or Connect was already called on the current one)
//   P   Publish (QoS 1) request number 0, 1, 2, …: accepted into the task queue
//   A   the broker acknowledges the PUBLISH that is waiting for its PUBACK: the running request returns
//
// After every token the goroutine runs until it blocks; the model says how many requests have been started by then
// (the plan), the harness waits for RetryStats.TotalTasks to get there and then for a moment more.
// Output: which client generation carried each request's PUBLISH (`t<i>@<g>`), or that the request was started on a
// client on which Connect had not returned (`t<i>!<g>`: the library reports ErrNotConnected and drops the request).
// Afterwards the harness connects the newest client if necessary, acknowledges everything, and every accepted request
// must have been acknowledged (C01).

import (
	"context"
	"errors"
	"fmt"
	"math/rand"
	"strings"
	"sync"
	"time"

	mqtt "github.com/at-wat/mqtt-go"
)

type tloopEngine struct {
	once  sync.Once
	plans map[string]string
}

func (e *tloopEngine) Name() string  { return "tloop" }
func (e *tloopEngine) Parallel() int { return 16 }
func (e *tloopEngine) WantsID()      {}

func (e *tloopEngine) Gen(rng *rand.Rand, tier string, n int, emit func(string)) {
	// the witness of D21 (a switch while a request is running, the next one queued behind it) and its neighbours
	emit("S C P P S A C A")
	emit("S C P P S A P C A A")
	emit("S C P S P A C A")
	emit("S C P P P S A C A A")
	emit("P P S C A A")
	emit("S P C A")
	emit("S C P A S C P A")
	emit("S C P S C A P A")
	emit("S C P P S S A C A")
	// backlogs behind a running request (the task queue grows while nothing is consumed), also across a switch
	for _, k := range []int{17, 20, 33, 40} {
		emit(strings.TrimSpace("S C P " + strings.Repeat("P ", k) + strings.Repeat("A ", k+1)))
		emit(strings.TrimSpace("S C P A P " + strings.Repeat("P ", k) + strings.Repeat("A ", k+1)))
		emit(strings.TrimSpace("S C P A P A P " + strings.Repeat("P ", k) + "S A C " + strings.Repeat("A ", k)))
	}
	for i := 0; i < n; i++ {
		var toks []string
		gen, connected, queued, running := 0, false, 0, false
		l := 4 + rng.Intn(14)
		for len(toks) < l {
			switch x := rng.Intn(10); {
			case x < 2:
				toks = append(toks, "S")
				gen++
				connected = false
			case x < 4:
				if gen > 0 && !connected {
					toks = append(toks, "C")
					connected = true
				}
			case x < 7:
				toks = append(toks, "P")
				queued++
			default:
				if queued > 0 || running {
					toks = append(toks, "A")
				}
			}
		}
		emit(strings.Join(toks, " "))
	}
}

type tloopConn struct {
	tr        *recTransport
	cli       *mqtt.BaseClient
	connected bool
}

func (e *tloopEngine) Exec(f []string) Result {
	e.once.Do(func() { e.plans = loadPlanFile() })
	id, toks := f[0], f[1:]
	var plan []int
	if p, ok := e.plans[id]; ok {
		for _, x := range strings.Split(strings.TrimSpace(p), ",") {
			if x != "" {
				plan = append(plan, atoi(x))
			}
		}
	}
	r := Result{Tags: []string{"nontrivial", fmt.Sprintf("len%d", len(toks)/8*8)}}
	var mu sync.Mutex
	var notConn []string // OnError reports of ErrNotConnected, with the generation current at that time
	var conns []*tloopConn
	rc := &mqtt.RetryClient{}
	rc.OnError = func(err error) {
		if errors.Is(err, mqtt.ErrNotConnected) {
			mu.Lock()
			notConn = append(notConn, fmt.Sprint(len(conns)))
			mu.Unlock()
		}
	}
	ctx, cancel := context.WithCancel(context.Background())
	defer cancel()
	next := 0
	accepted := 0
	switched := false
	// the PUBLISH packets seen so far on every transport, in order of appearance per transport
	type pubSeen struct {
		task, gen int
		id        uint16
	}
	scan := func() []pubSeen {
		var out []pubSeen
		mu.Lock()
		cs := append([]*tloopConn{}, conns...)
		mu.Unlock()
		for g, c := range cs {
			for _, w := range c.tr.writeList() {
				p, _, err := specDecode(w)
				if err != nil || p.Type != 0x30 {
					continue
				}
				out = append(out, pubSeen{task: atoi(strings.TrimPrefix(p.Topic, "t")), gen: g + 1, id: p.ID})
			}
		}
		return out
	}
	acked := map[int]bool{}
	ackOne := func() bool {
		for _, p := range scan() {
			if !acked[p.task] {
				acked[p.task] = true
				mu.Lock()
				tr := conns[p.gen-1].tr
				mu.Unlock()
				tr.feed(specAck(0x40, p.id))
				return true
			}
		}
		return false
	}
	settle := func(i int) {
		want := -1
		if i < len(plan) {
			want = plan[i]
		}
		deadline := time.Now().Add(400 * time.Millisecond)
		for want >= 0 && rc.Stats().TotalTasks < want && time.Now().Before(deadline) {
			time.Sleep(100 * time.Microsecond)
		}
		// every started request leaves a PUBLISH on some transport or an ErrNotConnected report
		for time.Now().Before(deadline) {
			mu.Lock()
			n := len(notConn)
			mu.Unlock()
			if len(scan())+n >= rc.Stats().TotalTasks {
				break
			}
			time.Sleep(100 * time.Microsecond)
		}
		time.Sleep(1500 * time.Microsecond)
	}
	doConnect := func() {
		mu.Lock()
		c := conns[len(conns)-1]
		mu.Unlock()
		if c.connected {
			return
		}
		c.connected = true
		fed := false
		c.tr.mu.Lock()
		c.tr.onWrite = func(p []byte) {
			c.tr.mu.Lock()
			first := !fed && len(p) > 0 && p[0] == 0x10
			if first {
				fed = true
			}
			c.tr.mu.Unlock()
			if first {
				c.tr.feed(specConnAck(false, 0))
			}
		}
		c.tr.mu.Unlock()
		cctx, ccancel := context.WithTimeout(ctx, 2*time.Second)
		if _, err := rc.Connect(cctx, "cid"); err != nil {
			r.Props = append(r.Props, viol("C09", "setup", "tloop: Connect on client %d: %v", len(conns), err))
		}
		ccancel()
	}
	for i, t := range toks {
		switch t {
		case "S":
			tr := newRecTransport()
			c := &tloopConn{tr: tr, cli: &mqtt.BaseClient{Transport: tr}}
			mu.Lock()
			conns = append(conns, c)
			switched = switched || len(conns) > 1
			mu.Unlock()
			rc.SetClient(ctx, c.cli)
		case "C":
			mu.Lock()
			n := len(conns)
			mu.Unlock()
			if n > 0 {
				doConnect()
			}
		case "P":
			m := &mqtt.Message{Topic: fmt.Sprintf("t%d", next), QoS: mqtt.QoS1, Payload: []byte{byte(next)}}
			next++
			if err := rc.Publish(ctx, m); err == nil {
				accepted++
			}
		case "A":
			ackOne()
		}
		settle(i)
	}
	// render: requests in the order in which they were started
	seen := scan()
	mu.Lock()
	nc := append([]string{}, notConn...)
	mu.Unlock()
	started := map[int]string{}
	for _, p := range seen {
		if _, dup := started[p.task]; !dup {
			started[p.task] = fmt.Sprintf("t%d@%d", p.task, p.gen)
		}
	}
	// a request that was started on an unconnected client left no packet: it is the next request in FIFO order that has none
	var parts []string
	nci := 0
	total := rc.Stats().TotalTasks
	for t := 0; t < next && len(parts) < total; t++ {
		if s, ok := started[t]; ok {
			parts = append(parts, s)
		} else if nci < len(nc) {
			parts = append(parts, fmt.Sprintf("t%d!%s", t, nc[nci]))
			nci++
		} else {
			break
		}
	}
	inflight := ""
	for _, p := range seen {
		if !acked[p.task] {
			inflight = fmt.Sprintf("run%d@%d", p.task, p.gen)
		}
	}
	queued := next - total
	pc := "wait"
	mu.Lock()
	cur := len(conns)
	curConnected := cur > 0 && conns[cur-1].connected
	mu.Unlock()
	switch {
	case inflight != "":
		pc = inflight
	case curConnected && queued == 0:
		pc = "idle"
	}
	r.Out = fmt.Sprintf("%s | q=%d pc=%s", strings.Join(parts, " "), queued, pc)
	lastTask := -1
	for _, p := range seen {
		if p.task < lastTask {
			r.Props = append(r.Props, viol("C03", "task-order", "script %q: request %d was sent after request %d (both went through the task queue; %d requests submitted)", strings.Join(toks, " "), p.task, lastTask, next))
			break
		}
		lastTask = p.task
	}
	if len(nc) > 0 {
		r.Props = append(r.Props, viol("C01", "started-on-unconnected-client", "script %q: %d accepted request(s) were started on a client on which Connect had not been called (generation %s) and dropped with ErrNotConnected", strings.Join(toks, " "), len(nc), nc[0]))
	}
	// finish: connect the newest client, acknowledge everything, and every accepted request must get through
	if cur == 0 {
		return r
	}
	doConnect()
	deadline := time.Now().Add(2 * time.Second)
	for time.Now().Before(deadline) {
		if !ackOne() {
			if len(acked) >= accepted {
				break
			}
			time.Sleep(300 * time.Microsecond)
		}
	}
	if len(acked) < accepted && len(r.Props) == 0 {
		var lost []string
		for t := 0; t < next; t++ {
			if !acked[t] {
				lost = append(lost, fmt.Sprintf("t%d", t))
			}
		}
		r.Props = append(r.Props, viol("C01", "request-lost", "script %q: accepted QoS 1 publishes %v were never sent although the newest client is connected and everything sent was acknowledged", strings.Join(toks, " "), lost))
	}
	if switched {
		r.Tags = append(r.Tags, "switch")
	}
	return r
}

func init() { register(&tloopEngine{}) }
