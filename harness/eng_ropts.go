package main

// Engine `ropts` (C13 / C16 / C18): the defaults reconnectClient.Connect applies to its options
// (reconnclient.go:70-75) compared with Model/ReconnOpts.lean. The real client is created with the
// options of the case and Connect is called with a context that is already done and a dialer that
// honours it, so that the loop ends after its first dial attempt; the options the loop would have
// worked with are then read through the hook VerifReconnOptions.

import (
	"context"
	"fmt"
	"math/rand"
	"time"

	mqtt "github.com/at-wat/mqtt-go"
)

func init() {
	register(&funcEngine{name: "ropts", par: 8,
		gen: func(rng *rand.Rand, tier string, n int, emit func(string)) {
			vals := []int64{0, 1, 25000000, 1000000000, -1, -1000000000, 3600000000000}
			kas := []int{0, 1, 30, 65535}
			for _, p := range vals {
				for _, t := range vals {
					for _, ka := range kas {
						emit(fmt.Sprintf("%d %d %d", p, t, ka))
					}
				}
			}
			for i := 0; i < n; i++ {
				pick := func() int64 {
					switch rng.Intn(4) {
					case 0:
						return 0
					case 1:
						return rng.Int63n(5000000000)
					case 2:
						return -rng.Int63n(5000000000)
					}
					return rng.Int63()
				}
				emit(fmt.Sprintf("%d %d %d", pick(), pick(), []int{0, rng.Intn(65536)}[rng.Intn(2)]))
			}
		},
		exec: func(f []string) Result {
			p, t, ka := int64(atoi64(f[0])), int64(atoi64(f[1])), atoi(f[2])
			var opts []mqtt.ReconnectOption
			if p != 0 {
				opts = append(opts, mqtt.WithPingInterval(time.Duration(p)))
			}
			if t != 0 {
				opts = append(opts, mqtt.WithTimeout(time.Duration(t)))
			}
			dialer := mqtt.DialerFunc(func(ctx context.Context) (*mqtt.BaseClient, error) {
				<-ctx.Done()
				return nil, ctx.Err()
			})
			cli, err := mqtt.NewReconnectClient(dialer, opts...)
			if err != nil {
				return Result{Out: "E:" + err.Error()}
			}
			ctx, cancel := context.WithCancel(context.Background())
			cancel()
			var copts []mqtt.ConnectOption
			if ka != 0 {
				copts = append(copts, mqtt.WithKeepAlive(uint16(ka)))
			}
			_, cerr := cli.Connect(ctx, "cid", copts...)
			ping, to, _, _, ok := mqtt.VerifReconnOptions(cli)
			if !ok {
				return Result{Out: "not-a-reconnect-client"}
			}
			r := Result{Out: fmt.Sprintf("ping=%d timeout=%d keepalive=%v bounded=%v", int64(ping), int64(to), ping > 0, to != 0),
				Tags: []string{"nontrivial", fmt.Sprintf("ping-set=%v", p != 0), fmt.Sprintf("timeout-set=%v", t != 0), fmt.Sprintf("keepalive-set=%v", ka != 0)}}
			if cerr == nil {
				r.Props = append(r.Props, viol("C09", "connect-nil-on-cancelled", "Connect with a finished context returned nil"))
			}
			if ping > 0 && to == 0 {
				r.Props = append(r.Props, viol("C13", "ping-timeout-zero", "keep-alive would run with interval %v and a ping timeout of 0: every ping expires at once (options ping=%d timeout=%d keepalive=%ds)", ping, p, t, ka))
				r.Props = append(r.Props, viol("C16", "ping-timeout-zero", "a healthy connection would be closed with a ping timeout: interval %v, ping timeout 0 (options ping=%d timeout=%d keepalive=%ds)", ping, p, t, ka))
			}
			if to == 0 && (p != 0 || t != 0 || ka != 0) {
				r.Props = append(r.Props, viol("C18", "connect-unbounded", "CONNECT is not bounded by any timeout although options ping=%d timeout=%d keepalive=%ds were given", p, t, ka))
			}
			return r
		}})
}
