package main

// Engine for C20: handlers behind ServeMux / ServeAsync run scripted mutations on what they
// receive; every handler must have seen the original content on entry and the caller's message
// must be untouched afterwards.

import (
	"fmt"
	"math/rand"
	"strings"
	"sync"

	mqtt "github.com/at-wat/mqtt-go"
)

func viewOf(m *mqtt.Message) string {
	return fmt.Sprintf("%s/%d/%d/%v/%v/%s", hexOrDash([]byte(m.Topic)), m.ID, m.QoS, m.Retain, m.Dup, hexOrDash(m.Payload))
}

func runScript(m *mqtt.Message, script string) {
	for _, c := range script {
		switch c {
		case 'T':
			m.Topic = "X"
		case 'P':
			if len(m.Payload) > 0 {
				m.Payload[0] ^= 0xff
			}
		case 'Z':
			for i := range m.Payload {
				m.Payload[i] = 0
			}
		case 'A':
			m.Payload = append(m.Payload, '!')
		case 'R':
			m.Payload = m.Payload[:0]
		case 'F':
			m.QoS = (m.QoS + 1) % 3
			m.Retain = !m.Retain
			m.Dup = !m.Dup
			m.ID++
		}
	}
}

func init() {
	register(&funcEngine{name: "c20",
		gen: func(rng *rand.Rand, tier string, n int, emit func(string)) {
			emit("mux 612f62 010203 1 0 1 7 2 TP ZF A")
			emit("async 612f62 010203 1 0 1 7 2 TP ZF A")
			emit("mux 61 - 0 0 0 0 1 AAP R")
			emit("mux 61 - 0 0 0 0 2 A AP AAZ") // zero-length payload with spare capacity: appends must stay private
			emit("async 61 - 1 0 0 9 2 AA AP")
			emit("asyncd 612f62 010203 1 0 1 7 3 TPF ZA")
			emit("asyncd 61 0102030405060708 0 0 0 0 4 Z N")
			// ServeAsync in front of a ServeMux (the paho wrapper's arrangement): scripts[0] = the dispatcher, the rest = mux handlers
			emit("asyncmuxd 612f62 010203 1 1 1 258 3 TPFZ N A ZT")
			emit("asyncmuxd 61 0102030405060708 0 0 0 0 2 ZA P N")
			ops := "TPZARF"
			for i := 0; i < n; i++ {
				k := 1 + rng.Intn(6)
				var scripts []string
				for j := 0; j < k; j++ {
					l := rng.Intn(5)
					s := ""
					for x := 0; x < l; x++ {
						s += string(ops[rng.Intn(len(ops))])
					}
					if s == "" {
						s = "N"
					}
					scripts = append(scripts, s)
				}
				mode := "mux"
				switch rng.Intn(4) {
				case 3:
					mode = "asyncmuxd"
					for len(scripts) < 3 {
						scripts = append(scripts, []string{"ZT", "N", "A"}[len(scripts)])
					}
					if scripts[0] == "N" {
						scripts[0] = "PTF"
					}
				case 0:
					mode = "async"
				case 1:
					mode = "asyncd"
					if len(scripts) < 2 {
						scripts = append(scripts, "ZT")
					}
					scripts = scripts[:2]
					if scripts[0] == "N" {
						scripts[0] = "PTF"
					}
				}
				emit(fmt.Sprintf("%s %s %s %d %d %d %d %d %s", mode, descBytes([]byte(randTopicString(rng))), descBytes(randBytes(rng, []int{0, rng.Intn(65), rng.Intn(65), rng.Intn(65), rng.Intn(65), rng.Intn(65)}[rng.Intn(6)])),
					rng.Intn(3), rng.Intn(2), rng.Intn(2), rng.Intn(65535), 1+rng.Intn(5), strings.Join(scripts, " ")))
			}
		},
		exec: func(f []string) Result {
			mode := f[0]
			msg := &mqtt.Message{Topic: string(mustDesc(f[1])), Payload: mustDesc(f[2]), QoS: mqtt.QoS(atoi(f[3])), Retain: f[4] == "1", Dup: f[5] == "1", ID: uint16(atoi(f[6]))}
			// give the payload spare capacity so that an in-place append would be visible if shared
			pl := make([]byte, len(msg.Payload), len(msg.Payload)+8)
			copy(pl, msg.Payload)
			for i := len(pl); i < cap(pl); i++ {
				pl[:cap(pl)][i] = 0xEE // sentinel: the caller's buffer behind the payload
			}
			msg.Payload = pl
			spareIntact := func() bool {
				full := pl[:cap(pl)]
				for i := len(pl); i < len(full); i++ {
					if full[i] != 0xEE {
						return false
					}
				}
				return true
			}
			orig := viewOf(msg)
			rounds := atoi(f[7])
			scripts := f[8:]
			var mu sync.Mutex
			var views []string
			r := Result{Tags: []string{"nontrivial", mode, fmt.Sprintf("handlers%d", len(scripts))}}
			if mode == "asyncmuxd" {
				// ServeAsync{Handler: mux}: the first mux handler is held back until the dispatcher has changed its
				// message, so every copy that is taken late would show the later content
				var views, wants []string
				hs := scripts[1:]
				for round := 0; round < rounds; round++ {
					gate := make(chan struct{})
					rv := make([]string, len(hs))
					var wg sync.WaitGroup
					mux := &mqtt.ServeMux{}
					for i, sc := range hs {
						i, sc := i, sc
						wg.Add(1)
						mux.Handle("#", mqtt.HandlerFunc(func(m *mqtt.Message) {
							defer wg.Done()
							if i == 0 {
								<-gate
							}
							rv[i] = viewOf(m)
							runScript(m, sc)
						}))
					}
					h := &mqtt.ServeAsync{Handler: mux}
					want := viewOf(msg)
					h.Serve(msg)
					runScript(msg, scripts[0])
					close(gate)
					wg.Wait()
					for range hs {
						wants = append(wants, want)
					}
					views = append(views, rv...)
				}
				r.Out = strings.Join(views, " ") + " | caller=" + viewOf(msg)
				for i := range views {
					if views[i] != wants[i] {
						r.Props = append(r.Props, viol("C20", "async-mux-saw-later-content", "handler %d behind ServeAsync+ServeMux saw %s, dispatched %s", i%len(hs), views[i], wants[i]))
						break
					}
				}
				return r
			}
			if mode == "asyncd" {
				// ServeAsync used directly: scripts[0] is what the CALLER does to its own message right
				// after Serve returned (a dispatcher reusing its buffer), scripts[1] what the handler does.
				var views, wants []string
				for round := 0; round < rounds; round++ {
					done := make(chan string, 1)
					h := &mqtt.ServeAsync{Handler: mqtt.HandlerFunc(func(m *mqtt.Message) {
						v := viewOf(m)
						runScript(m, scripts[1])
						done <- v
					})}
					wants = append(wants, viewOf(msg))
					h.Serve(msg)
					runScript(msg, scripts[0])
					views = append(views, <-done)
				}
				r.Out = strings.Join(views, " ") + " | caller=" + viewOf(msg)
				for i := range views {
					if views[i] != wants[i] {
						r.Props = append(r.Props, viol("C20", "async-saw-later-content", "async handler of round %d saw %s, dispatched %s", i, views[i], wants[i]))
						break
					}
				}
				return r
			}
			type keptMsg struct {
				m    *mqtt.Message
				view string
				who  int
			}
			var kept []keptMsg // what every handler call left in ITS message; nothing later may change it
			for round := 0; round < rounds; round++ {
				roundViews := make([]string, len(scripts))
				var wg sync.WaitGroup
				mux := &mqtt.ServeMux{}
				// a non-matching handler must not be called at all
				mux.Handle("never/matches/this", mqtt.HandlerFunc(func(m *mqtt.Message) {
					mu.Lock()
					r.Props = append(r.Props, viol("C14", "mux-dispatch", "non-matching handler called"))
					mu.Unlock()
				}))
				for i, sc := range scripts {
					i, sc := i, sc
					body := mqtt.HandlerFunc(func(m *mqtt.Message) {
						defer wg.Done()
						mu.Lock()
						roundViews[i] = viewOf(m)
						mu.Unlock()
						if m == msg {
							mu.Lock()
							r.Props = append(r.Props, viol("C20", "same-pointer", "handler %d received the caller's own *Message", i))
							mu.Unlock()
						}
						runScript(m, sc)
						mu.Lock()
						kept = append(kept, keptMsg{m: m, view: viewOf(m), who: i})
						mu.Unlock()
					})
					wg.Add(1)
					if mode == "async" {
						mux.Handle("#", &mqtt.ServeAsync{Handler: body})
					} else {
						mux.Handle("#", body)
					}
				}
				// C14: dispatch is decided by the topic the message HAD when Serve was called, whatever a handler does to its copy:
				// a handler registered (last) for the rewritten topic "X" must not run, one registered for the original topic must
				exactCalled := 0
				origTopic := msg.Topic
				plain := origTopic != "" && origTopic != "X" && !strings.ContainsAny(origTopic, "+#") && len(origTopic) < 200
				mux.Handle("X", mqtt.HandlerFunc(func(m *mqtt.Message) {
					mu.Lock()
					r.Props = append(r.Props, viol("C14", "mux-dispatch-after-rewrite", "the handler registered for \"X\" ran for a message published to %q after an earlier handler rewrote its copy's topic (scripts %v)", origTopic, scripts))
					mu.Unlock()
				}))
				if plain {
					if err := mux.Handle(origTopic, mqtt.HandlerFunc(func(m *mqtt.Message) {
						mu.Lock()
						exactCalled++
						mu.Unlock()
					})); err != nil {
						plain = false
					}
				}
				mux.Serve(msg)
				wg.Wait()
				mu.Lock()
				if plain && exactCalled != 1 {
					r.Props = append(r.Props, viol("C14", "mux-matching-handler-skipped", "the handler registered for the exact topic %q ran %d times for one message (scripts %v)", origTopic, exactCalled, scripts))
				}
				mu.Unlock()
				views = append(views, roundViews...)
			}
			r.Out = strings.Join(views, " ") + " | caller=" + viewOf(msg)
			for i, v := range views {
				if v != orig {
					r.Props = append(r.Props, viol("C20", "handler-saw-mutation", "handler call %d saw %s, original %s (scripts %v)", i, v, orig, scripts))
					break
				}
			}
			if viewOf(msg) != orig {
				r.Props = append(r.Props, viol("C20", "caller-message-changed", "caller's message is %s after Serve, was %s", viewOf(msg), orig))
			}
			if !spareIntact() {
				r.Props = append(r.Props, viol("C20", "caller-buffer-written", "a handler's append wrote into the caller's buffer behind the %d-byte payload (scripts %v): the copy shares the caller's backing array", len(pl), scripts))
			}
			mu.Lock()
			for _, k := range kept {
				if viewOf(k.m) != k.view {
					r.Props = append(r.Props, viol("C20", "kept-message-changed", "the message handler %d kept was %s when it returned and is %s after the other handlers ran (scripts %v)", k.who, k.view, viewOf(k.m), scripts))
					break
				}
			}
			mu.Unlock()
			return r
		}})
}
