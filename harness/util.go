package main

import (
	"context"
	"encoding/hex"
	"errors"
	"fmt"
	"io"
	"math/rand"
	"strconv"
	"strings"

	mqtt "github.com/at-wat/mqtt-go"
)

// ---- byte descriptors -------------------------------------------------------

func descBytes(b []byte) string {
	if len(b) == 0 {
		return "-"
	}
	// compress long runs of one byte
	if len(b) > 64 {
		same := true
		for _, x := range b {
			if x != b[0] {
				same = false
				break
			}
		}
		if same {
			return fmt.Sprintf("rep:%02x:%d", b[0], len(b))
		}
	}
	return hex.EncodeToString(b)
}

func parseDesc(s string) ([]byte, error) {
	var out []byte
	for _, part := range strings.Split(s, "+") {
		if part == "-" {
			continue
		}
		if strings.HasPrefix(part, "rep:") {
			f := strings.Split(part, ":")
			if len(f) != 3 {
				return nil, fmt.Errorf("bad rep %q", part)
			}
			b, err := hex.DecodeString(f[1])
			if err != nil || len(b) != 1 {
				return nil, fmt.Errorf("bad rep byte %q", part)
			}
			n, err := strconv.Atoi(f[2])
			if err != nil {
				return nil, err
			}
			chunk := make([]byte, n)
			for i := range chunk {
				chunk[i] = b[0]
			}
			out = append(out, chunk...)
			continue
		}
		b, err := hex.DecodeString(part)
		if err != nil {
			return nil, err
		}
		out = append(out, b...)
	}
	return out, nil
}

func mustDesc(s string) []byte {
	b, err := parseDesc(s)
	if err != nil {
		panic("bad descriptor " + s + ": " + err.Error())
	}
	return b
}

func checksum(b []byte) uint64 {
	h := uint64(7)
	for _, x := range b {
		h = (h*131 + uint64(x) + 1) % 4294967291
	}
	return h
}

func hexOrDash(b []byte) string {
	if len(b) == 0 {
		return "-"
	}
	return hex.EncodeToString(b)
}

// showBytes is the canonical rendering shared with Oracle.lean.
func showBytes(b []byte) string {
	if len(b) <= 64 {
		return hexOrDash(b)
	}
	return fmt.Sprintf("len=%d,sum=%d,head=%s", len(b), checksum(b), hex.EncodeToString(b[:32]))
}

func b01(b bool) string {
	if b {
		return "1"
	}
	return "0"
}

func atoi(s string) int {
	n, err := strconv.Atoi(s)
	if err != nil {
		panic("bad int " + s)
	}
	return n
}

// ---- error canonicalisation -------------------------------------------------

var errPanic = errors.New("panic")

// errClass maps an error to the first library sentinel errors.Is finds.
func errClass(err error) string {
	if err == nil {
		return "ok"
	}
	if err == errPanic {
		return "panic"
	}
	var rte *mqtt.RequestTimeoutError
	switch {
	case errors.Is(err, mqtt.ErrInvalidPacketLength):
		return "E:InvalidPacketLength"
	case errors.Is(err, mqtt.ErrInvalidPacket):
		return "E:InvalidPacket"
	case errors.Is(err, mqtt.ErrInvalidRune):
		return "E:InvalidRune"
	case errors.Is(err, mqtt.ErrPayloadLenExceeded):
		return "E:PayloadLenExceeded"
	case errors.Is(err, mqtt.ErrInvalidQoS):
		return "E:InvalidQoS"
	case errors.Is(err, mqtt.ErrNotConnected):
		return "E:NotConnected"
	case errors.Is(err, mqtt.ErrInvalidSubAck):
		return "E:InvalidSubAck"
	case errors.Is(err, mqtt.ErrInvalidTopicFilter):
		return "E:InvalidTopicFilter"
	case errors.Is(err, mqtt.ErrConnectionFailed):
		return "E:ConnectionFailed"
	case errors.Is(err, mqtt.ErrPingTimeout):
		return "E:PingTimeout"
	case errors.Is(err, mqtt.ErrClosedClient):
		return "E:ClosedClient"
	case errors.As(err, &rte):
		return "E:RequestTimeout"
	case errors.Is(err, mqtt.ErrClosedTransport):
		return "E:ClosedTransport"
	case errors.Is(err, context.Canceled), errors.Is(err, context.DeadlineExceeded):
		return "E:ctx"
	case errors.Is(err, io.ErrUnexpectedEOF):
		return "E:UnexpectedEOF"
	case errors.Is(err, io.EOF):
		return "E:EOF"
	case errors.Is(err, io.ErrClosedPipe):
		return "E:ClosedPipe"
	}
	return "E:other"
}

// guard runs f and converts a panic into errPanic.
func guard(f func() error) (err error) {
	defer func() {
		if x := recover(); x != nil {
			err = errPanic
		}
	}()
	return f()
}

func showResBytes(b []byte, err error) string {
	if err != nil {
		return errClass(err)
	}
	return "ok " + showBytes(b)
}

// ---- random helpers ---------------------------------------------------------

func pick(rng *rand.Rand, xs ...int) int { return xs[rng.Intn(len(xs))] }

func randBytes(rng *rand.Rand, n int) []byte {
	b := make([]byte, n)
	for i := range b {
		b[i] = byte(rng.Intn(256))
	}
	return b
}

var topicAlphabet = []string{"a", "b", "sensor", "+", "#", "/", "é", "日本", "$SYS", " ", "x/y"}

func randTopic(rng *rand.Rand) []byte {
	n := rng.Intn(5)
	var s string
	for i := 0; i < n; i++ {
		s += topicAlphabet[rng.Intn(len(topicAlphabet))]
		if rng.Intn(2) == 0 {
			s += "/"
		}
	}
	return []byte(s)
}

func atoi64(s string) int64 {
	v, err := strconv.ParseInt(s, 10, 64)
	if err != nil {
		panic("bad int64 " + s)
	}
	return v
}
