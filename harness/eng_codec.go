package main

// Engines for C05: what the client emits (pure Pack functions through the verif hooks and the
// public API on a recording transport), compared byte-for-byte with the Lean model and decoded
// by the independent decoder of mqttspec.go.

import (
	"bytes"
	"context"
	"fmt"
	"math/rand"
	"strings"

	mqtt "github.com/at-wat/mqtt-go"
)

type funcEngine struct {
	name string
	par  int
	gen  func(rng *rand.Rand, tier string, n int, emit func(string))
	exec func(f []string) Result
}

func (e *funcEngine) Name() string { return e.name }
func (e *funcEngine) Parallel() int {
	if e.par == 0 {
		return 1
	}
	return e.par
}
func (e *funcEngine) Gen(rng *rand.Rand, tier string, n int, emit func(string)) {
	e.gen(rng, tier, n, emit)
}
func (e *funcEngine) Exec(f []string) Result { return e.exec(f) }

var rlBoundaries = []int{0, 1, 126, 127, 128, 129, 16382, 16383, 16384, 16385, 2097150, 2097151, 2097152, 2097153,
	268435454, 268435455}

func viol(prop, key, f string, a ...interface{}) PropResult {
	return PropResult{Prop: prop, Key: key, Desc: strings.ReplaceAll(fmt.Sprintf(f, a...), "\t", " ")}
}

func init() {
	// ---- rl: remainingLength ------------------------------------------------
	register(&funcEngine{name: "rl",
		gen: func(rng *rand.Rand, tier string, n int, emit func(string)) {
			for _, b := range rlBoundaries {
				emit(fmt.Sprint(b))
			}
			emit("268435456") // panics (documented): both sides must agree
			for i := 0; i < n; i++ {
				var v int
				switch rng.Intn(4) {
				case 0:
					v = rng.Intn(128)
				case 1:
					v = 128 + rng.Intn(16384-128)
				case 2:
					v = 16384 + rng.Intn(2097152-16384)
				default:
					v = 2097152 + rng.Intn(268435456-2097152)
				}
				emit(fmt.Sprint(v))
			}
		},
		exec: func(f []string) Result {
			n := atoi(f[0])
			var out []byte
			err := guard(func() error { out = mqtt.VerifRemainingLength(n); return nil })
			r := Result{Out: showResBytes(out, err), Tags: []string{fmt.Sprintf("len%d", len(out)), "nontrivial"}}
			if n <= 268435455 {
				if err != nil {
					r.Props = append(r.Props, viol("C05", "rl-panic", "remainingLength(%d) panicked", n))
				} else {
					v, used, derr := specVarInt(out)
					if derr != nil || v != n || used != len(out) || len(out) != specMinimalLen(n) {
						r.Props = append(r.Props, viol("C05", "rl-wrong", "remainingLength(%d)=%x decodes to %d (%v), minimal %d bytes", n, out, v, derr, specMinimalLen(n)))
					}
				}
			}
			return r
		}})

	// ---- pub: pktPublish.Pack ----------------------------------------------
	register(&funcEngine{name: "pub",
		gen: func(rng *rand.Rand, tier string, n int, emit func(string)) {
			ids := []int{1, 255, 256, 65535, 0}
			// body length boundaries: body = 2 + len(topic) + (2 if qos>0) + len(payload)
			for _, target := range []int{127, 128, 16383, 16384, 2097151, 2097152} {
				for _, d := range []int{-2, -1, 0, 1, 2} {
					for qos := 0; qos <= 2; qos++ {
						topic := []byte("t/1")
						hdr := 2 + len(topic)
						if qos > 0 {
							hdr += 2
						}
						pl := target + d - hdr
						if pl < 0 {
							continue
						}
						if target > 100000 && !(qos == 1 || d == 0) {
							continue // keep the number of multi-megabyte cases small
						}
						emit(fmt.Sprintf("%s %d %d %d %d rep:%02x:%d", descBytes(topic), ids[rng.Intn(4)], qos, rng.Intn(2), rng.Intn(2), rng.Intn(256), pl))
					}
				}
			}
			// all flag combinations
			for qos := 0; qos <= 3; qos++ {
				for retain := 0; retain <= 1; retain++ {
					for dup := 0; dup <= 1; dup++ {
						emit(fmt.Sprintf("%s %d %d %d %d %s", descBytes([]byte("a/b")), 258, qos, retain, dup, descBytes([]byte{1, 2, 3})))
					}
				}
			}
			emit(fmt.Sprintf("rep:61:65535 7 1 0 0 -"))
			emit(fmt.Sprintf("rep:61:65536 7 1 0 0 -")) // topic too long: panics
			emit(fmt.Sprintf("- 7 0 0 0 -"))
			for i := 0; i < n; i++ {
				topic := randTopic(rng)
				id := ids[rng.Intn(len(ids))]
				if rng.Intn(2) == 0 {
					id = rng.Intn(65536)
				}
				qos := rng.Intn(3)
				if rng.Intn(40) == 0 {
					qos = 3 + rng.Intn(253)
				}
				pl := rng.Intn(40)
				if rng.Intn(5) == 0 {
					pl = rng.Intn(400)
				}
				emit(fmt.Sprintf("%s %d %d %d %d %s", descBytes(topic), id, qos, rng.Intn(2), rng.Intn(2), descBytes(randBytes(rng, pl))))
			}
		},
		exec: func(f []string) Result {
			m := &mqtt.Message{Topic: string(mustDesc(f[0])), ID: uint16(atoi(f[1])), QoS: mqtt.QoS(atoi(f[2])),
				Retain: f[3] == "1", Dup: f[4] == "1", Payload: mustDesc(f[5])}
			var out []byte
			err := guard(func() error { out = mqtt.VerifPackPublish(m); return nil })
			r := Result{Out: showResBytes(out, err), Tags: []string{fmt.Sprintf("qos%d", m.QoS), fmt.Sprintf("rl%d", specMinimalLen(len(out))), "nontrivial"}}
			fits := m.QoS <= 2 && len(m.Topic) <= 65535
			if fits {
				r.Props = append(r.Props, checkPublishBytes("C05", out, err, m)...)
			}
			return r
		}})

	// ---- conn: pktConnect.Pack ----------------------------------------------
	register(&funcEngine{name: "conn",
		gen: func(rng *rand.Rand, tier string, n int, emit func(string)) {
			strs := []string{"-", "75", "757365722f6e616d65"}
			// all 2^6 presence combinations x will qos x level
			for mask := 0; mask < 64; mask++ {
				for _, wq := range []int{0, 1, 2} {
					clean := mask & 1
					user, pass, will, cid := "-", "-", "none", "-"
					if mask&2 != 0 {
						user = strs[1+rng.Intn(2)]
					}
					if mask&4 != 0 {
						pass = "70617373"
					}
					if mask&8 != 0 {
						will = fmt.Sprintf("%s,%s,%d,%d", "772f74", descBytes(randBytes(rng, rng.Intn(5))), wq, (mask>>4)&1)
					} else if wq != 0 {
						continue
					}
					if mask&32 != 0 {
						cid = "636c69656e74"
					}
					emit(fmt.Sprintf("%d %d %d %s %s %s %s", pick(rng, 3, 4), clean, pick(rng, 0, 1, 60, 65535), cid, user, pass, will))
				}
			}
			// long fields: every option present with one field growing across 256 / 65535-byte marks, so that any
			// packing scheme with a size class or a buffer that is re-allocated in between shows
			for _, l := range []int{200, 230, 243, 244, 245, 250, 255, 256, 257, 300, 1000, 65535} {
				emit(fmt.Sprintf("4 1 60 rep:63:%d 75 70617373 772f74,0102,1,1", l))
				emit(fmt.Sprintf("4 0 60 636c 75 70617373 772f74,rep:77:%d,2,0", l))
				emit(fmt.Sprintf("4 1 0 636c rep:75:%d 70617373 none", l))
				emit(fmt.Sprintf("4 1 0 636c rep:75:%d 70617373 rep:74:%d,01,0,1", l, l/2+1))
			}
			for i := 0; i < n; i++ {
				will := "none"
				if rng.Intn(2) == 0 {
					will = fmt.Sprintf("%s,%s,%d,%d", descBytes(randTopic(rng)), descBytes(randBytes(rng, rng.Intn(300))), rng.Intn(3), rng.Intn(2))
				}
				user, pass := "-", "-"
				if rng.Intn(2) == 0 {
					user = descBytes(randBytes(rng, 1+rng.Intn(20)))
				}
				if rng.Intn(2) == 0 {
					pass = descBytes(randBytes(rng, 1+rng.Intn(20)))
				}
				emit(fmt.Sprintf("%d %d %d %s %s %s %s", pick(rng, 3, 4, 4, 4, 5), rng.Intn(2), rng.Intn(65536),
					descBytes(randBytes(rng, rng.Intn(30))), user, pass, will))
			}
		},
		exec: func(f []string) Result {
			level := byte(atoi(f[0]))
			clean := f[1] == "1"
			ka := uint16(atoi(f[2]))
			cid, user, pass := string(mustDesc(f[3])), string(mustDesc(f[4])), string(mustDesc(f[5]))
			var will *mqtt.Message
			if f[6] != "none" {
				w := strings.Split(f[6], ",")
				will = &mqtt.Message{Topic: string(mustDesc(w[0])), Payload: mustDesc(w[1]), QoS: mqtt.QoS(atoi(w[2])), Retain: w[3] == "1"}
			}
			var out []byte
			err := guard(func() error { out = mqtt.VerifPackConnect(level, clean, ka, cid, user, pass, will); return nil })
			r := Result{Out: showResBytes(out, err), Tags: []string{"nontrivial", fmt.Sprintf("will=%v,user=%v,pass=%v", will != nil, user != "", pass != "")}}
			r.Props = append(r.Props, checkConnectBytes("C05", out, err, level, clean, ka, cid, user, pass, will)...)
			return r
		}})

	// ---- sub / unsub --------------------------------------------------------
	register(&funcEngine{name: "sub",
		gen: func(rng *rand.Rand, tier string, n int, emit func(string)) {
			emit("1 61 0")
			emit("65535 612f23 2 2b 1 - 0")
			emit("7 61 3") // invalid QoS: panics
			for i := 0; i < n; i++ {
				k := 1 + rng.Intn(20)
				var parts []string
				for j := 0; j < k; j++ {
					parts = append(parts, descBytes(randTopic(rng)), fmt.Sprint(rng.Intn(3)))
				}
				emit(fmt.Sprintf("%d %s", 1+rng.Intn(65535), strings.Join(parts, " ")))
			}
		},
		exec: func(f []string) Result {
			id := uint16(atoi(f[0]))
			var subs []mqtt.Subscription
			ok := true
			for i := 1; i+1 < len(f); i += 2 {
				q := atoi(f[i+1])
				if q > 2 {
					ok = false
				}
				subs = append(subs, mqtt.Subscription{Topic: string(mustDesc(f[i])), QoS: mqtt.QoS(q)})
			}
			var out []byte
			err := guard(func() error { out = mqtt.VerifPackSubscribe(id, subs); return nil })
			r := Result{Out: showResBytes(out, err), Tags: []string{"nontrivial", fmt.Sprintf("nsubs%d", len(subs)/5*5)}}
			if ok {
				if err != nil {
					r.Props = append(r.Props, viol("C05", "sub-panic", "SUBSCRIBE pack failed: %v", err))
				} else if p, rest, derr := specDecode(out); derr != nil || len(rest) != 0 || p.Type != 0x80 || p.ID != id || len(p.Filters) != len(subs) {
					r.Props = append(r.Props, viol("C05", "sub-malformed", "SUBSCRIBE %x: %v", out, derr))
				} else {
					for i := range subs {
						if p.Filters[i] != subs[i].Topic || p.QoSs[i] != byte(subs[i].QoS) {
							r.Props = append(r.Props, viol("C05", "sub-fields", "SUBSCRIBE filter %d: got %q/%d want %q/%d", i, p.Filters[i], p.QoSs[i], subs[i].Topic, subs[i].QoS))
						}
					}
				}
			}
			return r
		}})
	register(&funcEngine{name: "unsub",
		gen: func(rng *rand.Rand, tier string, n int, emit func(string)) {
			emit("1 61")
			emit("65535 612f23 2b -")
			for i := 0; i < n; i++ {
				k := 1 + rng.Intn(20)
				var parts []string
				for j := 0; j < k; j++ {
					parts = append(parts, descBytes(randTopic(rng)))
				}
				emit(fmt.Sprintf("%d %s", 1+rng.Intn(65535), strings.Join(parts, " ")))
			}
		},
		exec: func(f []string) Result {
			id := uint16(atoi(f[0]))
			var ts []string
			for _, x := range f[1:] {
				ts = append(ts, string(mustDesc(x)))
			}
			var out []byte
			err := guard(func() error { out = mqtt.VerifPackUnsubscribe(id, ts); return nil })
			r := Result{Out: showResBytes(out, err), Tags: []string{"nontrivial"}}
			if err != nil {
				r.Props = append(r.Props, viol("C05", "unsub-panic", "UNSUBSCRIBE pack failed: %v", err))
			} else if p, rest, derr := specDecode(out); derr != nil || len(rest) != 0 || p.Type != 0xa0 || p.ID != id || strings.Join(p.Filters, "\x00") != strings.Join(ts, "\x00") {
				r.Props = append(r.Props, viol("C05", "unsub-fields", "UNSUBSCRIBE %x: %v", out, derr))
			}
			return r
		}})

	// ---- ack / empty --------------------------------------------------------
	register(&funcEngine{name: "ack",
		gen: func(rng *rand.Rand, tier string, n int, emit func(string)) {
			for _, k := range []int{0x40, 0x50, 0x60, 0x70} {
				for _, id := range []int{1, 255, 256, 65535} {
					emit(fmt.Sprintf("%d %d", k, id))
				}
				for i := 0; i < n/8; i++ {
					emit(fmt.Sprintf("%d %d", k, 1+rng.Intn(65535)))
				}
			}
		},
		exec: func(f []string) Result {
			k, id := byte(atoi(f[0])), uint16(atoi(f[1]))
			var out []byte
			err := guard(func() error { out = mqtt.VerifPackAck(k, id); return nil })
			r := Result{Out: showResBytes(out, err), Tags: []string{"nontrivial"}}
			if p, rest, derr := specDecode(out); err != nil || derr != nil || len(rest) != 0 || p.Type != k || p.ID != id {
				r.Props = append(r.Props, viol("C05", "ack-fields", "ack %x id %d packed as %x: %v", k, id, out, derr))
			}
			return r
		}})
	register(&funcEngine{name: "empty",
		gen: func(rng *rand.Rand, tier string, n int, emit func(string)) {
			emit("192")
			emit("224")
		},
		exec: func(f []string) Result {
			k := byte(atoi(f[0]))
			var out []byte
			err := guard(func() error { out = mqtt.VerifPackEmpty(k); return nil })
			r := Result{Out: showResBytes(out, err), Tags: []string{"nontrivial"}}
			if p, rest, derr := specDecode(out); err != nil || derr != nil || len(rest) != 0 || p.Type != k {
				r.Props = append(r.Props, viol("C05", "empty-fields", "packet %x packed as %x: %v", k, out, derr))
			}
			return r
		}})

	// ---- val: ValidateMessage -----------------------------------------------
	register(&funcEngine{name: "val",
		gen: func(rng *rand.Rand, tier string, n int, emit func(string)) {
			for _, max := range []int{0, 1, 10} {
				for qos := 0; qos <= 4; qos++ {
					for _, pl := range []int{0, 1, 9, 10, 11} {
						emit(fmt.Sprintf("%d %d %d", max, qos, pl))
					}
				}
			}
			for i := 0; i < n/4; i++ {
				emit(fmt.Sprintf("%d %d %d", rng.Intn(50), pick(rng, 0, 1, 2, 3, 128, 255), rng.Intn(60)))
			}
		},
		exec: func(f []string) Result {
			max, qos, pl := atoi(f[0]), atoi(f[1]), atoi(f[2])
			c := &mqtt.BaseClient{MaxPayloadLen: max}
			err := c.ValidateMessage(&mqtt.Message{QoS: mqtt.QoS(qos), Payload: make([]byte, pl)})
			r := Result{Out: errClass(err), Tags: []string{"nontrivial", errClass(err)}}
			want := qos > 2 || (max != 0 && pl >= max)
			if want != (err != nil) {
				r.Props = append(r.Props, viol("C05", "validate", "ValidateMessage(max=%d,qos=%d,len=%d) = %v", max, qos, pl, err))
			}
			return r
		}})

	// ---- apipub: BaseClient.Publish on a recording transport ------------------
	register(&funcEngine{name: "apipub",
		gen: func(rng *rand.Rand, tier string, n int, emit func(string)) {
			emit("0 5 612f62 0 1 0 0 0102")
			emit("0 65535 612f62 0 2 1 0 0102") // counter wraps: id 1
			emit("0 65534 612f62 0 1 0 1 -")
			emit("0 9 612f62 77 1 0 0 01")      // caller-provided id kept
			emit("4 9 612f62 0 1 0 0 010203")   // below max
			emit("4 9 612f62 0 1 0 0 01020304") // at max: rejected
			emit("0 9 612f62 0 3 0 0 01")       // QoS 3 rejected
			emit("0 131071 612f62 0 1 0 0 01")  // counter reaches 0x20000: the low 16 bits are 0 and must be skipped
			emit("0 196607 612f62 0 2 0 0 01")
			emit("0 4294967295 612f62 0 1 0 1 01")
			for i := 0; i < n; i++ {
				max := pick(rng, 0, 0, 0, 8, 16)
				qos := pick(rng, 0, 1, 2, 2, 1, 3)
				id := 0
				if rng.Intn(4) == 0 {
					id = 1 + rng.Intn(65535)
				}
				emit(fmt.Sprintf("%d %d %s %d %d %d %d %s", max, rng.Intn(1<<32), descBytes(randTopic(rng)), id, qos, rng.Intn(2), rng.Intn(2), descBytes(randBytes(rng, rng.Intn(24)))))
			}
		},
		exec: func(f []string) Result {
			max, idLast := atoi(f[0]), uint32(atoi(f[1]))
			m := &mqtt.Message{Topic: string(mustDesc(f[2])), ID: uint16(atoi(f[3])), QoS: mqtt.QoS(atoi(f[4])),
				Retain: f[5] == "1", Dup: f[6] == "1", Payload: mustDesc(f[7])}
			callerID := m.ID
			tr := newRecTransport()
			c := &mqtt.BaseClient{Transport: tr, MaxPayloadLen: max}
			connectRec(c, tr)
			c.VerifSetIDLast(idLast)
			ctx, cancel := context.WithCancel(context.Background())
			cancel()
			before := tr.written()
			var err error
			perr := guard(func() error { err = c.Publish(ctx, m); return nil })
			if perr != nil {
				err = perr
			}
			w := tr.written()[len(before):]
			tr.Close()
			r := Result{Out: fmt.Sprintf("%s written=%s id=%d", errClass(err), hexOrDash(w), m.ID), Tags: []string{"nontrivial", errClass(err)}}
			rejected := m.QoS > 2 || (max != 0 && len(m.Payload) >= max)
			if rejected {
				if len(w) != 0 || err == nil {
					r.Props = append(r.Props, viol("C05", "not-rejected", "message the protocol cannot carry: err=%v written=%x", err, w))
				}
			} else {
				want := *m
				want.Dup = false // Publish always sends DUP=0 on first transmission
				r.Props = append(r.Props, checkPublishBytes("C05", w, nil, &want)...)
				if len(w) > 0 && w[0]&0xf0 == 0x30 && w[0]&0x08 != 0 {
					r.Props = append(r.Props, viol("C12", "dup-on-first", "first transmission of a message carries DUP=1 (the caller's Message.Dup was %v)", f[6] == "1"))
				}
				if callerID != 0 && m.ID != callerID {
					r.Props = append(r.Props, viol("C15", "caller-id-changed", "caller id %d replaced by %d", callerID, m.ID))
				}
				if m.QoS > 0 && m.ID == 0 {
					r.Props = append(r.Props, viol("C15", "id-zero", "identifier 0 used"))
					r.Props = append(r.Props, viol("C05", "publish-id-zero", "the written QoS %d PUBLISH carries packet identifier 0, which MQTT-2.3.1-1 forbids: not a well-formed control packet (%x)", int(m.QoS), w))
				}
			}
			return r
		}})

	// ---- apiconn: BaseClient.Connect options → CONNECT bytes ---------------
	register(&funcEngine{name: "apiconn",
		gen: func(rng *rand.Rand, tier string, n int, emit func(string)) {
			emit("636c - - 0 0 0 none")
			emit("636c 75 70 1 1 60 772f74,01,1,1")
			emit("636c - 70 1 0 0 none") // password without user name (known finding)
			emit("636c 75 - 1 3 0 none")
			for _, l := range []int{230, 244, 250, 256, 300, 1000} {
				emit(fmt.Sprintf("636c 75 70 1 1 60 772f74,rep:77:%d,1,1", l))
				emit(fmt.Sprintf("636c rep:75:%d 70 1 1 60 none", l))
			}
			for i := 0; i < n/2; i++ {
				will := "none"
				if rng.Intn(2) == 0 {
					will = fmt.Sprintf("%s,%s,%d,%d", descBytes(randTopic(rng)), descBytes(randBytes(rng, rng.Intn(20))), rng.Intn(3), rng.Intn(2))
				}
				user, pass := "-", "-"
				if rng.Intn(2) == 0 {
					user = descBytes([]byte("user"))
					if rng.Intn(2) == 0 {
						pass = descBytes([]byte("pw"))
					}
				}
				// setLevel: 0 = option not given (default 4)
				emit(fmt.Sprintf("%s %s %s %d %d %d %s", descBytes(randBytes(rng, rng.Intn(12))), user, pass, rng.Intn(2), pick(rng, 0, 0, 3, 4), pick(rng, 0, 30, 65535), will))
			}
		},
		exec: func(f []string) Result {
			cid, user, pass := string(mustDesc(f[0])), string(mustDesc(f[1])), string(mustDesc(f[2]))
			clean, level, ka := f[3] == "1", atoi(f[4]), uint16(atoi(f[5]))
			var opts []mqtt.ConnectOption
			var will *mqtt.Message
			if user != "" || pass != "" {
				opts = append(opts, mqtt.WithUserNamePassword(user, pass))
			}
			if clean {
				opts = append(opts, mqtt.WithCleanSession(true))
			}
			if level != 0 {
				opts = append(opts, mqtt.WithProtocolLevel(mqtt.ProtocolLevel(level)))
			}
			if ka != 0 {
				opts = append(opts, mqtt.WithKeepAlive(ka))
			}
			if f[6] != "none" {
				w := strings.Split(f[6], ",")
				will = &mqtt.Message{Topic: string(mustDesc(w[0])), Payload: mustDesc(w[1]), QoS: mqtt.QoS(atoi(w[2])), Retain: w[3] == "1"}
				opts = append(opts, mqtt.WithWill(will))
			}
			tr := newRecTransport()
			c := &mqtt.BaseClient{Transport: tr}
			ctx, cancel := context.WithCancel(context.Background())
			cancel()
			_, err := c.Connect(ctx, cid, opts...)
			w := tr.written()
			tr.Close()
			<-c.Done()
			r := Result{Out: fmt.Sprintf("%s written=%s", errClass(err), hexOrDash(w)), Tags: []string{"nontrivial"}}
			lv := byte(level)
			if level == 0 {
				lv = 4
			}
			r.Props = append(r.Props, checkConnectBytes("C05", w, nil, lv, clean, ka, cid, user, pass, will)...)
			return r
		}})
}

func checkPublishBytes(prop string, out []byte, err error, m *mqtt.Message) []PropResult {
	if err != nil {
		return []PropResult{viol(prop, "pub-panic", "PUBLISH pack failed: %v", err)}
	}
	p, rest, derr := specDecode(out)
	if derr != nil && m.QoS > 0 && m.ID == 0 {
		return nil // identifier 0 supplied by the case itself (pure Pack engine); API engines never do
	}
	if derr != nil || len(rest) != 0 {
		return []PropResult{viol(prop, "pub-malformed", "PUBLISH %s: %v", showBytes(out), derr)}
	}
	var v []PropResult
	if p.Type != 0x30 || p.Topic != m.Topic || !bytes.Equal(p.Payload, m.Payload) || p.QoS != byte(m.QoS) || p.Retain != m.Retain || p.Dup != m.Dup {
		v = append(v, viol(prop, "pub-fields", "PUBLISH fields differ: got topic=%q qos=%d retain=%v dup=%v len=%d", p.Topic, p.QoS, p.Retain, p.Dup, len(p.Payload)))
	}
	if (m.QoS > 0) != p.HasID || (p.HasID && p.ID != m.ID) {
		v = append(v, viol(prop, "pub-id", "PUBLISH id: has=%v id=%d want qos=%d id=%d", p.HasID, p.ID, m.QoS, m.ID))
	}
	_, used, _ := specVarInt(out[1:])
	if used != specMinimalLen(len(out)-1-used) {
		v = append(v, viol(prop, "pub-rl", "remaining length not minimal"))
	}
	return v
}

func checkConnectBytes(prop string, out []byte, err error, level byte, clean bool, ka uint16, cid, user, pass string, will *mqtt.Message) []PropResult {
	if err != nil {
		return []PropResult{viol(prop, "conn-panic", "CONNECT pack failed: %v", err)}
	}
	p, rest, derr := specDecode(out)
	if derr != nil || len(rest) != 0 {
		key := "conn-malformed"
		if pass != "" && user == "" {
			key = "password-without-username"
		}
		return []PropResult{viol(prop, key, "CONNECT %x: %v", out, derr)}
	}
	var v []PropResult
	bad := func(f string, a ...interface{}) { v = append(v, viol(prop, "conn-fields", f, a...)) }
	if p.Type != 0x10 || p.Level != level || p.CleanSes != clean || p.KeepAlive != ka || p.ClientID != cid {
		bad("CONNECT header fields differ: level=%d clean=%v ka=%d cid=%q", p.Level, p.CleanSes, p.KeepAlive, p.ClientID)
	}
	if p.HasUser != (user != "") || p.User != user {
		bad("user name: flag=%v %q want %q", p.HasUser, p.User, user)
	}
	if p.HasPass != (pass != "") || p.Pass != pass {
		bad("password: flag=%v %q want %q", p.HasPass, p.Pass, pass)
	}
	if p.HasWill != (will != nil) {
		bad("will flag=%v want %v", p.HasWill, will != nil)
	} else if will != nil {
		if p.WillTopic != will.Topic || !bytes.Equal(p.WillPayload, will.Payload) || p.WillQoS != byte(will.QoS) || p.WillRetain != will.Retain {
			bad("will fields differ")
		}
	}
	return v
}
