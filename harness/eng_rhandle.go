package main

// Engine `rhandle` (C19 / C12, model-less): an interrupted QoS>=1 publish, subscribe or
// unsubscribe on the base client returns an ErrorWithRetry whose Retry re-issues that same
// request on the client it is given.

import (
	"bytes"
	"context"
	"errors"
	"fmt"
	"math/rand"
	"time"

	mqtt "github.com/at-wat/mqtt-go"
)

func init() {
	register(&funcEngine{name: "rhandle", par: 16,
		gen: func(rng *rand.Rand, tier string, n int, emit func(string)) {
			for _, kind := range []string{"pub1", "pub2a", "pub2b", "pub2w", "sub", "unsub"} {
				for _, cause := range []string{"cancel", "close", "wfail"} {
					if kind == "pub2w" && cause != "wfail" {
						continue
					}
					for _, id := range []int{1, 4660, 65535} {
						emit(fmt.Sprintf("%s %s %d %d", kind, cause, id, 0))
						emit(fmt.Sprintf("%s %s %d %d", kind, cause, id, 1))
					}
				}
			}
		},
		exec: func(f []string) Result {
			kind, cause, id, retain := f[0], f[1], atoi(f[2]), f[3] == "1"
			r := Result{Out: "", Tags: []string{"nontrivial", kind + "/" + cause}}
			fail := func(prop, key, format string, a ...interface{}) Result {
				r.Props = append(r.Props, viol(prop, key, "%s/%s id %d: %s", kind, cause, id, fmt.Sprintf(format, a...)))
				return r
			}
			tr1 := newRecTransport()
			c1 := &mqtt.BaseClient{Transport: tr1}
			if _, err := connectRec(c1, tr1); err != nil {
				return fail("C19", "setup", "connect: %v", err)
			}
			ctx, cancel := context.WithCancel(context.Background())
			defer cancel()
			msg := &mqtt.Message{Topic: "a/b", ID: uint16(id), QoS: mqtt.QoS1, Retain: retain, Payload: []byte{9, 8, 7}}
			if kind != "pub1" {
				msg.QoS = mqtt.QoS2
			}
			subs := []mqtt.Subscription{{Topic: "x/+", QoS: mqtt.QoS1}, {Topic: "y/#", QoS: mqtt.QoS2}}
			topics := []string{"x/+", "y/#"}
			if cause == "wfail" && kind != "pub2w" && kind != "pub2b" {
				tr1.setRefuse(true)
			}
			if kind == "sub" || kind == "unsub" {
				c1.VerifSetIDLast(uint32(id) - 1) // the interrupted request draws identifier `id`
			}
			errCh := make(chan error, 1)
			go func() {
				switch kind {
				case "sub":
					_, err := c1.Subscribe(ctx, subs...)
					errCh <- err
				case "unsub":
					errCh <- c1.Unsubscribe(ctx, topics...)
				default:
					errCh <- c1.Publish(ctx, msg)
				}
			}()
			waitWrites := func(tr *recTransport, n int) bool {
				deadline := time.Now().Add(3 * time.Second)
				for len(tr.writeList()) < n {
					if time.Now().After(deadline) {
						return false
					}
					time.Sleep(100 * time.Microsecond)
				}
				return true
			}
			if !(cause == "wfail" && kind != "pub2w" && kind != "pub2b") {
				if !waitWrites(tr1, 1) {
					return fail("C19", "setup", "request was not written")
				}
				if kind == "pub2b" || kind == "pub2w" {
					if kind == "pub2w" || cause == "wfail" {
						tr1.setRefuse(true) // the PUBREL write will fail
					}
					tr1.feed(specAck(0x50, uint16(id)))
					if kind == "pub2b" && cause != "wfail" && !waitWrites(tr1, 2) {
						return fail("C19", "setup", "PUBREL was not written")
					}
				}
				switch cause {
				case "cancel":
					cancel()
				case "close":
					tr1.feedEOF()
				}
			}
			var err error
			select {
			case err = <-errCh:
			case <-time.After(5 * time.Second):
				return fail("C11", "call-never-returned", "the interrupted call did not return")
			}
			if err == nil {
				return fail("C19", "setup", "the interrupted call returned nil")
			}
			h, ok := err.(mqtt.ErrorWithRetry)
			if !ok {
				return fail("C19", "retry-handle-lost", "error %v does not implement ErrorWithRetry", err)
			}
			before1 := len(tr1.writeList())
			tr2 := newRecTransport()
			c2 := &mqtt.BaseClient{Transport: tr2}
			if _, err := connectRec(c2, tr2); err != nil {
				return fail("C19", "setup", "connect 2: %v", err)
			}
			ctx2, cancel2 := context.WithCancel(context.Background())
			nBefore := 0
			var otherID uint16
			if kind == "sub" || kind == "unsub" {
				// C15: another request is outstanding on the new connection and happens to hold the identifier the
				// interrupted request had on the old one (the counters of different connections are unrelated)
				c2.VerifSetIDLast(uint32(id) - 1)
				go c2.Subscribe(ctx2, mqtt.Subscription{Topic: "other/#", QoS: mqtt.QoS0})
				if !waitWrites(tr2, 1) {
					cancel2()
					return fail("C19", "setup", "the concurrent Subscribe was not written")
				}
				if op, _, e := specDecode(tr2.writeList()[0]); e == nil {
					otherID = op.ID
				}
				nBefore = 1
			}
			rerr := make(chan error, 1)
			go func() { rerr <- h.Retry(ctx2, c2) }()
			if !waitWrites(tr2, nBefore+1) {
				cancel2()
				return fail("C19", "retry-wrong-client", "Retry wrote nothing on the client it was given (client 1 got %d new writes)", len(tr1.writeList())-before1)
			}
			w := tr2.writeList()[nBefore]
			if retain {
				// half of the cases: the broker answers the re-issued request on the NEW connection; the retry handle must
				// complete on that acknowledgement (C19: "Retry re-issues the same request on the client it is given")
				if pw, _, e := specDecode(w); e == nil {
					switch pw.Type {
					case 0x30:
						if pw.QoS == 1 {
							tr2.feed(specAck(0x40, pw.ID))
						} else {
							tr2.feed(specAck(0x50, pw.ID))
							if waitWrites(tr2, nBefore+2) {
								tr2.feed(specAck(0x70, pw.ID))
							}
						}
					case 0x60:
						tr2.feed(specAck(0x70, pw.ID))
					case 0x80:
						tr2.feed(specSubAck(pw.ID, []byte{1, 2}))
					case 0xa0:
						tr2.feed(specAck(0xb0, pw.ID))
					}
				}
				select {
				case e2 := <-rerr:
					if e2 != nil {
						r.Props = append(r.Props, viol("C19", "retry-not-completed-by-ack", "%s/%s: the re-issued request was acknowledged on the new connection but Retry returned %v", kind, cause, e2))
					} else if pw, _, e := specDecode(w); e == nil && (kind == "pub1" || kind == "pub2a") && pw.Type != 0x30 {
						// C07: the exchange was interrupted before PUBACK / PUBREC; success now rests on an acknowledgement of a
						// later stage alone (a broker answers PUBREL with PUBCOMP even for an identifier it does not know)
						r.Props = append(r.Props, viol("C07", "completed-without-own-ack", "%s/%s: interrupted before its first acknowledgement, the retried publish reported success after sending %s and receiving only the answer to that: no PUBLISH was retransmitted, no %s ever arrived", kind, cause, showSPkt(pw), map[string]string{"pub1": "PUBACK", "pub2a": "PUBREC"}[kind]))
					}
				case <-time.After(3 * time.Second):
					r.Props = append(r.Props, viol("C19", "retry-not-completed-by-ack", "%s/%s: the re-issued request was acknowledged on the new connection but Retry did not return", kind, cause))
				}
				cancel2()
			} else {
				cancel2()
				select {
				case e2 := <-rerr:
					if e2 == nil || !errors.Is(e2, context.Canceled) {
						r.Props = append(r.Props, viol("C11", "cancel-wrong-error", "%s/%s: Retry returned %v when its own context was cancelled", kind, cause, e2))
					}
				case <-time.After(3 * time.Second):
					r.Props = append(r.Props, viol("C11", "call-never-returned", "%s/%s: Retry did not return when its context was cancelled", kind, cause))
				}
			}
			tr2.Close()
			tr1.Close()
			if n := len(tr1.writeList()) - before1; n != 0 {
				r.Props = append(r.Props, viol("C19", "retry-wrong-client", "%s/%s: Retry wrote %d packet(s) to the old client", kind, cause, n))
			}
			p, _, derr := specDecode(w)
			if derr != nil {
				return fail("C19", "retry-wrong-request", "Retry wrote an undecodable packet %x", w)
			}
			if nBefore == 1 && (p.ID == otherID || p.ID == 0) {
				r.Props = append(r.Props, viol("C15", "duplicate-outstanding-id", "%s/%s: the retransmitted request carries identifier %d while another request with identifier %d is outstanding on that connection", kind, cause, p.ID, otherID))
			}
			switch kind {
			case "pub1", "pub2a":
				if p.Type == 0x30 && p.ID != uint16(id) {
					r.Props = append(r.Props, viol("C15", "caller-id-changed", "%s/%s: the identifier %d the caller put on the message was replaced by %d on retransmission", kind, cause, id, p.ID))
				}
				if p.Type != 0x30 || p.ID != uint16(id) || p.Topic != msg.Topic || !bytes.Equal(p.Payload, msg.Payload) || p.QoS != byte(msg.QoS) || p.Retain != retain {
					return fail("C19", "retry-wrong-request", "Retry sent %s, not the original PUBLISH", showSPkt(p))
				}
				if !p.Dup {
					r.Props = append(r.Props, viol("C12", "dup-missing", "%s/%s: retransmission by the retry handle has DUP=0", kind, cause))
				}
			case "pub2b", "pub2w":
				if p.Type == 0x30 {
					r.Props = append(r.Props, viol("C12", "publish-after-pubrel", "%s/%s: retry handle sends PUBLISH although PUBREL was already %s", kind, cause, map[bool]string{true: "attempted", false: "sent"}[kind == "pub2w" || cause == "wfail"]))
					r.Props = append(r.Props, viol("C19", "retry-wrong-request", "%s/%s: Retry sent PUBLISH, not PUBREL", kind, cause))
				} else if p.Type != 0x60 || p.ID != uint16(id) {
					return fail("C19", "retry-wrong-request", "Retry sent %s, not PUBREL %d", showSPkt(p), id)
				}
			case "sub":
				if p.Type != 0x80 || len(p.Filters) != 2 || p.Filters[0] != "x/+" || p.Filters[1] != "y/#" || p.QoSs[0] != 1 || p.QoSs[1] != 2 {
					return fail("C19", "retry-wrong-request", "Retry sent %s, not the original SUBSCRIBE", showSPkt(p))
				}
			case "unsub":
				if p.Type != 0xa0 || len(p.Filters) != 2 || p.Filters[0] != "x/+" || p.Filters[1] != "y/#" {
					return fail("C19", "retry-wrong-request", "Retry sent %s, not the original UNSUBSCRIBE", showSPkt(p))
				}
			}
			return r
		}})
}
