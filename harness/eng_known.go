package main

// Engines that replay the recorded findings (known_findings.json) on the real code, so that each
// check prints KNOWN-FINDING for exactly that input class and still alarms on anything else.

import (
	"context"
	"math/rand"
	"sync"
	"time"

	mqtt "github.com/at-wat/mqtt-go"
)

func init() {
	// D9 / C15: one request stays outstanding while 65 535 others are issued and acknowledged:
	// the counter comes round and hands the outstanding identifier to a new request.
	register(&funcEngine{name: "idreuse", par: 2,
		gen: func(rng *rand.Rand, tier string, n int, emit func(string)) {
			emit("17")
			if tier == "thorough" {
				emit("65530")
				emit("4294901700")
			}
		},
		exec: func(f []string) Result {
			start := uint32(atoi(f[0]))
			tr := newRecTransport()
			c := &mqtt.BaseClient{Transport: tr}
			if _, err := connectRec(c, tr); err != nil {
				return Result{Out: ""}
			}
			c.VerifSetIDLast(start)
			var mu sync.Mutex
			var ids []uint16
			first := true
			tr.onWrite = func(p []byte) {
				pk, _, err := specDecode(p)
				if err != nil || pk.Type != 0x30 {
					return
				}
				mu.Lock()
				ids = append(ids, pk.ID)
				isFirst := first
				first = false
				mu.Unlock()
				if !isFirst {
					tr.feed(specAck(0x40, pk.ID)) // everything but the first request is acknowledged at once
				}
			}
			ctx, cancel := context.WithCancel(context.Background())
			defer cancel()
			go c.Publish(ctx, &mqtt.Message{Topic: "held", QoS: mqtt.QoS1, Payload: []byte{1}})
			deadline := time.Now().Add(3 * time.Second)
			for {
				mu.Lock()
				n := len(ids)
				mu.Unlock()
				if n >= 1 || time.Now().After(deadline) {
					break
				}
				time.Sleep(50 * time.Microsecond)
			}
			r := Result{Out: "", Tags: []string{"nontrivial"}}
			reusedAt := -1
			for i := 1; i <= 65535; i++ {
				pctx, pc := context.WithTimeout(ctx, 5*time.Second)
				err := c.Publish(pctx, &mqtt.Message{Topic: "t", QoS: mqtt.QoS1, Payload: []byte{2}})
				pc()
				if err != nil {
					r.Props = append(r.Props, viol("C15", "publish-failed", "publish %d failed: %v", i, err))
					break
				}
				mu.Lock()
				last, held := ids[len(ids)-1], ids[0]
				mu.Unlock()
				if last == held {
					reusedAt = i
					break
				}
			}
			tr.Close()
			switch {
			case reusedAt > 0 && reusedAt < 65535:
				r.Props = append(r.Props, viol("C15", "reuse-within-window", "the identifier of an outstanding request was given to request %d issued after it (fewer than 65535 issues later)", reusedAt))
			case reusedAt == 65535:
				r.Props = append(r.Props, viol("C15", "reuse-after-65535-later-issues", "an outstanding request's identifier %d was handed to the 65535th request issued after it (start %d): two requests outstanding with one identifier", ids[0], start))
			}
			return r
		}})

	// D18 / C01: a QoS>=1 publish accepted before SetClient is dropped silently when its payload
	// exceeds the MaxPayloadLen of the base client that is set later.
	register(&funcEngine{name: "oversized", par: 4,
		gen: func(rng *rand.Rand, tier string, n int, emit func(string)) {
			emit("1 10 20")
			emit("2 10 10")
			emit("1 10 9") // fits: must be delivered
		},
		exec: func(f []string) Result {
			qos, max, plen := atoi(f[0]), atoi(f[1]), atoi(f[2])
			r := Result{Out: "", Tags: []string{"nontrivial"}}
			d := &autoDialer{}
			cli, err := mqtt.NewReconnectClient(mqtt.DialerFunc(func(dctx context.Context) (*mqtt.BaseClient, error) {
				bc, err := d.DialContext(dctx)
				if bc != nil {
					bc.MaxPayloadLen = max
				}
				return bc, err
			}), mqtt.WithReconnectWait(time.Millisecond, 4*time.Millisecond))
			if err != nil {
				return r
			}
			ctx, cancel := context.WithTimeout(context.Background(), 10*time.Second)
			defer cancel()
			payload := make([]byte, plen)
			perr := cli.Publish(ctx, &mqtt.Message{Topic: "big", QoS: mqtt.QoS(qos), Payload: payload}) // before Connect: no base client yet
			if _, err := cli.Connect(ctx, "cid"); err != nil {
				return r
			}
			time.Sleep(20 * time.Millisecond)
			st := cli.Stats()
			t := d.current()
			published := 0
			if t != nil {
				t.mu.Lock()
				published = t.pkts["30"]
				t.mu.Unlock()
			}
			if perr == nil && published == 0 && st.QueuedTasks == 0 && st.QueuedRetries == 0 {
				key := "request-lost"
				if plen >= max {
					key = "oversized-before-setclient"
				}
				r.Props = append(r.Props, viol("C01", key, "Publish(QoS %d, %d-byte payload) before Connect returned nil, but with MaxPayloadLen %d on the connection it was never transmitted and is not queued", qos, plen, max))
			}
			// the same message after Connect must be rejected outright, never accepted and dropped
			perr2 := cli.Publish(ctx, &mqtt.Message{Topic: "big", QoS: mqtt.QoS(qos), Payload: payload})
			if plen >= max && perr2 == nil {
				r.Props = append(r.Props, viol("C01", "oversized-accepted-when-connected", "oversized Publish accepted on a connected client"))
			}
			dctx, dc := context.WithTimeout(context.Background(), 2*time.Second)
			cli.Disconnect(dctx)
			dc()
			return r
		}})
}
