package main

// Engine `retry`: the shared correspondence stream of C01 C02 C03 C08 C12 C17 C18 (DESIGN.md §5.0).

import (
	"bufio"
	"fmt"
	"math/rand"
	"os"
	"strings"
	"sync"
)

type retryEngine struct {
	once  sync.Once
	plans map[string]string // case id -> "plan # extras"
}

func (e *retryEngine) Name() string  { return "retry" }
func (e *retryEngine) Parallel() int { return 48 }
func (e *retryEngine) WantsID()      {}

func (e *retryEngine) loadPlans() {
	e.plans = map[string]string{}
	path := os.Getenv("VERIF_PLAN")
	if path == "" {
		return
	}
	f, err := os.Open(path)
	if err != nil {
		return
	}
	defer f.Close()
	sc := bufio.NewScanner(f)
	sc.Buffer(make([]byte, 1<<20), 1<<28)
	for sc.Scan() {
		line := sc.Text()
		id, rest, _ := strings.Cut(line, " ")
		if _, plan, ok := strings.Cut(rest, " || "); ok {
			e.plans[id] = plan
		}
	}
}

var retryFilters = []string{"61", "62", "632f23"}

func (e *retryEngine) Gen(rng *rand.Rand, tier string, n int, emit func(string)) {
	tail := " dial+:300 ack+:1 dial+:400 ack+:1 dial+:500 ack+:1 dial+:600 ack+:1 dial+:700 ack+:1 dial+:800 ack+:1"
	tailLost := " dial+:300 ack+:0 dial+:400 ack+:1 dial+:500 ack+:0 dial+:600 ack+:1 dial+:700 ack+:1 dial+:800 ack+:1"
	// hand-written witnesses of the defects that were repaired (D1, D17, D5, D6) and basic flows
	emit("t0a0c1 P - pub:1:1 start dial+:10 ack+:0 pub:2:2 sub:61.1 close pub:3:1 dial+:20 ack+:1")
	emit("t0a0c1 P la,la,la start dial+:10 ack+:0 pub:1:2" + tail) // D1: three lost acks on one QoS 2 message
	emit("t0a0c1 P ok,la,wf start dial+:10 ack+:0 pub:1:2" + tail) // D17: PUBREL processed, PUBCOMP lost, PUBREL write fails
	emit("t0a0c1 R ok,la,wf start dial+:10 ack+:0 pub:1:2" + tail)
	emit("t0a0c1 P ok,la start dial+:10 ack+:0 sub:61.1 pub:1:1 unsub:61" + tailLost)                                                           // D5: unsubscribe queued behind a pending publish, session lost
	emit("t1a0c1 P la,si start dial+:10 ack+:0 pub:1:1" + tail)                                                                                 // D6: silent broker on a retransmission
	emit("t1a0c0 P ok,wf,la,ok,si pub:1:2 sub:61.2 start pub:2:0 pub:3:0 dial- pub:4:0 unsub:61 dial+:40000 pub:5:1 dial+:40100 ack+:1" + tail) // D22: queued Subscribe times out, later Unsubscribe overtakes it
	emit("t1a0c0 P si,ok start dial+:10 ack+:0 close sub:61.1 unsub:61" + tail)                                                                 // D22 minimal
	emit("t0a0c0 P ok,ok,la start dial+:10 ack+:0 sub:61.1 sub:62.1 close dial+:20 ack+:0" + tail)                                              // re-subscription of the first of two filters interrupted, then the session is kept
	emit("t0a0c0 P ok,ok,ok,lr start dial+:10 ack+:0 sub:61.1 sub:62.2 sub:632f23.0 close dial+:20 ack+:0" + tail)
	emit("t0a1c0 P ok,ok,wf start dial+:10 ack+:0 sub:61.1,62.0 sub:62.1 close dial+:20 ack+:1" + tail) // AlwaysResubscribe, interrupted
	emit("t1a0c1 P si start dial+:10 ack+:0 pub:1:2" + tail)
	emit("t1a0c1 P ok,si start dial+:10 ack+:0 pub:1:2" + tail)
	emit("t1a0c1 P si start dial+:10 ack+:0 sub:61.1,62.0" + tail)
	emit("t0a1c1 P - start dial+:10 ack+:0 sub:61.1 sub:62.2 unsub:61 close" + tail)
	emit("t0a0c1 P - handle:1 start dial+:10 ack+:0:7.1 in:8:0 handle:2 in:9:1 close dial+:20 ack+:1:10.1 in:11:1")
	// Handle while a CONNECT handshake is in progress (first connection / a reconnect): the connection being established gets it
	emit("t0a0c1 P - handle:1 start dial+:10 handle:2 ack+:0:7.1 in:8:0")
	emit("t0a0c1 P - handle:1 start dial+:10 ack+:0 in:6:1 close dial+:20 handle:3 ack+:1:10.1 in:11:1 handle:2 in:12:0")
	emit("t0a0c1 P - start dial+:10 handle:1 ack+:0 in:6:1 bad dial+:20 handle:2 ack+:0:10.0 in:11:1")
	emit("t0a0c1 P - pub:1:1 pub:2:0 sub:61.1 start dial- dial- dial+:65533 ack- dial+:65534 ack0 dial+:65533 ack+:0 pub:3:2 pub:4:1")
	emit("t0a0c1 P lr,wf,la start dial+:10 ack+:0 pub:1:1 pub:2:2 pub:3:0 pub:4:1" + tail)
	emit("t0a0c1 P - start dial+:10 ack+:0 pub:1:1 disc pub:2:1")
	emit("t0a0c0 P - start dial+:10 ack+:0 pub:1:1 close pub:2:1 dial+:20 disc ack- dial+:30 ack+:1")   // Disconnect while waiting for CONNACK, refused
	emit("t0a0c0 P - start dial+:10 ack+:0 pub:1:1 close pub:2:1 dial+:20 disc ack+:1 dial+:30 ack+:1") // … accepted: the queued DISCONNECT goes out on the new connection
	emit("t0a0c0 P - start dial+:10 ack+:0 close disc dial+:30 ack+:1")                                 // Disconnect while the redial is in flight; it then succeeds and is accepted
	emit("t0a0c0 P - start dial+:10 ack+:0 pub:1:1 close disc dial+:30 ack-")                           // … and is refused (the task goroutine has already exited)
	emit("t0a0c1 P - start dial+:10 ack+:0 pub:1:1 close disc dial+:30 ack0")                           // … and is never answered (connect timeout)
	emit("t0a0c0 P - start dial+:10 ack+:0 pub:1:1 close disc dial-")                                   // … and fails
	emit("t0a0c0 P - start disc dial+:10 ack+:1")                                                       // Disconnect while the first dial is in progress
	emit("t0a0c0 P - start disc dial+:10 ack-")
	emit("t0a0c0 P - pub:1:1 start disc dial-")
	// cancellation of the context given to Connect, before / after the first connection succeeded; protocol error
	emit("t0a0c0 P - pub:1:1 start cancel dial+:10 ack+:0")                 // while the first dial is in flight
	emit("t0a0c0 P - pub:1:1 start dial+:10 cancel ack+:0 dial+:20 ack+:0") // while waiting for the first CONNACK
	emit("t0a0c0 P - start dial- cancel dial+:10 ack+:0")                   // during the second dial
	emit("t0a0c0 P - start dial+:10 ack- cancel dial+:20 ack+:0")
	emit("t0a0c0w1 P - start dial- cancel wait dial+:10 ack+:0") // while waiting to redial
	emit("t0a0c0w1 P - start dial+:10 ack- pub:1:1 cancel wait dial+:20")
	emit("t0a0c0 P - cancel start dial+:10 ack+:0")                                       // already cancelled when Connect is called
	emit("t0a0c0 P - start dial+:10 ack+:0 cancel pub:1:1 close dial+:20 ack+:1 pub:2:2") // after the first success: no effect
	emit("t0a0c0 P - start dial+:10 ack+:0 pub:1:1 bad pub:2:1 dial+:20 ack+:1 bad dial+:30 ack+:1")
	// a broker that grants less than requested: the client keeps asking for what the application asked for
	emit("t0a0c0g1 P - start dial+:10 ack+:0 sub:61.2 sub:62.2,632f23.1 close dial+:20 ack+:0 close dial+:30 ack+:0 unsub:62 close dial+:40 ack+:0")
	emit("t0a1c0g1 P ok,la start dial+:10 ack+:0 sub:61.2 sub:62.2 close dial+:20 ack+:1 close dial+:30 ack+:1")
	// no OnError callback: timeouts and cuts must still be handled (request kept, connection closed, redial)
	emit("t1a0c1e0 P si,ok start dial+:10 ack+:0 pub:1:1 pub:2:2" + tail)
	emit("t0a0c1e0 P la,wf,lr start dial+:10 ack+:0 sub:61.1 pub:1:2 unsub:61" + tail)
	// a long outage: 70 consecutive failed dials (the back-off must stay clamped, never wrap)
	emit("t0a0c0 P - pub:1:1 start" + strings.Repeat(" dial-", 70) + " dial+:10 ack+:0")
	// bursts: several requests submitted while one is in flight (its acknowledgement is slow / lost with the connection)
	emit("t1a0c1b1 P si,ok,ok start dial+:10 ack+:0 pub:1:1 pub:2:1 pub:3:2 sub:61.1 pub:4:1" + tail)
	emit("t0a0c1b1 P la,ok,lr start dial+:10 ack+:0 pub:1:1 pub:2:1 pub:3:1 pub:4:2 unsub:61 pub:5:1" + tail)
	emit("t0a0c1b1 P ok,wf pub:1:1 pub:2:2 pub:3:1 start dial+:10 ack+:0 pub:4:1 pub:5:1 pub:6:1" + tail)
	// the write of CONNECT itself fails on a freshly dialled transport (first connection and a redial)
	emit("t0a0c0 P - pub:1:1 start dialw:10 dial+:20 ack+:0 pub:2:1 close dialw:30 dialw:40 dial+:50 ack+:1")
	emit("t0a0c0 P - start dialw:10 disc")
	// a dialer that ignores its context (NoContextDialer): the dial in flight goes on after the cancellation
	emit("t0a0c0d1 P - pub:1:1 start cancel dial+:10 ack+:0 dial+:20")
	emit("t0a0c0d1 P - pub:1:1 start cancel dial- dial+:10")
	emit("t0a0c0d1 P - start dial- cancel dial+:10 ack+:0")
	emit("t0a0c0d1 P - cancel pub:1:2 start dial+:10 ack+:1")
	emit("t0a0c0d1 P - start dial+:10 ack+:0 cancel pub:1:1 close dial+:20 ack+:1")
	// long back-off (w1): events land while the loop waits to redial; `wait` = the timer fires
	emit("t0a0c0w1 P - start dial+:10 ack+:0 pub:1:1 close pub:2:1 disc")            // Disconnect while waiting to redial: no further dial
	emit("t0a0c0w1 P - start dial- disc")                                            // … before any connection was established
	emit("t0a0c0w1 P - start dial+:10 ack- pub:1:1 disc")                            // … after a refused CONNACK
	emit("t0a0c0w1 P - start dial+:10 ack+:0 pub:1:1 close wait disc dial+:20 ack-") // Disconnect while dialling, dial succeeds, CONNECT refused
	emit("t0a0c0w1 P - start dial+:10 ack+:0 pub:1:1 close wait disc dial+:20 ack+:1")
	emit("t0a0c0w1 P - start dial+:10 ack+:0 pub:1:1 close wait disc dial-")
	emit("t0a0c0w1 P - start dial+:10 ack+:0 pub:1:1 close wait dial+:20 disc ack-")                                                             // Disconnect while connecting
	emit("t0a0c0w1 P la start dial- wait dial- wait dial+:10 ack- wait dial+:20 ack+:0 pub:1:1 wait dial+:30 ack+:1 close wait dial+:40 ack+:1") // back-off doubling, clamp, reset
	if tier == "thorough" {
		// all single- and double-fault plans over every position of short histories
		faults := []string{"ok", "wf", "lr", "la"}
		hist := [][]string{
			{"pub:1:2"}, {"pub:1:1", "pub:2:2"}, {"pub:1:2", "pub:2:1", "pub:3:2"}, {"sub:61.1", "pub:1:2", "unsub:61"},
			{"pub:1:0", "pub:2:1", "sub:61.0,62.1"}, {"sub:61.1", "sub:61.2", "unsub:62", "pub:1:1"},
		}
		for _, h := range hist {
			for _, method := range []string{"P", "R"} {
				var rec func(prefix []string, depth int)
				rec = func(prefix []string, depth int) {
					if len(prefix) > 0 {
						nf := 0
						for _, x := range prefix {
							if x != "ok" {
								nf++
							}
						}
						if nf >= 1 && nf <= 2 && prefix[len(prefix)-1] != "ok" {
							emit(fmt.Sprintf("t0a0c1 %s %s start dial+:10 ack+:0 %s%s", method, strings.Join(prefix, ","), strings.Join(h, " "), tail))
							if strings.Contains(strings.Join(h, " "), "sub:") && method == "P" {
								// the same plan with the session lost on the first two reconnects: faults hit the re-subscription pass
								emit(fmt.Sprintf("t0a0c0 %s %s start dial+:10 ack+:0 %s close%s", method, strings.Join(prefix, ","), strings.Join(h, " "), tailLost))
							}
						}
					}
					if depth == 0 {
						return
					}
					for _, f := range faults {
						rec(append(append([]string{}, prefix...), f), depth-1)
					}
				}
				rec(nil, 5)
			}
		}
	}
	for i := 0; i < n; i++ {
		if i%16 == 15 {
			emit(slowWaitScript(rng, genRetryScript(rng)))
			continue
		}
		emit(genRetryScript(rng))
	}
}

// slowWaitScript turns a generated script into one for the long back-off configuration (w1): the timer
// fires (`wait`) right before every dial result, and Disconnect may land in the back-off wait (before
// `wait`) or while the dial is in flight (after it). Shortened: every redial costs real time here.
func slowWaitScript(rng *rand.Rand, line string) string {
	f := strings.Fields(line)
	cfg, method, faults, evs := f[0], f[1], f[2], f[3:]
	var out []string
	dials, disc := 0, false
	for _, ev := range evs {
		isDial := strings.HasPrefix(ev, "dial")
		if isDial {
			if dials >= 5 {
				continue
			}
			if dials > 0 {
				if !disc && rng.Intn(8) == 0 {
					out = append(out, "disc")
					disc = true
				}
				out = append(out, "wait")
				if !disc && rng.Intn(8) == 0 {
					out = append(out, "disc")
					disc = true
				}
			}
			dials++
		}
		if ev == "disc" {
			disc = true
		}
		out = append(out, ev)
	}
	return fmt.Sprintf("%sw1 %s %s %s", cfg, method, faults, strings.Join(out, " "))
}

func genRetryScript(rng *rand.Rand) string {
	respT := rng.Intn(3) == 0
	always := rng.Intn(4) == 0
	cfg := fmt.Sprintf("t%da%dc1", b2i(respT), b2i(always))
	method := "P"
	if rng.Intn(2) == 0 {
		method = "R"
	}
	// fault plan: biased to hit the same in-flight message repeatedly
	nf := rng.Intn(7)
	var faults []string
	kinds := []string{"wf", "lr", "la"}
	if respT {
		kinds = append(kinds, "si", "si")
	}
	for i := 0; i < nf; i++ {
		if rng.Intn(3) == 0 {
			faults = append(faults, "ok")
		} else {
			faults = append(faults, kinds[rng.Intn(len(kinds))])
		}
	}
	fs := "-"
	if len(faults) > 0 {
		fs = strings.Join(faults, ",")
	}
	var evs []string
	m := 0
	nextMsg := func() string {
		m++
		q := rng.Intn(3)
		if rng.Intn(3) == 0 {
			q = 2
		}
		return fmt.Sprintf("pub:%d:%d", m, q)
	}
	subEv := func() string {
		k := 1 + rng.Intn(2)
		var items []string
		for j := 0; j < k; j++ {
			items = append(items, fmt.Sprintf("%s.%d", retryFilters[rng.Intn(3)], rng.Intn(3)))
		}
		return "sub:" + strings.Join(items, ",")
	}
	unsubEv := func() string {
		k := 1 + rng.Intn(2)
		var items []string
		for j := 0; j < k; j++ {
			items = append(items, retryFilters[rng.Intn(3)])
		}
		return "unsub:" + strings.Join(items, ",")
	}
	appEv := func() string {
		switch rng.Intn(6) {
		case 0, 1, 2:
			return nextMsg()
		case 3, 4:
			return subEv()
		}
		return unsubEv()
	}
	inb := 100
	if rng.Intn(3) == 0 {
		evs = append(evs, fmt.Sprintf("handle:%d", 1+rng.Intn(3)))
	}
	// requests before Connect
	for j := rng.Intn(3); j > 0; j-- {
		evs = append(evs, appEv())
	}
	evs = append(evs, "start")
	if rng.Intn(25) == 0 {
		evs = append(evs, "cancel")
	}
	idStart := []int{10, 200, 65530, 3000, 40000, 65533, 131066, 131069, 196604, 4294967290}[rng.Intn(10)]
	steps := 4 + rng.Intn(14)
	sessKept := rng.Intn(3) != 0
	for j := 0; j < steps; j++ {
		switch x := rng.Intn(20); {
		case x < 8:
			evs = append(evs, appEv())
		case x < 11:
			evs = append(evs, fmt.Sprintf("dial+:%d", idStart))
			idStart += 100
		case x < 12:
			if rng.Intn(3) == 0 {
				evs = append(evs, fmt.Sprintf("dialw:%d", idStart))
				idStart += 100
			} else {
				evs = append(evs, "dial-")
			}
			if rng.Intn(10) == 0 {
				evs = append(evs, "cancel")
			}
		case x < 15:
			sp := 1
			if !sessKept && rng.Intn(2) == 0 {
				sp = 0
			}
			if len(evs) < 4 {
				sp = 0
			}
			a := fmt.Sprintf("ack+:%d", sp)
			if rng.Intn(4) == 0 {
				inb++
				a += fmt.Sprintf(":%d.%d", inb, rng.Intn(2))
			}
			evs = append(evs, a)
		case x < 16:
			if rng.Intn(4) == 0 {
				evs = append(evs, "ack0")
			} else {
				evs = append(evs, "ack-")
			}
		case x < 17:
			if rng.Intn(3) == 0 {
				evs = append(evs, "bad")
			} else {
				evs = append(evs, "close")
			}
			if rng.Intn(12) == 0 {
				evs = append(evs, "cancel")
			}
		case x < 18:
			inb++
			evs = append(evs, fmt.Sprintf("in:%d:%d", inb, rng.Intn(2)))
		case x < 19:
			if rng.Intn(4) == 0 {
				evs = append(evs, "disc") // Disconnect in whatever phase the loop is in
			} else {
				evs = append(evs, fmt.Sprintf("handle:%d", 1+rng.Intn(3)))
			}
		default:
			evs = append(evs, fmt.Sprintf("dial+:%d", idStart))
			if rng.Intn(3) == 0 {
				evs = append(evs, fmt.Sprintf("handle:%d", 1+rng.Intn(3))) // Handle during the handshake
				inb++
				evs = append(evs, fmt.Sprintf("ack+:1:%d.%d", inb, rng.Intn(2)))
			} else {
				evs = append(evs, "ack+:1")
			}
			idStart += 100
		}
	}
	// friendly tail: the broker stays reachable
	for j := 0; j < nf+3; j++ {
		sp := 1
		if !sessKept && j < 2 {
			sp = 0
		}
		evs = append(evs, fmt.Sprintf("dial+:%d", idStart), fmt.Sprintf("ack+:%d", sp))
		idStart += 100
	}
	script := strings.Join(evs, " ")
	cfg = fmt.Sprintf("t%da%dc%d", b2i(respT && strings.Contains(fs, "si")), b2i(always), b2i(strings.Contains(script, "ack0")))
	if rng.Intn(3) == 0 {
		cfg += "b1" // requests submitted in bursts
	}
	if rng.Intn(4) == 0 {
		cfg += "g1" // the broker grants at most QoS 1
	}
	if rng.Intn(5) == 0 {
		cfg += "e0" // no OnError callback installed
	}
	if strings.Contains(script, "cancel") && rng.Intn(2) == 0 {
		cfg += "d1" // the dialer ignores its context
	}
	return fmt.Sprintf("%s %s %s %s", cfg, method, fs, script)
}

func b2i(b bool) int {
	if b {
		return 1
	}
	return 0
}

func (e *retryEngine) Exec(f []string) Result {
	e.once.Do(e.loadPlans)
	id, cfg, method, faults, evs := f[0], f[1], f[2], f[3], f[4:]
	planStr, extras := "", ""
	if p, ok := e.plans[id]; ok {
		planStr, extras, _ = strings.Cut(p, " # ")
	}
	plan := parsePlan(planStr)
	stuck := strings.Contains(extras, "stuck=1")
	settled := strings.Contains(extras, "settled=1")
	run := runRetryScript(cfg, method, faults, evs, plan)
	out := run.render(stuck)
	r := Result{Out: out, Tags: []string{"nontrivial", "cfg=" + cfg, fmt.Sprintf("faults%d", strings.Count(faults, ",")+b2i(faults != "-")), fmt.Sprintf("conns%d", len(run.sc.conns))}}
	script := strings.Join(evs, " ")
	for _, fk := range []string{"wf", "lr", "la", "si"} {
		if strings.Contains(","+faults+",", ","+fk+",") {
			r.Tags = append(r.Tags, "fault:"+fk)
		}
	}
	for tag, pat := range map[string]string{"qos2": ":2 ", "subscribe": "sub:", "unsubscribe": "unsub:", "session-lost": "ack+:0", "connack-refused": "ack-", "connack-never": "ack0",
		"dial-failure": "dial-", "connect-write-failure": "dialw:", "peer-close": "close", "protocol-error": "bad", "context-cancel": "cancel", "timer": "wait", "inbound": "in:", "handle": "handle:", "disconnect": "disc", "before-connect": ""} {
		if pat != "" && strings.Contains(script+" ", pat) {
			r.Tags = append(r.Tags, "has:"+tag)
		}
	}
	if len(evs) > 0 && evs[0] != "start" {
		r.Tags = append(r.Tags, "has:request-before-connect")
	}
	if len(run.planMiss) > 0 {
		r.Out += " PLANMISS=" + strings.Join(run.planMiss, "|")
		r.Tags = append(r.Tags, "planmiss")
	}
	if settled {
		r.Tags = append(r.Tags, "settled")
	}
	var waits []int
	if i := strings.Index(extras, "waits="); i >= 0 {
		ws, _, _ := strings.Cut(extras[i+6:], " ")
		if ws != "-" {
			for _, x := range strings.Split(ws, ",") {
				waits = append(waits, atoi(x))
			}
		}
	}
	r.Props = retryOracles(run, cfg, settled, stuck, len(plan) > 0, waits, plan)
	return r
}

func init() { register(&retryEngine{}) }
