package main

// Engines for C13: `ka` runs the real KeepAlive loop over a real BaseClient whose broker answers,
// ignores or kills each PINGREQ as scripted; `kareconn` checks, without a model line, that the
// reconnecting client reacts to a silent peer (and only to a silent peer).

import (
	"context"
	"errors"
	"fmt"
	"math/rand"
	"strings"
	"sync"
	"time"

	mqtt "github.com/at-wat/mqtt-go"
)

type countingClient struct {
	*mqtt.BaseClient
	mu sync.Mutex
	n  int
}

func (c *countingClient) Ping(ctx context.Context) error {
	c.mu.Lock()
	c.n++
	c.mu.Unlock()
	return c.BaseClient.Ping(ctx)
}

// scripts with a slow answer `s`: the answer takes longer than the interval (so ticks pile up behind the ping) and
// much less than the timeout (so the peer is healthy by a wide margin, whatever the machine load)
const (
	kaSlowInterval = 5 * time.Millisecond
	kaSlowTimeout  = 2000 * time.Millisecond
	kaSlowAnswer   = 1200 * time.Millisecond
)

// trigCtx: a context that ends with DeadlineExceeded when told to (a parent context whose own deadline passes)
type trigCtx struct {
	context.Context
	done chan struct{}
	once sync.Once
}

func (c *trigCtx) Done() <-chan struct{} { return c.done }
func (c *trigCtx) Err() error {
	select {
	case <-c.done:
		return context.DeadlineExceeded
	default:
		return nil
	}
}
func (c *trigCtx) expire() { c.once.Do(func() { close(c.done) }) }

func init() {
	register(&funcEngine{name: "ka", par: 32,
		gen: func(rng *rand.Rand, tier string, n int, emit func(string)) {
			for _, s := range []string{"n", "c", "w", "e", "a n", "a a a c", "a a w", "a e", "a a a a a a n", "A n", "A A A c", "a A a A e"} {
				emit(s)
			}
			// a healthy but slow peer: every answer comes later than the ping interval and well within the timeout
			for _, s := range []string{"s s s c", "s s a s e", "a s s s n"} {
				emit(s)
			}
			// the parent context ends by its own deadline (not by cancel) while a ping is in flight: the context's error, not a ping timeout
			for _, s := range []string{"D", "a D", "a a A D"} {
				emit(s)
			}
			for i := 0; i < n; i++ {
				k := rng.Intn(7)
				var toks []string
				for j := 0; j < k; j++ {
					toks = append(toks, []string{"a", "a", "A"}[rng.Intn(3)])
				}
				toks = append(toks, []string{"n", "c", "w", "e", "n", "c", "D"}[rng.Intn(7)])
				emit(strings.Join(toks, " "))
			}
		},
		exec: func(f []string) Result {
			tr := newRecTransport()
			bc := &mqtt.BaseClient{Transport: tr}
			if _, err := connectRec(bc, tr); err != nil {
				return Result{Out: "connect-failed"}
			}
			cc := &countingClient{BaseClient: bc}
			var parent context.Context
			parent, cancel := context.WithCancel(context.Background())
			defer cancel()
			var trig *trigCtx
			if f[len(f)-1] == "D" {
				trig = &trigCtx{Context: context.Background(), done: make(chan struct{})}
				parent = trig
			}
			var mu sync.Mutex
			k := 0
			if f[0] == "w" {
				tr.setRefuse(true)
			}
			tr.onWrite = func(p []byte) {
				if len(p) == 0 || p[0] != 0xc0 {
					return
				}
				mu.Lock()
				i := k
				k++
				mu.Unlock()
				if i >= len(f) {
					return
				}
				if i+1 < len(f) && f[i+1] == "w" {
					defer tr.setRefuse(true)
				}
				switch f[i] {
				case "a":
					tr.feed(specPacket(0xd0, nil))
				case "s":
					go func() {
						time.Sleep(kaSlowAnswer)
						tr.feed(specPacket(0xd0, nil))
					}()
				case "A":
					// a very fast broker: the response has been read and processed by the client's
					// reader goroutine before Write returns to the pinging goroutine
					tr.feed(specPacket(0xd0, nil))
					tr.waitDrained()
				case "c":
					cancel()
				case "D":
					trig.expire()
				case "e":
					tr.feedEOF()
				}
			}
			interval, timeout := 2*time.Millisecond, 25*time.Millisecond
			for _, t := range f {
				if t == "s" {
					interval, timeout = kaSlowInterval, kaSlowTimeout
				}
			}
			done := make(chan error, 1)
			go func() { done <- mqtt.KeepAlive(parent, cc, interval, timeout) }()
			var err error
			select {
			case err = <-done:
			case <-time.After(10 * time.Second):
				return Result{Out: "keepalive-did-not-stop", Props: []PropResult{viol("C13", "keepalive-hang", "KeepAlive did not return for %v", f)}}
			}
			tr.Close()
			cc.mu.Lock()
			pings := cc.n
			cc.mu.Unlock()
			r := Result{Out: fmt.Sprintf("pings=%d result=%s", pings, errClass(err)), Tags: []string{"nontrivial", "last=" + f[len(f)-1]}}
			last := f[len(f)-1]
			isTO := errors.Is(err, mqtt.ErrPingTimeout)
			if isTO != (last == "n") {
				r.Props = append(r.Props, viol("C13", "timeout-misreported", "outcomes %v: ErrPingTimeout=%v (a timeout must be reported exactly when the last ping got no response)", f, isTO))
				if isTO {
					// the reconnecting client stores this error on the connection and closes it: Err() non-nil, Closed reported
					// and Done() closed for a connection whose peer answered every ping in time
					r.Props = append(r.Props, viol("C16", "keepalive-error-on-healthy-connection", "outcomes %v: every ping was answered within the timeout, yet KeepAlive reports a ping timeout (the managed connection would be closed with that error)", f))
				}
			}
			if last == "D" && (!errors.Is(err, context.DeadlineExceeded) || isTO) {
				r.Props = append(r.Props, viol("C13", "deadline-misreported", "the parent context's deadline passed during a ping (the peer was healthy) but KeepAlive returned %v", err))
			}
			if last == "c" && !errors.Is(err, context.Canceled) {
				r.Props = append(r.Props, viol("C13", "cancel-misreported", "parent context cancelled during a ping but KeepAlive returned %v", err))
			}
			if pings != len(f) {
				r.Props = append(r.Props, viol("C13", "ping-count", "%d pings for %d ticks (%v)", pings, len(f), f))
			}
			return r
		}})

	register(&funcEngine{name: "kareconn", par: 8,
		gen: func(rng *rand.Rand, tier string, n int, emit func(string)) {
			emit("6 40 3")
			emit("20 60 2")
			emit("25 0 3")      // no WithTimeout: the ping timeout defaults to the ping interval
			emit("20 40 2 pub") // the application keeps publishing QoS 0 while the peer is silent: outbound traffic is no sign of life
			emit("8 30 3 pub")
			for i := 0; i < n; i++ {
				emit(fmt.Sprintf("%d %d %d", 4+rng.Intn(20), 30+rng.Intn(40), 1+rng.Intn(4)))
			}
		},
		exec: execKAReconn})
}

// execKAReconn: interval(ms) timeout(ms) answered-pings-before-silence
func execKAReconn(f []string) Result {
	interval := time.Duration(atoi(f[0])) * time.Millisecond
	timeout := time.Duration(atoi(f[1])) * time.Millisecond
	defaultTimeout := timeout == 0
	if defaultTimeout {
		timeout = interval // reconnclient.go: "Default value is PingInterval"
	}
	healthyPings := atoi(f[2])
	r := Result{Out: "", Tags: []string{"nontrivial"}}
	sc := &scenario{broker: newRBroker("P"), dialCh: make(chan dialResult), cur: -1, msgConn: map[int]int{}, endAt: map[int]time.Time{}}
	sc.cond = sync.NewCond(&sc.mu)
	sc.answerPings = true
	ropts := []mqtt.ReconnectOption{mqtt.WithReconnectWait(2*time.Millisecond, 8*time.Millisecond), mqtt.WithPingInterval(interval)}
	if !defaultTimeout {
		ropts = append(ropts, mqtt.WithTimeout(timeout))
	}
	cli, err := mqtt.NewReconnectClient(&sDialer{sc: sc}, ropts...)
	if err != nil {
		return Result{Out: "", Props: []PropResult{viol("C13", "setup", "%v", err)}}
	}
	waitFor := func(cond func() bool, d time.Duration) bool {
		deadline := time.Now().Add(d)
		for !cond() {
			if time.Now().After(deadline) {
				return false
			}
			time.Sleep(200 * time.Microsecond)
		}
		return true
	}
	accept := func(k int) *sConn {
		sc.dialCh <- dialResult{ok: true}
		var c *sConn
		waitFor(func() bool {
			sc.mu.Lock()
			defer sc.mu.Unlock()
			if len(sc.conns) <= k {
				return false
			}
			c = sc.conns[k]
			for _, e := range sc.wire {
				if e.conn == k && e.pkt.Type == 0x10 {
					return true
				}
			}
			return false
		}, 3*time.Second)
		if c == nil {
			return nil
		}
		sc.mu.Lock()
		c.accepted, c.answered = true, true
		c.in = append(c.in, specConnAck(k > 0, 0)...)
		sc.cond.Broadcast()
		sc.mu.Unlock()
		return c
	}
	pingsOn := func(k int) int {
		sc.mu.Lock()
		defer sc.mu.Unlock()
		n := 0
		for _, e := range sc.wire {
			if e.conn == k && e.pkt.Type == 0xc0 {
				n++
			}
		}
		return n
	}
	connDone := make(chan struct{})
	// the usual pattern: the context given to Connect is released as soon as Connect has returned
	connCtx, connCancel := context.WithCancel(context.Background())
	go func() { cli.Connect(connCtx, "cid"); connCancel(); close(connDone) }()
	if !waitFor(func() bool { sc.mu.Lock(); defer sc.mu.Unlock(); return sc.dialReq >= 1 }, 3*time.Second) {
		r.Props = append(r.Props, viol("C09", "no-dial", "the reconnect loop never dialled"))
		return r
	}
	c0 := accept(0)
	if c0 == nil {
		return r
	}
	<-connDone
	// healthy phase: pings are answered, the connection must stay up
	if !waitFor(func() bool { return pingsOn(0) >= healthyPings }, 5*time.Second) {
		r.Props = append(r.Props, viol("C13", "no-pings", "no PINGREQ after %v on a healthy connection with interval %v", 5*time.Second, interval))
	}
	sc.mu.Lock()
	closedEarly := c0.closed
	sc.mu.Unlock()
	if closedEarly || c0.cli.Err() != nil {
		r.Props = append(r.Props, viol("C13", "healthy-connection-dropped", "connection closed although every ping was answered (Err=%v)", c0.cli.Err()))
		if e := c0.cli.Err(); e != nil {
			// C16: "Err() stays nil for a healthy connection … also when the connection is managed by the reconnecting client"
			r.Props = append(r.Props, viol("C16", "err-on-healthy-first", "Err() of the first, healthy connection (every ping answered, interval %v, timeout %v) is %v", interval, timeout, e))
		}
		return r
	}
	// the peer goes silent
	sc.mu.Lock()
	sc.answerPings = false
	silentAt := time.Now()
	sc.mu.Unlock()
	if len(f) > 3 && f[3] == "pub" {
		// … while the application keeps sending: QoS 0 publishes several times per ping interval
		stopPub := make(chan struct{})
		defer close(stopPub)
		go func() {
			for i := 0; ; i++ {
				select {
				case <-stopPub:
					return
				case <-time.After(interval / 5):
				}
				pctx, pc := context.WithTimeout(context.Background(), 200*time.Millisecond)
				cli.Publish(pctx, &mqtt.Message{Topic: "noise", QoS: mqtt.QoS0, Payload: []byte{byte(i)}})
				pc()
			}
		}()
	}
	if !waitFor(func() bool { sc.mu.Lock(); defer sc.mu.Unlock(); return c0.closed }, interval+timeout+3*time.Second) {
		r.Props = append(r.Props, viol("C13", "silent-peer-not-detected", "the connection was not closed after the peer went silent (interval %v, timeout %v)", interval, timeout))
		r.Props = append(r.Props, viol("C09", "no-redial-after-keepalive-timeout", "a connection whose peer went silent was never closed, so the client never dialled again (interval %v, timeout %v)", interval, timeout))
		return r
	}
	sc.mu.Lock()
	closedAfter := sc.endAt[0].Sub(silentAt)
	sc.mu.Unlock()
	if closedAfter < timeout {
		r.Props = append(r.Props, viol("C13", "closed-before-timeout", "connection closed %v after the peer went silent, timeout is %v", closedAfter, timeout))
	}
	if !errors.Is(c0.cli.Err(), mqtt.ErrPingTimeout) {
		r.Props = append(r.Props, viol("C13", "timeout-not-reported", "Err() of the timed-out connection is %v, not ErrPingTimeout", c0.cli.Err()))
	}
	sc.mu.Lock()
	for _, mm := range sc.cbMismatch {
		r.Props = append(r.Props, viol("C16", "closed-error-differs", "after a keep-alive timeout: %s", mm))
	}
	sc.mu.Unlock()
	if !waitFor(func() bool { sc.mu.Lock(); defer sc.mu.Unlock(); return sc.dialReq >= 2 }, 3*time.Second) {
		r.Props = append(r.Props, viol("C13", "no-redial-after-ping-timeout", "no new dial after the keep-alive timeout"))
		return r
	}
	sc.mu.Lock()
	sc.answerPings = true
	sc.mu.Unlock()
	c1 := accept(1)
	if c1 == nil {
		return r
	}
	// the re-established connection is healthy: Err() must stay nil also after the old keep-alive loop has stopped
	time.Sleep(2*interval + 10*time.Millisecond)
	if e := c1.cli.Err(); e != nil {
		r.Props = append(r.Props, viol("C16", "err-on-healthy-reconnected", "Err() of the healthy re-established connection is %v", e))
	}
	// cut it by the peer and look at the third connection while the second keep-alive loop winds down
	sc.mu.Lock()
	c1.markDeadLocked(true)
	sc.cond.Broadcast()
	sc.mu.Unlock()
	if waitFor(func() bool { sc.mu.Lock(); defer sc.mu.Unlock(); return sc.dialReq >= 3 }, 3*time.Second) {
		c2 := accept(2)
		if c2 != nil {
			time.Sleep(2*interval + 10*time.Millisecond)
			if e := c2.cli.Err(); e != nil {
				r.Props = append(r.Props, viol("C16", "err-on-healthy-reconnected", "Err() of the healthy third connection is %v (stale keep-alive of the previous one?)", e))
			}
			// Disconnect while a PINGREQ is unanswered and the DISCONNECT itself is still queued behind a
			// request that waits for its acknowledgement: the connection is healthy and must end gracefully
			sc.mu.Lock()
			sc.answerPings = false
			sc.faults = []string{"si"} // the next request is processed but its acknowledgement is withheld
			sc.mu.Unlock()
			pingsBefore := pingsOn(2)
			cli.Publish(context.Background(), &mqtt.Message{Topic: "t/0", QoS: mqtt.QoS1, Payload: []byte{0, 77, 0xAB}})
			var pendingID uint16
			waitFor(func() bool {
				sc.mu.Lock()
				defer sc.mu.Unlock()
				for _, e := range sc.wire {
					if e.conn == 2 && e.pkt.Type == 0x30 && e.tag == "!si" {
						pendingID = e.pkt.ID
						return true
					}
				}
				return false
			}, 3*time.Second)
			waitFor(func() bool { return pingsOn(2) > pingsBefore }, interval+3*time.Second)
			discDone := make(chan error, 1)
			go func() {
				dctx, cancel := context.WithTimeout(context.Background(), 5*time.Second)
				defer cancel()
				discDone <- cli.Disconnect(dctx)
			}()
			time.Sleep(interval + 5*time.Millisecond)
			if e := c2.cli.Err(); e != nil {
				r.Props = append(r.Props, viol("C16", "err-after-graceful-disconnect", "Disconnect during an unanswered ping: Err() of the healthy connection became %v", e))
			}
			// the withheld PUBACK arrives: the queued DISCONNECT can go out now
			sc.mu.Lock()
			if !c2.closed {
				c2.in = append(c2.in, specAck(0x40, pendingID)...)
			}
			sc.cond.Broadcast()
			sc.mu.Unlock()
			var derr error
			select {
			case derr = <-discDone:
			case <-time.After(6 * time.Second):
				derr = context.DeadlineExceeded
			}
			if derr != nil && errors.Is(derr, context.DeadlineExceeded) {
				r.Props = append(r.Props, viol("C09", "disconnect-did-not-return", "Disconnect did not return"))
			}
			time.Sleep(2*interval + 10*time.Millisecond)
			sc.mu.Lock()
			for _, st := range sc.states {
				if strings.HasPrefix(st, "2:Closed") {
					r.Props = append(r.Props, viol("C16", "closed-on-graceful-disconnect", "state callbacks of the gracefully disconnected connection: %v", sc.states))
					break
				}
			}
			sc.mu.Unlock()
			if e := c2.cli.Err(); e != nil {
				r.Props = append(r.Props, viol("C16", "err-after-graceful-disconnect", "Err() after a graceful Disconnect is %v", e))
			}
			sc.mu.Lock()
			nd := sc.dialReq
			sc.mu.Unlock()
			if nd > 3 {
				r.Props = append(r.Props, viol("C09", "dial-after-disconnect", "%d dials, one of them after Disconnect", nd))
			}
		}
	} else {
		r.Props = append(r.Props, viol("C09", "no-redial-after-peer-close", "no new dial after the peer closed the connection"))
	}
	return r
}
