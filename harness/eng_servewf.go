package main

// Engine `servewf` (model-less, C16 / C06 / C11): the transport starts refusing writes while the
// broker keeps sending; the reader goroutine cannot acknowledge, which ends the connection - with a
// non-nil error, a Closed callback carrying it, and Done() closed.

import (
	"fmt"
	"math/rand"
	"strings"
	"time"

	mqtt "github.com/at-wat/mqtt-go"
)

func init() {
	register(&funcEngine{name: "servewf", par: 8,
		gen: func(rng *rand.Rand, tier string, n int, emit func(string)) {
			for _, q := range []int{1, 2} {
				for _, pre := range []int{0, 2} {
					emit(fmt.Sprintf("%d %d", q, pre))
				}
			}
		},
		exec: func(f []string) Result {
			qos, pre := atoi(f[0]), atoi(f[1])
			r := Result{Out: "", Tags: []string{"nontrivial"}}
			tr := newRecTransport()
			var states []string
			c := &mqtt.BaseClient{Transport: tr, ConnState: func(s mqtt.ConnState, err error) {
				states = append(states, fmt.Sprintf("%v:%s", s, bcErrClass(err)))
			}}
			c.Handle(mqtt.HandlerFunc(func(*mqtt.Message) {}))
			if _, err := connectRec(c, tr); err != nil {
				return r
			}
			for i := 0; i < pre; i++ {
				tr.feed(specPublish("t", []byte{1}, 1, false, false, uint16(10+i)))
			}
			tr.waitDrained()
			tr.setRefuse(true)
			tr.feed(specPublish("t", []byte{2}, byte(qos), false, false, 99))
			select {
			case <-c.Done():
			case <-time.After(3 * time.Second):
				r.Props = append(r.Props, viol("C11", "done-not-closed", "the reader could not write its acknowledgement but the connection did not end"))
				r.Props = append(r.Props, viol("C16", "done-mismatch", "the connection is dead (acknowledgement write failed) but Done() is open"))
				return r
			}
			time.Sleep(time.Millisecond)
			if c.Err() == nil {
				r.Props = append(r.Props, viol("C16", "closed-without-error", "the connection ended on a failed acknowledgement write but Err() is nil (callbacks %v)", states))
				r.Props = append(r.Props, viol("C06", "no-error-at-end", "connection ended with Err()==nil after a failed acknowledgement write"))
			}
			closedOK := false
			for _, s := range states {
				if strings.HasPrefix(s, "Closed:") && s != "Closed:ok" {
					closedOK = true
				}
			}
			if !closedOK {
				r.Props = append(r.Props, viol("C16", "closed-not-reported", "no Closed callback with an error after a failed acknowledgement write: %v", states))
			}
			return r
		}})
}
