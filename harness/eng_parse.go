package main

// Engines for C06 (and the inbound half of C05): readPacket, the packet parsers, unpackString
// and the whole serve loop fed with arbitrary byte streams.

import (
	"bytes"
	"context"
	"fmt"
	"math/rand"
	"runtime"
	"sort"
	"strings"
	"sync"
	"time"
	"unicode/utf8"

	mqtt "github.com/at-wat/mqtt-go"
)

// sizeReader reports the size of every Read request (= the buffer readPacket allocated).
type sizeReader struct {
	r    *bytes.Reader
	reqs []int
}

func (s *sizeReader) Read(p []byte) (int, error) {
	s.reqs = append(s.reqs, len(p))
	return s.r.Read(p)
}

var byteAlphabet = []byte{0x00, 0x01, 0x02, 0x7f, 0x80, 0xff}

func mutateStream(rng *rand.Rand) []byte {
	// valid prefix
	var b []byte
	k := rng.Intn(4)
	for i := 0; i < k; i++ {
		b = append(b, randValidInbound(rng)...)
	}
	switch rng.Intn(12) {
	case 0: // truncated packet
		p := randValidInbound(rng)
		b = append(b, p[:rng.Intn(len(p))]...)
	case 1: // over-long length field
		// fifth length byte kept small: on code without the four-byte bound the request stays below 1 GiB
		b = append(b, 0x30, 0x80|byte(rng.Intn(128)), 0x80|byte(rng.Intn(128)), 0x80|byte(rng.Intn(128)), 0x80|byte(rng.Intn(128)), byte(1+rng.Intn(2)))
		b = append(b, randBytes(rng, rng.Intn(8))...)
	case 2: // non-terminating length field
		b = append(b, byte(pick(rng, 0x30, 0x40, 0x90)))
		for i := 0; i < 4+rng.Intn(8); i++ {
			b = append(b, 0xff)
		}
	case 3: // illegal flags
		t := byte(pick(rng, 0x20, 0x40, 0x50, 0x60, 0x70, 0x90, 0xb0, 0xd0))
		f := byte(1 + rng.Intn(15))
		if t == 0x60 && f == 2 {
			f = 0
		}
		body := []byte{0, 1}
		if t == 0xd0 {
			body = nil
		}
		b = append(b, specPacket(t|f, body)...)
	case 4: // QoS 3
		b = append(b, specPacket(0x36|byte(rng.Intn(2))|byte(rng.Intn(2))<<3, append(specStr("a"), 0, 1, 9))...)
	case 5: // packet types a client must not receive / unknown
		t := byte(pick(rng, 0x00, 0x10, 0x80, 0xa0, 0xc0, 0xe0, 0xf0))
		b = append(b, specPacket(t|byte(pick(rng, 0, 2)), randBytes(rng, rng.Intn(4)))...)
	case 6: // body shorter than fixed fields
		t := byte(pick(rng, 0x20, 0x40, 0x50, 0x62, 0x70, 0x90, 0xb0))
		b = append(b, specPacket(t, randBytes(rng, rng.Intn(2)))...)
	case 7: // U+0000 / bad runes in topic
		topic := pick(rng, 0, 1, 2)
		ts := []string{"a\x00b", "\x00", "a/\xed\xa0\x80"}[topic]
		b = append(b, specPacket(0x30, append(specStr(ts), 1, 2))...)
	case 8: // topic length beyond body
		b = append(b, specPacket(0x30|byte(rng.Intn(16)), []byte{0, byte(3 + rng.Intn(5)), 'a'})...)
	case 9: // qos>0 publish without room for id
		b = append(b, specPacket(0x32, append(specStr("ab"), randBytes(rng, rng.Intn(2))...))...)
	default:
		b = append(b, randValidInbound(rng)...)
	}
	if rng.Intn(2) == 0 {
		b = append(b, randBytes(rng, rng.Intn(6))...)
	}
	return b
}

func randValidInbound(rng *rand.Rand) []byte {
	id := uint16(pick(rng, 1, 2, 3, 65535))
	switch rng.Intn(9) {
	case 0:
		return specPublish(string(randTopic(rng)), randBytes(rng, rng.Intn(6)), 0, rng.Intn(2) == 0, false, 0)
	case 1:
		return specPublish("t/"+string(randTopic(rng)), randBytes(rng, rng.Intn(6)), 1, rng.Intn(2) == 0, rng.Intn(2) == 0, id)
	case 2:
		return specPublish("q2", randBytes(rng, rng.Intn(6)), 2, false, rng.Intn(2) == 0, id)
	case 3:
		return specAck(0x62, id)
	case 4:
		return specAck(byte(pick(rng, 0x40, 0x50, 0x70, 0xb0)), id)
	case 5:
		return specSubAck(id, randBytes(rng, rng.Intn(3)))
	case 6:
		return specPacket(0xd0, nil)
	case 7:
		return specConnAck(rng.Intn(2) == 0, byte(rng.Intn(6)))
	}
	return specPublish("a", nil, 0, false, false, 0)
}

func init() {
	// ---- rp: readPacket on a byte string ----------------------------------
	register(&funcEngine{name: "rp",
		gen: func(rng *rand.Rand, tier string, n int, emit func(string)) {
			for _, s := range []string{"-", "30", "3000", "3001", "300141", "30ffffffff01", "30ffffffffffffffffff7f", "308080808001",
				"30808080", "3080808000", "d000", "20020000", "30ff7f", "3080"} {
				emit(s)
			}
			if tier == "thorough" {
				// exhaustive small scope: first byte x 1..5 length bytes over the alphabet x short bodies
				firsts := []byte{0x00, 0x20, 0x30, 0x3f, 0x90, 0xd0, 0xff}
				var rec func(prefix []byte, depth int)
				rec = func(prefix []byte, depth int) {
					emit(descBytes(prefix))
					if depth == 0 {
						return
					}
					for _, x := range byteAlphabet {
						rec(append(append([]byte{}, prefix...), x), depth-1)
					}
				}
				for _, f := range firsts {
					rec([]byte{f}, 6)
				}
			}
			for i := 0; i < n; i++ {
				switch rng.Intn(3) {
				case 0:
					emit(descBytes(randBytes(rng, rng.Intn(12))))
				case 1:
					emit(descBytes(mutateStream(rng)))
				default:
					k := 1 + rng.Intn(7)
					b := []byte{byte(rng.Intn(256))}
					for j := 0; j < k; j++ {
						b = append(b, byteAlphabet[rng.Intn(len(byteAlphabet))])
					}
					emit(descBytes(append(b, randBytes(rng, rng.Intn(4))...)))
				}
			}
		},
		exec: func(f []string) Result {
			in := mustDesc(f[0])
			sr := &sizeReader{r: bytes.NewReader(in)}
			var t, fl byte
			var c []byte
			var rerr error
			perr := guard(func() error { t, fl, c, rerr = mqtt.VerifReadPacket(sr); return nil })
			maxReq := 0
			for _, q := range sr.reqs {
				if q > maxReq {
					maxReq = q
				}
			}
			r := Result{Tags: []string{"nontrivial"}}
			if perr != nil {
				r.Out = "panic"
				r.Props = append(r.Props, viol("C06", "readpacket-panic", "readPacket panicked on %x", in))
				r.Tags = append(r.Tags, "panic")
				return r
			}
			if maxReq > 268435455 {
				r.Props = append(r.Props, viol("C06", "alloc-over-max", "readPacket requested %d bytes for one packet on %x", maxReq, in))
			}
			if rerr != nil {
				r.Out = errClass(rerr)
				r.Tags = append(r.Tags, errClass(rerr))
				if headerLen(in) > 5 && (errClass(rerr) == "E:EOF" || errClass(rerr) == "E:UnexpectedEOF") {
					r.Props = append(r.Props, viol("C06", "overlong-length-accepted", "length field of %d bytes not rejected: %x", headerLen(in)-1, in))
				}
				return r
			}
			if headerLen(in) > 5 {
				r.Props = append(r.Props, viol("C06", "overlong-length-accepted", "length field of %d bytes accepted: %x", headerLen(in)-1, in))
			}
			r.Out = fmt.Sprintf("ok t=%d f=%d c=%s rest=%d", t, fl, showBytes(c), sr.r.Len())
			r.Tags = append(r.Tags, "ok")
			return r
		}})

	// ---- parse: one parser on (flag, contents) -------------------------------
	register(&funcEngine{name: "parse",
		gen: func(rng *rand.Rand, tier string, n int, emit func(string)) {
			kinds := []int{0x20, 0x30, 0x40, 0x50, 0x60, 0x70, 0x90, 0xb0, 0xd0, 0x10, 0x80, 0xf0}
			if tier == "thorough" {
				for _, k := range kinds {
					for _, fl := range []int{0, 1, 2, 3, 4, 6, 8, 15} {
						var rec func(prefix []byte, depth int)
						rec = func(prefix []byte, depth int) {
							emit(fmt.Sprintf("%d %d %s", k, fl, descBytes(prefix)))
							if depth == 0 {
								return
							}
							for _, x := range byteAlphabet {
								rec(append(append([]byte{}, prefix...), x), depth-1)
							}
						}
						rec(nil, 4)
					}
				}
			}
			// PUBLISH: topic followed by 0..3 bytes, for every QoS / flag combination
			for fl := 0; fl < 16; fl++ {
				for _, body := range []string{"000161", "00016112", "0001611234", "000161123456", "0000", "000012", "00001234", "0002c3a9", "0002c3a912", "0002c3a91234"} {
					emit(fmt.Sprintf("%d %d %s", 0x30, fl, body))
				}
			}
			for _, k := range kinds {
				for _, body := range []string{"-", "00", "0001", "000102", "0000", "0003616263", "00016100010203"} {
					for _, fl := range []int{0, 2} {
						emit(fmt.Sprintf("%d %d %s", k, fl, body))
					}
				}
			}
			for i := 0; i < n; i++ {
				k := kinds[rng.Intn(len(kinds))]
				fl := rng.Intn(16)
				if rng.Intn(2) == 0 {
					fl = pick(rng, 0, 2)
				}
				var body []byte
				switch rng.Intn(3) {
				case 0:
					body = randBytes(rng, rng.Intn(8))
				case 1:
					p := randValidInbound(rng)
					hl := headerLen(p)
					body = p[hl:]
					k = int(p[0] & 0xf0)
					if rng.Intn(3) > 0 {
						fl = int(p[0] & 0x0f)
					}
				default:
					for j := rng.Intn(6); j > 0; j-- {
						body = append(body, byteAlphabet[rng.Intn(len(byteAlphabet))])
					}
				}
				emit(fmt.Sprintf("%d %d %s", k, fl, descBytes(body)))
			}
		},
		exec: execParse})

	// ---- inpub: well-formed inbound PUBLISH delivered with exactly its fields ----
	register(&funcEngine{name: "inpub",
		gen: func(rng *rand.Rand, tier string, n int, emit func(string)) {
			// bodies around 16 KiB, 64 KiB and beyond (any reader that grows or reuses a buffer crosses its size classes here)
			for _, l := range []int{16383, 16384, 16385, 20000, 65536, 70001} {
				pl := make([]byte, l)
				for i := range pl {
					pl[i] = byte(i*7 + l)
				}
				p := specPublish("big/t", pl, 1, true, false, 77)
				hl := headerLen(p)
				emit(fmt.Sprintf("@parse %d %d %s", 0x30, p[0]&0x0f, descBytes(p[hl:])))
				emit(fmt.Sprintf("@rp %s", descBytes(p)))
				emit(fmt.Sprintf("@serve 1 %s", descBytes(p)))
			}
			// topics at the top of the 16-bit length range, and a packet that only announces such a topic
			for _, l := range []int{65533, 65534, 65535} {
				for _, qos := range []byte{0, 1} {
					p := specPublish(strings.Repeat("t", l), []byte{1, 2}, qos, false, false, 9)
					hl := headerLen(p)
					emit(fmt.Sprintf("@parse %d %d %s", 0x30, p[0]&0x0f, descBytes(p[hl:])))
				}
				emit(fmt.Sprintf("@parse %d %d %04x", 0x30, 0, l))
				emit(fmt.Sprintf("@parse %d %d %04x61", 0x30, 2, l))
			}
			for i := 0; i < n; i++ {
				topic := strings.ReplaceAll(string(randTopic(rng)), "\x00", "")
				qos := byte(rng.Intn(3))
				p := specPublish(topic, randBytes(rng, rng.Intn(40)), qos, rng.Intn(2) == 0, rng.Intn(2) == 0, uint16(1+rng.Intn(65535)))
				hl := headerLen(p)
				emit(fmt.Sprintf("@parse %d %d %s", 0x30, p[0]&0x0f, descBytes(p[hl:])))
			}
		},
		exec: func(f []string) Result { return Result{Out: "unused"} }})

	// ---- ustr: unpackString ---------------------------------------------------
	register(&funcEngine{name: "ustr",
		gen: func(rng *rand.Rand, tier string, n int, emit func(string)) {
			lead := []byte{0x00, 0x41, 0x7f, 0x80, 0xbf, 0xc0, 0xc2, 0xdf, 0xe0, 0xed, 0xef, 0xf0, 0xf4, 0xf5, 0xff, 0xa0, 0x9f, 0x90, 0x8f}
			if tier == "thorough" {
				for _, a := range lead {
					for _, b := range lead {
						for _, c := range lead {
							emit(descBytes([]byte{0, 3, a, b, c}))
						}
					}
				}
			}
			for _, a := range lead {
				emit(descBytes([]byte{0, 1, a}))
				for _, b := range lead {
					emit(descBytes([]byte{0, 2, a, b}))
				}
			}
			emit("-")
			emit("00")
			emit("0005616263")
			// length prefixes at the top of the 16-bit range: exact, one short, with trailing bytes, and with almost nothing behind
			for _, l := range []int{65533, 65534, 65535} {
				pre := fmt.Sprintf("%04x", l)
				emit(fmt.Sprintf("%s+rep:61:%d", pre, l))
				emit(fmt.Sprintf("%s+rep:61:%d+0102", pre, l))
				emit(fmt.Sprintf("%s+rep:61:%d", pre, l-1))
				emit(pre)
				emit(pre + "61")
			}
			for i := 0; i < n; i++ {
				k := rng.Intn(6)
				body := make([]byte, k)
				for j := range body {
					if rng.Intn(3) == 0 {
						body[j] = byte(rng.Intn(256))
					} else {
						body[j] = lead[rng.Intn(len(lead))]
					}
				}
				if rng.Intn(3) == 0 {
					body = []byte(string([]rune{rune(rng.Intn(0x110000))}) + "é日")
				}
				ln := len(body)
				if rng.Intn(6) == 0 {
					ln += rng.Intn(3) - 1
				}
				if ln < 0 {
					ln = 0
				}
				emit(descBytes(append([]byte{byte(ln >> 8), byte(ln)}, append(body, randBytes(rng, rng.Intn(3))...)...)))
			}
		},
		exec: func(f []string) Result {
			in := mustDesc(f[0])
			var n int
			var s string
			var err error
			perr := guard(func() error { n, s, err = mqtt.VerifUnpackString(in); return nil })
			r := Result{Tags: []string{"nontrivial"}}
			if perr != nil {
				r.Out = "panic"
				r.Props = append(r.Props, viol("C06", "unpackstring-panic", "unpackString panicked on %x", in))
				return r
			}
			if err != nil {
				r.Out = errClass(err)
				r.Tags = append(r.Tags, errClass(err))
				return r
			}
			r.Out = fmt.Sprintf("ok n=%d s=%s", n, hexOrDash([]byte(s)))
			if strings.ContainsRune(s, 0) {
				r.Props = append(r.Props, viol("C06", "nul-accepted", "U+0000 accepted in string %x", in))
			}
			if len(in) >= 2 && n <= len(in) && utf8.Valid(in[2:n]) && !bytes.Contains(in[2:n], []byte{0}) && s != string(in[2:n]) {
				r.Props = append(r.Props, viol("C05", "inbound-string-changed", "well-formed string %x delivered as %x", in[2:n], s))
			}
			return r
		}})

	// ---- serve: the whole reader loop on a connected client ------------------
	register(&funcEngine{name: "serve", par: 16,
		gen: func(rng *rand.Rand, tier string, n int, emit func(string)) {
			for _, s := range []string{
				"320700016100010a0b400200016202000162020001", // qos1 + puback + unknown pubrels
				"340600017100010a62020001" + "62020001",      // qos2 then pubrel twice
				"9000",                                       // short SUBACK
				"30ffffffffffffffffff7f",                     // endless length
				"308080808001",                               // five-byte length
				"3003000100" + "3003000161",                  // NUL topic then valid publish
				"360500016100" + "01",                        // QoS 3
				"f000", "1000", "d001", "2002000" + "0",
			} {
				emit("1 " + s)
				emit("0 " + s)
			}
			for i := 0; i < n; i++ {
				emit(fmt.Sprintf("%d %s", rng.Intn(4)/3^1, descBytes(mutateStream(rng))))
			}
		},
		exec: execServe})
}

// headerLen returns the number of fixed-header bytes (1 + length field) if the length field
// terminates within the input (any number of continuation bytes), else 0.
func headerLen(b []byte) int {
	for i := 1; i < len(b); i++ {
		if b[i]&0x80 == 0 {
			return i + 1
		}
	}
	return 0
}

func rawVarInt(b []byte) (int, bool) {
	n := 0
	for i, x := range b {
		if i > 8 {
			return n, false
		}
		n |= int(x&0x7f) << (7 * uint(i))
	}
	return n, true
}

func execParse(f []string) Result {
	kind, flag := byte(atoi(f[0])), byte(atoi(f[1]))
	body := mustDesc(f[2])
	var s string
	var err error
	perr := guard(func() error { s, err = mqtt.VerifParse(kind, flag, append([]byte{}, body...)); return nil })
	r := Result{Tags: []string{"nontrivial", fmt.Sprintf("k%02x", kind)}}
	if perr != nil {
		r.Out = "panic"
		r.Props = append(r.Props, viol("C06", fmt.Sprintf("parser-panic-%02x", kind), "parser %02x panicked on flag=%d body=%x", kind, flag, body))
		return r
	}
	if err != nil {
		r.Out = errClass(err)
		r.Tags = append(r.Tags, errClass(err))
	} else {
		// VerifParse prints payload / topic hex; re-render long payloads canonically
		r.Out = "ok " + canonParse(s)
		r.Tags = append(r.Tags, "ok")
	}
	// property oracles
	pkt := specPacket(kind|flag, body)
	sp, rest, derr := specDecode(pkt)
	if derr == nil && len(rest) == 0 && kind == 0x30 && utf8.ValidString(sp.Topic) && !strings.ContainsRune(sp.Topic, 0) {
		want := fmt.Sprintf("publish topic=%s id=%d qos=%d retain=%v dup=%v payload=%s", hexOrDash([]byte(sp.Topic)), sp.ID, sp.QoS, sp.Retain, sp.Dup, showBytes(sp.Payload))
		if err != nil || canonParse(s) != want {
			r.Props = append(r.Props, viol("C05", "inbound-publish-fields", "PUBLISH %x delivered as %q (err %v), want %q", pkt, s, err, want))
		}
	}
	if err == nil && malformedListed(kind, flag, body) != "" {
		r.Props = append(r.Props, viol("C06", "malformed-accepted-"+malformedListed(kind, flag, body), "parser %02x accepted flag=%d body=%x", kind, flag, body))
	}
	return r
}

// canonParse turns VerifParse's rendering ("topic=<hex>", "payload=<hex>") into the canonical
// form shared with the Lean oracle (empty = "-", long payloads summarised).
func canonParse(s string) string {
	toks := strings.Split(s, " ")
	for i, t := range toks {
		if strings.HasPrefix(t, "topic=") {
			toks[i] = "topic=" + hexOrDash(mustDesc(orDash(t[6:])))
		}
		if strings.HasPrefix(t, "payload=") {
			toks[i] = "payload=" + showBytes(mustDesc(orDash(t[8:])))
		}
		if strings.HasPrefix(t, "codes=") {
			toks[i] = "codes=" + hexOrDash(mustDesc(orDash(t[6:])))
		}
	}
	return strings.Join(toks, " ")
}

func orDash(s string) string {
	if s == "" {
		return "-"
	}
	return s
}

// malformedListed classifies (type, flags, body) against the malformed-input classes that the
// property C06 lists. Returns "" when the input is not in one of those classes.
func malformedListed(kind, flag byte, body []byte) string {
	switch kind {
	case 0x20, 0x40, 0x50, 0x70, 0x90, 0xb0, 0xd0:
		if flag != 0 {
			return "flags"
		}
	case 0x60:
		if flag != 2 {
			return "flags"
		}
	case 0x30:
		if flag&0x06 == 0x06 {
			return "qos3"
		}
	default:
		return "type"
	}
	switch kind {
	case 0x20, 0x40, 0x50, 0x60, 0x70, 0x90, 0xb0:
		if len(body) < 2 {
			return "short"
		}
	case 0x30:
		if len(body) < 2 {
			return "short"
		}
		n := int(body[0])<<8 | int(body[1])
		if len(body) < 2+n {
			return "short"
		}
		if flag&0x06 != 0 && len(body) < 2+n+2 {
			return "short"
		}
		topic := body[2 : 2+n]
		if bytes.Contains(topic, []byte{0}) && utf8.Valid(topic) {
			return "nul"
		}
	}
	return ""
}

type handlerLog struct {
	mu   sync.Mutex
	evs  []string
	tr   *recTransport
	seen int
}

func execServe(f []string) Result {
	withHandler := f[0] == "1"
	stream := mustDesc(f[1])
	tr := newRecTransport()
	var mu sync.Mutex
	var timeline []string
	tr.onWrite = func(p []byte) {
		mu.Lock()
		timeline = append(timeline, "W("+hexOrDash(p)+")")
		mu.Unlock()
	}
	var states []string
	c := &mqtt.BaseClient{Transport: tr, ConnState: func(s mqtt.ConnState, err error) {
		mu.Lock()
		states = append(states, fmt.Sprintf("%v:%s", s, errClass(err)))
		mu.Unlock()
	}}
	if withHandler {
		c.Handle(mqtt.HandlerFunc(func(m *mqtt.Message) {
			runtime.Gosched()
			time.Sleep(200 * time.Microsecond)
			mu.Lock()
			timeline = append(timeline, fmt.Sprintf("H(topic=%s id=%d qos=%d retain=%v dup=%v payload=%s)", hexOrDash([]byte(m.Topic)), m.ID, m.QoS, m.Retain, m.Dup, showBytes(m.Payload)))
			mu.Unlock()
		}))
	}
	if _, err := connectRec(c, tr); err != nil {
		return Result{Out: "connect-failed:" + errClass(err)}
	}
	mu.Lock()
	timeline = nil
	mu.Unlock()
	tr.feed(stream)
	tr.feedEOF()
	select {
	case <-c.Done():
	case <-time.After(10 * time.Second):
		return Result{Out: "serve-did-not-end", Props: []PropResult{viol("C06", "serve-hang", "reader did not end on %x", stream)}}
	}
	mu.Lock()
	defer mu.Unlock()
	maxReq := 0
	tr.mu.Lock()
	for _, q := range tr.readReq {
		if q > maxReq {
			maxReq = q
		}
	}
	tr.mu.Unlock()
	err := c.Err()
	// count processed packets with the independent framer
	r := Result{Tags: []string{"nontrivial", "end=" + errClass(err)}}
	// model prints: outs | n=<processed> end=<class> maxalloc=<n>; processed is not observable
	// on the implementation, so the harness prints the framer's count of packets before the end.
	r.Out = strings.Join(timeline, " ") + fmt.Sprintf(" | end=%s", errClass(err))
	if maxReq > 268435455 {
		r.Props = append(r.Props, viol("C06", "alloc-over-max", "reader requested %d bytes on %x", maxReq, stream))
	}
	if err == nil {
		r.Props = append(r.Props, viol("C06", "no-error-at-end", "connection ended with Err()==nil on %x", stream))
	}
	closedSeen := false
	for _, s := range states {
		if strings.HasPrefix(s, "Closed:") && s != "Closed:ok" {
			closedSeen = true
		}
	}
	if !closedSeen {
		r.Props = append(r.Props, viol("C06", "no-closed-callback", "no Closed state callback with error on %x: %v", stream, states))
	}
	if want, ok := inboundSpecTimeline(stream, withHandler); ok {
		if got := strings.Join(timeline, " "); got != want {
			r.Props = append(r.Props, viol("C04", "timeline", "inbound flow on %x: observed [%s], MQTT flow rules give [%s]", stream, got, want))
			if withHandler && strings.Count(got, "H(") < strings.Count(want, "H(") {
				r.Props = append(r.Props, viol("C17", "inbound-dropped", "a message the broker sent on this connection never reached the registered handler: observed [%s], expected [%s]", got, want))
			}
			if handOvers(got) != handOvers(want) {
				r.Props = append(r.Props, viol("C05", "inbound-delivered-fields", "messages handed over on %x: [%s], sent by the broker: [%s]", stream, handOvers(got), handOvers(want)))
			}
		}
		r.Tags = append(r.Tags, "c04")
	}
	// malformed packet must end the link with a library error, not be skipped
	if kind := firstMalformed(stream); kind != "" && (errClass(err) == "E:EOF" || errClass(err) == "ok") {
		r.Props = append(r.Props, viol("C06", "malformed-not-fatal-"+kind, "stream %x has a malformed packet (%s) but the connection ended with %s", stream, kind, errClass(err)))
	}
	return r
}

// firstMalformed walks the stream with the independent framer and returns the class of the
// first packet that is malformed in one of the ways the property lists ("" if none).
func firstMalformed(stream []byte) string {
	b := stream
	for len(b) >= 2 {
		hl := 0
		for i := 1; i < len(b) && i <= 4; i++ {
			if b[i]&0x80 == 0 {
				hl = i + 1
				break
			}
		}
		if hl == 0 {
			if len(b) > 4 {
				return "length"
			}
			return "" // truncated: ends with EOF class, fine
		}
		rl, _ := rawVarInt(b[1:hl])
		if len(b) < hl+rl {
			return ""
		}
		if k := malformedListed(b[0]&0xf0, b[0]&0x0f, b[hl:hl+rl]); k != "" {
			return k
		}
		b = b[hl+rl:]
	}
	return ""
}

var _ = context.Background

// inboundSpecTimeline is the declarative reading of property C04 over a stream that consists only
// of well-formed PUBLISH and PUBREL packets: per position, what must be handed over and written.
// ok=false when the stream contains anything else (then C04 says nothing).
func inboundSpecTimeline(stream []byte, handler bool) (string, bool) {
	var pk []*SPkt
	b := stream
	for len(b) > 0 {
		p, rest, err := specDecode(b)
		if err != nil || (p.Type != 0x30 && p.Type != 0x60) {
			return "", false
		}
		if p.Type == 0x30 && (!utf8.ValidString(p.Topic) || strings.ContainsRune(p.Topic, 0)) {
			return "", false
		}
		pk = append(pk, p)
		b = rest
	}
	var out []string
	ho := func(p *SPkt) {
		if handler {
			out = append(out, fmt.Sprintf("H(topic=%s id=%d qos=%d retain=%v dup=%v payload=%s)", hexOrDash([]byte(p.Topic)), p.ID, p.QoS, p.Retain, p.Dup, showBytes(p.Payload)))
		}
	}
	for i, p := range pk {
		switch {
		case p.Type == 0x30 && p.QoS == 0:
			ho(p)
		case p.Type == 0x30 && p.QoS == 1:
			ho(p)
			out = append(out, "W("+hexOrDash(specAck(0x40, p.ID))+")")
		case p.Type == 0x30 && p.QoS == 2:
			out = append(out, "W("+hexOrDash(specAck(0x50, p.ID))+")")
		case p.Type == 0x60:
			// effective iff a QoS 2 PUBLISH with this id occurs before i with no effective PUBREL(id) in between:
			// scan backwards to the latest PUBLISH(id) / PUBREL(id); a PUBREL(id) found first is either
			// effective (consumed the publish) or ineffective (then there was no publish before it either,
			// unless an even earlier effective one consumed it) - in both cases nothing is pending.
			var latest *SPkt
			for j := i - 1; j >= 0; j-- {
				if pk[j].Type == 0x60 && pk[j].ID == p.ID {
					break
				}
				if pk[j].Type == 0x30 && pk[j].QoS == 2 && pk[j].ID == p.ID {
					latest = pk[j]
					break
				}
			}
			if latest != nil {
				ho(latest)
				out = append(out, "W("+hexOrDash(specAck(0x70, p.ID))+")")
			}
		}
	}
	return strings.Join(out, " "), true
}

func init() {
	// ---- inflow: sequences over PUBLISH q0/q1/q2 and PUBREL for C04 (executed by `serve`) ----
	register(&funcEngine{name: "inflow",
		gen: func(rng *rand.Rand, tier string, n int, emit func(string)) {
			ids := []uint16{1, 2, 3, 65535}
			sym := func(k int, id uint16, dup bool) []byte {
				switch k {
				case 0:
					return specPublish("t/0", []byte{byte(id)}, 0, false, false, 0)
				case 1:
					return specPublish("t/1", []byte{byte(id), 1}, 1, false, dup, id)
				case 2:
					return specPublish("t/2", []byte{byte(id), 2, byte(rand.Intn(1) + 7)}, 2, false, dup, id)
				}
				return specAck(0x62, id)
			}
			if tier == "thorough" {
				// all sequences up to length 5 over a 9-symbol alphabet
				alpha := [][]byte{sym(0, 1, false), sym(1, 1, false), sym(1, 2, true), sym(2, 1, false), sym(2, 1, true), sym(2, 2, false),
					sym(3, 1, false), sym(3, 2, false), sym(3, 3, false)}
				var rec func(prefix []byte, depth int)
				rec = func(prefix []byte, depth int) {
					if len(prefix) > 0 {
						emit("@serve 1 " + descBytes(prefix))
					}
					if depth == 0 {
						return
					}
					for _, a := range alpha {
						rec(append(append([]byte{}, prefix...), a...), depth-1)
					}
				}
				rec(nil, 5)
			}
			for i := 0; i < n; i++ {
				k := rng.Intn(41)
				var b []byte
				for j := 0; j < k; j++ {
					b = append(b, sym(rng.Intn(4), ids[rng.Intn(len(ids))], rng.Intn(2) == 0)...)
				}
				h := 1
				if rng.Intn(5) == 0 {
					h = 0
				}
				emit(fmt.Sprintf("@serve %d %s", h, descBytes(b)))
			}
		},
		exec: func(f []string) Result { return Result{Out: "unused"} }})
}

// handOvers extracts the sorted multiset of hand-over events of a timeline.
func handOvers(tl string) string {
	var hs []string
	for _, t := range strings.Split(strings.ReplaceAll(tl, ") ", ")\n"), "\n") {
		if strings.HasPrefix(t, "H(") {
			hs = append(hs, t)
		}
	}
	sort.Strings(hs)
	return strings.Join(hs, " ")
}
