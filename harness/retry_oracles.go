package main

// Go-side property oracles evaluated on what the real client did in a retry-stack scenario:
// the executable reading of C01 C02 C03 C08 C09 C12 C17 C18 on wire traces, broker state,
// callbacks and timestamps. They never look at the Lean model's output.

import (
	"context"
	"errors"
	"fmt"
	"sort"
	"strings"
	"time"

	mqtt "github.com/at-wat/mqtt-go"
)

func wroteOK(tag string) bool { return tag == "" || tag == "!lr" || tag == "!la" || tag == "!si" }

func retryOracles(run *retryRun, cfg string, modelSettled, stuck, havePlan bool, waits []int, plan []planPoint) []PropResult {
	var v []PropResult
	s := run.sc
	st := run.rc.Stats()
	s.mu.Lock()
	defer s.mu.Unlock()
	script := strings.Join(run.evs, " ")

	// is the client idle on a stable connection?
	settled := st.QueuedTasks == 0 && st.QueuedRetries == 0 && len(s.conns) > 0
	if settled {
		last := s.conns[len(s.conns)-1]
		settled = last.accepted && !last.closed
	}
	disconnected := strings.Contains(script, "disc")
	// C01.settles_within: from any reachable state, (faults left + 1) friendly reconnect rounds [timer, dial ok,
	// CONNACK with session] reach an idle stable connection with every accepted request acknowledged — provided
	// Disconnect is not called, the Connect context is not cancelled before the first success and the run is not
	// blocked by a silent broker without a response timeout. If the script ends with at least (all faults + 2)
	// such rounds and the model run has settled, the implementation must have settled too: being still busy (or
	// idle with something unacknowledged) after that many friendly rounds is a concrete failure, not just a difference.
	friendly := 0
	for i := len(run.evs) - 1; i >= 1; i -= 2 {
		if run.evs[i] == "ack+:1" && strings.HasPrefix(run.evs[i-1], "dial+:") {
			friendly++
		} else {
			break
		}
	}
	mustBeSettled := modelSettled && !disconnected && !stuck && !strings.Contains(script, "cancel") && !strings.HasSuffix(cfg, "w1") &&
		friendly >= len(s.used)+len(s.faults)+2
	if mustBeSettled && !settled {
		v = append(v, viol("C01", "not-settled-after-friendly-tail", "after %d friendly reconnect rounds (faults in the plan: %d) the client is still not idle on a stable connection: queued tasks %d, queued retries %d, connections %d",
			friendly, len(s.used)+len(s.faults), st.QueuedTasks, st.QueuedRetries, len(s.conns)))
		settled = true // the rows below now state what is missing
	}
	allKept := true // every connection after the first kept the session
	first := true
	for _, ev := range run.evs {
		if strings.HasPrefix(ev, "ack+:") {
			if !first && strings.HasPrefix(ev, "ack+:0") {
				allKept = false
			}
			first = false
		}
	}

	// ---------- C01: nothing accepted is lost ----------
	if settled && !disconnected && !stuck {
		ackCount := map[string]int{}
		for _, a := range s.broker.acked {
			ackCount[a]++
		}
		need := map[string]int{}
		for _, a := range run.accepted {
			if strings.HasPrefix(a, "p") && strings.HasSuffix(a, "q0") {
				continue
			}
			need[a]++
		}
		for a, n := range need {
			if ackCount[a] < n {
				v = append(v, viol("C01", "request-lost", "request %s was accepted %d time(s) but acknowledged %d time(s); the client is idle with empty queues", a, n, ackCount[a]))
			}
		}
	}

	// per message view of the wire
	type att struct {
		e wireEntry
	}
	pubs := map[int][]wireEntry{}
	rels := map[int][]wireEntry{}
	idOf := map[uint16]int{}
	for _, e := range s.wire {
		switch e.pkt.Type {
		case 0x30:
			m := msgIndex(e.pkt)
			pubs[m] = append(pubs[m], e)
			if e.pkt.HasID {
				idOf[e.pkt.ID] = m
			}
		case 0x60:
			if m, ok := idOf[e.pkt.ID]; ok {
				rels[m] = append(rels[m], e)
			}
		}
	}
	qosOf := map[int]int{}
	for _, a := range run.accepted {
		var m, q int
		if n, _ := fmt.Sscanf(a, "p%dq%d", &m, &q); n == 2 {
			qosOf[m] = q
		}
	}

	// ---------- C02: QoS 2 exactly once ----------
	if mustBeSettled && allKept {
		got := map[int]bool{}
		for _, m := range s.broker.delivered {
			got[m] = true
		}
		for m, q := range qosOf {
			if q == 2 && !got[m] {
				v = append(v, viol("C02", "qos2-never-delivered", "QoS 2 message %d was accepted and never delivered although the run ends with %d friendly reconnect rounds", m, friendly))
			}
		}
	}
	if allKept {
		delivered := map[int]int{}
		for _, m := range s.broker.delivered {
			delivered[m]++
		}
		for m, q := range qosOf {
			if q != 2 {
				continue
			}
			if delivered[m] > 1 {
				v = append(v, viol("C02", "qos2-duplicate", "QoS 2 message %d was delivered onward %d times", m, delivered[m]))
			}
			if settled && !disconnected && !stuck && delivered[m] == 0 {
				v = append(v, viol("C02", "qos2-lost", "QoS 2 message %d was never delivered onward although the client is idle", m))
			}
		}
	}
	for m, rl := range rels {
		// once PUBCOMP was received (PUBREL answered) nothing more is transmitted for the message
		for _, e := range rl {
			if e.tag != "" {
				continue
			}
			for _, p := range pubs[m] {
				if p.seq > e.seq {
					v = append(v, viol("C02", "transmit-after-pubcomp", "PUBLISH for message %d after its PUBCOMP was received", m))
				}
			}
			for _, r2 := range rl {
				if r2.seq > e.seq {
					v = append(v, viol("C02", "transmit-after-pubcomp", "PUBREL for message %d after its PUBCOMP was received", m))
				}
			}
		}
	}

	// ---------- C03: submission order ----------
	for k := range s.conns {
		last := -1
		for _, e := range s.wire {
			if e.conn != k || e.pkt.Type != 0x30 || !wroteOK(e.tag) {
				continue
			}
			m := msgIndex(e.pkt)
			if m < last {
				v = append(v, viol("C03", "order-on-connection", "connection %d carries PUBLISH of message %d after message %d", k, m, last))
			}
			last = m
		}
	}
	{
		seen := map[int]bool{}
		last := -1
		for _, e := range s.wire {
			if e.pkt.Type != 0x30 {
				continue
			}
			m := msgIndex(e.pkt)
			if seen[m] {
				continue
			}
			seen[m] = true
			if m < last {
				v = append(v, viol("C03", "first-transmission-order", "message %d transmitted for the first time after message %d", m, last))
			}
			last = m
		}
		// first deliveries of QoS>=1 messages in submission order when connections fail only by closing
		if allKept && !strings.Contains(strings.Join(run.sc.faultsUsed(), ","), "si") {
			seenD := map[int]bool{}
			lastD := -1
			for _, m := range s.broker.delivered {
				if seenD[m] || qosOf[m] == 0 {
					continue
				}
				seenD[m] = true
				if m < lastD {
					v = append(v, viol("C03", "first-delivery-order", "message %d first delivered after message %d", m, lastD))
				}
				lastD = m
			}
		}
	}

	// first transmissions of ALL requests (publish, subscribe, unsubscribe) in submission order
	{
		occ := map[string][]int{} // request key -> submission indices of its occurrences
		for i, a := range run.accepted {
			occ[reqKeyOfAccepted(a)] = append(occ[reqKeyOfAccepted(a)], i)
		}
		started, acked := map[string]int{}, map[string]int{}
		last, lastKey := -1, ""
		// connections on which the library may run a re-subscription pass (not the first accepted one; session lost or
		// AlwaysResubscribe): there a single-filter SUBSCRIBE f.q may be the library's own re-subscription of an
		// established filter rather than the application's request with the same content
		resubConn, tainted := map[int]bool{}, map[string]bool{}
		firstAccepted, resubSeen := true, false
		for _, c := range s.conns {
			if !c.accepted {
				continue
			}
			if !firstAccepted && (!c.sessionPresent || cfg[3] == '1') {
				resubSeen = true
			}
			if resubSeen {
				// … and every later connection: a re-subscription interrupted there is retransmitted from the retry queue
				// on whatever connection comes next, session kept or not
				resubConn[c.k] = true
			}
			firstAccepted = false
		}
		establishedByOther := func(part string, idx int, at time.Time) bool {
			for j, a := range run.accepted {
				if j == idx || !strings.HasPrefix(a, "s") || run.acceptedT[j].After(at) {
					continue
				}
				for _, p := range strings.Split(a[1:], ";") {
					if p == part {
						return true
					}
				}
			}
			return false
		}
		for _, e := range s.wire {
			key, final := "", false
			switch e.pkt.Type {
			case 0x30:
				key = fmt.Sprintf("p%d", msgIndex(e.pkt))
				final = e.pkt.QoS <= 1
			case 0x60:
				if m, ok := idOf[e.pkt.ID]; ok {
					if e.tag == "" {
						acked[fmt.Sprintf("p%d", m)]++
					}
				}
				continue
			case 0x80:
				var parts []string
				for i, f := range e.pkt.Filters {
					parts = append(parts, fmt.Sprintf("%s.%d", hexOrDash([]byte(f)), e.pkt.QoSs[i]))
				}
				key, final = "s"+strings.Join(parts, ";"), true
				if len(parts) == 1 && resubConn[e.conn] {
					cand := -1
					if started[key] < len(occ[key]) {
						cand = occ[key][started[key]]
					}
					if establishedByOther(parts[0], cand, e.at) {
						tainted[key] = true // ambiguous: no claim about this request content for the rest of the run
					}
				}
				if tainted[key] {
					continue
				}
			case 0xa0:
				var parts []string
				for _, f := range e.pkt.Filters {
					parts = append(parts, hexOrDash([]byte(f)))
				}
				key, final = "u"+strings.Join(parts, ";"), true
			default:
				continue
			}
			if started[key] > acked[key] {
				// a retransmission of an occurrence that is still in flight
			} else if started[key] < len(occ[key]) && !run.acceptedT[occ[key][started[key]]].After(e.at) {
				idx := occ[key][started[key]]
				started[key]++
				if idx < last {
					v = append(v, viol("C03", "request-order", "request %s (submitted as number %d) was transmitted for the first time after %s (number %d)", key, idx, lastKey, last))
				}
				if idx > last {
					last, lastKey = idx, key
				}
			}
			if final && (e.tag == "" || (e.pkt.Type == 0x30 && e.pkt.QoS == 0 && wroteOK(e.tag))) {
				acked[key]++
			}
		}
	}

	// ---------- C12: faithful retransmissions ----------
	for m, pl := range pubs {
		if m < 0 {
			continue
		}
		firstP := pl[0].pkt
		want := msgOf(m, int(firstP.QoS))
		for i, e := range pl {
			p := e.pkt
			if want.ID != 0 && p.HasID && p.ID != want.ID {
				v = append(v, viol("C15", "caller-id-not-kept", "transmission %d of message %d carries identifier %d, the application had put %d on the message", i, m, p.ID, want.ID))
			}
			if p.Topic != want.Topic || string(p.Payload) != string(want.Payload) || p.Retain != want.Retain || p.QoS != firstP.QoS || (p.HasID && p.ID != firstP.ID) {
				if p.Topic != want.Topic || string(p.Payload) != string(want.Payload) || p.Retain != want.Retain {
					v = append(v, viol("C05", "publish-fields-on-retry", "transmission %d of message %d carries topic %q retain %v payload %x, the application asked for %q %v %x", i, m, p.Topic, p.Retain, p.Payload, want.Topic, want.Retain, want.Payload))
				}
				v = append(v, viol("C12", "retransmission-fields", "transmission %d of message %d differs from the first (id %d/%d qos %d/%d topic %q retain %v)", i, m, p.ID, firstP.ID, p.QoS, firstP.QoS, p.Topic, p.Retain))
			}
			if i == 0 && p.Dup {
				v = append(v, viol("C12", "dup-on-first", "first transmission of message %d has DUP=1", m))
			}
			if i > 0 && !p.Dup {
				v = append(v, viol("C12", "dup-missing", "retransmission %d of message %d has DUP=0", i, m))
			}
		}
		if firstP.QoS == 0 && len(pl) > 1 {
			v = append(v, viol("C12", "qos0-retransmitted", "QoS 0 message %d transmitted %d times", m, len(pl)))
		}
		for _, rel := range rels[m] {
			if !wroteOK(rel.tag) {
				continue
			}
			for _, p := range pl {
				if p.seq > rel.seq {
					v = append(v, viol("C12", "publish-after-pubrel", "PUBLISH for message %d after PUBREL had been sent", m))
				}
			}
			if rel.pkt.ID != firstP.ID {
				v = append(v, viol("C12", "pubrel-id", "PUBREL for message %d carries id %d, PUBLISH carried %d", m, rel.pkt.ID, firstP.ID))
			}
		}
	}

	// ---------- C08: subscriptions converge ----------
	appSubs := map[string]bool{}
	type call struct {
		at   time.Time
		sub  bool
		args []string
	}
	var calls []call
	for i, a := range run.accepted {
		if strings.HasPrefix(a, "s") {
			appSubs[a[1:]] = true
			calls = append(calls, call{at: run.acceptedT[i], sub: true, args: strings.Split(a[1:], ";")})
		} else if strings.HasPrefix(a, "u") {
			calls = append(calls, call{at: run.acceptedT[i], args: strings.Split(a[1:], ";")})
		}
	}
	netAt := func(t time.Time) map[string]int {
		net := map[string]int{}
		for _, c := range calls {
			if c.at.After(t) {
				break
			}
			for _, x := range c.args {
				if c.sub {
					f, q, _ := strings.Cut(x, ".")
					net[f] = atoi(q)
				} else {
					delete(net, x)
				}
			}
		}
		return net
	}
	if settled && !disconnected && !stuck {
		net := netAt(time.Now())
		var want, got []string
		for f, q := range net {
			if q > int(s.broker.grantCap) {
				q = int(s.broker.grantCap)
			}
			want = append(want, fmt.Sprintf("%s.%d", f, q))
		}
		for f, q := range s.broker.subs {
			got = append(got, fmt.Sprintf("%s.%d", hexOrDash([]byte(f)), q))
		}
		sort.Strings(want)
		sort.Strings(got)
		if strings.Join(want, ",") != strings.Join(got, ",") {
			v = append(v, viol("C08", "subscriptions-diverged", "broker has [%s], net effect of the application's calls is [%s]", strings.Join(got, ","), strings.Join(want, ",")))
		}
	}
	// every SUBSCRIBE on the wire (first transmission, retransmission or re-subscription) asks, for each filter, for a
	// QoS the application requested for that filter in some Subscribe call — never for what a broker happened to grant
	{
		asked := map[string]bool{}
		for _, c := range calls {
			if c.sub {
				for _, x := range c.args {
					asked[x] = true
				}
			}
		}
		for _, e := range s.wire {
			if e.pkt.Type != 0x80 {
				continue
			}
			for i, f := range e.pkt.Filters {
				key := fmt.Sprintf("%s.%d", hexOrDash([]byte(f)), e.pkt.QoSs[i])
				if !asked[key] {
					v = append(v, viol("C08", "subscribe-qos-not-requested", "SUBSCRIBE on connection %d asks for %s, which no Subscribe call of the application requested", e.conn, key))
					v = append(v, viol("C05", "subscribe-qos-not-requested", "SUBSCRIBE on connection %d carries %s; the application's Subscribe calls asked for other QoS values for that filter", e.conn, key))
					break
				}
			}
		}
	}
	spOf := map[int]bool{}
	{
		k := -1
		for _, ev := range run.evs {
			if strings.HasPrefix(ev, "dial+") {
				// connection index advances only when the dial was applicable; recompute from conns below
			}
			_ = k
		}
		for _, c := range s.conns {
			spOf[c.k] = c.sessionPresent
		}
	}
	always := cfg[3] == '1'
	for _, e := range s.wire {
		if e.pkt.Type != 0x80 {
			continue
		}
		var parts []string
		for i, f := range e.pkt.Filters {
			parts = append(parts, fmt.Sprintf("%s.%d", hexOrDash([]byte(f)), e.pkt.QoSs[i]))
		}
		key := strings.Join(parts, ";")
		if appSubs[key] {
			continue
		}
		// a SUBSCRIBE the application did not ask for in this form: a re-subscription.
		// It is legitimate on connection k only if some reconnect j <= k lost the session (or
		// AlwaysResubscribe is set): a re-subscription may stay queued over several connections.
		if e.conn == 0 {
			v = append(v, viol("C08", "resubscribe-on-first-connection", "SUBSCRIBE %s on the first connection was not requested by the application", key))
			continue
		}
		var since time.Time
		found := false
		for _, c := range s.conns {
			if c.k >= 1 && c.k <= e.conn && c.accepted && (!c.sessionPresent || always) {
				since, found = c.ackAt, true
				break
			}
		}
		if !found {
			v = append(v, viol("C08", "resubscribe-with-session", "SUBSCRIBE %s re-sent on connection %d although every reconnect so far kept the session", key, e.conn))
			continue
		}
		// "nothing that was unsubscribed": each filter must have been subscribed at some instant
		// between that reconnect and the moment the packet was written
		instants := []time.Time{since}
		for _, c := range calls {
			if c.at.After(since) && !c.at.After(e.at) {
				instants = append(instants, c.at)
			}
		}
		for _, f := range e.pkt.Filters {
			ok := false
			for _, t := range instants {
				if _, in := netAt(t)[hexOrDash([]byte(f))]; in {
					ok = true
				}
			}
			if !ok {
				v = append(v, viol("C08", "resubscribed-unsubscribed-filter", "filter %q re-subscribed on connection %d although it was not subscribed at any time since the session was lost", f, e.conn))
			}
		}
	}

	// ---------- C17: the handler follows every connection ----------
	handledBy := map[int][]string{}
	for _, h := range s.handled {
		var k, hh, m int
		fmt.Sscanf(h, "%d:%d:%d", &k, &hh, &m)
		handledBy[m] = append(handledBy[m], fmt.Sprint(hh))
	}
	if havePlan && len(plan) > 0 && !stuck && plan[len(plan)-1].h > len(s.handled) && len(run.planMiss) > 0 {
		// the proved model hands more inbound messages to handlers than the implementation did: the script's
		// later messages never reached a handler (e.g. because the client did not come back after a loss)
		v = append(v, viol("C17", "handover-missing", "the script delivers %d inbound messages to registered handlers (model), the implementation handed over %d: %s",
			plan[len(plan)-1].h, len(s.handled), run.planMiss[0]))
	}
	for m, want := range run.inboundAt {
		got := handledBy[m]
		if want == "-1" {
			continue
		}
		if len(got) == 0 {
			v = append(v, viol("C17", "inbound-dropped", "inbound message %d was not handed to handler %s registered on the client", m, want))
			// C04: a PUBLISH delivered on an established connection is handed to the registered handler exactly once
			v = append(v, viol("C04", "inbound-not-handed-over", "inbound PUBLISH %d was never handed to the handler (%s) although one was registered before it arrived", m, want))
		} else if len(got) > 1 || got[0] != want {
			v = append(v, viol("C17", "wrong-handler", "inbound message %d handed to %v, registered handler was %s", m, got, want))
			if len(got) > 1 {
				v = append(v, viol("C04", "inbound-handed-over-twice", "inbound PUBLISH %d was handed over %d times", m, len(got)))
			}
		}
	}

	// ---------- C18: a silent broker cannot stall the client ----------
	if cfg[1] == '1' {
		nSilentAwaited := 0
		for _, e := range s.wire {
			if e.tag != "!si" {
				continue
			}
			awaited := e.pkt.Type != 0x30 || e.pkt.QoS > 0
			if !awaited {
				continue
			}
			nSilentAwaited++
			if _, ok := s.endAt[e.conn]; !ok {
				v = append(v, viol("C18", "connection-not-closed", "connection %d stayed open after the broker went silent on %s", e.conn, showSPkt(e.pkt)))
			}
			// the request is kept: it shows up again if a later connection was established
			laterConn := false
			for _, c := range s.conns {
				if c.k > e.conn && c.accepted {
					laterConn = true
				}
			}
			if laterConn && settled {
				again := false
				for _, e2 := range s.wire {
					if e2.seq > e.seq && e2.conn > e.conn && sameRequest(e.pkt, e2.pkt, idOf) {
						again = true
					}
				}
				if !again {
					v = append(v, viol("C18", "request-dropped-after-timeout", "%s was not retransmitted after its response timeout", showSPkt(e.pkt)))
				}
			}
		}
		nT := 0
		for _, k := range s.onErr {
			if k == "t" {
				nT++
			}
		}
		if nT < nSilentAwaited && !strings.Contains(cfg, "e0") {
			v = append(v, viol("C18", "no-timeout-error", "%d request(s) met a silent broker but OnError reported %d RequestTimeoutError(s)", nSilentAwaited, nT))
			v = append(v, viol("C19", "rto-not-identifiable", "%d request(s) ran into the response timeout but only %d of the errors given to OnError are identifiable as RequestTimeoutError", nSilentAwaited, nT))
		}
		if len(run.planMiss) > 0 && nSilentAwaited > 0 {
			v = append(v, viol("C18", "stalled", "the client stopped making progress after a silent broker: %s", run.planMiss[0]))
		}
	}

	// ---------- C09: reconnect lifecycle as far as this stream sees it ----------
	for k := range s.conns {
		nConnect, firstType := 0, byte(0)
		for _, e := range s.wire {
			if e.conn != k {
				continue
			}
			if firstType == 0 {
				firstType = e.pkt.Type
			}
			if e.pkt.Type == 0x10 {
				nConnect++
			}
		}
		if firstType != 0 && (firstType != 0x10 || nConnect != 1) {
			v = append(v, viol("C09", "connect-not-first-or-repeated", "connection %d: first packet type %x, %d CONNECT packets", k, firstType, nConnect))
		}
	}
	// every connection begins with the same CONNECT (client id and options do not change)
	{
		var firstConnect []byte
		for _, e := range s.wire {
			if e.pkt.Type != 0x10 {
				continue
			}
			key := []byte(fmt.Sprintf("%s|%d|%02x|%d|%s|%s|%s|%x", e.pkt.ClientID, e.pkt.Level, e.pkt.ConnFlags, e.pkt.KeepAlive, e.pkt.User, e.pkt.Pass, e.pkt.WillTopic, e.pkt.WillPayload))
			if firstConnect == nil {
				firstConnect = key
			} else if string(key) != string(firstConnect) {
				v = append(v, viol("C09", "connect-options-differ", "CONNECT on connection %d carries %s, the first connection carried %s", e.conn, key, firstConnect))
			}
		}
	}
	for j, t := range s.dialAt {
		// every transport created before this dial must have been closed before it
		for _, c := range s.conns {
			if c.createdAt.Before(t) {
				if end, ok := s.endAt[c.k]; !ok || end.After(t) {
					v = append(v, viol("C09", "two-transports-open", "dial %d started while the transport of connection %d was still open", j, c.k))
				}
			}
		}
	}
	// lower bound on the redial waits (never an upper bound: machine load must not alarm)
	if havePlan && len(waits) > 0 && len(s.failAt) >= len(waits) {
		for j, exp := range waits {
			if j+1 >= len(s.dialAt) {
				break
			}
			// min(base * 2^exp, max), computed without ever overflowing
			want := run.base
			for k := 0; k < exp && want < run.max; k++ {
				want *= 2
			}
			if want > run.max {
				want = run.max
			}
			gap := s.dialAt[j+1].Sub(s.failAt[j])
			if gap < want {
				v = append(v, viol("C09", "redial-too-early", "redial %d came %v after the failure, configured wait is %v", j+1, gap, want))
			}
		}
	}
	// a predicted dial never happened: the loop is wedged (e.g. waiting for a CONNACK without a bound)
	if len(run.planMiss) > 0 && !stuck {
		var want, got int
		wi := strings.Index(run.planMiss[0], "want{")
		if wi < 0 {
			wi = len(run.planMiss[0])
		}
		if n, _ := fmt.Sscanf(run.planMiss[0][wi:], "want{d%d", &want); n == 1 {
			if i := strings.Index(run.planMiss[0], "got{d"); i >= 0 {
				fmt.Sscanf(run.planMiss[0][i:], "got{d%d", &got)
				if got < want {
					v = append(v, viol("C09", "no-redial", "the client did not dial again although the connection attempt had ended or should have timed out: %s", run.planMiss[0]))
				}
			}
		}
	}
	// "after Disconnect (or cancellation before the first connection succeeded) it never dials again": a dial
	// request that STARTS after the call took effect (one that was in flight may complete)
	for j, t := range s.dialAt {
		if !run.discAt.IsZero() && t.After(run.discAt) {
			v = append(v, viol("C09", "dial-after-disconnect", "dial %d started %v after Disconnect had taken effect", j, t.Sub(run.discAt)))
		}
		if !run.cancelAt.IsZero() && t.After(run.cancelAt) {
			v = append(v, viol("C09", "dial-after-cancel", "dial %d started %v after the context of the first Connect was cancelled", j, t.Sub(run.cancelAt)))
		}
	}
	// C11: "every blocking call (… Connect/Disconnect of the reconnecting client) returns promptly once its context is
	// cancelled …; a cancelled context is reported as that context's error"
	run.retMu.Lock()
	cerr := run.connErr
	run.retMu.Unlock()
	if !run.cancelAt.IsZero() && cerr != nil && !errors.Is(cerr, context.Canceled) && !errors.Is(cerr, context.DeadlineExceeded) {
		v = append(v, viol("C11", "cancel-wrong-error", "ReconnectClient.Connect, cancelled before the first connection succeeded, returned %v, which is not the context's error", cerr))
	}
	for _, pm := range run.planMiss {
		if strings.HasPrefix(pm, "cancel:connect-did-not-return") {
			v = append(v, viol("C11", "call-never-returned", "ReconnectClient.Connect did not return after its context was cancelled: %s", pm))
		}
		if strings.Contains(pm, "disconnect-did-not-return") {
			v = append(v, viol("C11", "call-never-returned", "ReconnectClient.Disconnect did not return: %s", pm))
		}
	}
	for _, pm := range run.planMiss {
		if strings.HasPrefix(pm, "cancel:connect-did-not-return") {
			v = append(v, viol("C09", "connect-did-not-return", "ReconnectClient.Connect did not return after its context was cancelled: %s", pm))
		}
	}
	if disconnected && len(run.planMiss) > 0 {
		for _, pm := range run.planMiss {
			if strings.Contains(pm, "disconnect-did-not-return") {
				v = append(v, viol("C09", "disconnect-did-not-return", "Disconnect did not return: %s", pm))
			}
		}
	}
	_ = mqtt.QoS0
	return v
}

// sameRequest: is b a (re)transmission of the request that a belongs to?
func sameRequest(a, b *SPkt, idOf map[uint16]int) bool {
	switch a.Type {
	case 0x30:
		if b.Type == 0x30 {
			return msgIndex(a) == msgIndex(b)
		}
		return b.Type == 0x60 && idOf[b.ID] == msgIndex(a)
	case 0x60:
		m := idOf[a.ID]
		return (b.Type == 0x60 && b.ID == a.ID) || (b.Type == 0x30 && msgIndex(b) == m)
	case 0x80, 0xa0:
		return b.Type == a.Type && strings.Join(b.Filters, "\x00") == strings.Join(a.Filters, "\x00")
	}
	return false
}

// reqKeyOfAccepted maps an accepted request ("p3q1", "s61.1;62.0", "u61") to the key used for wire packets.
func reqKeyOfAccepted(a string) string {
	if strings.HasPrefix(a, "p") {
		if i := strings.Index(a, "q"); i > 0 {
			return a[:i]
		}
	}
	return a
}
