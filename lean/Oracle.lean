/-
  Line-protocol driver for the executable models (core Lean only, so it links as a `lean_exe`).
  One case per input line: `<engine> <fields...>`; one canonical output line per case.
-/
import MqttVerif.Model.Basic
import MqttVerif.Model.Codec
import MqttVerif.Model.Utf8
import MqttVerif.Model.Parse
import MqttVerif.Model.PacketId
import MqttVerif.Model.Api
import MqttVerif.Model.Filter
import MqttVerif.Model.Subs
import MqttVerif.Model.Heap
import MqttVerif.Model.Errors
import MqttVerif.Model.Retry
import MqttVerif.Model.BaseClient
import MqttVerif.Model.KeepAlive
import MqttVerif.Model.ReconnOpts
import MqttVerif.Model.TaskLoop

open Mqtt

namespace Oracle

/-- byte-string descriptor: `-` | hex | `rep:<hexbyte>:<count>` | concatenation with `+` -/
def parseDesc1 (s : String) : Option Bytes :=
  match s.splitOn ":" with
  | ["rep", b, n] => do
    let bb ← fromHex b
    let k ← n.toNat?
    match bb with
    | [x] => some (List.replicate k x)
    | _ => none
  | _ => fromHex s

def parseDesc (s : String) : Option Bytes := do
  let parts ← (s.splitOn "+").mapM parseDesc1
  pure parts.flatten

def checksum (bs : Bytes) : Nat := bs.foldl (fun h b => (h * 131 + b + 1) % 4294967291) 7

/-- canonical rendering of a (possibly long) byte string -/
def showBytes (bs : Bytes) : String :=
  if bs.length ≤ 64 then toHex bs
  else s!"len={bs.length},sum={checksum bs},head={toHex (bs.take 32)}"

def showRes (r : Res Bytes) : String :=
  match r with
  | .ok b => "ok " ++ showBytes b
  | .err e => "E:" ++ toString e
  | .panic => "panic"

def b01 (s : String) : Option Bool :=
  if s = "1" then some true else if s = "0" then some false else none

def showBool (b : Bool) : String := if b then "true" else "false"

def parseWill (s : String) : Option (Option Will) :=
  if s = "none" then some none else
  match s.splitOn "," with
  | [t, p, q, r] => do
    let topic ← parseDesc t
    let payload ← parseDesc p
    let qos ← q.toNat?
    let retain ← b01 r
    pure (some { topic, payload, qos, retain })
  | _ => none

def parseSubs : List String → Option (List Subscription)
  | [] => some []
  | [_] => none
  | t :: q :: rest => do
    let topic ← parseDesc t
    let qos ← q.toNat?
    let r ← parseSubs rest
    pure ({ topic, qos } :: r)

def showMessage (m : Message) : String :=
  s!"topic={toHex m.topic} id={m.id} qos={m.qos} retain={showBool m.retain} dup={showBool m.dup} payload={showBytes m.payload}"

def showOut : Out → String
  | .handOver m => "H(" ++ showMessage m ++ ")"
  | .write b => "W(" ++ toHex b ++ ")"
  | .connAck sp c => s!"S(connack,{showBool sp},{c})"
  | .ack k id => s!"S({k},{id})"
  | .subAck id codes => s!"S(suback,{id},{toHex codes})"
  | .pingResp => "S(pingresp)"

def isSignal : Out → Bool
  | .handOver _ => false
  | .write _ => false
  | _ => true

def showParse (kind flag : Nat) (c : Bytes) : String :=
  let k := kind
  if k = packetConnAck then
    match parseConnAck flag c with
    | .ok (sp, code) => s!"ok connack sp={showBool sp} code={code}"
    | .err e => s!"E:{e}" | .panic => "panic"
  else if k = packetPublish then
    match parsePublish flag c with
    | .ok m => s!"ok publish {showMessage m}"
    | .err e => s!"E:{e}" | .panic => "panic"
  else if k = packetPubAck then
    match parseIdOnly 0 flag c with
    | .ok id => s!"ok puback id={id}" | .err e => s!"E:{e}" | .panic => "panic"
  else if k = packetPubRec then
    match parseIdOnly 0 flag c with
    | .ok id => s!"ok pubrec id={id}" | .err e => s!"E:{e}" | .panic => "panic"
  else if k = packetPubRel then
    match parseIdOnly 2 flag c with
    | .ok id => s!"ok pubrel id={id}" | .err e => s!"E:{e}" | .panic => "panic"
  else if k = packetPubComp then
    match parseIdOnly 0 flag c with
    | .ok id => s!"ok pubcomp id={id}" | .err e => s!"E:{e}" | .panic => "panic"
  else if k = packetSubAck then
    match parseSubAck flag c with
    | .ok (id, codes) => s!"ok suback id={id} codes={toHex codes}" | .err e => s!"E:{e}" | .panic => "panic"
  else if k = packetUnsubAck then
    match parseIdOnly 0 flag c with
    | .ok id => s!"ok unsuback id={id}" | .err e => s!"E:{e}" | .panic => "panic"
  else if k = packetPingResp then
    match parsePingResp flag c with
    | .ok _ => "ok pingresp" | .err e => s!"E:{e}" | .panic => "panic"
  else "E:InvalidPacket"

def showAlloc : Option Nat → String
  | none => "-"
  | some n => toString n

def parseSubItem (s : String) : Option Subscription :=
  match s.splitOn "." with
  | [t, q] => do pure { topic := ← parseDesc t, qos := ← q.toNat? }
  | _ => none

def parseSubOp (s : String) : Option SubCall :=
  match s.splitOn ":" with
  | ["S", items] => do
    let subs ← (items.splitOn ",").mapM parseSubItem
    pure (.sub subs)
  | ["U", items] => do
    let ts ← (items.splitOn ",").mapM parseDesc
    pure (.unsub ts)
  | _ => none

def showSubList (d : SubList) : String :=
  if d.isEmpty then "-" else String.intercalate "," (d.map (fun e => s!"{toHex e.topic}.{e.qos}"))

/-- duplicate check for ids < 65536 with a mark array -/
def nodupSmall (ids : List Nat) : Bool :=
  let (_, ok) := ids.foldl (fun (acc : Array Bool × Bool) i =>
    let (marks, ok) := acc
    if i < marks.size then (if marks[i]! then (marks, false) else (marks.set! i true, ok)) else (marks, false))
    (Array.replicate 65536 false, true)
  ok

def showNatList (l : List Nat) : String :=
  if l.isEmpty then "-" else String.intercalate "," (l.map toString)

/-- scripted handler bodies for the C20 correspondence stream -/
def mutOp (c : Char) : HandlerFn := fun h p =>
  match h.msgs p with
  | none => h
  | some m =>
    let setMsg (m' : MsgObj) : Heap := { h with msgs := fun a => if a = p then some m' else h.msgs a }
    let buf := (h.bufs m.payload).getD []
    let setBuf (b : Bytes) (h' : Heap) : Heap := { h' with bufs := fun a => if a = m.payload then some b else h'.bufs a }
    match c with
    | 'T' => setMsg { m with topic := [88] }
    | 'P' => if m.plen > 0 then setBuf (buf.set 0 ((buf.getD 0 0) ^^^ 255)) h else h
    | 'Z' => setBuf ((List.replicate m.plen 0) ++ buf.drop m.plen) h
    | 'A' => setBuf (buf.take m.plen ++ [33]) (setMsg { m with plen := m.plen + 1 })
    | 'R' => setMsg { m with plen := 0 }
    | 'F' => setMsg { m with qos := (m.qos + 1) % 3, retain := !m.retain, dup := !m.dup, id := (m.id + 1) % 65536 }
    | _ => h

def scriptFn (s : String) : HandlerFn := fun h p => s.toList.foldl (fun h c => mutOp c h p) h

def showView : Option MsgView → String
  | none => "nil"
  | some v => s!"{toHex v.topic}/{v.id}/{v.qos}/{showBool v.retain}/{showBool v.dup}/{toHex v.payload}"

def c20Rounds : Nat → Heap → List HandlerFn → Nat → List String → Heap × List String
  | 0, h, _, _, acc => (h, acc)
  | n + 1, h, fs, p, acc =>
    let (h', vs) := muxRun h fs p
    c20Rounds n h' fs p (acc ++ vs.map showView)

/-- build an error chain from a dotted path, innermost last: e.g. `W.R.F.C.s3`.
    Every node really created gets identity 100 + (number of nodes created before it). -/
def buildErr (parts : List String) : Option (Option E × Nat) :=
  match parts.reverse with
  | [] => none
  | leaf :: ctors =>
    let base : Option (Option E) :=
      if leaf = "nil" then some none
      else if leaf = "eof" then some (some (.leaf eofId))
      else if leaf.startsWith "s" then (leaf.drop 1).toString.toNat?.map (fun k => some (.leaf (1 + k)))
      else if leaf.startsWith "x" then (leaf.drop 1).toString.toNat?.map (fun k => some (.leaf (50 + k)))
      else none
    match base with
    | none => none
    | some b =>
      ctors.foldlM (fun (acc : Option E × Nat) c =>
        let (e, n) := acc
        match c, e with
        | "W", _ => match wrapError e (100 + n) with
          | some (.wrap i x) => some (some (.wrap i x), n + 1)
          | other => some (other, n)
        | "R", _ => match wrapErrorWithRetry e (100 + n) (200 + n) with
          | some (.retry i w x) => some (some (.retry i w x), n + 1)
          | other => some (other, n)
        | "F", some x => some (some (.fmtw (100 + n) x), n + 1)
        | "C", some x => some (some (.conn (100 + n) x), n + 1)
        | "T", some x => some (some (.rto (100 + n) x), n + 1)
        | "D", some x => some (some (.field (100 + n) x), n + 1)
        | _, _ => none) (b, 0)

def targetId (s : String) : Option Nat :=
  if s.startsWith "n" then (s.drop 1).toString.toNat?.map (100 + ·)
  else if s.startsWith "s" then (s.drop 1).toString.toNat?.map (1 + ·)
  else if s.startsWith "x" then (s.drop 1).toString.toNat?.map (50 + ·)
  else if s = "eof" then some eofId
  else none

namespace RetryIO
open Mqtt.Retry

def parseFault (s : String) : Option Fault :=
  match s with
  | "ok" => some .ok | "wf" => some .writeFail | "lr" => some .lostReq | "la" => some .lostAck | "si" => some .silent
  | _ => none

def parseCfg (s : String) : Option Cfg :=
  -- the first six characters are the model's configuration; what follows are harness modes (`w1` long back-off,
  -- `b1` requests submitted in bursts, `g1` a broker that grants at most QoS 1)
  match s.toList.take 6 with
  | ['t', a, 'a', b, 'c', c] => some { respTimeout := a = '1', always := b = '1', connectTimeout := c = '1' }
  -- `w1`: the harness configures a long back-off base so that events can land while the loop waits to redial
  | ['t', a, 'a', b, 'c', c, 'w', _] => some { respTimeout := a = '1', always := b = '1', connectTimeout := c = '1' }
  | _ => none

def parseInb (s : String) : Option (Nat × Nat) :=
  match s.splitOn "." with
  | [m, q] => do pure (← m.toNat?, ← q.toNat?)
  | _ => none

def parseEv (s : String) : Option Ev :=
  match s.splitOn ":" with
  | ["start"] => some .start
  | ["pub", m, q] => do pure (.app (.pub (← m.toNat?) (← q.toNat?)))
  | ["sub", items] => do pure (.app (.sub (← (items.splitOn ",").mapM Oracle.parseSubItem)))
  | ["unsub", items] => do pure (.app (.unsub (← (items.splitOn ",").mapM Oracle.parseDesc)))
  | ["dial+", i] => do pure (.dialOk (← i.toNat?))
  | ["dial-"] => some .dialFail
  | ["wait"] => some .waitElapsed
  | ["cancel"] => some .cancelCtx
  | ["bad"] => some .peerClose      -- the broker sends a malformed packet: the client ends the connection (same model step)
  | ["ack+", sp] => do pure (.connackOk (← Oracle.b01 sp) [])
  | ["ack+", sp, inb] => do pure (.connackOk (← Oracle.b01 sp) (← (inb.splitOn ",").mapM parseInb))
  | ["ack-"] => some .connackRefused
  | ["ack0"] => some .connackNever
  | ["close"] => some .peerClose
  | ["in", m, q] => do pure (.inbound (← m.toNat?) (← q.toNat?))
  | ["handle", h] => do pure (.handle (← h.toNat?))
  | ["disc"] => some .disconnect
  | _ => none

def showSubs (subs : List Subscription) : String :=
  String.intercalate ";" (subs.map (fun e => s!"{toHex e.topic}.{e.qos}"))

def showWire : Wire → String
  | .sent .ok => "" | .sent .writeFail => "!wf" | .sent .lostReq => "!lr" | .sent .lostAck => "!la"
  | .sent .silent => "!si" | .dead => "!dead"

def showPkt : Pkt → String
  | .connect => "C"
  | .publish m q i d => s!"P{m}q{q}i{if q = 0 then 0 else i}d{if d then 1 else 0}"   -- QoS 0 carries no identifier on the wire
  | .pubrel i m => s!"R{m}i{i}"
  | .subscribe i subs => s!"S{i}:{showSubs subs}"
  | .unsubscribe i ts => s!"U{i}:{String.intercalate ";" (ts.map toHex)}"
  | .puback i => s!"A{i}"
  | .disconnect => "X"

def showReq : Req → String
  | .pub m q => s!"p{m}q{q}"
  | .sub subs => s!"s{showSubs subs}"
  | .unsub ts => s!"u{String.intercalate ";" (ts.map toHex)}"

def showPhase : Phase → String
  | .idle => "idle" | .backoff => "backoff" | .dialGate => "dial" | .connackGate k => s!"connack{k}" | .up k => s!"up{k}" | .exited => "exited"

def joinOr (l : List String) (sep : String) : String := if l.isEmpty then "-" else String.intercalate sep l

def sortStrings (l : List String) : List String := (l.toArray.qsort (· < ·)).toList

def showWorld (w : World) (grantCap : Nat := 2) (noOnError : Bool := false) : String :=
  let conns := (List.range w.conns.length).map (fun k =>
    let c := getConn w k
    s!"c{k}[" ++ String.intercalate "," (c.pkts.map (fun pw => showPkt pw.1 ++ showWire pw.2)) ++ "]")
  let bs := sortStrings (w.broker.subs.map (fun e => s!"{toHex e.topic}.{min e.qos grantCap}"))
  let oe := String.ofList (w.onErrors.map (fun e => match e with | .retryable => 'r' | .timeout => 't'))
  let hd := w.handled.map (fun (k, h, m) => s!"{k}:{h}:{m}")
  let ret := if w.connectErr then "err" else match w.connectReturned with | none => "-" | some b => if b then "1" else "0"
  String.intercalate " " conns ++
    s!" dl={joinOr (w.broker.delivered.map toString) ","} bs={joinOr bs ","} ak={joinOr (w.broker.acked.map showReq) ","}" ++
    s!" oe={if noOnError then "?" else if oe.isEmpty then "-" else oe} hd={joinOr hd ","} tt={w.totalTasks} tr={w.totalRetries} qr={if w.stuck then 0 else w.retryQ.length} qt={w.taskQ.length}" ++
    s!" dials={w.dials} ret={ret} rej={w.rejected}"

def planOf (w : World) : String :=
  let writes := (w.conns.map (fun c => c.pkts.length)).foldl (· + ·) 0
  let closed := (w.conns.filter (fun c => !c.alive)).length
  s!"d{w.dials},w{writes},t{w.totalTasks},e{w.onErrors.length},r{w.totalRetries},h{w.handled.length},x{closed},s{if w.stuck then 1 else 0}"

def run (toks : List String) : Option String :=
  match toks with
  | cfgStr :: method :: faults :: evs => do
    let cfg ← parseCfg cfgStr
    -- `d1`: the scripted dialer ignores its context (like NoContextDialer)
    let cfg := if (cfgStr.splitOn "d1").length > 1 then { cfg with deafDialer := true } else cfg
    let method ← (if method = "P" then some Method.onPublish else if method = "R" then some Method.onPubrel else none)
    let faults ← (if faults = "-" then some [] else (faults.splitOn ",").mapM parseFault)
    -- one script token = one or more model events (`dialw:N`: the dial succeeds and the write of CONNECT fails —
    -- for the loop the same as a refused connection attempt)
    let toks ← evs.mapM (fun t => match t.splitOn ":" with
      | ["dialw", i] => do pure [Ev.dialOk (← i.toNat?), Ev.connackRefused]
      | _ => do pure [← parseEv t])
    -- `dialw` only means something while a dial is in flight (otherwise the whole token is ignored, like `dial+`)
    let applyTok (w : World) (es : List Ev) : World :=
      match es with
      | Ev.dialOk i :: Ev.connackRefused :: rest =>
        if w.phase = .dialGate then (Ev.dialOk i :: Ev.connackRefused :: rest).foldl step w else rest.foldl step w
      | _ => es.foldl step w
    -- Timing assumption of the correspondence run, made explicit: unless the configuration asks for a long
    -- back-off (`w1`), the harness sets a back-off base so short that the timer fires before the next
    -- scripted event, i.e. every event is followed by `.waitElapsed` (a no-op outside `.backoff`).
    -- With `w1` the script says itself when the timer fires (`wait`).
    let auto := !(cfgStr.endsWith "w1")
    let toks := if auto then toks.map (· ++ [Ev.waitElapsed]) else toks
    let evs := toks.flatten
    let s : Script := { cfg, method, faults, evs }
    -- harness convention: messages 3, 7, 11, … with QoS > 0 carry a caller-chosen identifier 20000 + m
    -- (Message.ID already set when Publish is called: `pubAttempt` finds it in `pid` and draws none)
    let presets := evs.filterMap (fun e => match e with
      | .app (.pub m q) => if m % 4 = 3 ∧ q > 0 then some (m, 20000 + m) else none
      | _ => none)
    let w0 : World := { init s with pid := presets }
    -- one world per script token (after all of its events)
    let ws := (toks.foldl (fun (acc : World × List World) es => let w := applyTok acc.1 es; (w, acc.2 ++ [w])) (w0, [])).2
    let final := ws.getLastD w0
    let settled := final.taskQ.isEmpty && final.retryQ.isEmpty && !final.stuck && (match final.phase with | .up k => (getConn final k).alive | _ => false)
    -- `g1`: the scripted broker grants at most QoS 1; the client's requests are unaffected, only the broker's table is capped
    let cap := if (cfgStr.splitOn "g1").length > 1 then 1 else 2
    -- `e0`: the application installs no OnError callback (nothing to observe there; the plan does not wait for it)
    let noOnError := (cfgStr.splitOn "e0").length > 1
    pure (showWorld final cap noOnError ++ " || " ++ String.intercalate ";" (ws.map planOf) ++
      s!" # waits={joinOr (final.waits.map toString) ","} phase={showPhase final.phase} stuck={if final.stuck then 1 else 0} settled={if settled then 1 else 0}")
  | _ => none

end RetryIO

namespace BCIO
open Mqtt.BC

def parseEv (s : String) : Option Ev :=
  match s.splitOn ":" with
  | ["conn"] => some (.call .connect 0)
  | ["pub", "1", id] => do pure (.call .pub1 (← id.toNat?))
  | ["pub", "2", id] => do pure (.call .pub2 (← id.toNat?))
  | ["sub", n, id] => do pure (.call (.sub (← n.toNat?)) (← id.toNat?))
  | ["unsub", id] => do pure (.call .unsub (← id.toNat?))
  | ["ping"] => some (.call .ping 0)
  | ["disc"] => some (.call .disconnect 0)
  | ["ack", sp, code] => do pure (.inb (.connack (← Oracle.b01 sp) (← code.toNat?)))
  | ["pa", id] => do pure (.inb (.puback (← id.toNat?)))
  | ["pr", id] => do pure (.inb (.pubrec (← id.toNat?)))
  | ["pc", id] => do pure (.inb (.pubcomp (← id.toNat?)))
  | ["sa", id, codes] => do pure (.inb (.suback (← id.toNat?) (← Oracle.parseDesc codes)))
  | ["ua", id] => do pure (.inb (.unsuback (← id.toNat?)))
  | ["pg"] => some (.inb .pingresp)
  | ["fast2"] => some (.cancel 1000000000)
  | ["fastrel"] => some (.cancel 1000000000)
  | ["fast"] => some (.cancel 1000000000)   -- harness hint (the next request is answered before its Write returns): a model no-op
  | ["in", q, id] => do pure (.inb (.publish (← q.toNat?) (← id.toNat?)))
  | ["rel", id] => do pure (.inb (.pubrel (← id.toNat?)))
  | ["bad"] => some (.inb .malformed)
  | ["cancel", i] => do pure (.cancel (← i.toNat?))
  | ["eof"] => some .peerClose
  | ["lclose"] => some .localClose
  | ["wf", on] => do pure (.writeFail (← Oracle.b01 on))
  | _ => none

def showRet : Ret → String
  | .ok => "ok" | .okSub codes => "oksub:" ++ toHex codes
  | .ctxErr r => if r then "ctx+r" else "ctx"
  | .closed r => if r then "closed+r" else "closed"
  | .writeErr r => if r then "werr+r" else "werr"
  | .invalidSubAck => "invalidsuback" | .refused c => s!"refused:{c}" | .notConnected => "notconnected"

def showW : W → String
  | .connect => "C" | .publish q i => s!"P{q}i{i}" | .pubrel i => s!"R{i}" | .subscribe i n => s!"S{i}n{n}"
  | .unsubscribe i => s!"U{i}" | .pingreq => "G" | .disconnect => "X"
  | .puback i => s!"a{i}" | .pubrec i => s!"r{i}" | .pubcomp i => s!"c{i}"

def showState : ConnState → String
  | .new => "New" | .active => "Active" | .closed => "Closed" | .disconnected => "Disconnected"

def showErrOpt : Option ErrClass → String
  | none => "ok" | some e => "E:" ++ toString e

def returned (s : St) : List (Nat × Ret) :=
  (s.calls.zipIdx.filterMap (fun (c, i) => match c.phase with | .returned r => some (i, r) | _ => none))

def showSt (s : St) : String :=
  let rets := (returned s).map (fun (i, r) => s!"{i}:{showRet r}")
  s!"rets={Oracle.RetryIO.joinOr rets ","} writes={Oracle.RetryIO.joinOr (s.writes.map showW) ","} cbs={Oracle.RetryIO.joinOr (s.callbacks.map (fun (st, e) => showState st ++ ":" ++ showErrOpt e)) ","} err={showErrOpt s.err} done={if s.doneClosed then 1 else 0} state={showState s.state}"

def planOf (s : St) : String := s!"r{(returned s).length},w{s.writes.length},c{s.callbacks.length},d{if s.doneClosed then 1 else 0}"

def run (toks : List String) : Option String := do
  let evs ← toks.mapM parseEv
  let sts := (evs.foldl (fun (acc : St × List St) e => let s := step acc.1 e; (s, acc.2 ++ [s])) ({}, [])).2
  let final := sts.getLastD {}
  pure (showSt final ++ " || " ++ String.intercalate ";" (sts.map planOf))

end BCIO

def handle (toks : List String) : Option String :=
  match toks with
  | ["rl", n] => do
    let n ← n.toNat?
    pure (showRes (remainingLength n))
  | ["pub", topic, id, qos, retain, dup, payload] => do
    let m : Message := { topic := ← parseDesc topic, id := ← id.toNat?, qos := ← qos.toNat?,
                         retain := ← b01 retain, dup := ← b01 dup, payload := ← parseDesc payload }
    pure (showRes (packPublish m))
  | ["conn", level, clean, ka, cid, user, pass, will] => do
    let p : ConnectPkt := { protocolLevel := ← level.toNat?, cleanSession := ← b01 clean, keepAlive := ← ka.toNat?,
                            clientID := ← parseDesc cid, userName := ← parseDesc user, password := ← parseDesc pass,
                            will := ← parseWill will }
    pure (showRes (packConnect p))
  | "sub" :: id :: rest => do
    let subs ← parseSubs rest
    pure (showRes (packSubscribe (← id.toNat?) subs))
  | "unsub" :: id :: rest => do
    let ts ← rest.mapM parseDesc
    pure (showRes (packUnsubscribe (← id.toNat?) ts))
  | ["ack", kind, id] => do
    pure (showRes (packAck (← kind.toNat?) (← id.toNat?)))
  | ["empty", kind] => do
    pure (showRes (pack (← kind.toNat?) []))
  | ["val", max, qos, plen] => do
    let m : Message := { topic := [], id := 0, qos := ← qos.toNat?, retain := false, dup := false,
                         payload := List.replicate (← plen.toNat?) 0 }
    match validateMessage (← max.toNat?) m with
    | .ok _ => pure "ok" | .err e => pure s!"E:{e}" | .panic => pure "panic"
  | ["apipub", max, idLast, topic, id, qos, retain, dup, payload] => do
    let m : Message := { topic := ← parseDesc topic, id := ← id.toNat?, qos := ← qos.toNat?,
                         retain := ← b01 retain, dup := ← b01 dup, payload := ← parseDesc payload }
    let c := publishCall (← max.toNat?) (← idLast.toNat?) m
    let rs := match c.result with | .ok _ => "ok" | .err e => s!"E:{e}" | .panic => "panic"
    pure s!"{rs} written={toHex c.written} id={c.msgId}"
  | ["apiconn", cid, user, pass, clean, level, ka, will] => do
    let o : ConnectCallOpts := { clientID := ← parseDesc cid, userName := ← parseDesc user, password := ← parseDesc pass,
                                 cleanSession := ← b01 clean, protocolLevel := ← level.toNat?, keepAlive := ← ka.toNat?,
                                 will := ← parseWill will }
    match packConnect (connectPkt o) with
    | .ok b => pure s!"E:ctx written={toHex b}"
    | .err e => pure s!"E:{e}" | .panic => pure "panic"
  | ["filter", hex] => do
    match newTopicFilter (← parseDesc hex) with
    | .ok tf => pure ("ok " ++ String.intercalate "," (tf.map toHex))
    | .err e => pure s!"E:{e}" | .panic => pure "panic"
  | ["match", f, t] => do
    match newTopicFilter (← parseDesc f) with
    | .ok tf => pure (showBool (matchTopic tf (← parseDesc t)))
    | _ => pure "invalid"
  | "mux" :: topic :: filters => do
    let fs ← filters.mapM parseDesc
    let hs := muxRegister fs
    pure s!"reg={showNatList (hs.map (·.1))} called={showNatList (muxServe hs (← parseDesc topic))}"
  | "muxseq" :: ops => do
    let ops ← ops.mapM (fun o => match o.splitOn ":" with
      | ["H", f] => do pure (MuxOp.handle (← parseDesc f))
      | ["S", t] => do pure (MuxOp.serve (← parseDesc t))
      | _ => none)
    pure (String.intercalate ";" ((muxSeq ops []).map showNatList))
  | ["ids", start, n] => do
    let c ← start.toNat?
    let n ← n.toNat?
    let ids := idsFrom c n
    let ctr := counterAfter c n
    if n ≤ 64 then pure s!"ctr={ctr} ids={showNatList ids}"
    else pure s!"ctr={ctr} n={n} sum={ids.foldl (fun h b => (h * 131 + b + 1) % 4294967291) 7} nodup={showBool (nodupSmall ids)}"
  | "subs" :: ops => do
    let calls ← ops.mapM parseSubOp
    pure (showSubList (calls.foldl applyCall []))
  | "c20" :: _mode :: topic :: payload :: qos :: retain :: dup :: id :: rounds :: scripts => do
    let pl ← parseDesc payload
    let h0 : Heap := { msgs := fun _ => none, bufs := fun _ => none, next := 0 }
    let (h1, b) := h0.allocBuf pl
    let (h2, p) := h1.allocMsg { topic := ← parseDesc topic, id := ← id.toNat?, qos := ← qos.toNat?, retain := ← b01 retain,
                                 dup := ← b01 dup, payload := b, plen := pl.length }
    let fs := scripts.map scriptFn
    if _mode = "asyncd" then
      match scripts with
      | [callerS, handlerS] =>
        let (hf, views) := (List.range (← rounds.toNat?)).foldl (fun (acc : Heap × List String) _ =>
          let (h, vs) := acc
          let (h1, c) := asyncServe h p            -- the clone is taken before Serve returns
          let v := showView (h1.view c)
          let h2 := scriptFn callerS h1 p          -- the caller reuses its message
          let h3 := scriptFn handlerS h2 c         -- the deferred handler body
          (h3, vs ++ [v])) (h2, [])
        return (String.intercalate " " views ++ " | caller=" ++ showView (hf.view p))
      | _ => none
    if _mode = "asyncmuxd" then
      match scripts with
      | callerS :: handlerSs =>
        let (hf, views) := (List.range (← rounds.toNat?)).foldl (fun (acc : Heap × List String) _ =>
          let (h, vs) := acc
          let (h1, c) := asyncServe h p            -- ServeAsync clones before Serve returns …
          let h2 := scriptFn callerS h1 p          -- … the caller reuses its message …
          let (h3, mv) := muxRun h2 (handlerSs.map scriptFn) c   -- … and the mux behind it runs later, on the clone
          (h3, vs ++ mv.map showView)) (h2, [])
        return (String.intercalate " " views ++ " | caller=" ++ showView (hf.view p))
      | _ => none
    let (h3, views) := c20Rounds (← rounds.toNat?) h2 fs p []
    pure (String.intercalate " " views ++ " | caller=" ++ showView (h3.view p))
  | "err" :: path :: targets => do
    let (e, _) ← buildErr (path.splitOn ".")
    let ts ← targets.mapM targetId
    match e with
    | none => pure "top=nil"
    | some x =>
      let bits := String.ofList (ts.map (fun t => if stdIs x t then '1' else '0'))
      let top := match x with | .leaf i => (if i = eofId then "eof" else "leaf") | _ => "node"
      pure s!"top={top} is={bits} retry={showBool (hasRetry x)} rto={showBool (stdAsRto x).isSome}"
  | "tloop" :: toks => do
    -- S SetClient, C RetryClient.Connect on the current client returns, P a request is pushed, A the running request returns;
    -- the goroutine runs until it blocks after every event; inapplicable tokens are ignored (by the harness as well)
    let fuel := 64
    let stepTok (acc : TaskLoop.S × Nat × List Nat) (t : String) : Option (TaskLoop.S × Nat × List Nat) :=
      let (s, next, plan) := acc
      let fin (s' : TaskLoop.S) (n : Nat) := let s'' := TaskLoop.settle .fixed fuel s'; some (s'', n, plan ++ [s''.log.length])
      match t with
      | "S" => fin (TaskLoop.step .fixed s .setClient) next
      | "C" => fin (TaskLoop.step .fixed s (.connectReturn s.gen)) next
      | "P" => fin (TaskLoop.step .fixed s (.submit next)) (next + 1)
      | "A" => fin (TaskLoop.step .fixed s (.taskEnd false)) next
      | _ => none
    let (s, _, plan) ← toks.foldlM stepTok (TaskLoop.init, 0, [])
    let showStart (e : TaskLoop.Start) := s!"t{e.1}" ++ (if e.2.2 then "@" else "!") ++ s!"{e.2.1}"
    let pc := match s.pc with
      | .waitRead => "wait" | .waitSel _ => "wait" | .top => "top" | .idle => "idle" | .run t g => s!"run{t}@{g}"
    pure (String.intercalate " " (s.log.map showStart) ++ s!" | q={s.queue.length} pc={pc} || " ++ String.intercalate "," (plan.map toString))
  | ["ropts", ping, to, ka] => do
    let o : ReconnOpts.Opts := { pingInterval := ← ping.toInt?, timeout := ← to.toInt? }
    let e := ReconnOpts.effective o (← ka.toNat?)
    pure s!"ping={e.pingInterval} timeout={e.timeout} keepalive={showBool (ReconnOpts.keepAliveRuns e)} bounded={showBool (ReconnOpts.connectBounded e)}"
  | "retry" :: rest => RetryIO.run rest
  | "bc" :: rest => BCIO.run rest
  | "ka" :: toks => do
    let evs ← toks.mapM (fun t => match t with
      | "a" => some KA.PingEvent.pingresp | "A" => some .pingresp | "s" => some .pingresp | "n" => some .timeout | "c" => some .parentCancel | "D" => some .parentCancel
      | "w" => some .writeFail | "e" => some .connEnd | _ => none)
    match KA.keepAlive (evs.map KA.pingOutcome) with
    | .running n => pure s!"pings={n} result=running"
    | .stopped n e => pure s!"pings={n} result=E:{e}"
  | ["rp", hex] => do
    let bs ← parseDesc hex
    let r := readPacket bs
    match r.res with
    | .ok (p, rest) => pure s!"ok t={p.ptype} f={p.flag} c={showBytes p.contents} rest={rest.length}"
    | .err e => pure s!"E:{e}"
    | .panic => pure "panic"
  | ["parse", kind, flag, hex] => do
    pure (showParse (← kind.toNat?) (← flag.toNat?) (← parseDesc hex))
  | ["ustr", hex] => do
    match unpackString (← parseDesc hex) with
    | .ok (n, s) => pure s!"ok n={n} s={toHex s}"
    | .err e => pure s!"E:{e}" | .panic => pure "panic"
  | ["serve", handler, hex] => do
    let run := serveStream [] (← b01 handler) (← parseDesc hex)
    let outs := (run.outs.filter (fun o => !isSignal o)).map showOut
    let oc := match run.outcome with
      | .ok _ => "ok" | .err e => s!"E:{e}" | .panic => "panic"
    pure (String.intercalate " " outs ++ s!" | end={oc}")
  | _ => none

partial def loop (h : IO.FS.Stream) (out : IO.FS.Stream) : IO Unit := do
  let line ← h.getLine
  if line.isEmpty then return ()
  let l := (line.dropEndWhile (fun c => c = '\n' || c = '\r')).toString
  match l.splitOn " " with
  | id :: toks =>
    let r := (handle toks).getD "bad-case"
    out.putStrLn (id ++ " " ++ r)
  | [] => out.putStrLn "bad-line"
  loop h out

end Oracle

def main : IO Unit := do
  let stdin ← IO.getStdin
  let stdout ← IO.getStdout
  Oracle.loop stdin stdout
