-- Root of the `MqttVerif` library: everything that `lake build` must check.
import MqttVerif.Model.Basic
import MqttVerif.Model.Codec
import MqttVerif.Model.Utf8
import MqttVerif.Model.Parse
import MqttVerif.Model.PacketId
import MqttVerif.Model.Api
import MqttVerif.Model.Filter
import MqttVerif.Model.Subs
import MqttVerif.Spec.Mqtt311
import MqttVerif.Spec.TopicMatch
import MqttVerif.Spec.SubsSpec
import MqttVerif.Model.Heap
import MqttVerif.Model.Errors
import MqttVerif.Model.Inbound
import MqttVerif.Spec.InboundSpec
import MqttVerif.Model.Retry
import MqttVerif.Model.BaseClient
