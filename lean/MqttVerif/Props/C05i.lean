/-
  C05, inbound half — "a PUBLISH from the broker is delivered with exactly the encoded topic, payload
  and flags": the parser applied to the wire encoding of any message returns that message, for every
  QoS / retain / DUP combination, identifier and payload (proved in Proofs/Inbound for C04, restated
  here because it is part of C05's statement).
-/
import MqttVerif.Proofs.Inbound

namespace Mqtt.C05.Inbound

theorem inbound_publish_delivered_exactly (m : Message) (wf : (InPkt.publish m).WF) (ht : TopicOk m.topic)
    (hb : (publishBody m).length ≤ 268435455) :
    ∃ bs, packPublish m = .ok bs ∧ ∀ rest, ∃ p, (readPacket (bs ++ rest)).res = .ok (p, rest) ∧
      p.ptype = packetPublish ∧ parsePublish p.flag p.contents = .ok m :=
  publish_roundtrip_frame m wf ht hb

/-- the topic hypothesis is met by every ASCII topic without U+0000 -/
theorem ascii_topics_ok (t : Bytes) (hl : t.length ≤ 65535) (h : ∀ b ∈ t, 0 < b ∧ b < 128) : TopicOk t :=
  topicOk_ascii t hl h

example : TopicOk [116, 47, 49] := by decide

end Mqtt.C05.Inbound
