/-
  C11 — Every blocking call (Connect, Publish, Subscribe, Unsubscribe, Ping, Disconnect) returns promptly
  once its context is cancelled or the connection ends, whether closed locally, by the peer or because of
  a protocol error, at whatever step of the exchange that happens; a cancelled context is reported as that
  context's error.  When the connection ends Done() is closed and the client's reader goroutine exits.

  Model: `MqttVerif/Model/BaseClient.lean`.  A blocked call is a record whose phase is one of the seven
  `wait…` phases; "returns" = its phase becomes `.returned r`; `doneClosed` = Done() is closed = the reader
  goroutine has finished.  All statements are for arbitrary states / arbitrary event lists.
-/
import MqttVerif.Proofs.BaseClient

namespace Mqtt.C11
open Mqtt.BC

/-! ### 7. a cancelled context releases the call, with that context's error -/

/-- Cancelling the context of a blocked call makes exactly that call return the context error, whatever
    phase it was in; nothing else in the client changes. (`ctxRetry ph` is the retry-handle flag: false for
    Connect and Ping, true for Publish / Subscribe / Unsubscribe.) -/
theorem cancel_releases (s : St) (i : Nat) (c : Call) (hc : s.calls[i]? = some c) (hb : blocked c = true) :
    step s (.cancel i) = setPhase s i (.returned (.ctxErr (ctxRetry c.phase))) ∧
    (step s (.cancel i)).calls[i]? = some { c with phase := .returned (.ctxErr (ctxRetry c.phase)) } ∧
    (∀ j, j ≠ i → (step s (.cancel i)).calls[j]? = s.calls[j]?) := by
  have h : step s (.cancel i) = setPhase s i (.returned (.ctxErr (ctxRetry c.phase))) := by
    simp only [step, hc, hb, if_true]
    cases hp : c.phase <;> rfl
  refine ⟨h, ?_, ?_⟩
  · rw [h, setPhase_getElem?_self, hc]; rfl
  · intro j hj; rw [h]; exact setPhase_getElem?_ne _ _ _ _ hj

/-- the enumeration: a cancel in each of the seven waiting phases -/
theorem cancel_releases_each_phase (s : St) (i : Nat) (c : Call) (hc : s.calls[i]? = some c) :
    (c.phase = .waitConnAck → (step s (.cancel i)).calls[i]? = some { c with phase := .returned (.ctxErr false) }) ∧
    (c.phase = .waitPubAck → (step s (.cancel i)).calls[i]? = some { c with phase := .returned (.ctxErr true) }) ∧
    (c.phase = .waitPubRec → (step s (.cancel i)).calls[i]? = some { c with phase := .returned (.ctxErr true) }) ∧
    (c.phase = .waitPubComp → (step s (.cancel i)).calls[i]? = some { c with phase := .returned (.ctxErr true) }) ∧
    (c.phase = .waitSubAck → (step s (.cancel i)).calls[i]? = some { c with phase := .returned (.ctxErr true) }) ∧
    (c.phase = .waitUnsubAck → (step s (.cancel i)).calls[i]? = some { c with phase := .returned (.ctxErr true) }) ∧
    (c.phase = .waitPingResp → (step s (.cancel i)).calls[i]? = some { c with phase := .returned (.ctxErr false) }) := by
  refine ⟨?_, ?_, ?_, ?_, ?_, ?_, ?_⟩ <;> intro hp <;>
    (have hb : blocked c = true := by simp [blocked, hp]) <;>
    (have := (cancel_releases s i c hc hb).2.1) <;> rw [hp] at this <;> exact this

/-- cancelling the context of a call that has already returned (or of no call) changes nothing -/
theorem cancel_after_return_noop (s : St) (i : Nat) (h : ∀ c, s.calls[i]? = some c → blocked c = false) :
    step s (.cancel i) = s := by
  simp only [step]
  cases hc : s.calls[i]? with
  | none => rfl
  | some c => simp [h c hc]

/-- Disconnect never blocks: the call record it appends has already returned (success, or the write error) -/
theorem disconnect_returns_at_once (s : St) (id : Nat) :
    ∃ (r : Ret) (cs : List Call), (step s (.call .disconnect id)).calls = cs ++ [⟨.disconnect, id, .returned r⟩] ∧
      cs.length = s.calls.length ∧ (r = .ok ∨ r = .writeErr false) := by
  have h := step_rel s (.call .disconnect id)
  generalize step s (.call .disconnect id) = s' at h
  cases h
  case discFail hw => exact ⟨_, s.calls, by simp, rfl, Or.inr rfl⟩
  case discOk hw hi => exact ⟨_, s.calls, by simp [discd], rfl, Or.inl rfl⟩
  case discEnd hw hi hd => exact ⟨_, s.calls.map release, by simp [discd, release], by simp, Or.inl rfl⟩
  all_goals contradiction

/-! ### 8. the end of the connection releases every blocked call -/

/-- the ways a live connection is ended from outside a call: the peer closes, `Close()` locally,
    a packet that the parsers reject, and an inbound application message whose acknowledgement the reader
    cannot write (`ackFails s p`: an inbound PUBLISH with QoS ≠ 0, or a PUBREL of a remembered id, while the
    transport is closed or refuses writes — serve.go `return wrapError(err, "sending PUBACK")`).
    The last one depends on the state in which the event arrives, hence the parameter `s`. -/
def IsConnEnd (s : St) (e : Ev) : Prop :=
  e = .peerClose ∨ e = .localClose ∨ e = .inb .malformed ∨ ∃ p, e = .inb p ∧ ackFails s p = true

/-- `ackFails`, spelled out -/
theorem ackFails_iff (s : St) (p : In) : ackFails s p = true ↔
    canWrite s = false ∧
      ((∃ q id, p = .publish q id ∧ q ≠ 0) ∨ (∃ id, p = .pubrel id ∧ id ∈ s.inQ2)) := by
  simp only [ackFails, Bool.and_eq_true, Bool.not_eq_true', needsAck_iff]
  exact And.comm

/-- an inbound QoS 1 / QoS 2 PUBLISH while the client cannot write ends the connection -/
theorem isConnEnd_publish (s : St) (q id : Nat) (hq : q = 1 ∨ q = 2) (hw : canWrite s = false) :
    IsConnEnd s (.inb (.publish q id)) :=
  Or.inr (Or.inr (Or.inr ⟨_, rfl, (ackFails_iff s _).2 ⟨hw, Or.inl ⟨q, id, rfl, by omega⟩⟩⟩))

/-- an inbound PUBREL of a remembered id while the client cannot write ends the connection -/
theorem isConnEnd_pubrel (s : St) (id : Nat) (hm : id ∈ s.inQ2) (hw : canWrite s = false) :
    IsConnEnd s (.inb (.pubrel id)) :=
  Or.inr (Or.inr (Or.inr ⟨_, rfl, (ackFails_iff s _).2 ⟨hw, Or.inr ⟨id, rfl, hm⟩⟩⟩))

/-- a connection end is the reader finishing: `endNow` (transport closed, error stored once, `Closed` reported
    unless Disconnect was called, Done() closed, every blocked call released); a PUBREL has forgotten its id by
    then, nothing else differs from `s` -/
theorem connEnd_step (s : St) (e : Ev) (he : IsConnEnd s e) (hi : s.inited = true) (hd : s.doneClosed = false) :
    ∃ er q, step s e = endNow { s with inQ2 := q } er := by
  rcases he with rfl | rfl | rfl | ⟨p, rfl, hf⟩
  · refine ⟨.eof, s.inQ2, ?_⟩
    show step s .peerClose = endNow s .eof
    simp [step, hi, readerEnds_of_not_done _ _ hd]
  · refine ⟨.other, s.inQ2, ?_⟩
    show step s .localClose = endNow s .other
    simp [step, hi, readerEnds_of_not_done _ _ hd]
  · refine ⟨.invalidPacket, s.inQ2, ?_⟩
    show step s (.inb .malformed) = endNow s .invalidPacket
    simp only [step]; rw [inbound_live s _ hi hd]; exact readerEnds_of_not_done _ _ hd
  · refine ⟨.other, (appDropped s p).inQ2, ?_⟩
    simp only [step]
    rw [inbound_ack_fails s p hi hd hf, ← appDropped_eq]

/-- When the connection ends (peer close / local Close / protocol error) on a connected client:
    Done() is closed, no call is blocked any more, every call that was blocked has returned
    ErrClosedTransport, and calls that had already returned are unchanged. -/
theorem connection_end_releases_all (s : St) (e : Ev) (he : IsConnEnd s e)
    (hi : s.inited = true) (hd : s.doneClosed = false) :
    (step s e).doneClosed = true ∧
    (step s e).transportOpen = false ∧
    (∀ (j : Nat) (c' : Call), (step s e).calls[j]? = some c' → blocked c' = false) ∧
    (∀ (j : Nat) (c : Call), s.calls[j]? = some c → blocked c = true →
        ∃ r, (step s e).calls[j]? = some { c with phase := .returned (.closed r) }) ∧
    (∀ (j : Nat) (c : Call), s.calls[j]? = some c → blocked c = false → (step s e).calls[j]? = some c) ∧
    (step s e).calls.length = s.calls.length := by
  obtain ⟨er, q, h⟩ := connEnd_step s e he hi hd
  rw [h]
  refine ⟨by simp, by simp, endNow_no_blocked _ er, ?_, ?_, by simp⟩
  · intro j c hc hb
    obtain ⟨r, hr⟩ := release_phase_of_blocked c hb
    refine ⟨r, ?_⟩
    rw [endNow_getElem?_some (s := { s with inQ2 := q }) er hc]
    congr 1
    cases c with | mk k id ph =>
    have h1 := release_kind ⟨k, id, ph⟩
    have h2 := release_id ⟨k, id, ph⟩
    cases hrel : release ⟨k, id, ph⟩ with | mk k' id' ph' =>
    rw [hrel] at h1 h2 hr
    simp only at h1 h2 hr
    subst h1 h2 hr
    rfl
  · intro j c hc hb
    rw [endNow_getElem?_some (s := { s with inQ2 := q }) er hc, release_of_returned c hb]

/-- the retry flag of ErrClosedTransport is, like for the context error, false for Connect / Ping and
    true for the id-carrying requests -/
theorem connection_end_result (s : St) (e : Ev) (he : IsConnEnd s e)
    (hi : s.inited = true) (hd : s.doneClosed = false) (j : Nat) (c : Call)
    (hc : s.calls[j]? = some c) (hb : blocked c = true) :
    (step s e).calls[j]? = some { c with phase := .returned (.closed (ctxRetry c.phase)) } := by
  obtain ⟨er, q, h⟩ := connEnd_step s e he hi hd
  rw [h, endNow_getElem?_some (s := { s with inQ2 := q }) er hc]
  congr 1
  cases c with | mk k id ph =>
  cases ph <;> first | rfl | (simp [blocked] at hb)

/-! ### 9. no call is ever stuck -/

/-- invariants of reachable states: a blocked call implies that Connect has run and the connection has
    not ended; once the connection has ended the transport is closed -/
theorem blocked_implies_live (evs : List Ev) (i : Nat) (c : Call)
    (hc : (run evs).calls[i]? = some c) (hb : blocked c = true) :
    (run evs).inited = true ∧ (run evs).doneClosed = false :=
  (Live.onRun evs).blk i c hc hb

theorem no_blocked_once_done (evs : List Ev) (hd : (run evs).doneClosed = true) (i : Nat) (c : Call)
    (hc : (run evs).calls[i]? = some c) : blocked c = false := by
  cases hb : blocked c with
  | false => rfl
  | true => have := (blocked_implies_live evs i c hc hb).2; rw [hd] at this; cases this

theorem done_implies_transport_closed (evs : List Ev) (hd : (run evs).doneClosed = true) :
    (run evs).transportOpen = false ∧ (run evs).inited = true :=
  (Live.onRun evs).done hd

/-- a call started after the connection has ended returns at once (the write fails on the closed transport) -/
theorem call_after_done_returns_at_once (evs : List Ev) (hd : (run evs).doneClosed = true) (k : Kind) (id : Nat) :
    (run (evs ++ [.call k id])).calls =
      (run evs).calls ++ [⟨k, id, .returned (.writeErr (hasRetry k))⟩] := by
  rw [run_snoc]
  obtain ⟨ht, hi⟩ := done_implies_transport_closed evs hd
  generalize run evs = s at *
  have hw : canWrite s = false := by simp [canWrite, ht]
  simp only [step]
  by_cases hk : k = .disconnect
  · subst hk; rw [startCall_disconnect, if_neg (by simp [hw])]; simp [hasRetry]
  · by_cases hc : k = .connect
    · subst hc; rw [startCall_connect, if_neg (by simp [hw])]; simp
    · rw [startCall_other s k id hc hk, if_pos hi, if_neg (by simp [hw])]; simp

/-- In every reachable state every blocked call `i` is released by cancelling its context, and by each of
    the connection-ending events (which are always enabled: a blocked call implies a live connection). -/
theorem no_stuck_call (evs : List Ev) (i : Nat) (c : Call)
    (hc : (run evs).calls[i]? = some c) (hb : blocked c = true) :
    (run (evs ++ [.cancel i])).calls[i]? = some { c with phase := .returned (.ctxErr (ctxRetry c.phase)) } ∧
    (∀ e, IsConnEnd (run evs) e →
      (run (evs ++ [e])).calls[i]? = some { c with phase := .returned (.closed (ctxRetry c.phase)) } ∧
      (run (evs ++ [e])).doneClosed = true) := by
  obtain ⟨hi, hd⟩ := blocked_implies_live evs i c hc hb
  refine ⟨?_, ?_⟩
  · rw [run_snoc]; exact (cancel_releases _ i c hc hb).2.1
  · intro e he
    rw [run_snoc]
    exact ⟨connection_end_result _ e he hi hd i c hc hb, (connection_end_releases_all _ e he hi hd).1⟩

/-! ### 10. Done() is closed exactly when the reader has finished -/

/-
  `BC.endsConn s e` — the step `e` ends the connection of state `s` — is
      peerClose, localClose, inb malformed      : Connect has been called (`s.inited`)
      inb (suback id codes)                     : `s.inited` and the SUBACK finds a Subscribe waiting under `id`
                                                  with a different number of filters (`subAckMismatch`)
      inb (publish q id), inb (pubrel id)       : `s.inited` and the reader has to write an acknowledgement
                                                  (QoS ≠ 0, resp. `id` remembered in `inQ2`) but the client cannot
                                                  write (`ackFails`)
      call disconnect _                         : `s.inited` and the transport accepts the DISCONNECT write
      anything else                             : never
-/

/-- per event: Done() is closed after a step iff it was closed before or the step ends the connection -/
theorem done_step_iff (s : St) (e : Ev) :
    (step s e).doneClosed = true ↔ (s.doneClosed = true ∨ endsConn s e = true) := by
  rw [done_step (step_rel s e)]; simp

/-- explicit form of `endsConn` -/
theorem endsConn_iff (s : St) (e : Ev) : endsConn s e = true ↔
    s.inited = true ∧
      (e = .peerClose ∨ e = .localClose ∨ e = .inb .malformed ∨
       (∃ id codes, e = .inb (.suback id codes) ∧ subAckMismatch s (.suback id codes) = true) ∨
       (∃ q id, e = .inb (.publish q id) ∧ q ≠ 0 ∧ canWrite s = false) ∨
       (∃ id, e = .inb (.pubrel id) ∧ id ∈ s.inQ2 ∧ canWrite s = false) ∨
       (∃ id, e = .call .disconnect id ∧ canWrite s = true)) := by
  cases e with
  | call k id => cases k <;> simp [endsConn]
  | inb p =>
    cases p <;> simp [endsConn, ackFails, needsAck]
    intro _
    constructor
    · intro h; exact ⟨_, _, ⟨rfl, rfl⟩, h⟩
    · rintro ⟨_, _, ⟨rfl, rfl⟩, h⟩; exact h
  | cancel i => simp [endsConn]
  | peerClose => simp [endsConn]
  | localClose => simp [endsConn]
  | writeFail on => simp [endsConn]

/-- `endsConn`, in terms of `IsConnEnd`: Connect has been called, and the event is a connection end from
    outside a call (peer close / local Close / malformed packet / an acknowledgement of an inbound application
    message that cannot be written), a SUBACK with the wrong number of return codes, or a Disconnect whose
    packet can be written. -/
theorem endsConn_iff_isConnEnd (s : St) (e : Ev) : endsConn s e = true ↔
    s.inited = true ∧
      (IsConnEnd s e ∨
       (∃ id codes, e = .inb (.suback id codes) ∧ subAckMismatch s (.suback id codes) = true) ∨
       (∃ id, e = .call .disconnect id ∧ canWrite s = true)) := by
  rw [endsConn_iff]
  refine and_congr_right (fun _ => ?_)
  constructor
  · rintro (h | h | h | h | ⟨q, id, rfl, hq, hw⟩ | ⟨id, rfl, hm, hw⟩ | h)
    · exact Or.inl (Or.inl h)
    · exact Or.inl (Or.inr (Or.inl h))
    · exact Or.inl (Or.inr (Or.inr (Or.inl h)))
    · exact Or.inr (Or.inl h)
    · exact Or.inl (Or.inr (Or.inr (Or.inr ⟨_, rfl, (ackFails_iff s _).2 ⟨hw, Or.inl ⟨q, id, rfl, hq⟩⟩⟩)))
    · exact Or.inl (isConnEnd_pubrel s id hm hw)
    · exact Or.inr (Or.inr h)
  · rintro ((h | h | h | ⟨p, rfl, hf⟩) | h | h)
    · exact Or.inl h
    · exact Or.inr (Or.inl h)
    · exact Or.inr (Or.inr (Or.inl h))
    · obtain ⟨hw, ⟨q, id, rfl, hq⟩ | ⟨id, rfl, hm⟩⟩ := (ackFails_iff s p).1 hf
      · exact Or.inr (Or.inr (Or.inr (Or.inr (Or.inl ⟨q, id, rfl, hq, hw⟩))))
      · exact Or.inr (Or.inr (Or.inr (Or.inr (Or.inr (Or.inl ⟨id, rfl, hm, hw⟩)))))
    · exact Or.inr (Or.inr (Or.inr (Or.inl h)))
    · exact Or.inr (Or.inr (Or.inr (Or.inr (Or.inr (Or.inr h)))))

/-- every connection end from outside a call is a step after which Done() is closed -/
theorem isConnEnd_done (s : St) (e : Ev) (he : IsConnEnd s e) (hi : s.inited = true) :
    (step s e).doneClosed = true :=
  (done_step_iff s e).2 (Or.inr ((endsConn_iff_isConnEnd s e).2 ⟨hi, Or.inl he⟩))

/-- some connection-ending step happened along the run (folded from the state `s`) -/
def endedByFrom (s : St) : List Ev → Bool
  | [] => false
  | e :: es => endsConn s e || endedByFrom (step s e) es

/-- some connection-ending step happened along the run -/
def endedBy (evs : List Ev) : Bool := endedByFrom {} evs

theorem done_foldl (evs : List Ev) (s : St) :
    (evs.foldl step s).doneClosed = (s.doneClosed || endedByFrom s evs) := by
  induction evs generalizing s with
  | nil => simp [endedByFrom]
  | cons e es ih =>
    simp only [List.foldl_cons, endedByFrom]
    rw [ih, done_step (step_rel s e), Bool.or_assoc]

/-- Done() is closed iff a connection-ending step (peer close / local Close / malformed packet / SUBACK count
    mismatch / failed acknowledgement write for an inbound PUBLISH or PUBREL / successful Disconnect) happened
    after Connect was called. -/
theorem done_iff_reader_finished (evs : List Ev) : (run evs).doneClosed = true ↔ endedBy evs = true := by
  unfold run endedBy
  rw [done_foldl]; simp

/-- "after Connect was called": `inited` holds exactly when a Connect call occurred -/
theorem inited_iff_connect_called (evs : List Ev) :
    (run evs).inited = true ↔ ∃ id, Ev.call .connect id ∈ evs := by
  have key : ∀ (evs : List Ev) (s : St),
      (evs.foldl step s).inited = true ↔ (s.inited = true ∨ ∃ id, Ev.call .connect id ∈ evs) := by
    intro evs
    induction evs with
    | nil => intro s; simp
    | cons e es ih =>
      intro s
      simp only [List.foldl_cons]
      rw [ih, inited_step (step_rel s e)]
      constructor
      · rintro (h | ⟨id, h⟩)
        · simp only [Bool.or_eq_true] at h
          rcases h with h | h
          · exact Or.inl h
          · cases e with
            | call k id => cases k <;> simp [isConnect] at h; exact Or.inr ⟨id, by simp⟩
            | _ => simp [isConnect] at h
        · exact Or.inr ⟨id, List.mem_cons_of_mem _ h⟩
      · rintro (h | ⟨id, h⟩)
        · exact Or.inl (by simp [h])
        · rcases List.mem_cons.1 h with h | h
          · subst h; exact Or.inl (by simp [isConnect])
          · exact Or.inr ⟨id, h⟩
  have := key evs {}
  simpa [run] using this

/-- the invariant form: Done() closed implies Connect was called and the transport is closed -/
theorem done_invariant (evs : List Ev) (hd : (run evs).doneClosed = true) :
    (run evs).transportOpen = false ∧ (run evs).inited = true := done_implies_transport_closed evs hd

/-- Done() stays closed -/
theorem done_stable (s : St) (e : Ev) (hd : s.doneClosed = true) : (step s e).doneClosed = true :=
  (done_step_iff s e).2 (Or.inl hd)

/-! ### Non-vacuity -/

def phases (evs : List Ev) : List Phase := (run evs).calls.map (·.phase)

/-- a session with one call blocked in each id-carrying phase plus a Ping -/
def busy : List Ev :=
  [.call .connect 0, .inb (.connack false 0), .call .pub1 1, .call .pub2 2, .call .pub2 3, .inb (.pubrec 3),
   .call (.sub 1) 4, .call .unsub 5, .call .ping 0]

example : phases busy =
    [.returned .ok, .waitPubAck, .waitPubRec, .waitPubComp, .waitSubAck, .waitUnsubAck, .waitPingResp] := by decide

-- a cancel in each phase
example : phases [.call .connect 0, .cancel 0] = [.returned (.ctxErr false)] := by decide
example : phases (busy ++ [.cancel 1, .cancel 2, .cancel 3, .cancel 4, .cancel 5, .cancel 6]) =
    [.returned .ok, .returned (.ctxErr true), .returned (.ctxErr true), .returned (.ctxErr true),
     .returned (.ctxErr true), .returned (.ctxErr true), .returned (.ctxErr false)] := by decide
-- ... and only that call is released
example : phases (busy ++ [.cancel 3]) =
    [.returned .ok, .waitPubAck, .waitPubRec, .returned (.ctxErr true), .waitSubAck, .waitUnsubAck, .waitPingResp] := by
  decide

-- EOF with six blocked calls; the same for Close() and for a malformed packet
example : phases (busy ++ [.peerClose]) =
    [.returned .ok, .returned (.closed true), .returned (.closed true), .returned (.closed true),
     .returned (.closed true), .returned (.closed true), .returned (.closed false)] := by decide
example : phases (busy ++ [.localClose]) = phases (busy ++ [.peerClose]) := by decide
example : phases (busy ++ [.inb .malformed]) = phases (busy ++ [.peerClose]) := by decide
example : (run (busy ++ [.peerClose])).doneClosed = true ∧ (run busy).doneClosed = false := by decide
-- EOF while Connect itself is waiting for CONNACK
example : phases [.call .connect 0, .peerClose] = [.returned (.closed false)] := by decide

-- the acknowledgement of an inbound PUBLISH (QoS 1, QoS 2) or of a remembered PUBREL cannot be written:
-- the reader ends and all six blocked calls are released, exactly as on EOF
example : phases (busy ++ [.writeFail true, .inb (.publish 1 9)]) = phases (busy ++ [.peerClose]) := by decide
example : phases (busy ++ [.writeFail true, .inb (.publish 2 9)]) = phases (busy ++ [.peerClose]) := by decide
example : phases (busy ++ [.inb (.publish 2 9), .writeFail true, .inb (.pubrel 9)]) = phases (busy ++ [.peerClose]) := by
  decide
example : (run (busy ++ [.writeFail true, .inb (.publish 1 9)])).doneClosed = true := by decide
example : IsConnEnd (run (busy ++ [.writeFail true])) (.inb (.publish 1 9)) :=
  isConnEnd_publish _ 1 9 (Or.inl rfl) (by decide)
example : IsConnEnd (run (busy ++ [.inb (.publish 2 9), .writeFail true])) (.inb (.pubrel 9)) :=
  isConnEnd_pubrel _ 9 (by decide) (by decide)
-- ... but a QoS 0 PUBLISH, or a PUBREL nobody remembers, needs no acknowledgement and ends nothing
example : phases (busy ++ [.writeFail true, .inb (.publish 0 9), .inb (.pubrel 9)]) = phases busy := by decide
-- ... and while the transport accepts writes application traffic leaves every blocked call alone
example : phases (busy ++ [.inb (.publish 1 9), .inb (.publish 2 9), .inb (.pubrel 9), .inb (.publish 0 1)]) =
    phases busy := by decide

-- a call after the end returns at once
example : phases (busy ++ [.peerClose, .call .pub1 9]) = phases (busy ++ [.peerClose]) ++ [.returned (.writeErr true)] := by
  decide

-- endedBy
example : endedBy busy = false := by decide
example : endedBy (busy ++ [.call .disconnect 0]) = true := by decide
example : endedBy [.peerClose, .localClose] = false := by decide   -- before Connect nothing ends
example : endedBy [.call .connect 0, .inb (.connack false 0), .call (.sub 2) 4, .inb (.suback 4 [0])] = true := by decide
example : endedBy (busy ++ [.writeFail true, .inb (.publish 2 9)]) = true := by decide
example : endedBy (busy ++ [.inb (.publish 2 9), .writeFail true, .inb (.pubrel 9)]) = true := by decide
example : endedBy (busy ++ [.writeFail true, .inb (.pubrel 9), .inb (.publish 0 9)]) = false := by decide
example : endedBy (busy ++ [.inb (.publish 2 9), .inb (.pubrel 9), .writeFail true, .inb (.pubrel 9)]) = false := by
  decide   -- the id was forgotten when the first PUBREL was answered

end Mqtt.C11
