/- C06, tie to the source: the bound of the length loop of `readPacket` and the packet type constants in the Go files today. -/
import MqttVerif.Proofs.FactsTie
namespace Mqtt.C06.Tie
open Mqtt.FactsTie

theorem read_length_bound :
    agrees Generated.readLenShiftBound 21 ∧ agrees Generated.readLenShiftStep 7 := by decide

theorem packet_constants :
    agrees Generated.packetConnect packetConnect ∧ agrees Generated.packetConnAck packetConnAck ∧
    agrees Generated.packetPublish packetPublish ∧ agrees Generated.packetPubAck packetPubAck ∧
    agrees Generated.packetPubRec packetPubRec ∧ agrees Generated.packetPubRel packetPubRel ∧
    agrees Generated.packetPubComp packetPubComp ∧ agrees Generated.packetSubscribe packetSubscribe ∧
    agrees Generated.packetSubAck packetSubAck ∧ agrees Generated.packetUnsubscribe packetUnsubscribe ∧
    agrees Generated.packetUnsubAck packetUnsubAck ∧ agrees Generated.packetPingReq packetPingReq ∧
    agrees Generated.packetPingResp packetPingResp ∧ agrees Generated.packetDisconnect packetDisconnect ∧
    agrees Generated.packetFromClient packetFromClient := by decide

end Mqtt.C06.Tie
