/-
  C01 — no accepted QoS ≥ 1 publish, subscribe or unsubscribe request is ever lost.

  Every QoS 1 / QoS 2 publish and every subscribe / unsubscribe request that the retrying,
  reconnecting client accepted (the API returned nil) is eventually carried out and acknowledged by
  the broker, whether it was submitted before the first connection, while connected or during an
  outage, and wherever connections break — as long as the broker eventually stays reachable,
  Disconnect is not called and the context given to Connect is not cancelled while Connect is still
  waiting for the first connection.

  Stated about the executable model `MqttVerif/Model/Retry.lean` (`exec : Script → World`), for ALL
  scripts: all event lists (request histories, dial results, back-off timers, CONNACK outcomes, peer
  closes, inbound traffic, Disconnect, context cancellation), all fault lists, all configurations.
   * `conservation` (safety half): nothing accepted is ever dropped — it is acknowledged or still
     held by the client (`retryQ` / `taskQ`); this holds with Disconnect and with `.cancelCtx` too
     (`conservation_any`);
   * `settles` (liveness as bounded termination): once the back-off timer fires, dialling succeeds and
     the broker accepts (a friendly round is `.waitElapsed, .dialOk, .connackOk`), at most (number of
     remaining faults + 2) reconnects leave the client with nothing to do;
   * `all_acked`: then everything accepted has been acknowledged.
  The liveness hypotheses on the run so far: `NoDisconnect` (no `.disconnect` event) and `NoCancel`
  (no EFFECTIVE `.cancelCtx`: `ctxCancelled` is still false; a `.cancelCtx` after Connect has returned
  changes nothing, reconnclient.go:97-101, and is allowed). The friendly tail contains neither.
  "All configurations" includes `deafDialer = true` (a Dialer that ignores its context, `NoContextDialer`):
  every theorem below is stated and proved without a hypothesis on it. Under `NoCancel` the branches of the
  model that exist for such a dialer are never taken; conservation covers them (a connection that is born
  dead after a late dial success; see `deafDemo`, `deafLostDemo`). With `deafDialer = false` they are
  unreachable altogether (`deafBranch_unreachable`, invariant `Aware`).
  Helper lemmas (and the definitions `Req.needsAck`, `entryReq`, `pendingReqs`, `friendly`,
  `settled`, `isDisconnect`, `isCancel`, `Aware`, `deafBranch`) live in `MqttVerif/Proofs/RetryLive.lean`.
-/
import MqttVerif.Proofs.RetryLive

namespace Mqtt.C01

open Mqtt.Retry

/-! The definitions of the statement, as given (they live in `Proofs/RetryLive`). -/

example : Req.needsAck = fun r => match r with | .pub _ q => decide (q ≥ 1) | _ => true := by
  funext r; cases r <;> rfl

example (w : World) : pendingReqs w = w.retryQ.map entryReq ++
    w.taskQ.filterMap (fun t => match t with | .req r => some r | _ => none) := rfl

example (n i : Nat) : friendly n i =
    (List.replicate n [Ev.waitElapsed, Ev.dialOk i, Ev.connackOk true []]).flatten := rfl

example (w : World) : settled w = (w.taskQ = [] ∧ w.retryQ = [] ∧ w.stuck = false ∧
    ∃ k, w.phase = .up k ∧ (getConn w k).alive = true) := rfl

/-- Disconnect is never called -/
def NoDisconnect (s : Script) : Prop := ∀ e ∈ s.evs, isDisconnect e = false

/-- the context given to ReconnectClient.Connect is not cancelled while Connect is still waiting for
    the first connection: no `.cancelCtx` event of the run had an effect. (`ctxCancelled` is set by
    exactly the effective `.cancelCtx` events and never reset — `ctx_step`, `ctx_cancel_effective`,
    `ctx_step_mono`; a `.cancelCtx` after Connect has returned is a no-op — `cancel_ineffective`.) -/
def NoCancel (s : Script) : Prop := (exec s).ctxCancelled = false

instance (s : Script) : Decidable (NoCancel s) := by unfold NoCancel; infer_instance

/-- a run without any `.cancelCtx` event satisfies `NoCancel` -/
theorem noCancel_of_events (s : Script) (h : ∀ e ∈ s.evs, isCancel e = false) : NoCancel s :=
  ctx_foldl s.evs (init s) h

/-- `NoCancel` says exactly that every `.cancelCtx` of the run was a no-op: an effective one is recorded
    for ever -/
theorem not_noCancel_of_effective (s : Script) (pre post : List Ev) (hs : s.evs = pre ++ .cancelCtx :: post)
    (h : (exec { s with evs := pre }).connectReturned.isSome = false) : ¬ NoCancel s := by
  intro nc
  have e : exec s = post.foldl step (step (exec { s with evs := pre }) .cancelCtx) := by
    simp only [exec, hs, List.foldl_append, List.foldl_cons]
    rfl
  unfold NoCancel at nc
  rw [e, ctx_foldl_mono post _ (ctx_cancel_effective _ h)] at nc
  exact absurd nc (by decide)

/-- the model's QoS is a `Nat`; MQTT (and the Go type `QoS`) only has 0, 1, 2 -/
def Req.validQoS : Req → Prop
  | .pub _ q => q ≤ 2
  | _ => True

theorem ackable_of {r : Req} (hr : r.needsAck = true) (hq : Req.validQoS r) : r.ackable = true := by
  cases r with
  | pub m q =>
    simp only [Req.needsAck, Req.validQoS, Req.ackable, decide_eq_true_eq] at *
    have : q = 1 ∨ q = 2 := by omega
    cases this with
    | inl h => simp [h]
    | inr h => simp [h]
  | sub s => rfl
  | unsub t => rfl

/-! ### conservation -/

/-- CONSERVATION, without any assumption on Disconnect: nothing accepted is ever dropped — it is
    acknowledged or still held by the client. -/
theorem conservation_any (s : Script) (ns : (exec s).stuck = false) (r : Req)
    (hr : r.needsAck = true) (hq : Req.validQoS r) :
    (exec s).accepted.count r ≤ (exec s).broker.acked.count r + (pendingReqs (exec s)).count r := by
  have h := keepsAll_foldl s.evs (init s) r (ackable_of hr hq) ns
  have h2 := h.2
  rw [← total_eq]
  have e1 : (init s).accepted.count r = 0 := rfl
  have e2 : total (init s) r = 0 := rfl
  rw [e1, e2] at h2
  simpa [exec] using h2

/-- CONSERVATION (safety half) as stated; `validQoS` (QoS ≤ 2) is the one added hypothesis. -/
theorem conservation (s : Script) (_nd : NoDisconnect s) (ns : (exec s).stuck = false) (r : Req)
    (hr : r.needsAck = true) (hq : Req.validQoS r) :
    (exec s).accepted.count r ≤ (exec s).broker.acked.count r + (pendingReqs (exec s)).count r :=
  conservation_any s ns r hr hq

/-! ### liveness -/

theorem inv_exec (s : Script) (nd : NoDisconnect s) (nc : NoCancel s)
    (hs : Fault.silent ∈ s.faults → s.cfg.respTimeout = true) : Inv (exec s) :=
  inv_foldl s.evs (init s) (inv_init s hs) nd nc

/-- LIVENESS with the tight bound: (number of remaining faults + 1) friendly rounds settle the
    client, and so does any larger number. -/
theorem settles_within (s : Script) (nd : NoDisconnect s) (nc : NoCancel s) (hstart : (exec s).phase ≠ .idle)
    (hs : Fault.silent ∈ s.faults → s.cfg.respTimeout = true) (idStart : Nat) (n : Nat)
    (hn : (exec s).faults.length < n) :
    settled (exec { s with evs := s.evs ++ friendly n idStart }) := by
  rw [exec_append]
  exact rounds n idStart (exec s) (inv_exec s nd nc hs) hstart hn

/-- LIVENESS as bounded termination: once the broker stays reachable, at most (number of remaining
    faults + 2) reconnects settle the client. -/
theorem settles (s : Script) (nd : NoDisconnect s) (nc : NoCancel s) (hstart : (exec s).phase ≠ .idle)
    (hs : Fault.silent ∈ s.faults → s.cfg.respTimeout = true) (idStart : Nat) :
    settled (exec { s with evs := s.evs ++ friendly ((exec s).faults.length + 2) idStart }) :=
  settles_within s nd nc hstart hs idStart _ (by omega)

/-- the friendly tail contains no Disconnect and no cancellation: the hypotheses on the run so far
    carry over to the extended run -/
theorem friendly_tail_ok (s : Script) (nd : NoDisconnect s) (nc : NoCancel s) (n idStart : Nat) :
    NoDisconnect { s with evs := s.evs ++ friendly n idStart } ∧
      NoCancel { s with evs := s.evs ++ friendly n idStart } := by
  refine ⟨fun e he => ?_, ?_⟩
  · cases List.mem_append.mp he with
    | inl h => exact nd e h
    | inr h => exact friendly_noDisconnect n idStart e h
  · unfold NoCancel at *
    rw [exec_append, ctx_foldl _ _ (friendly_noCancel n idStart)]
    exact nc

theorem pendingReqs_settled {w : World} (h : settled w) : pendingReqs w = [] := by
  simp [pendingReqs, h.1, h.2.1]

/-- … and then everything accepted has been acknowledged. -/
theorem all_acked (s : Script) (nd : NoDisconnect s) (nc : NoCancel s) (hstart : (exec s).phase ≠ .idle)
    (hs : Fault.silent ∈ s.faults → s.cfg.respTimeout = true) (idStart : Nat) (r : Req)
    (hr : r.needsAck = true) (hq : Req.validQoS r) :
    let w := exec { s with evs := s.evs ++ friendly ((exec s).faults.length + 2) idStart }
    w.accepted.count r ≤ w.broker.acked.count r := by
  intro w
  have st : settled w := settles s nd nc hstart hs idStart
  have c := conservation_any { s with evs := s.evs ++ friendly ((exec s).faults.length + 2) idStart }
    st.2.2.1 r hr hq
  rw [pendingReqs_settled st] at c
  simpa using c

/-! ### non-vacuity: a concrete run -/

/-- a run with an early request, a failed dial, the back-off timer firing before every redial, three
    connections, a lost SUBACK, a refused CONNACK, a peer close, a write error, a (late, hence
    harmless) cancellation of Connect's context — and two faults still to come -/
def demo : Script :=
  { cfg := { respTimeout := true }
    faults := [.ok, .lostAck, .ok, .writeFail, .silent, .lostReq]
    evs := [.app (.pub 7 1), .start, .app (.sub [⟨[97], 1⟩]), .dialFail, .waitElapsed, .dialOk 10,
            .connackOk false [], .cancelCtx,
            .app (.pub 0 1), .app (.pub 1 2), .peerClose, .app (.unsub [[97]]), .waitElapsed, .dialOk 20,
            .connackRefused, .waitElapsed, .dialOk 30, .connackOk false [] ] }

/-- the hypotheses hold (the `.cancelCtx` comes after Connect has returned: `NoCancel` holds although the
    event is there) -/
example : NoDisconnect demo ∧ NoCancel demo ∧ (exec demo).phase ≠ .idle ∧ (exec demo).stuck = false ∧
    (Fault.silent ∈ demo.faults → demo.cfg.respTimeout = true) := by
  refine ⟨?_, by decide, by decide, by decide, fun _ => rfl⟩
  intro e he
  simp only [demo, List.mem_cons, List.not_mem_nil, or_false] at he
  rcases he with rfl | rfl | rfl | rfl | rfl | rfl | rfl | rfl | rfl | rfl | rfl | rfl | rfl | rfl | rfl | rfl
    | rfl | rfl <;> rfl

example : Ev.cancelCtx ∈ demo.evs ∧ Ev.waitElapsed ∈ demo.evs := by simp [demo]

/-- the loop is waiting for the back-off timer; four DialContext calls, four waits so far -/
example : (exec demo).conns.length = 3 ∧ (exec demo).phase = .backoff ∧
    (exec demo).dials = 4 ∧ (exec demo).waits = [0, 0, 1, 0] ∧
    (exec demo).faults = [.silent, .lostReq] ∧
    (exec demo).accepted = [.pub 7 1, .sub [⟨[97], 1⟩], .pub 0 1, .pub 1 2, .unsub [[97]]] ∧
    (exec demo).broker.acked = [.pub 7 1, .sub [⟨[97], 1⟩]] ∧
    pendingReqs (exec demo) = [.pub 0 1, .pub 1 2, .unsub [[97]]] := by decide

example :
    let w := exec { demo with evs := demo.evs ++ friendly ((exec demo).faults.length + 2) 40 }
    w.conns.length = 6 ∧ w.phase = .up 5 ∧ (getConn w 5).alive = true ∧ w.taskQ = [] ∧ w.retryQ = [] ∧
    w.faults = [] ∧ w.dials = 7 ∧
    w.broker.acked = [.pub 7 1, .sub [⟨[97], 1⟩], .pub 0 1, .pub 1 2, .unsub [[97]]] := by decide

/-- the `.waitElapsed` of the friendly round is necessary: from a state that is backing off, a tail of
    successful dial results and CONNACKs without the timer firing changes nothing -/
example :
    let w := exec { demo with evs := demo.evs ++ (List.replicate 4 [Ev.dialOk 40, Ev.connackOk true []]).flatten }
    w.phase = .backoff ∧ w.conns.length = 3 ∧ w.broker.acked = [.pub 7 1, .sub [⟨[97], 1⟩]] ∧
    pendingReqs w = [.pub 0 1, .pub 1 2, .unsub [[97]]] := by decide

/-! ### the hypotheses are necessary -/

/-- the hypothesis `hs` is necessary: a broker that processes one PUBLISH but never answers it (`silent`)
    while no ResponseTimeout is configured blocks the task goroutine for ever -/
def silentDemo : Script :=
  { faults := [.silent]
    evs := [.start, .dialOk 1, .connackOk true [], .app (.pub 0 1), .app (.pub 1 1)] }

example :
    (exec silentDemo).stuck = true ∧ (exec silentDemo).phase ≠ .idle ∧
    (let w := exec { silentDemo with evs := silentDemo.evs ++ friendly 5 9 }
     w.stuck = true ∧ w.accepted = [.pub 0 1, .pub 1 1] ∧ w.broker.acked = [] ∧
     w.taskQ = [.req (.pub 1 1)]) := by decide

/-- … with a ResponseTimeout the same run recovers -/
example :
    let s := { silentDemo with cfg := { respTimeout := true } }
    let w := exec { s with evs := s.evs ++ friendly ((exec s).faults.length + 2) 9 }
    w.stuck = false ∧ w.broker.acked = [.pub 0 1, .pub 1 1] ∧ w.conns.length = 2 := by decide

/-- the hypothesis `NoDisconnect` is necessary for liveness. Disconnect while the loop is BACKING OFF
    (`.backoff`: the select on the back-off timer returns, the loop exits): a request queued before the
    connection is up is never transmitted (it stays in `taskQ` — conservation still accounts for it) -/
def disconnectDemo : Script :=
  { evs := [.start, .dialFail, .app (.pub 0 1), .disconnect] }

example :
    (exec { disconnectDemo with evs := [.start, .dialFail, .app (.pub 0 1)] }).phase = .backoff ∧
    (let w := exec { disconnectDemo with evs := disconnectDemo.evs ++ friendly 5 9 }
     w.stopped = true ∧ w.phase = .exited ∧ w.dials = 1 ∧ w.accepted = [.pub 0 1] ∧ w.broker.acked = [] ∧
     pendingReqs w = [.pub 0 1]) := by decide

/-- Disconnect while the loop is INSIDE DialContext (`.dialGate`) does not interrupt the dial. If it then
    fails, the loop exits and the queued request is never transmitted (again conserved in `taskQ`) … -/
def disconnectDialFailDemo : Script :=
  { evs := [.start, .app (.pub 0 1), .disconnect, .dialFail] }

example :
    (exec { disconnectDialFailDemo with evs := [.start, .app (.pub 0 1), .disconnect] }).phase = .dialGate ∧
    (let w := exec { disconnectDialFailDemo with evs := disconnectDialFailDemo.evs ++ friendly 5 9 }
     w.stopped = true ∧ w.phase = .exited ∧ w.conns.length = 0 ∧ w.accepted = [.pub 0 1] ∧
     w.broker.acked = [] ∧ pendingReqs w = [.pub 0 1]) := by decide

/-- … if it succeeds (`.dialOk` after Disconnect), the connection is still set up, CONNECT goes out, and once
    the broker accepts, the task goroutine carries out the queued request before the queued Disconnect
    task: here the request IS acknowledged although Disconnect was called (liveness is not guaranteed
    after Disconnect, conservation is) -/
def disconnectDialOkDemo : Script :=
  { evs := [.start, .app (.pub 0 1), .disconnect, .dialOk 1, .connackOk true []] }

example :
    (exec { disconnectDialOkDemo with evs := [.start, .app (.pub 0 1), .disconnect] }).phase = .dialGate ∧
    (exec { disconnectDialOkDemo with evs := [.start, .app (.pub 0 1), .disconnect, .dialOk 1] }).phase
      = .connackGate 0 ∧
    (let w := exec disconnectDialOkDemo
     w.stopped = true ∧ w.phase = .exited ∧ w.conns.length = 1 ∧ (getConn w 0).alive = false ∧
     w.accepted = [.pub 0 1] ∧ w.broker.acked = [.pub 0 1] ∧ pendingReqs w = [] ∧ w.taskQ = []) := by decide

/-- conservation in these three runs, by the general theorem (no hypothesis on Disconnect) -/
example (r : Req) (hr : r.needsAck = true) (hq : Req.validQoS r) :
    (exec disconnectDialOkDemo).accepted.count r ≤
      (exec disconnectDialOkDemo).broker.acked.count r + (pendingReqs (exec disconnectDialOkDemo)).count r :=
  conservation_any disconnectDialOkDemo (by decide) r hr hq

/-- the hypothesis `NoCancel` is necessary for liveness: the context given to Connect is cancelled while
    the loop is inside the first DialContext — the loop exits, Connect returns the context's error, the
    queued request is never transmitted (conserved in `taskQ`). (Default configuration: the dialer looks at
    its context; for one that does not see `deafDemo` / `deafLostDemo` below.) -/
def cancelDemo : Script :=
  { evs := [.start, .app (.pub 0 1), .cancelCtx] }

example :
    NoDisconnect cancelDemo ∧ ¬ NoCancel cancelDemo ∧
    (let w := exec { cancelDemo with evs := cancelDemo.evs ++ friendly 5 9 }
     w.stopped = false ∧ w.ctxCancelled = true ∧ w.connectErr = true ∧ w.phase = .exited ∧
     w.accepted = [.pub 0 1] ∧ w.broker.acked = [] ∧ pendingReqs w = [.pub 0 1]) := by
  refine ⟨?_, by decide, by decide⟩
  intro e he
  simp only [cancelDemo, List.mem_cons, List.not_mem_nil, or_false] at he
  rcases he with rfl | rfl | rfl <;> rfl

/-- the same in the other places where the cancellation is effective: while backing off, while waiting
    for CONNACK (the connection is closed; the request runs into the retry queue), and before Connect is
    called (`.start` then makes one dial attempt and gives up) -/
example :
    (let w := exec { evs := [.start, .dialFail, .app (.pub 0 1), .cancelCtx] ++ friendly 5 9 }
     w.phase = .exited ∧ w.connectErr = true ∧ w.broker.acked = [] ∧ pendingReqs w = [.pub 0 1]) ∧
    (let w := exec { evs := [.start, .app (.pub 0 1), .dialOk 1, .cancelCtx] ++ friendly 5 9 }
     w.phase = .exited ∧ w.connectErr = true ∧ w.broker.acked = [] ∧ w.retryQ = [.rePublish 0 1] ∧
     pendingReqs w = [.pub 0 1]) ∧
    (let w := exec { evs := [.cancelCtx, .app (.pub 0 1), .start] ++ friendly 5 9 }
     w.phase = .exited ∧ w.connectErr = true ∧ w.dials = 1 ∧ w.broker.acked = [] ∧
     pendingReqs w = [.pub 0 1]) := by decide

/-! ### a dialer that ignores its context (`Cfg.deafDialer`, e.g. `NoContextDialer`)

  Conservation (`conservation_any`) and the liveness theorems are stated for ALL configurations, so they
  cover this one. Under `NoCancel` the branches of the model that are specific to such a dialer are never
  taken; without `NoCancel` the runs below show what they do. -/

/-- with a dialer that looks at its context (the default) the invariant `Aware` holds in every reachable
    world: once the context is cancelled the loop is not running, and Connect never returns a session -/
theorem aware_exec (s : Script) (hd : s.cfg.deafDialer = false) : Aware (exec s) :=
  aware_foldl s.evs (init s) hd (aware_init s)

/-- … so the two branches of `step` that exist for the deaf dialer (guard `deafBranch`: inside DialContext,
    context cancelled, Connect has not returned a session) are unreachable: on every reachable world the
    step function is the one from before `deafDialer` was introduced (`dialOk_aware`, `dialFail_aware`;
    `.start` and `.cancelCtx` test `cfg.deafDialer` directly, and `cfg` never changes: `cfg_foldl`) -/
theorem deafBranch_unreachable (s : Script) (hd : s.cfg.deafDialer = false) : ¬ deafBranch (exec s) :=
  (aware_exec s hd).noDeafBranch

/-- without the cancellation the run satisfies `NoCancel`, whatever the dialer: the guard is false too -/
theorem deafBranch_needs_cancel (s : Script) (nc : NoCancel s) : ¬ deafBranch (exec s) := by
  intro ⟨_, hc, _⟩
  unfold NoCancel at nc
  rw [nc] at hc
  exact absurd hc (by decide)

/-- the context given to Connect is cancelled during the first dial; the dialer does not notice -/
def deafDemo : Script :=
  { cfg := { deafDialer := true }
    evs := [.start, .cancelCtx] }

/-- Connect returns the context's error at once, but the loop stays inside DialContext (with a context-aware
    dialer it has left: `cancelDemo`) -/
example :
    (exec deafDemo).phase = .dialGate ∧ (exec deafDemo).connectErr = true ∧
    (exec deafDemo).ctxCancelled = true ∧ (exec deafDemo).dials = 1 ∧ (exec deafDemo).conns.length = 0 ∧
    (exec { deafDemo with cfg := {} }).phase = .exited ∧ ¬ NoCancel deafDemo := by decide

/-- the guard of the deaf-dialer branches IS reachable with such a dialer (`deafBranch_unreachable` needs its
    hypothesis) -/
example : deafBranch (exec deafDemo) := by unfold deafBranch; decide

/-- … the dial then SUCCEEDS (`.dialOk`): one connection that carries CONNECT and nothing else and is dead
    (closed by the loop), the loop has exited without backing off, no CONNACK gate; later friendly rounds
    change nothing -/
example :
    let w := exec { deafDemo with evs := deafDemo.evs ++ [.dialOk 1] }
    w.phase = .exited ∧ w.connectErr = true ∧ w.connectReturned = none ∧ w.conns.length = 1 ∧ w.cli = some 0 ∧
    (getConn w 0).pkts = [(.connect, .sent .ok)] ∧ (getConn w 0).alive = false ∧
    (getConn w 0).connected = false ∧ w.connReady = true ∧ w.goroutine = true ∧
    w.dials = 1 ∧ w.waits = [] ∧ w.stopped = false := by decide

example :
    let w := exec { deafDemo with evs := deafDemo.evs ++ [.dialOk 1] ++ friendly 5 9 }
    w.phase = .exited ∧ w.conns.length = 1 ∧ w.dials = 1 ∧ (getConn w 0).pkts = [(.connect, .sent .ok)] := by
  decide

/-- … or the dial FAILS (`.dialFail`): the loop exits through its select on `ctx.Done()`, no connection, no
    back-off (a failed dial with a live context backs off: `waits = [0]`) -/
example :
    (let w := exec { deafDemo with evs := deafDemo.evs ++ [.dialFail] }
     w.phase = .exited ∧ w.connectErr = true ∧ w.conns.length = 0 ∧ w.cli = none ∧ w.waits = [] ∧
     w.dials = 1 ∧ w.goroutine = false) ∧
    (let w := exec { deafDemo with evs := deafDemo.evs ++ [.dialFail] ++ friendly 5 9 }
     w.phase = .exited ∧ w.conns.length = 0 ∧ w.dials = 1) ∧
    (let w := exec { deafDemo with evs := [.start, .dialFail] }
     w.phase = .backoff ∧ w.waits = [0]) := by decide

/-- the same when the context is already done before Connect is called: `.start` dials all the same -/
example :
    (let w := exec { deafDemo with evs := [.cancelCtx, .start] }
     w.phase = .dialGate ∧ w.connectErr = true ∧ w.dials = 1) ∧
    (let w := exec { deafDemo with evs := [.cancelCtx, .start, .dialOk 1] }
     w.phase = .exited ∧ w.conns.length = 1 ∧ (getConn w 0).pkts = [(.connect, .sent .ok)] ∧
     (getConn w 0).alive = false) ∧
    (let w := exec { deafDemo with evs := [.cancelCtx, .start, .dialFail] }
     w.phase = .exited ∧ w.conns.length = 0 ∧ w.waits = []) := by decide

/-- `NoCancel` is necessary for liveness with such a dialer too, and conservation holds: a request queued
    before the cancellation is attempted by the task goroutine on the dead connection (the write fails at
    once: `.dead`), lands in the retry queue and stays there — accepted, never acknowledged, still held -/
def deafLostDemo : Script :=
  { cfg := { deafDialer := true }
    evs := [.start, .app (.pub 0 1), .cancelCtx, .dialOk 1] }

example :
    NoDisconnect deafLostDemo ∧ ¬ NoCancel deafLostDemo ∧
    (let w := exec { deafLostDemo with evs := deafLostDemo.evs ++ friendly 5 9 }
     w.phase = .exited ∧ w.connectErr = true ∧ w.stuck = false ∧ w.conns.length = 1 ∧
     (getConn w 0).pkts = [(.connect, .sent .ok), (.publish 0 1 2 false, .dead)] ∧
     w.accepted = [.pub 0 1] ∧ w.broker.acked = [] ∧ w.taskQ = [] ∧ w.retryQ = [.rePublish 0 1] ∧
     pendingReqs w = [.pub 0 1]) := by
  refine ⟨?_, by decide, by decide⟩
  intro e he
  simp only [deafLostDemo, List.mem_cons, List.not_mem_nil, or_false] at he
  rcases he with rfl | rfl | rfl | rfl <;> rfl

example (r : Req) (hr : r.needsAck = true) (hq : Req.validQoS r) :
    (exec deafLostDemo).accepted.count r ≤
      (exec deafLostDemo).broker.acked.count r + (pendingReqs (exec deafLostDemo)).count r :=
  conservation_any deafLostDemo (by decide) r hr hq

/-- a cancellation AFTER Connect has returned is a no-op with such a dialer as well (`cancel_ineffective`
    holds for all configurations): the liveness theorems apply to the run -/
example :
    let s : Script := { cfg := { deafDialer := true }, evs := [.start, .dialOk 1, .connackOk true [], .cancelCtx,
                                                                 .app (.pub 0 1), .peerClose] }
    NoCancel s ∧ (exec s).phase = .backoff ∧
    (exec { s with evs := s.evs ++ friendly ((exec s).faults.length + 2) 9 }).broker.acked = [.pub 0 1] := by
  decide

/-- the added hypothesis `validQoS` is necessary: the model's QoS is a `Nat`, and it neither
    awaits nor logs an acknowledgement for a "QoS 3" publish -/
example :
    let w := exec { evs := [.start, .dialOk 1, .connackOk true [], .app (.pub 0 3)] }
    w.stuck = false ∧ w.accepted.count (.pub 0 3) = 1 ∧ w.broker.acked.count (.pub 0 3) = 0 ∧
    (pendingReqs w).count (.pub 0 3) = 0 := by decide

/-- for `silentDemo`, "for ever" is meant literally: whatever happens afterwards (any events at all), the
    blocked client never receives another acknowledgement -/
theorem silent_blocks_forever (evs : List Ev) :
    let w := exec { silentDemo with evs := silentDemo.evs ++ evs }
    w.stuck = true ∧ w.broker.acked = [] ∧ 1 ≤ (exec silentDemo).accepted.count (.pub 0 1) := by
  intro w
  have h : (exec silentDemo).stuck = true := by decide
  have := stuck_foldl evs (exec silentDemo) h
  rw [← exec_append] at this
  exact ⟨this.1, this.2.trans (by decide), by decide⟩

end Mqtt.C01
