/-
  C13 — Keep-alive detects a silent peer and only a silent peer (keepalive.go).
-/
import MqttVerif.Model.KeepAlive

namespace Mqtt.C13
open Mqtt.KA

theorem keepAliveFrom_answered (n : Nat) (os : List PingOutcome) (h : ∀ o ∈ os, o = .answered) :
    keepAliveFrom n os = .running (n + os.length) := by
  induction os generalizing n with
  | nil => simp [keepAliveFrom]
  | cons o os ih =>
    have ho : o = .answered := h o (by simp)
    subst ho
    simp only [keepAliveFrom, List.length_cons]
    rw [ih (n + 1) (fun o ho => h o (by simp [ho]))]
    congr 1; omega

/-- the loop sends one ping per tick and keeps running as long as every response arrives -/
theorem runs_while_answered (os : List PingOutcome) (h : ∀ o ∈ os, o = .answered) :
    keepAlive os = .running os.length := by
  simpa [keepAlive] using keepAliveFrom_answered 0 os h

theorem keepAliveFrom_first_failure (n : Nat) (pre : List PingOutcome) (p t : Bool) (e : ErrClass) (rest : List PingOutcome)
    (h : ∀ o ∈ pre, o = .answered) :
    keepAliveFrom n (pre ++ .failed p t e :: rest) = .stopped (n + pre.length + 1) (classify p t e) := by
  induction pre generalizing n with
  | nil => simp [keepAliveFrom]
  | cons o pre ih =>
    have ho : o = .answered := h o (by simp)
    subst ho
    simp only [List.cons_append, keepAliveFrom, List.length_cons]
    rw [ih (n + 1) (fun o ho => h o (by simp [ho]))]
    congr 1; omega

/-- the first failing ping ends the loop, classified: parent context done ▸ its error; per-ping
    timeout done ▸ ErrPingTimeout; otherwise the ping's own error. Nothing after it matters. -/
theorem classify_first_failure (pre : List PingOutcome) (p t : Bool) (e : ErrClass) (rest : List PingOutcome)
    (h : ∀ o ∈ pre, o = .answered) :
    keepAlive (pre ++ .failed p t e :: rest) = .stopped (pre.length + 1) (classify p t e) := by
  simpa [keepAlive] using keepAliveFrom_first_failure 0 pre p t e rest h

/-- every list of outcomes is either all answered or splits at its first failure -/
theorem split_first_failure (os : List PingOutcome) :
    (∀ o ∈ os, o = .answered) ∨
    ∃ pre p t e rest, os = pre ++ .failed p t e :: rest ∧ ∀ o ∈ pre, o = .answered := by
  induction os with
  | nil => left; simp
  | cons o os ih =>
    cases o with
    | answered =>
      rcases ih with h | ⟨pre, p, t, e, rest, hos, hpre⟩
      · left; intro o ho; rcases List.mem_cons.1 ho with rfl | ho; rfl; exact h o ho
      · right; exact ⟨.answered :: pre, p, t, e, rest, by simp [hos], by
          intro o ho; rcases List.mem_cons.1 ho with rfl | ho; rfl; exact hpre o ho⟩
    | failed p t e => right; exact ⟨[], p, t, e, os, by simp, by simp⟩

/-- ErrPingTimeout is reported only if a ping went unanswered until its timeout while the
    parent context was still alive (or the Ping itself returned that error, which the base client never does) -/
theorem timeout_only_if_silent (os : List PingOutcome) (n : Nat) (h : keepAlive os = .stopped n .pingTimeout) :
    ∃ pre t e rest, os = pre ++ .failed false t e :: rest ∧ (∀ o ∈ pre, o = .answered) ∧ n = pre.length + 1 ∧
      (t = true ∨ e = .pingTimeout) := by
  rcases split_first_failure os with hall | ⟨pre, p, t, e, rest, hos, hpre⟩
  · rw [runs_while_answered os hall] at h; cases h
  · subst hos
    rw [classify_first_failure pre p t e rest hpre] at h
    injection h with hn hc
    cases p with
    | true => simp [classify] at hc
    | false =>
      refine ⟨pre, t, e, rest, rfl, hpre, hn.symm, ?_⟩
      cases t with
      | true => left; rfl
      | false => right; simpa [classify] using hc

/-- a peer that stays silent for the whole timeout (parent not cancelled) is detected … -/
theorem silent_detected (pre : List PingOutcome) (h : ∀ o ∈ pre, o = .answered) :
    keepAlive (pre ++ [pingOutcome .timeout]) = .stopped (pre.length + 1) .pingTimeout := by
  simpa [pingOutcome, classify] using classify_first_failure pre false true .ctx [] h

/-- … while a cancelled parent context stops the loop with the context's error, not a timeout -/
theorem cancel_is_not_timeout (pre : List PingOutcome) (h : ∀ o ∈ pre, o = .answered) :
    keepAlive (pre ++ [pingOutcome .parentCancel]) = .stopped (pre.length + 1) .ctx := by
  simpa [pingOutcome, classify] using classify_first_failure pre true true .ctx [] h

/-- a ping that fails at once (write error, connection ended) reports that error, not a timeout -/
theorem immediate_failure_reported (pre : List PingOutcome) (h : ∀ o ∈ pre, o = .answered) :
    keepAlive (pre ++ [pingOutcome .connEnd]) = .stopped (pre.length + 1) .closedTransport ∧
    keepAlive (pre ++ [pingOutcome .writeFail]) = .stopped (pre.length + 1) .other := by
  constructor
  · simpa [pingOutcome, classify] using classify_first_failure pre false false .closedTransport [] h
  · simpa [pingOutcome, classify] using classify_first_failure pre false false .other [] h

-- non-vacuity
example : keepAlive [.answered, .answered, pingOutcome .timeout, .answered] = .stopped 3 .pingTimeout := by decide
example : keepAlive [.answered, pingOutcome .parentCancel] = .stopped 2 .ctx := by decide

end Mqtt.C13
