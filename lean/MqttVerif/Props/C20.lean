/-
  C20 — ServeMux and ServeAsync hand every handler a private copy of the message: whatever a handler
  does to the message it was given (topic, flags, payload bytes in place, append, reslice), no other
  handler and not the caller sees it.
  Property theorems only; definitions (`Heap.WF`, `Frame`, `Heap.Unshared`, `Heap.NoAlias`,
  `muxRounds`, `runSteps`, `StepsNoAlias`, `NoRetarget`) and helper lemmas live in Proofs/Heap.lean.
  All statements are for every well-formed heap, every message, every list of handlers of any length,
  and arbitrary handlers subject only to `Frame`.
-/
import MqttVerif.Proofs.Heap

namespace Mqtt.C20

/-! ### clone -/

theorem clone_view (h : Heap) (hw : h.WF) (p : Nat) (hp : (h.view p).isSome) :
    let r := h.clone p
    r.1.WF ∧ r.1.view r.2 = h.view p ∧ r.1.view p = h.view p ∧ h.next ≤ r.2 ∧ r.2 < r.1.next := by
  intro r
  obtain ⟨m, b, hm, hb⟩ := Heap.view_isSome hp
  obtain ⟨h2, hn, _⟩ := Heap.clone_spec h p m b hm hb
  refine ⟨Heap.clone_WF h hw p hp, Heap.clone_view_new h p hp,
    Heap.clone_view_old h hw p hp p (Heap.clone_ne_old h hw p hp p m hm), ?_, ?_⟩
  · show h.next ≤ (h.clone p).2
    omega
  · show (h.clone p).2 < (h.clone p).1.next
    omega

/-- the clone's buffer is referenced by the clone only -/
theorem clone_unshared (h : Heap) (hw : h.WF) (p : Nat) (hp : (h.view p).isSome) :
    (h.clone p).1.Unshared (h.clone p).2 :=
  Heap.clone_unshared h hw p hp

/-! ### ServeMux -/

/-- every handler sees the original content on entry, and the caller's message is untouched
    afterwards -/
theorem private_copies (h : Heap) (hw : h.WF) (fs : List HandlerFn) (hf : ∀ f ∈ fs, Frame f) (p : Nat)
    (hp : (h.view p).isSome) :
    (∀ v ∈ (muxRun h fs p).2, v = h.view p) ∧ (muxRun h fs p).1.view p = h.view p ∧
    (muxRun h fs p).2.length = fs.length ∧ (muxRun h fs p).1.WF :=
  muxRun_private fs hf p h hw hp

/-- also for later messages: serving the same caller object again and again (`muxRounds n` is
    `muxRun` iterated `n` times, each round starting from the heap the previous one left behind) -/
theorem later_messages (n : Nat) (h : Heap) (hw : h.WF) (fs : List HandlerFn) (hf : ∀ f ∈ fs, Frame f)
    (p : Nat) (hp : (h.view p).isSome) :
    (∀ v ∈ (muxRounds n h fs p).2, v = h.view p) ∧ (muxRounds n h fs p).1.view p = h.view p ∧
    (muxRounds n h fs p).2.length = n * fs.length ∧ (muxRounds n h fs p).1.WF :=
  muxRounds_private fs hf p n h hw hp

/-! ### ServeAsync -/

/-- ServeAsync: the clone is taken before Serve returns, so whatever the caller does to its own
    message afterwards, and whatever other handlers do to the messages they were given, in any order
    and with any pointers at all (other than the clone itself), the deferred handler still finds the
    original content — provided no call is handed a message that points into the clone's buffer at
    the time of that call (`StepsNoAlias`). `Frame` alone cannot exclude that: see
    `frame_alone_insufficient` below. -/
theorem async_private (h : Heap) (hw : h.WF) (p : Nat) (hp : (h.view p).isSome) :
    let r := asyncServe h p
    r.1.view r.2 = h.view p ∧
    ∀ (steps : List (HandlerFn × Nat)), (∀ s ∈ steps, Frame s.1 ∧ s.2 ≠ r.2) →
      StepsNoAlias r.2 r.1 steps → (runSteps r.1 steps).view r.2 = h.view p := by
  intro r
  have hv : (h.clone p).1.view (h.clone p).2 = h.view p := Heap.clone_view_new h p hp
  refine ⟨hv, ?_⟩
  intro steps hs hna
  have := runSteps_view (h.clone p).2 steps (h.clone p).1 (Heap.clone_WF h hw p hp)
    (Heap.clone_msg_isSome h p hp) hs hna
  show (runSteps (h.clone p).1 steps).view (h.clone p).2 = h.view p
  rw [this.1, hv]

/-- the non-aliasing assumption is met, at the time the clone is made, by every pointer that existed
    before (in particular the caller's own message `p`) … -/
theorem async_noalias_old (h : Heap) (hw : h.WF) (p : Nat) (hp : (h.view p).isSome) (q : Nat)
    (hq : q < h.next) :
    let r := asyncServe h p
    q ≠ r.2 ∧ r.1.NoAlias q r.2 := by
  intro r
  obtain ⟨m, b, hm, hb⟩ := Heap.view_isSome hp
  obtain ⟨h2, _⟩ := Heap.clone_spec h p m b hm hb
  have hne : q ≠ (h.clone p).2 := by omega
  exact ⟨hne, Heap.clone_noAlias h hw p hp q hne⟩

/-- … and, at any later time, by every other clone (a later `Serve` of any message `p'` on any heap
    `g` in which the first clone `c` is still allocated); making that clone does not disturb `c` -/
theorem async_noalias_other_clone (g : Heap) (hw : g.WF) (c : Nat) (mc : MsgObj)
    (hc : g.msgs c = some mc) (p' : Nat) (hp' : (g.view p').isSome) :
    let r' := g.clone p'
    r'.2 ≠ c ∧ r'.1.NoAlias r'.2 c ∧ r'.1.view c = g.view c := by
  intro r'
  have hne := Heap.clone_ne_old g hw p' hp' c mc hc
  refine ⟨Ne.symm hne, ?_, Heap.clone_view_old g hw p' hp' c hne⟩
  intro mq mc' hmq hmc' heq
  exact Heap.clone_noAlias g hw p' hp' c hne mc' mq hmc' hmq heq.symm

/-- With handlers that additionally never store a pre-existing foreign buffer pointer into a struct
    (`NoRetarget`: the payload pointers they leave behind are their own message's or freshly
    allocated), the non-aliasing assumption maintains itself and can be dropped: ANY pointers other
    than the clone itself, in any order. `clone` itself is such a step (`cloneH`), so the steps may
    include further Serve calls. -/
theorem async_private_disciplined (h : Heap) (hw : h.WF) (p : Nat) (hp : (h.view p).isSome) :
    let r := asyncServe h p
    ∀ (steps : List (HandlerFn × Nat)), (∀ s ∈ steps, Frame s.1 ∧ NoRetarget s.1 ∧ s.2 ≠ r.2) →
      (runSteps r.1 steps).view r.2 = h.view p := by
  intro r steps hs
  have hna : StepsNoAlias (h.clone p).2 (h.clone p).1 steps :=
    stepsNoAlias_of_noRetarget (h.clone p).2 steps (h.clone p).1 (Heap.clone_WF h hw p hp)
      (Heap.clone_msg_isSome h p hp) (Heap.clone_unshared h hw p hp) hs
  exact (async_private h hw p hp).2 steps (fun s hs' => ⟨(hs s hs').1, (hs s hs').2.2⟩) hna

/-! ### Non-vacuity -/

/-- two messages: `1` with payload buffer `0` (slice of length 2 of a 3-byte array), `3` with buffer `2` -/
def demoHeap : Heap where
  msgs := fun a =>
    if a = 1 then some { topic := [116], id := 7, qos := 1, retain := false, dup := false, payload := 0, plen := 2 }
    else if a = 3 then some { topic := [117], id := 8, qos := 0, retain := true, dup := false, payload := 2, plen := 1 }
    else none
  bufs := fun a => if a = 0 then some [1, 2, 3] else if a = 2 then some [9] else none
  next := 4

theorem demoHeap_WF : demoHeap.WF := by
  constructor
  · intro a ha
    have : 4 ≤ a := ha
    simp only [demoHeap]
    rw [if_neg (by omega), if_neg (by omega), if_neg (by omega), if_neg (by omega)]
    exact ⟨rfl, rfl⟩
  · intro a m hm
    simp only [demoHeap] at hm ⊢
    split at hm
    · cases hm; decide
    · split at hm
      · cases hm; decide
      · cases hm

-- handlers that overwrite payload bytes in place and set the topic (`scribble`), that append beyond
-- capacity (`appendH`), that clone (`cloneH`) all satisfy `Frame` (and `NoRetarget`)
example : Frame scribble := scribble_frame
example : Frame appendH := appendH_frame
example : Frame cloneH := cloneH_frame
example : NoRetarget scribble ∧ NoRetarget appendH ∧ NoRetarget cloneH :=
  ⟨scribble_noRetarget, appendH_noRetarget, cloneH_noRetarget⟩

example : demoHeap.view 1 =
    some { topic := [116], id := 7, qos := 1, retain := false, dup := false, payload := [1, 2] } := by decide

-- `scribble` really does change what its own pointer shows
example : (scribble demoHeap 1).view 1 =
    some { topic := [120], id := 7, qos := 1, retain := false, dup := false, payload := [0, 0] } := by decide

-- `private_copies` applies to a concrete heap and concrete mutating handlers
example :
    (∀ v ∈ (muxRun demoHeap [scribble, appendH, scribble] 1).2, v = demoHeap.view 1) ∧
    (muxRun demoHeap [scribble, appendH, scribble] 1).1.view 1 = demoHeap.view 1 ∧
    (muxRun demoHeap [scribble, appendH, scribble] 1).2.length = 3 ∧
    (muxRun demoHeap [scribble, appendH, scribble] 1).1.WF :=
  private_copies demoHeap demoHeap_WF [scribble, appendH, scribble]
    (by intro f hf
        simp only [List.mem_cons, List.not_mem_nil, or_false] at hf
        rcases hf with rfl | rfl | rfl
        · exact scribble_frame
        · exact appendH_frame
        · exact scribble_frame)
    1 (by decide)

-- the same, by evaluation: both handlers saw [1,2]; the first clone (address 5) was scribbled over
example : (muxRun demoHeap [scribble, appendH] 1).2 = [demoHeap.view 1, demoHeap.view 1] := by decide
example : ((muxRun demoHeap [scribble, appendH] 1).1.view 5).map (·.payload) = some [0, 0] := by decide
example : ((muxRun demoHeap [scribble, appendH] 1).1.view 7).map (·.payload) = some [1, 2, 1] := by decide
example : ((muxRun demoHeap [scribble, appendH] 1).1.view 1).map (·.payload) = some [1, 2] := by decide

-- ServeAsync: the caller scribbles over its own message right after Serve returned, another handler
-- mutates message 3, a further Serve clones again and that clone is mutated: the first clone (5) is intact
example : (runSteps (asyncServe demoHeap 1).1 [(scribble, 1), (appendH, 3), (cloneH, 1), (scribble, 7)]).view 5
    = demoHeap.view 1 := by decide
example : ((runSteps (asyncServe demoHeap 1).1 [(scribble, 1)]).view 1).map (·.payload) = some [0, 0] := by decide

/-- Why `async_private` needs `StepsNoAlias` (or `NoRetarget`): `Frame` lets a handler store ANY
    allocated buffer address into its own struct — including, in this model, the address of a buffer
    it could not possibly know in Go. Step 1 points message 3 at the clone's buffer (address 4), step 2
    (a perfectly ordinary in-place write through message 3) then changes what the clone shows. Both
    handlers satisfy `Frame`, both pointers differ from the clone. -/
theorem frame_alone_insufficient :
    let r := asyncServe demoHeap 1
    Frame (retarget 4) ∧ Frame scribble ∧ (3 : Nat) ≠ r.2 ∧
    (runSteps r.1 [(retarget 4, 3), (scribble, 3)]).view r.2 ≠ demoHeap.view 1 := by
  refine ⟨retarget_frame 4, scribble_frame, by decide, by decide⟩

end Mqtt.C20
