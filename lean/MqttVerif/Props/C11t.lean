/-
  C11 / C17 / C04, tie to the source (regenerated on every run by tools/extract): user-supplied code — a message
  handler's `Serve`, the `OnError` callback — is never called with a mutex of the library held, so code called
  from the reader or task goroutine may call back into the client (Handle, Publish, Done, …) and a slow handler
  does not keep other API calls from reaching their `select` on the context; `ConnState` is called holding at
  most `muConnecting` (Connect / Disconnect update the state inside their critical section).
  The table lists every call site of `….Serve(…)`, `c.ConnState(…)`, `c.OnError(…)` and of the two wrappers
  `c.onError(…)`, `c.connStateUpdate(…)` with the mutexes held at that point (straight-line lock regions,
  `defer` unlock = held to the end of the function).
-/
import MqttVerif.Generated.Facts
import MqttVerif.Proofs.Vocab

namespace Mqtt.C11.Tie
open Mqtt

/-- message handlers and OnError run with no library mutex held -/
theorem handlers_called_without_locks :
    (Generated.callbackCalls.all (fun c => (c.2.2.1 == "connstate") || (c.2.2.1 == "sethandler") || c.2.2.2.isEmpty)) = true := by decide +kernel

/-- C17: the RetryClient forwards a handler to a base client (`cli.Handle(h)`, kind `sethandler`: library code, not
    user code) only while holding its own mutex exclusively, i.e. atomically with the update (`Handle`) or the read
    (`Connect`) of `RetryClient.handler`: whenever that mutex is free, the current base client carries the registered
    handler. (A snapshot taken under the lock and installed after releasing it could overwrite a newer handler.) -/
theorem handler_forwarded_under_mu : Vocab.known Vocab.callbackTie = true →
    (Generated.callbackCalls.all (fun c => !(c.2.2.1 == "sethandler") || c.2.2.2.contains "RetryClient.mu")) = true ∧
    1 ≤ (Generated.callbackCalls.filter (fun c => c.2.2.1 == "sethandler")).length := by decide +kernel

/-- the state callback runs holding at most `muConnecting` -/
theorem connstate_under_muConnecting_only : Vocab.known Vocab.callbackTie = true →
    (Generated.callbackCalls.all (fun c => !(c.2.2.1 == "connstate") ||
      c.2.2.2.all (fun m => m == "BaseClient.muConnecting" || m == "BaseClient.muConnecting:r"))) = true := by decide +kernel

/-- non-vacuity: the table lists hand-overs to message handlers, the OnError callback and the state callback -/
theorem table_covers_the_callback_kinds :
    (Generated.callbackCalls.any (fun c => c.2.2.1 == "handler")) = true ∧
    (Generated.callbackCalls.any (fun c => c.2.2.1 == "onerror")) = true ∧
    (Generated.callbackCalls.any (fun c => c.2.2.1 == "connstate")) = true ∧
    3 ≤ Generated.callbackCalls.length := by decide +kernel

end Mqtt.C11.Tie
