/-
  C08 (retry / reconnect layer) — broker-side subscriptions converge to the application's
  Subscribe / Unsubscribe calls: once the retrying / reconnecting client is idle on a stable
  connection, the broker's table equals the net effect of all accepted calls, however many
  reconnects, lost acknowledgements and lost sessions happened; the re-subscription guard.

  Property theorems only; the invariant and all helper lemmas live in Proofs/RetrySubs.
  Subject: `Model/Retry.lean` (`exec`, `step`); specification: `Spec/SubsSpec.lean`.
-/
import MqttVerif.Proofs.RetrySubs

namespace Mqtt.C08
open Mqtt Mqtt.Retry Mqtt.Spec

/-! ### definitions -/

/-- the Subscribe / Unsubscribe calls among a list of application requests, in call order -/
def subCallsOf (reqs : List Req) : List SubCall :=
  reqs.filterMap (fun r => match r with
    | .sub s => some (.sub s)
    | .unsub t => some (.unsub t)
    | _ => none)

/-- the application requests still waiting in the task queue, in order -/
def queuedReqs (q : List Task) : List Req :=
  q.filterMap (fun t => match t with
    | .req r => some r
    | _ => none)

/-- the Subscribe / Unsubscribe calls the entries of the retry queue stand for, in order -/
def pendingCalls (q : List Entry) : List SubCall :=
  q.filterMap (fun e => match e with
    | .reSub s => some (.sub s)
    | .qSub s => some (.sub s)
    | .reUnsub t => some (.unsub t)
    | .qUnsub t => some (.unsub t)
    | _ => none)

/-- idle on a stable connection -/
def settled (w : World) : Prop :=
  w.taskQ = [] ∧ w.retryQ = [] ∧ w.stuck = false ∧
    ∃ k, w.phase = .up k ∧ (getConn w k).alive = true

def isDisconnect : Ev → Bool
  | .disconnect => true
  | _ => false

/-- no `Disconnect` call. `.cancelCtx` events are deliberately NOT excluded: every theorem below that
    assumes `NoDisconnect` holds whatever `.cancelCtx` events the script contains, except
    `noDisconnect_not_exited`, which needs `(exec s).ctxCancelled = false` (or `NoCancel`) in addition. -/
def NoDisconnect (s : Script) : Prop := s.evs.all (fun e => !isDisconnect e) = true

def isCancelCtx : Ev → Bool
  | .cancelCtx => true
  | _ => false

/-- the script never cancels the context given to ReconnectClient.Connect (sufficient, not necessary,
    for `(exec s).ctxCancelled = false`: a `.cancelCtx` after Connect has returned has no effect) -/
def NoCancel (s : Script) : Prop := s.evs.all (fun e => !isCancelCtx e) = true

theorem subCallsOf_eq (l : List Req) : subCallsOf l = callsOf l := by
  unfold subCallsOf callsOf
  apply congrArg (fun f => List.filterMap f l)
  funext r
  cases r <;> rfl

theorem queuedReqs_eq (q : List Task) : queuedReqs q = reqsOf q := by
  unfold queuedReqs reqsOf
  apply congrArg (fun f => List.filterMap f q)
  funext t
  cases t <;> rfl

theorem pendingCalls_eq (q : List Entry) : pendingCalls q = pendOf q := by
  unfold pendingCalls pendOf
  apply congrArg (fun f => List.filterMap f q)
  funext e
  cases e <;> rfl

/-! ### (A) the client's own record -/

/-- (A) `subEst` denotes the net effect of the Subscribe / Unsubscribe calls the task goroutine has
    processed so far — the accepted requests minus those still waiting in `taskQ` — and never holds
    a filter twice. Holds after every event of every script, unless the goroutine is blocked for
    ever inside a request (`stuck`: silent broker, no ResponseTimeout) — see `stuck_counterexample`. -/
theorem subEst_is_net_effect (s : Script) (hst : (exec s).stuck = false) :
    ∃ processed : List Req,
      (exec s).accepted = processed ++ queuedReqs (exec s).taskQ ∧
      toMap (exec s).subEst = netEffect (subCallsOf processed) ∧
      NoDupTopics (exec s).subEst := by
  have g := (exec_all s).1 hst
  obtain ⟨pr, a, b⟩ := g.procd
  exact ⟨pr, by rw [queuedReqs_eq]; exact a, by rw [subCallsOf_eq]; exact b, g.nodupE⟩

/-- in particular the processed requests are a prefix of the accepted ones -/
theorem processed_prefix (s : Script) (hst : (exec s).stuck = false) :
    ∃ processed : List Req, processed <+: (exec s).accepted ∧
      toMap (exec s).subEst = netEffect (subCallsOf processed) := by
  obtain ⟨pr, a, b, _⟩ := subEst_is_net_effect s hst
  exact ⟨pr, ⟨_, a.symm⟩, b⟩

/-- the `Resubscribe` task rebuilds `subEst` to the same map -/
theorem resubscribe_keeps_record (w : World) (k : Nat) (hb : NoDupTopics w.broker.subs)
    (he : NoDupTopics w.subEst) (hs : (runTask w k .resubscribe).stuck = false) :
    toMap (runTask w k .resubscribe).subEst = toMap w.subEst ∧
      NoDupTopics (runTask w k .resubscribe).subEst :=
  let r := (runTask_resub_spec w k hb he).2 hs
  ⟨r.2.2.1, r.1⟩

/-! ### (B) convergence -/

/-- the replay invariant (*): in every reachable world in which the goroutine is not blocked for
    ever, the reconnect loop has not exited after Disconnect and no `Resubscribe` is waiting in
    the task queue, replaying what is still pending (retry queue, then task queue) on top of the
    broker's current table gives the net effect of everything the application asked for.
    (The side condition on `.exited` is needed: after Disconnect an accepted CONNACK with a lost
    session no longer re-subscribes — see `replay_fails_after_exit`, `replay_fails_after_exit_dialGate`.
    It is only needed for an exit after Disconnect: when the loop exited because the context given
    to Connect was cancelled (`stopped = false`), (*) holds — see `cancelGate_replay`, and
    `deafPending_replay` for the exit after the late transport of a dialer that ignores its context.) -/
theorem replay_invariant (s : Script) (hst : (exec s).stuck = false)
    (hex : (exec s).phase = .exited → (exec s).stopped = false)
    (hr : Task.resubscribe ∉ (exec s).taskQ) :
    netEffect (subCallsOf (exec s).accepted) =
      (subCallsOf (queuedReqs (exec s).taskQ)).foldl netStep
        ((pendingCalls (exec s).retryQ).foldl netStep (toMap (exec s).broker.subs)) := by
  have g := (exec_all s).1 hst
  obtain ⟨pr, a, b⟩ := g.procd
  have hsup : RSup (Pm (exec s)) (Em (exec s)) := by
    rcases g.sup with h | h | h
    · rw [hex h.1] at h; cases h.2
    · exact absurd h hr
    · exact h
  have hPE : Pm (exec s) = Em (exec s) := eq_of_rweak_rsup g.weak hsup
  rw [a, subCallsOf_eq, subCallsOf_eq, queuedReqs_eq, pendingCalls_eq]
  simp only [netEffect, callsOf, List.filterMap_append, List.foldl_append]
  show _ = List.foldl netStep (Pm (exec s)) _
  rw [hPE, b]
  rfl

/-- (B) CONVERGENCE, for every script (no hypothesis on Disconnect is needed) -/
theorem converges' (s : Script) (hset : settled (exec s)) :
    toMap (exec s).broker.subs = netEffect (subCallsOf (exec s).accepted) := by
  obtain ⟨ht, hq, hst, k, hk, _⟩ := hset
  have := replay_invariant s hst (fun h => by rw [hk] at h; cases h) (by rw [ht]; simp)
  rw [this, ht, hq]
  rfl

/-- (B) CONVERGENCE as stated: when the client is idle on a stable connection the broker's table
    equals the net effect of ALL accepted Subscribe / Unsubscribe calls -/
theorem converges (s : Script) (_nd : NoDisconnect s) (hset : settled (exec s)) :
    toMap (exec s).broker.subs = netEffect (subCallsOf (exec s).accepted) :=
  converges' s hset

/-- at a settled point the client's record, too, is the broker's table -/
theorem settled_record_eq_broker (s : Script) (hset : settled (exec s)) :
    toMap (exec s).subEst = toMap (exec s).broker.subs := by
  obtain ⟨ht, hq, hst, k, hk, _⟩ := hset
  have g := (exec_all s).1 hst
  have hsup : RSup (Pm (exec s)) (Em (exec s)) := by
    rcases g.sup with h | h | h
    · have h1 := h.1; rw [hk] at h1; cases h1
    · rw [ht] at h; simp at h
    · exact h
  have hPE : Pm (exec s) = Em (exec s) := eq_of_rweak_rsup g.weak hsup
  show Em (exec s) = _
  rw [← hPE]
  simp only [Pm, hq, pendOf, List.filterMap_nil, List.foldl_nil, Bm]

/-! ### (C) the re-subscription guard -/

/-- the accepted CONNACK step is: build `connackPre` (session handling, `Resubscribe`? and `Retry`
    pushed), then let the task goroutine and the reconnect loop run -/
theorem connackOk_step (w : World) (k : Nat) (sp : Bool) (inb : List (Nat × Nat))
    (hph : w.phase = .connackGate k) :
    step w (.connackOk sp inb) = progress (connackPre w k sp inb) :=
  step_connackOk w k sp inb hph

theorem connackPre_taskQ (w : World) (k : Nat) (sp : Bool) (inb : List (Nat × Nat)) :
    (connackPre w k sp inb).taskQ =
      w.taskQ ++ (if w.initialized = true ∧ (¬ sp = true ∨ w.cfg.always = true) ∧ ¬ w.stopped = true
        then [Task.resubscribe] else []) ++ (if w.stopped = true then [] else [.retry]) :=
  connackPre_taskQ' w k sp inb

/-- (C1) never on the first connection: at an accepted CONNACK of a client that has not been
    connected before, the only task pushed is `Retry` (nothing at all after Disconnect); no
    `Resubscribe` is queued or run -/
theorem no_resubscribe_on_first_connection (w : World) (k : Nat) (sp : Bool)
    (inb : List (Nat × Nat)) (hph : w.phase = .connackGate k) (hi : w.initialized = false) :
    step w (.connackOk sp inb) = progress (connackPre w k sp inb) ∧
      (connackPre w k sp inb).taskQ = w.taskQ ++ (if w.stopped = true then [] else [.retry]) ∧
      (Task.resubscribe ∉ w.taskQ → Task.resubscribe ∉ (step w (.connackOk sp inb)).taskQ) := by
  refine ⟨step_connackOk w k sp inb hph, ?_, fun hn hm => ?_⟩
  · rw [connackPre_taskQ, if_neg (by simp [hi])]
    simp
  · cases step_resub_mem w _ hm with
    | inl h => exact hn h
    | inr h => rw [hi] at h; cases h.1

/-- (C1, invariant) `initialized` is false until the first accepted CONNACK … -/
theorem initialized_needs_connack (s : Script) (h : (exec s).initialized = true) :
    ∃ sp inb, Ev.connackOk sp inb ∈ s.evs := by
  have gen : ∀ (evs : List Ev) (w : World), (evs.foldl step w).initialized = true →
      w.initialized = true ∨ ∃ sp inb, Ev.connackOk sp inb ∈ evs := by
    intro evs
    induction evs with
    | nil => intro w h; exact Or.inl h
    | cons e rest ih =>
      intro w h
      cases ih (step w e) h with
      | inr h1 =>
        obtain ⟨sp, inb, hm⟩ := h1
        exact Or.inr ⟨sp, inb, List.mem_cons_of_mem _ hm⟩
      | inl h1 =>
        cases step_initialized w e h1 with
        | inl h2 => exact Or.inl h2
        | inr h2 =>
          obtain ⟨sp, inb, rfl⟩ := h2
          exact Or.inr ⟨sp, inb, List.mem_cons_self⟩
  cases gen s.evs (init s) h with
  | inl h => cases h
  | inr h => exact h

/-- … and until then no `Resubscribe` task is ever in the task queue -/
theorem no_resubscribe_before_first_connack (s : Script) (h : (exec s).initialized = false) :
    Task.resubscribe ∉ (exec s).taskQ := by
  have gen : ∀ (evs : List Ev) (w : World),
      (w.initialized = false → Task.resubscribe ∉ w.taskQ) →
      ((evs.foldl step w).initialized = false → Task.resubscribe ∉ (evs.foldl step w).taskQ) := by
    intro evs
    induction evs with
    | nil => intro w h; exact h
    | cons e rest ih =>
      intro w hw
      apply ih (step w e)
      intro hi hm
      have hwi : w.initialized = false := by
        cases hx : w.initialized with
        | false => rfl
        | true => rw [step_initialized_mono w e hx] at hi; cases hi
      cases step_resub_mem w e hm with
      | inl h1 => exact hw hwi h1
      | inr h1 => rw [hwi] at h1; cases h1.1
  exact gen s.evs (init s) (fun _ => by simp [init]) h

/-- (C2) not when the session was kept (and AlwaysResubscribe is off): the only task the accepted
    CONNACK pushes is `Retry`, the broker's table is left alone, and no `Resubscribe` is run -/
theorem no_resubscribe_when_session_kept (w : World) (k : Nat) (inb : List (Nat × Nat))
    (hph : w.phase = .connackGate k) (ha : w.cfg.always = false) :
    step w (.connackOk true inb) = progress (connackPre w k true inb) ∧
      (connackPre w k true inb).taskQ = w.taskQ ++ (if w.stopped = true then [] else [.retry]) ∧
      (connackPre w k true inb).broker.subs = w.broker.subs ∧
      (Task.resubscribe ∉ w.taskQ → Task.resubscribe ∉ (step w (.connackOk true inb)).taskQ) := by
  have htq : (connackPre w k true inb).taskQ =
      w.taskQ ++ (if w.stopped = true then [] else [.retry]) := by
    rw [connackPre_taskQ, if_neg (by simp [ha])]
    simp
  refine ⟨step_connackOk w k true inb hph, htq, ?_, fun hn hm => ?_⟩
  · obtain ⟨_, _, _, _, _, f6, _⟩ := cp3_fields w k true inb
    obtain ⟨_, _, _, _, p5, _⟩ := connackPre_fields w k true inb
    rw [p5, f6]; rfl
  · rw [step_connackOk w k true inb hph] at hm
    have := (progress_more _).2.subset hm
    rw [htq] at this
    simp only [List.mem_append] at this
    cases this with
    | inl h => exact hn h
    | inr h => split at h <;> simp at h

/-- (C3) general form, for any world satisfying the invariants of `Proofs/RetrySubs` (every
    reachable world does, `exec_all`): at an accepted CONNACK of a client that was connected before,
    with the session lost or AlwaysResubscribe set, the `Resubscribe` task is pushed and run (the
    task queue is drained); afterwards every filter of the client's record — the pre-state record
    updated by the requests that were waiting in the task queue — is either subscribed at the broker
    with its QoS or stands in the retry queue as a (re-)SUBSCRIBE entry carrying it -/
theorem resubscribe_of_inv (w : World) (k : Nat) (sp : Bool) (inb : List (Nat × Nat))
    (hI : Inv w) (hK : InvK w) (hL : InvL w)
    (hi : w.initialized = true) (hph : w.phase = .connackGate k) (hstop : w.stopped = false)
    (hsp : sp = false ∨ w.cfg.always = true)
    (hns : (step w (.connackOk sp inb)).stuck = false) :
    Task.resubscribe ∈ (connackPre w k sp inb).taskQ ∧
    (step w (.connackOk sp inb)).taskQ = [] ∧
    toMap (step w (.connackOk sp inb)).subEst =
      (subCallsOf (queuedReqs w.taskQ)).foldl netStep (toMap w.subEst) ∧
    ∀ t q, toMap (step w (.connackOk sp inb)).subEst t = some q →
      toMap (step w (.connackOk sp inb)).broker.subs t = some q ∨
      ∃ l, (Entry.qSub l ∈ (step w (.connackOk sp inb)).retryQ ∨
            Entry.reSub l ∈ (step w (.connackOk sp inb)).retryQ) ∧ (⟨t, q⟩ : Subscription) ∈ l := by
  have hstep := step_connackOk w k sp inb hph
  obtain ⟨f1, f2, f3, f4, f5, f6, f7, f8, f9, f10, f11, f12, f13⟩ := cp3_fields w k sp inb
  obtain ⟨p1, p2, p3, p4, p5, p6, p7, p8, p9, p10, p11, p12, p13⟩ := connackPre_fields w k sp inb
  obtain ⟨l1, l2, l3⟩ := hL k hph
  have hcond : w.initialized = true ∧ (¬ sp = true ∨ w.cfg.always = true) ∧ ¬ w.stopped = true := by
    refine ⟨hi, ?_, by simp [hstop]⟩
    cases hsp with
    | inl h => left; simp [h]
    | inr h => exact Or.inr h
  have hpreph : (connackPre w k sp inb).phase = .up k := by
    rw [p12, f13, if_neg (by simp [hstop])]
  have hprestop : (connackPre w k sp inb).stopped = false := by rw [p13, f13]; exact hstop
  have hpre : Task.resubscribe ∈ (connackPre w k sp inb).taskQ := by
    rw [connackPre_taskQ, if_pos hcond]; simp
  have hIpre := connackPre_inv w k sp inb hph hI hK
  have hI' : Inv (step w (.connackOk sp inb)) := hstep ▸ progress_inv _ hIpre
  have g' := hI' hns
  have hws : w.stuck = false := by
    cases hx : w.stuck with
    | false => rfl
    | true =>
      have : (connackPre w k sp inb).stuck = true := by rw [p1, f1]; exact hx
      rw [hstep, progress_stuck _ this] at hns; cases hns
  have g := hI hws
  have htq : (step w (.connackOk sp inb)).taskQ = [] := by
    rw [hstep]
    cases progress_done (connackPre w k sp inb) k (by rw [p8, f10]; exact l2)
        (by rw [p10]; exact f12) (by rw [p7, f9]; exact l1) with
    | inl h => rw [hstep, h] at hns; cases hns
    | inr h => exact h
  have hacc : (step w (.connackOk sp inb)).accepted = w.accepted := by
    rw [hstep, (progress_more _).1, p2, f3]
  refine ⟨hpre, htq, ?_, fun t q hE => ?_⟩
  · obtain ⟨pr, a, b⟩ := g.procd
    obtain ⟨pr', a', b'⟩ := g'.procd
    rw [htq, hacc, a] at a'
    have : pr' = pr ++ reqsOf w.taskQ := by simpa [reqsOf] using a'.symm
    show Em _ = _
    rw [b', this, subCallsOf_eq, queuedReqs_eq]
    simp only [netEffect, callsOf, List.filterMap_append, List.foldl_append]
    show _ = List.foldl netStep (Em w) _
    rw [b]
    rfl
  · have hsup : RSup (Pm (step w (.connackOk sp inb))) (Em (step w (.connackOk sp inb))) := by
      rcases g'.sup with h | h | h
      · rw [hstep] at h
        cases progress_exited _ h.1 with
        | inl h1 => rw [hpreph] at h1; cases h1
        | inr h1 => rw [hprestop] at h1; cases h1
      · rw [htq] at h; simp at h
      · exact h
    have hP := hsup t q hE
    cases fold_some_origin _ _ t q hP with
    | inl h => exact Or.inl h
    | inr h =>
      obtain ⟨l, hl, hm⟩ := h
      exact Or.inr ⟨l, mem_pendOf_sub hl, hm⟩

/-- (C3) for reachable worlds: session lost (or AlwaysResubscribe with the session kept) -/
theorem resubscribe_when_session_lost (s : Script) (k : Nat) (sp : Bool) (inb : List (Nat × Nat))
    (hi : (exec s).initialized = true) (hph : (exec s).phase = .connackGate k)
    (hstop : (exec s).stopped = false)
    (hsp : sp = false ∨ (exec s).cfg.always = true)
    (hns : (step (exec s) (.connackOk sp inb)).stuck = false) :
    Task.resubscribe ∈ (connackPre (exec s) k sp inb).taskQ ∧
    (step (exec s) (.connackOk sp inb)).taskQ = [] ∧
    toMap (step (exec s) (.connackOk sp inb)).subEst =
      (subCallsOf (queuedReqs (exec s).taskQ)).foldl netStep (toMap (exec s).subEst) ∧
    ∀ t q, toMap (step (exec s) (.connackOk sp inb)).subEst t = some q →
      toMap (step (exec s) (.connackOk sp inb)).broker.subs t = some q ∨
      ∃ l, (Entry.qSub l ∈ (step (exec s) (.connackOk sp inb)).retryQ ∨
            Entry.reSub l ∈ (step (exec s) (.connackOk sp inb)).retryQ) ∧
           (⟨t, q⟩ : Subscription) ∈ l :=
  resubscribe_of_inv (exec s) k sp inb (exec_all s).1 (exec_all s).2.1 (exec_all s).2.2 hi hph hstop hsp hns

/-- (C3) in terms of the pre-state record, when no Subscribe / Unsubscribe request is waiting in
    the task queue: every filter of the pre-state `subEst` is afterwards subscribed at the broker
    with its QoS or represented by an entry of the retry queue -/
theorem resubscribe_when_session_lost_pre (s : Script) (k : Nat) (sp : Bool) (inb : List (Nat × Nat))
    (hi : (exec s).initialized = true) (hph : (exec s).phase = .connackGate k)
    (hstop : (exec s).stopped = false)
    (hsp : sp = false ∨ (exec s).cfg.always = true)
    (hq : subCallsOf (queuedReqs (exec s).taskQ) = [])
    (hns : (step (exec s) (.connackOk sp inb)).stuck = false) :
    ∀ x ∈ (exec s).subEst,
      toMap (step (exec s) (.connackOk sp inb)).broker.subs x.topic = some x.qos ∨
      ∃ l, (Entry.qSub l ∈ (step (exec s) (.connackOk sp inb)).retryQ ∨
            Entry.reSub l ∈ (step (exec s) (.connackOk sp inb)).retryQ) ∧ x ∈ l := by
  intro x hx
  obtain ⟨_, _, h3, h4⟩ := resubscribe_when_session_lost s k sp inb hi hph hstop hsp hns
  have hst : (exec s).stuck = false := by
    cases hxs : (exec s).stuck with
    | false => rfl
    | true =>
      exfalso
      rw [step_connackOk _ k sp inb hph] at hns
      have : (connackPre (exec s) k sp inb).stuck = true := by
        rw [(connackPre_fields _ k sp inb).1, (cp3_fields _ k sp inb).1]; exact hxs
      rw [progress_stuck _ this] at hns; cases hns
  have hnd := ((exec_all s).1 hst).nodupE
  rw [hq] at h3
  have : toMap (exec s).subEst x.topic = some x.qos := (toMap_eq_some_iff hnd).2 hx
  exact h4 x.topic x.qos (by rw [h3]; exact this)

/-- (C4) the `Resubscribe` task only attempts / queues SUBSCRIBE for filters of the current record:
    every packet it writes (on any connection) is a single-filter SUBSCRIBE of an entry of
    `w.subEst`, every entry it adds to the retry queue stands for such a SUBSCRIBE, and the rebuilt
    record holds only entries of the old one -/
theorem resubscribes_only_current (w : World) (k : Nat) :
    (∀ j, ∃ new, (getConn (runTask w k .resubscribe) j).pkts = (getConn w j).pkts ++ new ∧
        ∀ p ∈ new, ∃ id x, x ∈ w.subEst ∧ p.1 = Pkt.subscribe id [x]) ∧
    (∀ e ∈ (runTask w k .resubscribe).retryQ,
        e ∈ w.retryQ ∨ ∃ x ∈ w.subEst, e = .qSub [x] ∨ e = .reSub [x]) ∧
    (∀ e ∈ (runTask w k .resubscribe).subEst, e ∈ w.subEst) := by
  obtain ⟨h1, h2, h3⟩ := resubLoop_only w.subEst { w with subEst := [] } k
  refine ⟨h1, h2, fun e he => ?_⟩
  cases h3 e he with
  | inl h => cases h
  | inr h => exact h

/-- (C4, with (A)) nothing that was unsubscribed: a filter whose net effect under the processed
    calls is "not subscribed" is not in the record, hence is not re-subscribed -/
theorem record_has_nothing_unsubscribed (s : Script) (hst : (exec s).stuck = false) :
    ∃ processed : List Req, processed <+: (exec s).accepted ∧
      ∀ t, netEffect (subCallsOf processed) t = none → ∀ e ∈ (exec s).subEst, e.topic ≠ t := by
  obtain ⟨pr, a, b, _⟩ := subEst_is_net_effect s hst
  refine ⟨pr, ⟨_, a.symm⟩, fun t ht => ?_⟩
  rw [← b] at ht
  exact toMap_eq_none_iff.1 ht

/-! ### Disconnect and the context given to Connect (refined model): `stopped`, `ctxCancelled`, `exited` -/

/-- the reconnect loop exits only after Disconnect, or because the context given to
    ReconnectClient.Connect was cancelled before Connect returned (`ctxCancelled` is set by an
    effective `.cancelCtx` only, `step_ctx`) — for every script.
    (`_partial`: the former statement `phase = .exited → stopped = true` is false in the refined
    model, `exited_without_disconnect`.) -/
theorem exited_implies_stopped_partial (s : Script) :
    (exec s).phase = .exited → (exec s).stopped = true ∨ (exec s).ctxCancelled = true := by
  have gen : ∀ (evs : List Ev) (w : World),
      (w.phase = .exited → w.stopped = true ∨ w.ctxCancelled = true) →
      ((evs.foldl step w).phase = .exited →
        (evs.foldl step w).stopped = true ∨ (evs.foldl step w).ctxCancelled = true) := by
    intro evs
    induction evs with
    | nil => intro w h; exact h
    | cons e rest ih => intro w h; exact ih _ ((step_stopped_exited w e).2 h)
  exact gen s.evs (init s) (fun h => by cases h)

/-- … hence only after Disconnect when the context was not cancelled (in time) -/
theorem exited_implies_stopped_of_not_cancelled (s : Script) (hc : (exec s).ctxCancelled = false) :
    (exec s).phase = .exited → (exec s).stopped = true := by
  intro h
  cases exited_implies_stopped_partial s h with
  | inl h1 => exact h1
  | inr h1 => rw [hc] at h1; cases h1

theorem noCancel_not_cancelled (s : Script) (nc : NoCancel s) : (exec s).ctxCancelled = false := by
  have gen : ∀ (evs : List Ev) (w : World), evs.all (fun e => !isCancelCtx e) = true →
      w.ctxCancelled = false → (evs.foldl step w).ctxCancelled = false := by
    intro evs
    induction evs with
    | nil => intro w _ h; exact h
    | cons e rest ih =>
      intro w hall h
      simp only [List.all_cons, Bool.and_eq_true] at hall
      apply ih _ hall.2
      cases hx : (step w e).ctxCancelled with
      | false => rfl
      | true =>
        cases step_ctx w e hx with
        | inl h1 => rw [h] at h1; cases h1
        | inr h1 =>
          have h2 := hall.1
          cases e <;> simp [isCancelCtx, evIsCancel] at h1 h2
  exact gen s.evs (init s) nc rfl

/-- `stopped` is set by Disconnect only (whatever `.cancelCtx` events the script contains) -/
theorem noDisconnect_not_stopped (s : Script) (nd : NoDisconnect s) : (exec s).stopped = false := by
  have gen : ∀ (evs : List Ev) (w : World), evs.all (fun e => !isDisconnect e) = true →
      w.stopped = false → (evs.foldl step w).stopped = false := by
    intro evs
    induction evs with
    | nil => intro w _ h; exact h
    | cons e rest ih =>
      intro w hall h
      simp only [List.all_cons, Bool.and_eq_true] at hall
      apply ih _ hall.2
      cases hx : (step w e).stopped with
      | false => rfl
      | true =>
        cases (step_stopped_exited w e).1 hx with
        | inl h1 => rw [h] at h1; cases h1
        | inr h1 =>
          have h2 := hall.1
          cases e <;> simp [isDisconnect, evIsDisconnect] at h1 h2
  exact gen s.evs (init s) nd rfl

/-- without Disconnect and without an effective cancellation of Connect's context the loop never
    exits. (The hypothesis `hc` is new and necessary: `exited_without_disconnect`.) -/
theorem noDisconnect_not_exited (s : Script) (nd : NoDisconnect s)
    (hc : (exec s).ctxCancelled = false) : (exec s).phase ≠ .exited := by
  intro h
  have := exited_implies_stopped_of_not_cancelled s hc h
  rw [noDisconnect_not_stopped s nd] at this
  cases this

/-- the same with the script-level hypothesis `NoCancel` -/
theorem noDisconnect_noCancel_not_exited (s : Script) (nd : NoDisconnect s) (nc : NoCancel s) :
    (exec s).phase ≠ .exited :=
  noDisconnect_not_exited s nd (noCancel_not_cancelled s nc)

/-- (*) for runs without Disconnect, with no side condition on the phase — and none on `.cancelCtx`:
    the equation also holds after the loop has exited on a cancelled context -/
theorem replay_invariant_nd (s : Script) (nd : NoDisconnect s) (hst : (exec s).stuck = false)
    (hr : Task.resubscribe ∉ (exec s).taskQ) :
    netEffect (subCallsOf (exec s).accepted) =
      (subCallsOf (queuedReqs (exec s).taskQ)).foldl netStep
        ((pendingCalls (exec s).retryQ).foldl netStep (toMap (exec s).broker.subs)) :=
  replay_invariant s hst (fun _ => noDisconnect_not_stopped s nd) hr

/-- (C3) for runs without Disconnect: no `stopped` hypothesis (`.cancelCtx` events are allowed; an
    effective one before this CONNACK makes `hi` / `hph` unsatisfiable) -/
theorem resubscribe_when_session_lost_nd (s : Script) (nd : NoDisconnect s) (k : Nat) (sp : Bool)
    (inb : List (Nat × Nat))
    (hi : (exec s).initialized = true) (hph : (exec s).phase = .connackGate k)
    (hsp : sp = false ∨ (exec s).cfg.always = true)
    (hns : (step (exec s) (.connackOk sp inb)).stuck = false) :
    Task.resubscribe ∈ (connackPre (exec s) k sp inb).taskQ ∧
    (step (exec s) (.connackOk sp inb)).taskQ = [] ∧
    ∀ t q, toMap (step (exec s) (.connackOk sp inb)).subEst t = some q →
      toMap (step (exec s) (.connackOk sp inb)).broker.subs t = some q ∨
      ∃ l, (Entry.qSub l ∈ (step (exec s) (.connackOk sp inb)).retryQ ∨
            Entry.reSub l ∈ (step (exec s) (.connackOk sp inb)).retryQ) ∧
           (⟨t, q⟩ : Subscription) ∈ l := by
  obtain ⟨a, b, _, d⟩ := resubscribe_when_session_lost s k sp inb hi hph
    (noDisconnect_not_stopped s nd) hsp hns
  exact ⟨a, b, d⟩

/-- after Disconnect (refined model) an accepted CONNACK pushes nothing: with the session lost the
    broker's table is empty, nothing is re-subscribed, the loop exits — the replay equation (*) and
    (C3) do not hold there. Here Disconnect arrives while the loop waits for CONNACK on the second
    connection (redial: `.peerClose`, `.waitElapsed`, `.dialOk`). -/
def exitCex : Script :=
  { evs := [.start, .dialOk 0, .connackOk false [], .app (.sub [⟨[97], 0⟩]), .peerClose, .waitElapsed,
            .dialOk 0, .disconnect, .connackOk false []] }

theorem replay_fails_after_exit :
    (exec exitCex).stuck = false ∧ (exec exitCex).phase = .exited ∧ (exec exitCex).stopped = true ∧
    (exec exitCex).taskQ = [] ∧
    (exec exitCex).retryQ = [] ∧ (exec exitCex).broker.subs = [] ∧
    (exec exitCex).subEst = [⟨[97], 0⟩] ∧
    netEffect (subCallsOf (exec exitCex).accepted) [97] = some 0 := by decide

def exitCexPre : Script := { exitCex with evs := exitCex.evs.take 8 }

theorem no_resubscribe_after_disconnect :
    (exec exitCexPre).initialized = true ∧ (exec exitCexPre).phase = .connackGate 1 ∧
    (exec exitCexPre).stopped = true ∧
    (connackPre (exec exitCexPre) 1 false []).taskQ = [.disconnect] := by decide

/-- the same when Disconnect arrives while the loop is inside DialContext (`.dialGate`): the dial is
    not interrupted, `.dialOk` still creates the second connection and CONNECT goes out on it; the
    accepted CONNACK (session lost) then pushes nothing and the loop exits -/
def exitCexGate : Script :=
  { evs := [.start, .dialOk 0, .connackOk false [], .app (.sub [⟨[97], 0⟩]), .peerClose, .waitElapsed,
            .disconnect, .dialOk 0, .connackOk false []] }

def exitCexGatePre : Script := { exitCexGate with evs := exitCexGate.evs.take 7 }

theorem disconnect_in_dialGate_stays :
    (exec exitCexGatePre).phase = .dialGate ∧ (exec exitCexGatePre).stopped = true ∧
    (exec exitCexGatePre).conns.length = 1 ∧ (exec exitCexGatePre).broker.subs = [⟨[97], 0⟩] := by decide

theorem replay_fails_after_exit_dialGate :
    (exec exitCexGate).stuck = false ∧ (exec exitCexGate).phase = .exited ∧
    (exec exitCexGate).stopped = true ∧ (exec exitCexGate).conns.length = 2 ∧
    (getConn (exec exitCexGate) 1).pkts.head? = some (.connect, .sent .ok) ∧
    (exec exitCexGate).taskQ = [] ∧ (exec exitCexGate).retryQ = [] ∧
    (exec exitCexGate).broker.subs = [] ∧ (exec exitCexGate).subEst = [⟨[97], 0⟩] ∧
    netEffect (subCallsOf (exec exitCexGate).accepted) [97] = some 0 := by decide

/-- Disconnect while the loop waits in `.backoff`: the select on the back-off timer returns, the loop
    exits at once; no further dial (a late `.waitElapsed` / `.dialOk` is ignored), the broker's table
    is what it was -/
def exitBackoff : Script :=
  { evs := [.start, .dialOk 0, .connackOk false [], .app (.sub [⟨[97], 0⟩]), .peerClose, .disconnect,
            .waitElapsed, .dialOk 0] }

def exitBackoffPre : Script := { exitBackoff with evs := exitBackoff.evs.take 5 }

theorem disconnect_in_backoff_exits :
    (exec exitBackoffPre).phase = .backoff ∧ (exec exitBackoffPre).dials = 1 ∧
    (exec exitBackoff).phase = .exited ∧ (exec exitBackoff).stopped = true ∧
    (exec exitBackoff).ctxCancelled = false ∧
    (exec exitBackoff).dials = 1 ∧ (exec exitBackoff).conns.length = 1 ∧
    (exec exitBackoff).broker.subs = [⟨[97], 0⟩] ∧ (exec exitBackoff).subEst = [⟨[97], 0⟩] := by decide

/-- the loop exits WITHOUT Disconnect when the context given to Connect is cancelled before Connect
    has returned: the former `exited_implies_stopped` / `noDisconnect_not_exited` are false -/
def cancelEarly : Script := { evs := [.start, .cancelCtx] }

theorem exited_without_disconnect :
    NoDisconnect cancelEarly ∧ (exec cancelEarly).phase = .exited ∧
    (exec cancelEarly).stopped = false ∧ (exec cancelEarly).ctxCancelled = true ∧
    (exec cancelEarly).connectErr = true :=
  ⟨by unfold NoDisconnect; decide, by decide⟩

/-- the context is cancelled while the loop waits for the first CONNACK, a Subscribe waiting in the
    task queue, a second one issued afterwards: the connection is closed, the loop exits with
    `stopped = false`, both calls end up in the retry queue (nothing reached the broker); the second
    `.cancelCtx` has no effect -/
def cancelGate : Script :=
  { evs := [.start, .dialOk 0, .app (.sub [⟨[97], 1⟩]), .cancelCtx, .app (.sub [⟨[98], 0⟩]), .cancelCtx] }

theorem cancelGate_facts :
    (exec cancelGate).phase = .exited ∧ (exec cancelGate).stopped = false ∧
    (exec cancelGate).ctxCancelled = true ∧ (exec cancelGate).connectErr = true ∧
    (exec cancelGate).connectReturned = none ∧ (getConn (exec cancelGate) 0).alive = false ∧
    (exec cancelGate).stuck = false ∧ (exec cancelGate).taskQ = [] ∧
    (exec cancelGate).retryQ = [.reSub [⟨[97], 1⟩], .qSub [⟨[98], 0⟩]] ∧
    (exec cancelGate).broker.subs = [] ∧ (exec cancelGate).rejected = 0 := by decide

example : NoDisconnect cancelGate := by unfold NoDisconnect; decide

/-- (*) holds there — `replay_invariant` applies although the loop has exited -/
theorem cancelGate_replay :
    netEffect (subCallsOf (exec cancelGate).accepted) =
      (subCallsOf (queuedReqs (exec cancelGate).taskQ)).foldl netStep
        ((pendingCalls (exec cancelGate).retryQ).foldl netStep (toMap (exec cancelGate).broker.subs)) :=
  replay_invariant cancelGate (by decide) (fun _ => by decide) (by decide)

example : netEffect (subCallsOf (exec cancelGate).accepted) [97] = some 1 ∧
    netEffect (subCallsOf (exec cancelGate).accepted) [98] = some 0 := by decide

/-- cancellation while backing off after a failed dial, and before Connect is called: the loop exits,
    one DialContext call, no connection; later `.waitElapsed` / `.dialOk` are ignored (default
    configuration: the dialer honours its context; for one that does not see `deafIdle`) -/
def cancelBackoff : Script := { evs := [.start, .dialFail, .cancelCtx, .waitElapsed, .dialOk 0] }

def cancelIdle : Script := { evs := [.cancelCtx, .start, .dialOk 0] }

example : (exec cancelBackoff).phase = .exited ∧ (exec cancelBackoff).dials = 1 ∧
    (exec cancelBackoff).conns.length = 0 ∧ (exec cancelBackoff).connectErr = true ∧
    (exec cancelBackoff).waits = [0] := by decide

example : (exec cancelIdle).phase = .exited ∧ (exec cancelIdle).dials = 1 ∧
    (exec cancelIdle).conns.length = 0 ∧ (exec cancelIdle).connectErr = true := by decide

/-! ### a dialer that ignores its context (`cfg.deafDialer`, e.g. `NoContextDialer`)

  Every theorem above is stated and proved for ALL configurations, `deafDialer = true` included: none of
  them needed a new hypothesis. With such a dialer a dial in flight survives the cancellation of the
  context given to Connect; its result is acted upon afterwards (`.dialOk`: a connection that gets CONNECT
  and is closed at once; `.dialFail`: no back-off); in both cases the loop exits with `stopped = false`. -/

/-- until the first accepted CONNACK nothing has reached the broker's table — in particular not over the
    transport a context-ignoring dialer delivers after the cancellation (CONNECT is written on it, no
    SUBSCRIBE is) -/
theorem broker_untouched_before_first_connack (s : Script) (h : (exec s).initialized = false) :
    (exec s).broker.subs = [] :=
  ((exec_all s).2.1 h).1

/-- the late transport, for any world: one more connection, dead from the start, the client points at it,
    the loop has exited; `stopped`, `initialized`, `connectReturned` and the accepted requests are unchanged -/
theorem late_transport (w : World) (i : Nat) (hph : w.phase = .dialGate)
    (hc : w.ctxCancelled = true) (hn : w.connectReturned.isNone = true) :
    (step w (.dialOk i)).phase = .exited ∧
    (step w (.dialOk i)).conns.length = w.conns.length + 1 ∧
    (getConn (step w (.dialOk i)) w.conns.length).alive = false ∧
    (step w (.dialOk i)).cli = some w.conns.length ∧
    (step w (.dialOk i)).stopped = w.stopped ∧ (step w (.dialOk i)).ctxCancelled = true ∧
    (step w (.dialOk i)).connectReturned = w.connectReturned ∧
    (step w (.dialOk i)).initialized = w.initialized ∧
    (step w (.dialOk i)).accepted = w.accepted :=
  step_dialOk_late w i hph hc hn

/-- the configuration is never changed by a run -/
theorem cfg_constant (s : Script) : (exec s).cfg = s.cfg := exec_cfg s

/-- with a dialer that honours its context the guard of the two late-transport branches of `step`
    (`.dialOk` / `.dialFail` in `.dialGate` with `ctxCancelled ∧ connectReturned = none`) is false in every
    reachable world: for `deafDialer = false` the step function is the former one on every run -/
theorem late_transport_needs_deaf_dialer (s : Script) (hd : s.cfg.deafDialer = false) :
    ¬ ((exec s).phase = .dialGate ∧ (exec s).ctxCancelled = true ∧
        (exec s).connectReturned.isNone = true) := by
  intro ⟨h1, h2, h3⟩
  cases ((exec_ctxInv s hd) h3).2 h2 with
  | inl h => rw [h1] at h; cases h
  | inr h => rw [h1] at h; cases h

/-- … more generally, for such a dialer: once the context is cancelled before Connect has returned, the loop
    is not running (Connect not called yet, or exited), and it never reaches `.up` before Connect returns -/
theorem cancelled_loop_not_running (s : Script) (hd : s.cfg.deafDialer = false)
    (hn : (exec s).connectReturned.isNone = true) :
    (∀ k, (exec s).phase ≠ .up k) ∧
    ((exec s).ctxCancelled = true → (exec s).phase = .idle ∨ (exec s).phase = .exited) :=
  exec_ctxInv s hd hn

/-- cancellation during the first dial, then the transport arrives: a connection that carries only CONNECT
    and is dead, the loop exited without Disconnect, Connect returned the context's error, one DialContext
    call, no back-off wait, nothing at the broker -/
def deafOk : Script := { cfg := { deafDialer := true }, evs := [.start, .cancelCtx, .dialOk 0] }

def deafOkPre : Script := { deafOk with evs := deafOk.evs.take 2 }

theorem deafOk_facts :
    (exec deafOkPre).phase = .dialGate ∧ (exec deafOkPre).ctxCancelled = true ∧
    (exec deafOkPre).connectErr = true ∧ (exec deafOkPre).conns.length = 0 ∧
    (exec deafOk).phase = .exited ∧ (exec deafOk).stopped = false ∧ (exec deafOk).ctxCancelled = true ∧
    (exec deafOk).connectErr = true ∧ (exec deafOk).connectReturned = none ∧
    (exec deafOk).initialized = false ∧ (exec deafOk).conns.length = 1 ∧ (exec deafOk).cli = some 0 ∧
    (getConn (exec deafOk) 0).pkts = [(.connect, .sent .ok)] ∧ (getConn (exec deafOk) 0).alive = false ∧
    (getConn (exec deafOk) 0).connected = false ∧
    (exec deafOk).dials = 1 ∧ (exec deafOk).waits = [] ∧ (exec deafOk).broker.subs = [] := by decide

example : NoDisconnect deafOk := by unfold NoDisconnect; decide

/-- … then the dial fails: no connection, the loop exits at once (no back-off wait is requested) -/
def deafFail : Script := { cfg := { deafDialer := true }, evs := [.start, .cancelCtx, .dialFail] }

theorem deafFail_facts :
    (exec deafFail).phase = .exited ∧ (exec deafFail).stopped = false ∧
    (exec deafFail).ctxCancelled = true ∧ (exec deafFail).connectErr = true ∧
    (exec deafFail).connectReturned = none ∧ (exec deafFail).conns.length = 0 ∧
    (exec deafFail).cli = none ∧ (exec deafFail).dials = 1 ∧ (exec deafFail).waits = [] ∧
    (exec deafFail).waitExp = 0 := by decide

/-- the same two scripts with a dialer that honours its context: the loop exits at the cancellation,
    the late `.dialOk` / `.dialFail` is ignored, there is never a connection -/
example : (exec { deafOk with cfg := {} }).phase = .exited ∧
    (exec { deafOk with cfg := {} }).conns.length = 0 ∧ (exec { deafOk with cfg := {} }).cli = none ∧
    (exec { deafOk with cfg := {} }).connectErr = true ∧
    (exec { deafOkPre with cfg := {} }).phase = .exited ∧
    (exec { deafFail with cfg := {} }).phase = .exited ∧
    (exec { deafFail with cfg := {} }).waits = [] := by decide

/-- Connect called with a context that is already done: the deaf dialer dials all the same -/
def deafIdle : Script := { cfg := { deafDialer := true }, evs := [.cancelCtx, .start, .dialOk 0] }

example : (exec { deafIdle with evs := deafIdle.evs.take 2 }).phase = .dialGate ∧
    (exec { deafIdle with evs := deafIdle.evs.take 2 }).connectErr = true ∧
    (exec deafIdle).phase = .exited ∧ (exec deafIdle).dials = 1 ∧ (exec deafIdle).conns.length = 1 ∧
    (getConn (exec deafIdle) 0).alive = false ∧
    (getConn (exec deafIdle) 0).pkts = [(.connect, .sent .ok)] := by decide

/-- Subscribe / Unsubscribe calls before, during and after the cancelled dial: the task goroutine starts
    on the late transport, every call fails on the dead connection or is queued behind the failed one;
    nothing reaches the broker; later events (`.connackOk`, `.waitElapsed`, `.dialOk`) are ignored -/
def deafPending : Script :=
  { cfg := { deafDialer := true },
    evs := [.start, .app (.sub [⟨[97], 1⟩]), .cancelCtx, .app (.sub [⟨[98], 0⟩]), .dialOk 0,
            .app (.unsub [[97]]), .connackOk false [], .waitElapsed, .dialOk 3] }

theorem deafPending_facts :
    (exec deafPending).phase = .exited ∧ (exec deafPending).stopped = false ∧
    (exec deafPending).stuck = false ∧ (exec deafPending).taskQ = [] ∧
    (exec deafPending).retryQ = [.reSub [⟨[97], 1⟩], .qSub [⟨[98], 0⟩], .qUnsub [[97]]] ∧
    (exec deafPending).subEst = [⟨[98], 0⟩] ∧ (exec deafPending).broker.subs = [] ∧
    (exec deafPending).conns.length = 1 ∧ (exec deafPending).dials = 1 ∧
    (getConn (exec deafPending) 0).pkts =
      [(.connect, .sent .ok), (.subscribe 1 [⟨[97], 1⟩], .dead)] ∧
    (exec deafPending).rejected = 0 := by decide

/-- (*) holds there: `replay_invariant` applies to the exit of a deaf dialer's late transport as well -/
theorem deafPending_replay :
    netEffect (subCallsOf (exec deafPending).accepted) =
      (subCallsOf (queuedReqs (exec deafPending).taskQ)).foldl netStep
        ((pendingCalls (exec deafPending).retryQ).foldl netStep (toMap (exec deafPending).broker.subs)) :=
  replay_invariant deafPending (by decide) (fun _ => by decide) (by decide)

example : netEffect (subCallsOf (exec deafPending).accepted) [97] = none ∧
    netEffect (subCallsOf (exec deafPending).accepted) [98] = some 0 := by decide

/-- `late_transport_needs_deaf_dialer` is sharp: with a deaf dialer the guard is reachable -/
example : (exec deafOkPre).phase = .dialGate ∧ (exec deafOkPre).ctxCancelled = true ∧
    (exec deafOkPre).connectReturned.isNone = true := by decide

/-! ### non-vacuity: concrete runs (filters as byte lists: a = [97], b = [98], c = [99]) -/

/-- four connections; a lost acknowledgement, a silent broker (ResponseTimeout set), a write error;
    the session lost twice after the first connection and kept once; repeated filters, changed QoS,
    a duplicate inside one call, unsubscribing twice, a request issued while waiting for CONNACK;
    every redial is preceded by the back-off timer firing (`.waitElapsed`), one dial fails -/
def ex1 : Script :=
  { cfg := { respTimeout := true, always := false },
    faults := [.ok, .lostAck, .silent, .ok, .writeFail],
    evs := [.start, .dialOk 0, .connackOk false [],
            .app (.sub [⟨[97], 1⟩]),
            .app (.sub [⟨[98], 0⟩, ⟨[97], 2⟩]),
            .app (.unsub [[98]]),
            .app (.pub 0 1),
            .waitElapsed, .dialOk 10,
            .app (.sub [⟨[99], 1⟩, ⟨[99], 0⟩]),
            .connackOk false [],
            .waitElapsed, .dialFail, .waitElapsed, .dialOk 20, .app (.unsub [[97], [97]]),
            .connackOk true [],
            .peerClose, .waitElapsed, .dialOk 30, .connackOk false []] }

/-- the run ends settled on the fourth connection, with every fault consumed, after five
    DialContext calls and four back-off waits … -/
example : (exec ex1).taskQ = [] ∧ (exec ex1).retryQ = [] ∧ (exec ex1).stuck = false ∧
    (exec ex1).phase = .up 3 ∧ (getConn (exec ex1) 3).alive = true ∧ (exec ex1).faults = [] ∧
    (exec ex1).conns.length = 4 ∧ (exec ex1).dials = 5 ∧ (exec ex1).waits = [0, 0, 1, 0] := by decide

example : settled (exec ex1) := ⟨by decide, by decide, by decide, 3, by decide, by decide⟩

example : NoDisconnect ex1 := by unfold NoDisconnect; decide

example : NoCancel ex1 := by unfold NoCancel; decide

/-- … and the broker holds exactly c/0: a and b were unsubscribed, c's QoS was overwritten -/
example : (exec ex1).broker.subs = [⟨[99], 0⟩] ∧ (exec ex1).subEst = [⟨[99], 0⟩] := by decide

example : netEffect (subCallsOf (exec ex1).accepted) [99] = some 0 ∧
    netEffect (subCallsOf (exec ex1).accepted) [97] = none ∧
    netEffect (subCallsOf (exec ex1).accepted) [98] = none := by decide

/-- a state in the middle of `ex1` (after the second CONNACK): not settled, three entries pending
    behind a timed-out SUBSCRIBE, the broker table different from the record, the loop backing off -/
def ex1mid : Script := { ex1 with evs := ex1.evs.take 11 }

example : (exec ex1mid).retryQ ≠ [] ∧ (exec ex1mid).stuck = false ∧
    (exec ex1mid).broker.subs ≠ (exec ex1mid).subEst ∧ (exec ex1mid).conns.length = 2 ∧
    (exec ex1mid).phase = .backoff := by decide

/-- `ex1` with the context given to Connect cancelled after Connect has returned (and once more at
    the end): no effect, the run converges as before (`NoCancel` is sufficient, not necessary) -/
def ex1c : Script :=
  { ex1 with evs := ex1.evs.take 3 ++ [.cancelCtx] ++ ex1.evs.drop 3 ++ [.cancelCtx] }

example : settled (exec ex1c) := ⟨by decide, by decide, by decide, 3, by decide, by decide⟩

example : (exec ex1c).ctxCancelled = false ∧ (exec ex1c).connectErr = false ∧
    (exec ex1c).broker.subs = [⟨[99], 0⟩] ∧ (exec ex1c).conns.length = 4 := by decide

example : ¬ NoCancel ex1c := by unfold NoCancel; decide

/-- AlwaysResubscribe with the session kept: the record is re-subscribed on the second connection
    (behind the retried SUBSCRIBE whose request was lost) -/
def ex2 : Script :=
  { cfg := { respTimeout := true, always := true },
    faults := [.ok, .lostReq],
    evs := [.start, .dialOk 0, .connackOk false [], .app (.sub [⟨[97], 1⟩]), .app (.sub [⟨[98], 2⟩]),
            .waitElapsed, .dialOk 5, .connackOk true []] }

example : (getConn (exec ex2) 1).pkts =
    [(.connect, .sent .ok), (.subscribe 6 [⟨[98], 2⟩], .sent .ok), (.subscribe 7 [⟨[97], 1⟩], .sent .ok),
     (.subscribe 8 [⟨[98], 2⟩], .sent .ok)] ∧
    (exec ex2).broker.subs = [⟨[97], 1⟩, ⟨[98], 2⟩] ∧ (exec ex2).retryQ = [] := by decide

/-- without `.waitElapsed` the loop is still backing off: the `.dialOk` is ignored, there is no second
    connection, the lost SUBSCRIBE stays in the retry queue -/
def ex2NoWait : Script := { ex2 with evs := ex2.evs.filter (fun e => !(e matches .waitElapsed)) }

example : (exec ex2NoWait).phase = .backoff ∧ (exec ex2NoWait).conns.length = 1 ∧
    (exec ex2NoWait).retryQ = [.reSub [⟨[98], 2⟩]] ∧ (exec ex2NoWait).broker.subs = [⟨[97], 1⟩] := by
  decide

/-- (A) needs `stuck = false`: a silent broker without ResponseTimeout blocks the goroutine for ever
    inside `Resubscribe`, after the record was emptied and only partly rebuilt -/
def stuckCex : Script :=
  { cfg := { respTimeout := false },
    faults := [.ok, .ok, .silent],
    evs := [.start, .dialOk 0, .connackOk false [], .app (.sub [⟨[97], 0⟩]), .app (.sub [⟨[98], 1⟩]),
            .peerClose, .waitElapsed, .dialOk 0, .connackOk false []] }

theorem stuck_counterexample :
    (exec stuckCex).stuck = true ∧ queuedReqs (exec stuckCex).taskQ = [] ∧
    (exec stuckCex).subEst = [⟨[97], 0⟩] ∧
    netEffect (subCallsOf (exec stuckCex).accepted) [98] = some 1 ∧
    toMap (exec stuckCex).subEst [98] = none := by decide

end Mqtt.C08
