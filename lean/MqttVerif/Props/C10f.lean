/-
  C10 (second half): the byte stream written to the transport is always a concatenation of whole
  packets; packets from concurrent callers and from the background acknowledger are never
  interleaved.  client.go:95-107 `(*BaseClient).write` takes `muWrite`, writes the packet's chunks,
  and releases the mutex by `defer`.  Model: `MqttVerif/Model/Interleave.lean`.

  All theorems hold for EVERY number of threads, EVERY list of packets per thread, EVERY chunking
  of every packet and EVERY schedule (no bound).
-/
import MqttVerif.Proofs.Interleave

namespace Mqtt.C10
open Mqtt.Interleave

/-- what the holder of the lock still has to write of its current packet -/
def pendingChunks (s : St) : Bytes :=
  match s.holder with
  | some i => (match s.threads[i]? with | some t => (t.cur.getD []).flatten | none => [])
  | none => []

/-- (1) framing invariant: at every moment the transport has received the whole packets started so
far, minus what the current writer has not written yet -/
theorem framing (ths : List (List Packet)) (sched : List Nat) :
    let s := run (init ths) sched
    s.out ++ pendingChunks s = (s.started.map flat).flatten := by
  intro s
  have h : Framing s := framing_run ths sched
  unfold Framing at h
  unfold pendingChunks
  cases hh : s.holder with
  | none => simp only [hh] at h; simp [h]
  | some i =>
    simp only [hh] at h
    obtain ⟨t, rest, done, p, pre, ht, hc, hst, hfp, hout⟩ := h
    simp [ht, hc, hst, hout, hfp]

/-- (2) hence whenever no write is in progress the stream is exactly a concatenation of whole packets -/
theorem whole_packets_when_idle (ths : List (List Packet)) (sched : List Nat) :
    let s := run (init ths) sched
    s.holder = none → s.out = (s.started.map flat).flatten := by
  intro s hh
  have h := framing ths sched
  simp only [pendingChunks] at h
  rw [show (run (init ths) sched).holder = none from hh] at h
  simpa using h

/-- (3) and at any moment it is a concatenation of whole packets followed by a PREFIX of one packet
(the one being written) -/
theorem prefix_of_whole_packets (ths : List (List Packet)) (sched : List Nat) :
    let s := run (init ths) sched
    ∃ done cur, s.started = done ++ cur ∧ cur.length ≤ 1 ∧
      ∃ pre, s.out = (done.map flat).flatten ++ pre ∧ (∀ p ∈ cur, pre <+: flat p) ∧ (cur = [] → pre = []) := by
  intro s
  have h : Framing s := framing_run ths sched
  unfold Framing at h
  cases hh : s.holder with
  | none =>
    simp only [hh] at h
    exact ⟨s.started, [], by simp, by simp, [], by simp [h], by simp, fun _ => rfl⟩
  | some i =>
    simp only [hh] at h
    obtain ⟨t, rest, done, p, pre, ht, hc, hst, hfp, hout⟩ := h
    refine ⟨done, [p], hst, by simp, pre, hout, ?_, by simp⟩
    intro q hq
    simp only [List.mem_singleton] at hq
    subst hq
    exact ⟨rest.flatten, hfp.symm⟩

/-- (3'), the same statement through the predicate `Framed` (used for the negative result (6)) -/
theorem framed (ths : List (List Packet)) (sched : List Nat) :
    Framed (run (init ths) sched).started (run (init ths) sched).out :=
  prefix_of_whole_packets ths sched

/-- (3'') sharper: while a write is in progress, the partly written packet is the LAST started one,
it belongs to the lock holder, and what is missing of it is exactly the holder's pending chunks -/
theorem prefix_is_holders_packet (ths : List (List Packet)) (sched : List Nat) (i : Nat) :
    let s := run (init ths) sched
    s.holder = some i →
    ∃ done p pre, s.started = done ++ [p] ∧ s.out = (done.map flat).flatten ++ pre ∧
      flat p = pre ++ pendingChunks s := by
  intro s hh
  have h : Framing s := framing_run ths sched
  unfold Framing at h
  simp only [hh] at h
  obtain ⟨t, rest, done, p, pre, ht, hc, hst, hfp, hout⟩ := h
  refine ⟨done, p, pre, hst, hout, ?_⟩
  simp [pendingChunks, hh, ht, hc, hfp]

/-- (4) nothing is lost, duplicated or reordered within a thread.  `runG` is `run` with a ghost log
of `(thread, packet)` pairs in lock-acquisition order; it refines `run` (same `St`), the log
projected to packets is exactly `started` (so `started` is an interleaving of the per-thread
sub-logs `startedBy log i`), and for every thread `i` the packets it has started so far, in order,
followed by the packets it has not started yet, are its original list. -/
theorem per_thread_order (ths : List (List Packet)) (sched : List Nat) :
    let g := runG (init ths, []) sched
    g.1 = run (init ths) sched ∧
    g.2.map Prod.snd = g.1.started ∧
    g.1.threads.length = ths.length ∧
    ∀ i (hi : i < ths.length), ∃ t, g.1.threads[i]? = some t ∧ startedBy g.2 i ++ t.todo = ths[i] := by
  intro g
  obtain ⟨h1, h2, h3⟩ := order_run ths sched
  refine ⟨runG_fst _ _, h1, h2, ?_⟩
  intro i hi
  have hlt : i < g.1.threads.length := by rw [h2]; exact hi
  refine ⟨g.1.threads[i], List.getElem?_eq_getElem hlt, ?_⟩
  obtain ⟨orig, ho, hEq⟩ := h3 i _ (List.getElem?_eq_getElem hlt)
  rw [List.getElem?_eq_getElem hi] at ho
  cases ho
  exact hEq

/-- (4') every log entry names an existing thread, and the per-thread sub-logs partition the log:
the log has exactly as many entries as the threads' sub-logs together (no packet of nobody) -/
theorem log_threads_exist (ths : List (List Packet)) (sched : List Nat) :
    ∀ e ∈ (runG (init ths, []) sched).2, e.1 < ths.length := by
  refine runG_induct (P := fun g => g.1.threads.length = ths.length ∧ ∀ e ∈ g.2, e.1 < ths.length)
    (by simp [init]) ?_ sched |>.2
  intro g i ⟨hl, hall⟩
  rcases stepG_cases g i with ⟨hg, he | ⟨t, c, rest, hti, hc, hh, he⟩ | ⟨t, hti, hc, hh, he⟩⟩ |
      ⟨t, p, ps, hti, hc, htd, hh, hg, he⟩
  · rw [hg, he]; exact ⟨hl, hall⟩
  · rw [hg, he]; exact ⟨by simpa using hl, hall⟩
  · rw [hg, he]; exact ⟨by simpa using hl, hall⟩
  · rw [hg, he]
    refine ⟨by simpa using hl, ?_⟩
    intro e he'
    simp only [List.mem_append, List.mem_singleton] at he'
    rcases he' with h1 | h1
    · exact hall e h1
    · subst h1
      rw [← hl]
      rcases Nat.lt_or_ge i g.1.threads.length with h2 | h2
      · exact h2
      · rw [List.getElem?_eq_none h2] at hti; cases hti

/-- (5) mutual exclusion: thread `j` is inside its write exactly when it holds the lock -/
theorem mutual_exclusion (ths : List (List Packet)) (sched : List Nat) :
    let s := run (init ths) sched
    ∀ j t, s.threads[j]? = some t → (t.cur.isSome ↔ s.holder = some j) :=
  mutex_run ths sched

/-- (5') hence at most one thread is inside its write at any time -/
theorem at_most_one_writer (ths : List (List Packet)) (sched : List Nat) :
    let s := run (init ths) sched
    ∀ (j k : Nat) (tj tk : Thread), s.threads[j]? = some tj → s.threads[k]? = some tk →
      tj.cur.isSome → tk.cur.isSome → j = k := by
  intro s j k tj tk hj hk cj ck
  have h1 := (mutual_exclusion ths sched j tj hj).1 cj
  have h2 := (mutual_exclusion ths sched k tk hk).1 ck
  rw [h1] at h2
  exact Option.some.inj h2

/-- (5'') and while the lock is free nobody is inside a write -/
theorem idle_no_writer (ths : List (List Packet)) (sched : List Nat) :
    let s := run (init ths) sched
    s.holder = none → ∀ (j : Nat) (t : Thread), s.threads[j]? = some t → t.cur = none := by
  intro s hh j t hj
  have h := mutual_exclusion ths sched j t hj
  rw [show (run (init ths) sched).holder = none from hh] at h
  cases hc : t.cur with
  | none => rfl
  | some l => simp [hc] at h

/-! ### (6) Why the lock matters

Two threads, one two-chunk packet each.  Without the `holder` tests the alternating schedule
produces `1 3 2 4`, which is not whole-packets ++ prefix-of-one-packet for either order of the two
packets; with the lock the same schedule is harmless. -/

def pA : Packet := [[1], [2]]
def pB : Packet := [[3], [4]]
def altSched : List Nat := [0, 1, 0, 1, 0, 1, 0, 1]

theorem nolock_out : (runNoLock (init [[pA], [pB]]) altSched).out = [1, 3, 2, 4] := by decide

theorem nolock_started : (runNoLock (init [[pA], [pB]]) altSched).started = [pA, pB] := by decide

/-- without the lock the framing property (3) fails, in either order of the two packets -/
theorem nolock_interleaves :
    let s := runNoLock (init [[pA], [pB]]) altSched
    ¬ Framed s.started s.out ∧ ¬ Framed [pA, pB] s.out ∧ ¬ Framed [pB, pA] s.out := by decide

/-- the same, with the conclusion of `prefix_of_whole_packets` spelled out -/
theorem nolock_interleaves' :
    let s := runNoLock (init [[pA], [pB]]) altSched
    ∀ started, started = [pA, pB] ∨ started = [pB, pA] →
    ¬ ∃ done cur, started = done ++ cur ∧ cur.length ≤ 1 ∧
      ∃ pre, s.out = (done.map flat).flatten ++ pre ∧ (∀ p ∈ cur, pre <+: flat p) ∧ (cur = [] → pre = []) := by
  intro s started hs
  have h := nolock_interleaves
  rcases hs with rfl | rfl
  · exact h.2.1
  · exact h.2.2

/-- with the lock, the very same threads and schedule give whole packets (thread 1 is refused until
thread 0 has released) -/
theorem lock_same_schedule :
    (run (init [[pA], [pB]]) altSched).out = [1, 2] ∧
    (run (init [[pA], [pB]]) (altSched ++ altSched)).out = [1, 2, 3, 4] := by decide

/-! ### Non-vacuity: three threads, multi-chunk packets, an adversarial schedule -/

def ths3 : List (List Packet) :=
  [ [[[1, 2], [3]], [[4], [5], [6]]],      -- thread 0: two packets
    [[[7], [8, 9]]],                       -- thread 1: one packet
    [[[10]], [], [[11], [], [12]]] ]       -- thread 2: a one-chunk packet, an empty packet, a packet with an empty chunk

/-- round robin with out-of-range indices and repeated attempts on a taken lock -/
def adv3 : List Nat :=
  [1, 0, 2, 1, 0, 2, 7, 1, 0, 2, 1, 0, 2, 2, 0, 1, 2, 0, 2, 0, 2, 0, 0, 2, 2, 2, 0, 0, 0, 2, 2, 2, 2, 2, 0, 0,
   2, 0, 1, 0, 0, 2, 0, 0]

example : (run (init ths3) adv3).out = [7, 8, 9, 1, 2, 3, 10, 11, 12, 4, 5, 6] := by decide
example : (run (init ths3) adv3).started =
    [[[7], [8, 9]], [[1, 2], [3]], [[10]], [], [[11], [], [12]], [[4], [5], [6]]] := by decide
example : (run (init ths3) adv3).holder = none := by decide
set_option maxRecDepth 4000 in
example : (runG (init ths3, []) adv3).2.map Prod.fst = [1, 0, 2, 2, 2, 0] := by decide
/-- mid-run: thread 1 holds the lock, has written one of its two chunks; threads 0 and 2 were refused -/
example : (run (init ths3) (adv3.take 6)).out = [7] ∧ (run (init ths3) (adv3.take 6)).holder = some 1 ∧
    pendingChunks (run (init ths3) (adv3.take 6)) = [8, 9] ∧
    (run (init ths3) (adv3.take 6)).started = [[[7], [8, 9]]] := by decide
/-- the framing equation on a mid-run state, computed -/
example : (run (init ths3) (adv3.take 17)).out ++ pendingChunks (run (init ths3) (adv3.take 17)) =
    (((run (init ths3) (adv3.take 17)).started).map flat).flatten ∧
    pendingChunks (run (init ths3) (adv3.take 17)) ≠ [] := by decide
/-- the executable framing check accepts the locked run and rejects the unlocked one on the same input -/
example : Framed (run (init ths3) adv3).started (run (init ths3) adv3).out := by decide
example : ¬ Framed (runNoLock (init ths3) adv3).started (runNoLock (init ths3) adv3).out := by decide

end Mqtt.C10
