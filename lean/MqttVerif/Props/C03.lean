/-
  Property C03 — requests reach the wire in submission order, also when retransmitted.

  Model: `MqttVerif/Model/Retry.lean`; helper lemmas and the invariants: `MqttVerif/Proofs/RetryOrder.lean`.

  * `per_connection_order`, `first_transmission_order`: proved as stated, for all scripts, fault
    sequences and configurations (both follow from the stronger `global_order`).
  * `request_order`, `first_request_transmission_order`, `first_transmissions_subsequence`: the same
    for requests of ALL kinds (publish, subscribe, unsubscribe), for every script without any
    hypothesis, in terms of a ghost labelling of the request packets that tells the application's
    requests from the library's own re-subscriptions; `labels_match_wire` ties the labelling to the
    wire log packet by packet. (Separate section "ALL REQUEST KINDS".)
  * `no_request_skipped`, `no_request_skipped_earlier`, `owed_requests_prefix`: the completeness half,
    for every script without any hypothesis: when request `j` has been attempted on the wire, every
    request submitted before it that was accepted (submitted before Disconnect) and is not a QoS 0 publish
    has been attempted too, and earlier; the owed requests attempted so far are exactly the first `k`
    owed requests. Invariant and proofs: `MqttVerif/Proofs/RetryOrderComplete.lean`. (Last section,
    "NO REQUEST IS SKIPPED".)
  * `first_delivery_order`: the statement as given is FALSE OF THE MODEL for an invalid QoS value
    (`.app (.pub m 3)`), see `first_delivery_order_asStated_false`; with the extra hypothesis
    `ValidQos s` (every submitted QoS is ≤ 2) it is proved, and in fact in the stronger form
    `first_delivery_order_strong` (all QoS levels, no assumption on kept sessions).
  * All statements are for every configuration, `Cfg.deafDialer = true` (a dialer that ignores its context,
    `NoContextDialer`) included; runs `demoDeafOk`, `demoDeafOkReqs`, `demoDeafFail`, `demoDeafPreCancelled`.
-/
import MqttVerif.Proofs.RetryOrder
import MqttVerif.Proofs.RetryOrderComplete

namespace Mqtt.C03
open Mqtt.Retry

/-! ### order on the wire -/

/-- The PUBLISH attempts of the whole run, over all connections in wire order, are non-decreasing
    in the message index (retransmissions repeat a message). -/
theorem global_order (s : Script) (hi : Script.Increasing s) :
    (pubMsgs (allPkts (exec s))).Pairwise (· ≤ ·) :=
  att_sorted s hi

/-- On every connection of the run, PUBLISH attempts of different messages are in submission order
    (retransmissions of one message may repeat it: hence `≤`). -/
theorem per_connection_order (s : Script) (hi : Script.Increasing s) (k : Nat) (c : Conn)
    (hc : (exec s).conns[k]? = some c) : (pubMsgs c.pkts).Pairwise (· ≤ ·) := by
  have hs : (pubMsgs c.pkts).Sublist (att (exec s)) := by
    unfold att allPkts pubMsgs
    apply List.Sublist.filterMap
    rw [List.flatMap_def]
    exact List.sublist_flatten_of_mem (List.mem_map.2 ⟨c, List.mem_of_getElem? hc, rfl⟩)
  exact (att_sorted s hi).sublist hs

/-- The order in which messages are transmitted for the first time (over all connections of the run)
    is the submission order. -/
theorem first_transmission_order (s : Script) (hi : Script.Increasing s) :
    (firsts (pubMsgs (allPkts (exec s)))).Pairwise (· < ·) :=
  firsts_pairwise_lt (att_sorted s hi)

/-! ### order of first deliveries by the broker -/

/-- every submitted QoS is a valid MQTT QoS (the model, like the Go API, accepts any number) -/
def ValidQos (s : Script) : Prop := ∀ m q, Ev.app (.pub m q) ∈ s.evs → q ≤ 2

def connackSps (evs : List Ev) : List Bool :=
  evs.filterMap (fun e => match e with | .connackOk sp _ => some sp | _ => none)

/-- every `.connackOk sp _` event except the first has `sp = true` -/
def SessionsKept (s : Script) : Prop := ∀ sp ∈ (connackSps s.evs).tail, sp = true

/-- the QoS with which message `m` was submitted (0 if it never was) -/
def qosOfMsg (s : Script) (m : Nat) : Nat :=
  ((s.evs.filterMap (fun e => match e with
    | .app (.pub m' q) => if m' = m then some q else none
    | _ => none)).head?).getD 0

/-- Stronger form: when no acknowledgement is swallowed silently and all QoS values are valid, ALL
    onward deliveries of the broker (any QoS, sessions kept or not, re-deliveries included) are in
    submission order. -/
theorem delivery_order (s : Script) (hi : Script.Increasing s) (hv : ValidQos s)
    (hs : Fault.silent ∉ s.faults) : (exec s).broker.delivered.Pairwise (· ≤ ·) :=
  delivered_sorted s hi hs hv

theorem first_delivery_order_strong (s : Script) (hi : Script.Increasing s) (hv : ValidQos s)
    (hs : Fault.silent ∉ s.faults) : (firsts (exec s).broker.delivered).Pairwise (· < ·) :=
  firsts_pairwise_lt (delivered_sorted s hi hs hv)

/-- The statement of the task, with the one additional hypothesis `ValidQos s`. -/
theorem first_delivery_order (s : Script) (hi : Script.Increasing s) (hv : ValidQos s)
    (_hk : SessionsKept s) (hs : Fault.silent ∉ s.faults) :
    (firsts ((exec s).broker.delivered.filter (fun m => qosOfMsg s m ≥ 1))).Pairwise (· < ·) :=
  firsts_pairwise_lt ((delivered_sorted s hi hs hv).sublist List.filter_sublist)

/-- the statement exactly as given in the task (without `ValidQos`) -/
def first_delivery_order_asStated : Prop :=
  ∀ s : Script, Script.Increasing s → SessionsKept s → Fault.silent ∉ s.faults →
    (firsts ((exec s).broker.delivered.filter (fun m => qosOfMsg s m ≥ 1))).Pairwise (· < ·)

/-- Counterexample to the statement as given: message 1 is published with the invalid QoS 3. The
    broker (delivering on PUBREL) stashes it under packet id 1, the client treats the PUBACK-less
    exchange as complete and never sends PUBREL. Message 2 (QoS 1) is delivered. After a reconnect
    whose id counter starts at 0 again, QoS 2 message 3 reuses packet id 1: its PUBLISH is taken for
    a duplicate and its PUBREL releases the stale message 1 — delivered after message 2. -/
def cexQos3 : Script :=
  { method := .onPubrel,
    evs := [.start, .dialOk 0, .connackOk true [], .app (.pub 1 3), .app (.pub 2 1), .peerClose,
            .waitElapsed, .dialOk 0, .connackOk true [], .app (.pub 3 2)] }

example : (exec cexQos3).broker.delivered = [2, 1] := by decide +kernel

theorem first_delivery_order_asStated_false : ¬ first_delivery_order_asStated := by
  intro h
  have h1 := h cexQos3 (by simp [Script.Increasing, cexQos3])
    (by simp [SessionsKept, connackSps, cexQos3]) (by simp [cexQos3])
  have h2 : firsts ((exec cexQos3).broker.delivered.filter (fun m => qosOfMsg cexQos3 m ≥ 1)) = [2, 1] := by
    decide +kernel
  rw [h2] at h1
  revert h1; decide

/-! ### non-vacuity: a run with faults, three connections, retransmissions, a QoS 2 exchange,
    a dropped QoS 0 message and queued messages -/

def demo : Script :=
  { faults := [.ok, .lostReq, .lostAck, .ok, .ok, .ok, .writeFail],
    evs := [.start, .dialOk 10, .connackOk false [],
            .app (.pub 1 1), .app (.pub 2 1), .app (.pub 3 2), .app (.pub 4 0),
            .waitElapsed, .dialOk 20, .app (.pub 5 1), .connackOk true [],
            .app (.pub 6 0), .waitElapsed, .dialOk 30, .connackOk true [], .app (.pub 7 1)] }

example : Script.Increasing demo := by simp [Script.Increasing, demo]
example : ValidQos demo := by simp [ValidQos, demo]; omega
example : SessionsKept demo := by simp [SessionsKept, connackSps, demo]
example : Fault.silent ∉ demo.faults := by simp [demo]
example : (exec demo).conns.map (fun c => pubMsgs c.pkts) = [[1, 2], [2], [2, 3, 5]] := by decide +kernel
example : (exec demo).conns.map (fun c => c.alive) = [false, false, false] := by decide +kernel
example : firsts (pubMsgs (allPkts (exec demo))) = [1, 2, 3, 5] := by decide +kernel
example : (exec demo).retryQ = [.rePublish 5 1, .qPub 7 1] := by decide +kernel
example : (exec demo).broker.delivered = [1, 2, 2, 3] := by decide +kernel
example : firsts ((exec demo).broker.delivered.filter (fun m => qosOfMsg demo m ≥ 1)) = [1, 2, 3] := by
  decide +kernel

/-! ### non-vacuity for the refined reconnect loop: back-off timer, Disconnect while backing off,
    Disconnect during a dial that then succeeds, cancelled Connect context -/

def sA : Subscription := { topic := [97], qos := 1 }
def sB : Subscription := { topic := [98], qos := 0 }

/-- Disconnect while the loop waits in `.backoff`: the loop exits, `.waitElapsed` / `.dialOk` are void,
    the failed message 1 and the queued Subscribe stay in the retry queue, nothing is reordered -/
def demoDiscBackoff : Script :=
  { faults := [.lostReq],
    evs := [.start, .dialOk 10, .connackOk false [], .app (.pub 1 1), .app (.sub [sA]),
            .disconnect, .waitElapsed, .dialOk 20, .app (.pub 2 1)] }

example : (execTrace demoDiscBackoff).map (·.phase) =
    [.dialGate, .connackGate 0, .up 0, .backoff, .backoff, .exited, .exited, .exited, .exited] := by decide +kernel
example : (exec demoDiscBackoff).conns.map (fun c => pubMsgs c.pkts) = [[1]] := by decide +kernel
example : (exec demoDiscBackoff).retryQ = [.rePublish 1 1, .qSub [sA]] := by decide +kernel
example : ((exec demoDiscBackoff).dials, (exec demoDiscBackoff).rejected) = (1, 1) := by decide +kernel

/-- Disconnect while the loop is inside DialContext (after `.waitElapsed`); the dial then succeeds:
    CONNECT goes out on the new connection, no request does, the queue is left as it was -/
def demoDiscDial : Script :=
  { faults := [.lostReq],
    evs := [.start, .dialOk 10, .connackOk false [], .app (.pub 1 1), .waitElapsed, .app (.unsub [[97]]),
            .disconnect, .dialOk 20, .connackOk true [], .app (.pub 2 1)] }

example : (execTrace demoDiscDial).map (·.phase) =
    [.dialGate, .connackGate 0, .up 0, .backoff, .dialGate, .dialGate, .dialGate, .connackGate 1, .exited, .exited] := by
  decide +kernel
example : (exec demoDiscDial).conns.map (fun c => c.pkts.map (·.1)) =
    [[.connect, .publish 1 1 11 false, .disconnect], [.connect]] := by decide +kernel
example : (exec demoDiscDial).retryQ = [.rePublish 1 1, .qUnsub [[97]]] := by decide +kernel
example : (exec demoDiscDial).dials = 2 := by decide +kernel

/-- the context of Connect is cancelled while CONNACK is awaited: the connection is closed, the task
    goroutine is released and attempts the waiting message 1 on the closed transport; the later
    requests queue up behind its handle in submission order -/
def demoCancel : Script :=
  { evs := [.start, .dialOk 10, .app (.pub 1 1), .app (.sub [sA]), .cancelCtx, .app (.pub 2 1),
            .waitElapsed, .dialOk 20] }

example : (execTrace demoCancel).map (·.phase) =
    [.dialGate, .connackGate 0, .connackGate 0, .connackGate 0, .exited, .exited, .exited, .exited] := by
  decide +kernel
example : (exec demoCancel).conns.map (fun c => c.pkts) =
    [[(.connect, .sent .ok), (.publish 1 1 11 false, .dead)]] := by decide +kernel
example : (exec demoCancel).retryQ = [.rePublish 1 1, .qSub [sA], .qPub 2 1] := by decide +kernel
example : ((exec demoCancel).dials, (exec demoCancel).connectErr) = (1, true) := by decide +kernel

/-! ### non-vacuity for a dialer that ignores its context (`Cfg.deafDialer`, e.g. `NoContextDialer`):
    the context of the first Connect is cancelled while the dial is in flight; the loop acts on the dial's
    result. All theorems of this file hold for every configuration, `deafDialer = true` included. -/

/-- cancellation during the first dial, then the dial succeeds: the new connection carries only CONNECT and is
    dead, the loop has exited, Connect has returned the context's error -/
def demoDeafOk : Script :=
  { cfg := { deafDialer := true }, evs := [.start, .cancelCtx, .dialOk 10, .waitElapsed, .dialOk 20] }

example : (execTrace demoDeafOk).map (·.phase) = [.dialGate, .dialGate, .exited, .exited, .exited] := by decide +kernel
example : (exec demoDeafOk).conns.map (fun c => (c.pkts, c.alive, c.connected)) =
    [([(.connect, .sent .ok)], false, false)] := by decide +kernel
example : ((exec demoDeafOk).dials, (exec demoDeafOk).connectErr, (exec demoDeafOk).connectReturned,
    (exec demoDeafOk).waits, (exec demoDeafOk).cli) = (1, true, none, [], some 0) := by decide +kernel

/-- the same script with a dialer that honours its context: the loop leaves at the cancellation, the late
    `.dialOk` is void, there is no connection at all -/
example : (execTrace { demoDeafOk with cfg := {} }).map (·.phase) = [.dialGate, .exited, .exited, .exited, .exited] := by
  decide +kernel
example : ((exec { demoDeafOk with cfg := {} }).conns.length, (exec { demoDeafOk with cfg := {} }).connectErr) =
    (0, true) := by decide +kernel

/-- … with requests waiting: the task goroutine is released on the dead connection (SetClient, Connect has
    returned) and attempts request 0 on the closed transport; the later requests queue up behind its handle in
    submission order, nothing is skipped or reordered -/
def demoDeafOkReqs : Script :=
  { cfg := { deafDialer := true },
    evs := [.start, .app (.pub 1 1), .app (.sub [sA]), .cancelCtx, .dialOk 10, .app (.pub 2 1)] }

example : (execTrace demoDeafOkReqs).map (·.phase) =
    [.dialGate, .dialGate, .dialGate, .dialGate, .exited, .exited] := by decide +kernel
example : (exec demoDeafOkReqs).conns.map (fun c => (c.pkts, c.alive)) =
    [([(.connect, .sent .ok), (.publish 1 1 11 false, .dead)], false)] := by decide +kernel
example : (exec demoDeafOkReqs).retryQ = [.rePublish 1 1, .qSub [sA], .qPub 2 1] := by decide +kernel
example : ((exec demoDeafOkReqs).dials, (exec demoDeafOkReqs).connectErr, (exec demoDeafOkReqs).taskQ) =
    (1, true, []) := by decide +kernel

/-- cancellation during the first dial, then the dial fails: the loop exits without a back-off (no wait is
    logged, the timer event is void), no connection, the waiting request is never attempted -/
def demoDeafFail : Script :=
  { cfg := { deafDialer := true },
    evs := [.start, .app (.pub 1 1), .cancelCtx, .dialFail, .waitElapsed, .dialOk 10] }

example : (execTrace demoDeafFail).map (·.phase) =
    [.dialGate, .dialGate, .dialGate, .exited, .exited, .exited] := by decide +kernel
example : ((exec demoDeafFail).conns.length, (exec demoDeafFail).waits, (exec demoDeafFail).dials,
    (exec demoDeafFail).connectErr, (exec demoDeafFail).taskQ) = (0, [], 1, true, [.req (.pub 1 1)]) := by
  decide +kernel

/-- Connect called with a context that is already done: the deaf dialer dials all the same (one DialContext
    call), its transport gets CONNECT and is closed -/
def demoDeafPreCancelled : Script :=
  { cfg := { deafDialer := true }, evs := [.cancelCtx, .start, .dialOk 10] }

example : (execTrace demoDeafPreCancelled).map (fun w => (w.phase, w.connectErr)) =
    [(.idle, false), (.dialGate, true), (.exited, true)] := by decide +kernel
example : (exec demoDeafPreCancelled).conns.map (fun c => (c.pkts, c.alive)) =
    [([(.connect, .sent .ok)], false)] := by decide +kernel

/-! ## ALL REQUEST KINDS (publish, subscribe, unsubscribe) -/

/-- the ghost labelling of the request packets (PUBLISH, SUBSCRIBE, UNSUBSCRIBE) attempted on the
    wire during the run, in wire order: `some i` — an attempt of the application's `i`-th request
    (`i` counts the `.app` events of the script from 0), `none` — a SUBSCRIBE of the library's own
    re-subscription pass -/
def reqLabels (s : Script) : List Lab := (gExec s).out

/-- the attempts of the application's requests, in wire order, by submission index -/
def reqAttempts (s : Script) : List Nat := apps (reqLabels s)

/-- the application's requests in the order in which they were attempted for the first time -/
def firstTransmitted (s : Script) : List Req :=
  (firsts (reqAttempts s)).filterMap (fun i => (appReqs s.evs)[i]?)

/-- The labelling is faithful to the wire log `Conn.pkts`: there are exactly as many labels as there are
    request packets, the packet labelled `some i` has the content (key) of the `i`-th request, a packet
    labelled `none` is a single-filter SUBSCRIBE. For every script, fault sequence and configuration. -/
theorem labels_match_wire (s : Script) :
    All2 (LabKey (appReqs s.evs)) (reqLabels s) (wireKeys (exec s)) :=
  gExec_wire s

/-- Attempts of the application's requests of ALL kinds reach the wire in submission order
    (a retransmission repeats an index). No hypothesis on the script. -/
theorem request_order (s : Script) : (reqAttempts s).Pairwise (· ≤ ·) :=
  gatt_sorted s

/-- The order in which the application's requests (publish, subscribe, unsubscribe) are attempted on
    the wire for the first time is the submission order. -/
theorem first_request_transmission_order (s : Script) : (firsts (reqAttempts s)).Pairwise (· < ·) :=
  firsts_pairwise_lt (gatt_sorted s)

/-- … in terms of the requests themselves: listed in the order of their first transmission they form
    a subsequence of the submitted requests (requests never transmitted — QoS 0 publishes dropped during
    an outage, requests still queued or refused at the end — are left out, nothing is reordered). -/
theorem first_transmissions_subsequence (s : Script) : (firstTransmitted s).Sublist (appReqs s.evs) := by
  have h := filterMap_getElem_sublist (appReqs s.evs) 0 (firsts (reqAttempts s))
    (first_request_transmission_order s) (fun _ _ => Nat.zero_le _)
  simpa [firstTransmitted] using h

/-! ### non-vacuity: all three kinds, faults, three connections (each reached through `.waitElapsed`),
    retransmissions, two dropped QoS 0 publishes, two re-subscription passes of the library -/

def demoAll : Script :=
  { faults := [.ok, .ok, .lostReq, .ok, .ok, .ok, .ok, .lostAck],
    evs := [.start, .dialOk 10, .connackOk false [],
            .app (.sub [sA, sB]), .app (.pub 1 1), .app (.sub [sA]), .app (.pub 2 0), .app (.unsub [[98]]),
            .app (.pub 3 1),
            .waitElapsed, .dialOk 20, .connackOk false [], .app (.sub [sB]), .app (.pub 4 0),
            .waitElapsed, .dialOk 30, .app (.pub 5 2), .connackOk false [], .disconnect, .app (.pub 6 1)] }

/-- request 2 (`sub [sA]`) is lost and retransmitted, so is request 6 (`sub [sB]`, acknowledgement lost,
    retransmitted on the third connection); requests 3 and 7 (QoS 0) are dropped; the three
    `none` are the library's re-subscriptions (`[sA]` on the second connection, `[sA]`, `[sB]` on the third);
    request 9 is refused after Disconnect -/
example : reqLabels demoAll =
    [some 0, some 1, some 2, some 2, some 4, some 5, none, some 6, some 6, some 8, none, none] := by
  decide +kernel
example : wireKeys (exec demoAll) =
    [.sub [sA, sB], .pub 1, .sub [sA], .sub [sA], .unsub [[98]], .pub 3, .sub [sA], .sub [sB], .sub [sB],
     .pub 5, .sub [sA], .sub [sB]] := by decide +kernel
example : firstTransmitted demoAll =
    [.sub [sA, sB], .pub 1 1, .sub [sA], .unsub [[98]], .pub 3 1, .sub [sB], .pub 5 2] := by decide +kernel
example : (exec demoAll).conns.length = 3 := by decide +kernel

/-- Why the origin of a SUBSCRIBE cannot be read off its content: the library re-subscribes `[sA]` (after
    the session was lost) BEFORE the application submits `pub 2` and then its own `sub [sA]`. Identifying
    requests by content would see "`sub [sA]` transmitted before `pub 2`", against the submission order
    (request 1 = `pub 2`, request 2 = `sub [sA]`); the labelling attributes the early packet to the library. -/
def demoAmbiguous : Script :=
  { evs := [.start, .dialOk 10, .connackOk false [], .app (.sub [sB, sA]), .peerClose, .waitElapsed, .dialOk 20,
            .connackOk false [], .app (.pub 2 1), .app (.sub [sA])] }

example : wireKeys (exec demoAmbiguous) = [.sub [sB, sA], .sub [sB], .sub [sA], .pub 2, .sub [sA]] := by
  decide +kernel
example : reqLabels demoAmbiguous = [some 0, none, none, some 1, some 2] := by decide +kernel

/-- in the three runs above (Disconnect in `.backoff`, Disconnect in `.dialGate`, cancelled context) only
    request 0 is ever attempted -/
example : reqLabels demoDiscBackoff = [some 0] := by decide +kernel
example : reqLabels demoDiscDial = [some 0] := by decide +kernel
example : reqLabels demoCancel = [some 0] := by decide +kernel

/-- the deaf-dialer runs: the ghost follows the task goroutine's turn on the dead connection of a cancelled
    first Connect (`preProgress … (.dialOk _) = some (dialDead …)`) -/
example : reqLabels demoDeafOkReqs = [some 0] := by decide +kernel
example : wireKeys (exec demoDeafOkReqs) = [.pub 1] := by decide +kernel
example : reqLabels demoDeafFail = [] := by decide +kernel
example : reqLabels demoDeafOk = [] := by decide +kernel

/-! ## NO REQUEST IS SKIPPED

  `first_transmissions_subsequence` alone would also hold of a client that silently drops a QoS 1
  request and transmits a later one. The statements below exclude that: the requests attempted on the
  wire are downward closed among the requests that are OWED a transmission — accepted (submitted while
  the client was not stopped, i.e. before the first Disconnect: `accepted_iff_before_disconnect`) and not
  a QoS 0 publish (a QoS 0 publish submitted while requests wait for a retry is dropped, retryclient.go:
  168-174). Requests may stay un-attempted at the END of the run only: still queued (outage, Disconnect)
  or behind a request that blocks for ever (silent broker, no response timeout). -/

/-- the accepted requests are those submitted before the first `.disconnect` event of the script -/
theorem accepted_iff_before_disconnect (s : Script) : acceptedIdx s = beforeDisconnect s.evs 0 :=
  acceptedIdx_eq s

/-- `Owed s i` (accepted and not a QoS 0 publish), as a list of submission indices -/
theorem mem_owedIdx_iff (s : Script) (i : Nat) :
    i ∈ owedIdx s ↔ i ∈ acceptedIdx s ∧ ∀ m, (appReqs s.evs)[i]? ≠ some (.pub m 0) :=
  mem_owedIdx s i

theorem mem_reqAttempts (s : Script) (i : Nat) : i ∈ reqAttempts s ↔ some i ∈ reqLabels s := by
  unfold reqAttempts apps
  rw [List.mem_filterMap]
  constructor
  · rintro ⟨a, ha, rfl⟩; exact ha
  · intro h; exact ⟨some i, h, rfl⟩

/-- No request is skipped: if request number `j` has been attempted on the wire then every request
    number `i < j` that was accepted and is not a QoS 0 publish has been attempted too. For every script,
    fault sequence and configuration. -/
theorem no_request_skipped (s : Script) (i j : Nat) (hj : some j ∈ reqLabels s) (hi : Owed s i)
    (hij : i < j) : some i ∈ reqLabels s :=
  (mem_reqAttempts s i).1 (no_skip s i j ((mem_reqAttempts s j).2 hj) hi hij)

/-- … and it was attempted before: in front of every attempt of request `j` there is an attempt of
    every owed request `i < j`. -/
theorem no_request_skipped_earlier (s : Script) (pre post : List Nat) (i j : Nat)
    (h : reqAttempts s = pre ++ j :: post) (hi : Owed s i) (hij : i < j) : i ∈ pre := by
  have hi' : i ∈ reqAttempts s := no_skip s i j (by show j ∈ reqAttempts s; rw [h]; simp) hi hij
  have hs := request_order s
  rw [h] at hi' hs
  rcases List.mem_append.1 hi' with h1 | h1
  · exact h1
  · have hjp := (List.pairwise_append.1 hs).2.1
    rw [List.pairwise_cons] at hjp
    rcases List.mem_cons.1 h1 with h2 | h2
    · omega
    · have := hjp.1 i h2; omega

/-- The owed requests, listed in the order of their first transmission, are exactly the first `k` owed
    requests in submission order, for some `k` (the set of attempted owed requests is downward closed). -/
theorem owed_requests_prefix (s : Script) :
    ∃ k, (firsts (reqAttempts s)).filter (· ∈ owedIdx s) = (owedIdx s).take k :=
  owed_first_transmissions_prefix s

/-! ### non-vacuity -/

/-- request 0 (QoS 1) is lost with its connection; while it waits for the retry, request 1 (a QoS 0
    publish) is dropped, requests 2 (subscribe) and 3 (QoS 1 publish) are queued behind it; on the next
    connection the retransmission of request 0 goes first, then 2, then 3 -/
def demoQueued : Script :=
  { faults := [.lostReq],
    evs := [.start, .dialOk 10, .connackOk false [], .app (.pub 1 1), .app (.pub 2 0), .app (.sub [sA]),
            .app (.pub 3 1), .waitElapsed, .dialOk 20, .connackOk true []] }

example : reqLabels demoQueued = [some 0, some 0, some 2, some 3] := by decide +kernel
example : wireKeys (exec demoQueued) = [.pub 1, .pub 1, .sub [sA], .pub 3] := by decide +kernel
example : acceptedIdx demoQueued = [0, 1, 2, 3] := by decide +kernel
example : owedIdx demoQueued = [0, 2, 3] := by decide +kernel
example : (firsts (reqAttempts demoQueued)).filter (· ∈ owedIdx demoQueued) = (owedIdx demoQueued).take 3 := by
  decide +kernel

/-- Disconnect while the loop backs off (`demoDiscBackoff` above): request 0 was attempted, request 1
    (subscribe) is accepted and stays queued for ever, request 2 is refused (not accepted) -/
example : reqLabels demoDiscBackoff = [some 0] := by decide +kernel
example : acceptedIdx demoDiscBackoff = [0, 1] := by decide +kernel
example : owedIdx demoDiscBackoff = [0, 1] := by decide +kernel
example : (firsts (reqAttempts demoDiscBackoff)).filter (· ∈ owedIdx demoDiscBackoff) =
    (owedIdx demoDiscBackoff).take 1 := by decide +kernel

/-- deaf dialer, dial succeeds after the cancellation (`demoDeafOkReqs` above): request 0 was attempted (on the
    dead connection), requests 1 and 2 are accepted and stay queued behind its handle -/
example : owedIdx demoDeafOkReqs = [0, 1, 2] := by decide +kernel
example : (firsts (reqAttempts demoDeafOkReqs)).filter (· ∈ owedIdx demoDeafOkReqs) =
    (owedIdx demoDeafOkReqs).take 1 := by decide +kernel

/-- the run `demoAll` above: all accepted requests except the two dropped QoS 0 publishes (3 and 7) are
    attempted; request 9, submitted after Disconnect, is not accepted -/
example : acceptedIdx demoAll = [0, 1, 2, 3, 4, 5, 6, 7, 8] := by decide +kernel
example : owedIdx demoAll = [0, 1, 2, 4, 5, 6, 8] := by decide +kernel
example : (firsts (reqAttempts demoAll)).filter (· ∈ owedIdx demoAll) = (owedIdx demoAll).take 7 := by
  decide +kernel

/-- a silent broker and no response timeout: the retransmission of request 0 blocks `Retry` for ever; the
    queued request 1 is never attempted (and, in the model, no longer in `retryQ`: the loop holds the rest
    of the old queue in a local variable). Nothing later is attempted either. -/
def demoBlocked : Script :=
  { faults := [.lostReq, .silent],
    evs := [.start, .dialOk 10, .connackOk false [], .app (.pub 1 1), .app (.pub 2 1),
            .waitElapsed, .dialOk 20, .connackOk true [], .app (.pub 3 1)] }

example : reqLabels demoBlocked = [some 0, some 0] := by decide +kernel
example : owedIdx demoBlocked = [0, 1, 2] := by decide +kernel
example : ((exec demoBlocked).stuck, (exec demoBlocked).retryQ, (exec demoBlocked).taskQ) =
    (true, [], [.req (.pub 3 1)]) := by decide +kernel

end Mqtt.C03
