/-
  Property C03 — requests reach the wire in submission order, also when retransmitted.

  Model: `MqttVerif/Model/Retry.lean`; helper lemmas and the invariants: `MqttVerif/Proofs/RetryOrder.lean`.

  * `per_connection_order`, `first_transmission_order`: proved as stated, for all scripts, fault
    sequences and configurations (both follow from the stronger `global_order`).
  * `request_order`, `first_request_transmission_order`, `first_transmissions_subsequence`: the same
    for requests of ALL kinds (publish, subscribe, unsubscribe), for every script without any
    hypothesis, in terms of a ghost labelling of the request packets that tells the application's
    requests from the library's own re-subscriptions; `labels_match_wire` ties the labelling to the
    wire log packet by packet. (Separate section at the end of this file.)
  * `first_delivery_order`: the statement as given is FALSE OF THE MODEL for an invalid QoS value
    (`.app (.pub m 3)`), see `first_delivery_order_asStated_false`; with the extra hypothesis
    `ValidQos s` (every submitted QoS is ≤ 2) it is proved, and in fact in the stronger form
    `first_delivery_order_strong` (all QoS levels, no assumption on kept sessions).
-/
import MqttVerif.Proofs.RetryOrder

namespace Mqtt.C03
open Mqtt.Retry

/-! ### order on the wire -/

/-- The PUBLISH attempts of the whole run, over all connections in wire order, are non-decreasing
    in the message index (retransmissions repeat a message). -/
theorem global_order (s : Script) (hi : Script.Increasing s) :
    (pubMsgs (allPkts (exec s))).Pairwise (· ≤ ·) :=
  att_sorted s hi

/-- On every connection of the run, PUBLISH attempts of different messages are in submission order
    (retransmissions of one message may repeat it: hence `≤`). -/
theorem per_connection_order (s : Script) (hi : Script.Increasing s) (k : Nat) (c : Conn)
    (hc : (exec s).conns[k]? = some c) : (pubMsgs c.pkts).Pairwise (· ≤ ·) := by
  have hs : (pubMsgs c.pkts).Sublist (att (exec s)) := by
    unfold att allPkts pubMsgs
    apply List.Sublist.filterMap
    rw [List.flatMap_def]
    exact List.sublist_flatten_of_mem (List.mem_map.2 ⟨c, List.mem_of_getElem? hc, rfl⟩)
  exact (att_sorted s hi).sublist hs

/-- The order in which messages are transmitted for the first time (over all connections of the run)
    is the submission order. -/
theorem first_transmission_order (s : Script) (hi : Script.Increasing s) :
    (firsts (pubMsgs (allPkts (exec s)))).Pairwise (· < ·) :=
  firsts_pairwise_lt (att_sorted s hi)

/-! ### order of first deliveries by the broker -/

/-- every submitted QoS is a valid MQTT QoS (the model, like the Go API, accepts any number) -/
def ValidQos (s : Script) : Prop := ∀ m q, Ev.app (.pub m q) ∈ s.evs → q ≤ 2

def connackSps (evs : List Ev) : List Bool :=
  evs.filterMap (fun e => match e with | .connackOk sp _ => some sp | _ => none)

/-- every `.connackOk sp _` event except the first has `sp = true` -/
def SessionsKept (s : Script) : Prop := ∀ sp ∈ (connackSps s.evs).tail, sp = true

/-- the QoS with which message `m` was submitted (0 if it never was) -/
def qosOfMsg (s : Script) (m : Nat) : Nat :=
  ((s.evs.filterMap (fun e => match e with
    | .app (.pub m' q) => if m' = m then some q else none
    | _ => none)).head?).getD 0

/-- Stronger form: when no acknowledgement is swallowed silently and all QoS values are valid, ALL
    onward deliveries of the broker (any QoS, sessions kept or not, re-deliveries included) are in
    submission order. -/
theorem delivery_order (s : Script) (hi : Script.Increasing s) (hv : ValidQos s)
    (hs : Fault.silent ∉ s.faults) : (exec s).broker.delivered.Pairwise (· ≤ ·) :=
  delivered_sorted s hi hs hv

theorem first_delivery_order_strong (s : Script) (hi : Script.Increasing s) (hv : ValidQos s)
    (hs : Fault.silent ∉ s.faults) : (firsts (exec s).broker.delivered).Pairwise (· < ·) :=
  firsts_pairwise_lt (delivered_sorted s hi hs hv)

/-- The statement of the task, with the one additional hypothesis `ValidQos s`. -/
theorem first_delivery_order (s : Script) (hi : Script.Increasing s) (hv : ValidQos s)
    (_hk : SessionsKept s) (hs : Fault.silent ∉ s.faults) :
    (firsts ((exec s).broker.delivered.filter (fun m => qosOfMsg s m ≥ 1))).Pairwise (· < ·) :=
  firsts_pairwise_lt ((delivered_sorted s hi hs hv).sublist List.filter_sublist)

/-- the statement exactly as given in the task (without `ValidQos`) -/
def first_delivery_order_asStated : Prop :=
  ∀ s : Script, Script.Increasing s → SessionsKept s → Fault.silent ∉ s.faults →
    (firsts ((exec s).broker.delivered.filter (fun m => qosOfMsg s m ≥ 1))).Pairwise (· < ·)

/-- Counterexample to the statement as given: message 1 is published with the invalid QoS 3. The
    broker (delivering on PUBREL) stashes it under packet id 1, the client treats the PUBACK-less
    exchange as complete and never sends PUBREL. Message 2 (QoS 1) is delivered. After a reconnect
    whose id counter starts at 0 again, QoS 2 message 3 reuses packet id 1: its PUBLISH is taken for
    a duplicate and its PUBREL releases the stale message 1 — delivered after message 2. -/
def cexQos3 : Script :=
  { method := .onPubrel,
    evs := [.start, .dialOk 0, .connackOk true [], .app (.pub 1 3), .app (.pub 2 1), .peerClose,
            .waitElapsed, .dialOk 0, .connackOk true [], .app (.pub 3 2)] }

example : (exec cexQos3).broker.delivered = [2, 1] := by decide +kernel

theorem first_delivery_order_asStated_false : ¬ first_delivery_order_asStated := by
  intro h
  have h1 := h cexQos3 (by simp [Script.Increasing, cexQos3])
    (by simp [SessionsKept, connackSps, cexQos3]) (by simp [cexQos3])
  have h2 : firsts ((exec cexQos3).broker.delivered.filter (fun m => qosOfMsg cexQos3 m ≥ 1)) = [2, 1] := by
    decide +kernel
  rw [h2] at h1
  revert h1; decide

/-! ### non-vacuity: a run with faults, three connections, retransmissions, a QoS 2 exchange,
    a dropped QoS 0 message and queued messages -/

def demo : Script :=
  { faults := [.ok, .lostReq, .lostAck, .ok, .ok, .ok, .writeFail],
    evs := [.start, .dialOk 10, .connackOk false [],
            .app (.pub 1 1), .app (.pub 2 1), .app (.pub 3 2), .app (.pub 4 0),
            .waitElapsed, .dialOk 20, .app (.pub 5 1), .connackOk true [],
            .app (.pub 6 0), .waitElapsed, .dialOk 30, .connackOk true [], .app (.pub 7 1)] }

example : Script.Increasing demo := by simp [Script.Increasing, demo]
example : ValidQos demo := by simp [ValidQos, demo]; omega
example : SessionsKept demo := by simp [SessionsKept, connackSps, demo]
example : Fault.silent ∉ demo.faults := by simp [demo]
example : (exec demo).conns.map (fun c => pubMsgs c.pkts) = [[1, 2], [2], [2, 3, 5]] := by decide +kernel
example : (exec demo).conns.map (fun c => c.alive) = [false, false, false] := by decide +kernel
example : firsts (pubMsgs (allPkts (exec demo))) = [1, 2, 3, 5] := by decide +kernel
example : (exec demo).retryQ = [.rePublish 5 1, .qPub 7 1] := by decide +kernel
example : (exec demo).broker.delivered = [1, 2, 2, 3] := by decide +kernel
example : firsts ((exec demo).broker.delivered.filter (fun m => qosOfMsg demo m ≥ 1)) = [1, 2, 3] := by
  decide +kernel

/-! ### non-vacuity for the refined reconnect loop: back-off timer, Disconnect while backing off,
    Disconnect during a dial that then succeeds, cancelled Connect context -/

def sA : Subscription := { topic := [97], qos := 1 }
def sB : Subscription := { topic := [98], qos := 0 }

/-- Disconnect while the loop waits in `.backoff`: the loop exits, `.waitElapsed` / `.dialOk` are void,
    the failed message 1 and the queued Subscribe stay in the retry queue, nothing is reordered -/
def demoDiscBackoff : Script :=
  { faults := [.lostReq],
    evs := [.start, .dialOk 10, .connackOk false [], .app (.pub 1 1), .app (.sub [sA]),
            .disconnect, .waitElapsed, .dialOk 20, .app (.pub 2 1)] }

example : (execTrace demoDiscBackoff).map (·.phase) =
    [.dialGate, .connackGate 0, .up 0, .backoff, .backoff, .exited, .exited, .exited, .exited] := by decide +kernel
example : (exec demoDiscBackoff).conns.map (fun c => pubMsgs c.pkts) = [[1]] := by decide +kernel
example : (exec demoDiscBackoff).retryQ = [.rePublish 1 1, .qSub [sA]] := by decide +kernel
example : ((exec demoDiscBackoff).dials, (exec demoDiscBackoff).rejected) = (1, 1) := by decide +kernel

/-- Disconnect while the loop is inside DialContext (after `.waitElapsed`); the dial then succeeds:
    CONNECT goes out on the new connection, no request does, the queue is left as it was -/
def demoDiscDial : Script :=
  { faults := [.lostReq],
    evs := [.start, .dialOk 10, .connackOk false [], .app (.pub 1 1), .waitElapsed, .app (.unsub [[97]]),
            .disconnect, .dialOk 20, .connackOk true [], .app (.pub 2 1)] }

example : (execTrace demoDiscDial).map (·.phase) =
    [.dialGate, .connackGate 0, .up 0, .backoff, .dialGate, .dialGate, .dialGate, .connackGate 1, .exited, .exited] := by
  decide +kernel
example : (exec demoDiscDial).conns.map (fun c => c.pkts.map (·.1)) =
    [[.connect, .publish 1 1 11 false, .disconnect], [.connect]] := by decide +kernel
example : (exec demoDiscDial).retryQ = [.rePublish 1 1, .qUnsub [[97]]] := by decide +kernel
example : (exec demoDiscDial).dials = 2 := by decide +kernel

/-- the context of Connect is cancelled while CONNACK is awaited: the connection is closed, the task
    goroutine is released and attempts the waiting message 1 on the closed transport; the later
    requests queue up behind its handle in submission order -/
def demoCancel : Script :=
  { evs := [.start, .dialOk 10, .app (.pub 1 1), .app (.sub [sA]), .cancelCtx, .app (.pub 2 1),
            .waitElapsed, .dialOk 20] }

example : (execTrace demoCancel).map (·.phase) =
    [.dialGate, .connackGate 0, .connackGate 0, .connackGate 0, .exited, .exited, .exited, .exited] := by
  decide +kernel
example : (exec demoCancel).conns.map (fun c => c.pkts) =
    [[(.connect, .sent .ok), (.publish 1 1 11 false, .dead)]] := by decide +kernel
example : (exec demoCancel).retryQ = [.rePublish 1 1, .qSub [sA], .qPub 2 1] := by decide +kernel
example : ((exec demoCancel).dials, (exec demoCancel).connectErr) = (1, true) := by decide +kernel

/-! ## ALL REQUEST KINDS (publish, subscribe, unsubscribe) -/

/-- the ghost labelling of the request packets (PUBLISH, SUBSCRIBE, UNSUBSCRIBE) attempted on the
    wire during the run, in wire order: `some i` — an attempt of the application's `i`-th request
    (`i` counts the `.app` events of the script from 0), `none` — a SUBSCRIBE of the library's own
    re-subscription pass -/
def reqLabels (s : Script) : List Lab := (gExec s).out

/-- the attempts of the application's requests, in wire order, by submission index -/
def reqAttempts (s : Script) : List Nat := apps (reqLabels s)

/-- the application's requests in the order in which they were attempted for the first time -/
def firstTransmitted (s : Script) : List Req :=
  (firsts (reqAttempts s)).filterMap (fun i => (appReqs s.evs)[i]?)

/-- The labelling is faithful to the wire log `Conn.pkts`: there are exactly as many labels as there are
    request packets, the packet labelled `some i` has the content (key) of the `i`-th request, a packet
    labelled `none` is a single-filter SUBSCRIBE. For every script, fault sequence and configuration. -/
theorem labels_match_wire (s : Script) :
    All2 (LabKey (appReqs s.evs)) (reqLabels s) (wireKeys (exec s)) :=
  gExec_wire s

/-- Attempts of the application's requests of ALL kinds reach the wire in submission order
    (a retransmission repeats an index). No hypothesis on the script. -/
theorem request_order (s : Script) : (reqAttempts s).Pairwise (· ≤ ·) :=
  gatt_sorted s

/-- The order in which the application's requests (publish, subscribe, unsubscribe) are attempted on
    the wire for the first time is the submission order. -/
theorem first_request_transmission_order (s : Script) : (firsts (reqAttempts s)).Pairwise (· < ·) :=
  firsts_pairwise_lt (gatt_sorted s)

/-- … in terms of the requests themselves: listed in the order of their first transmission they form
    a subsequence of the submitted requests (requests never transmitted — QoS 0 publishes dropped during
    an outage, requests still queued or refused at the end — are left out, nothing is reordered). -/
theorem first_transmissions_subsequence (s : Script) : (firstTransmitted s).Sublist (appReqs s.evs) := by
  have h := filterMap_getElem_sublist (appReqs s.evs) 0 (firsts (reqAttempts s))
    (first_request_transmission_order s) (fun _ _ => Nat.zero_le _)
  simpa [firstTransmitted] using h

/-! ### non-vacuity: all three kinds, faults, three connections (each reached through `.waitElapsed`),
    retransmissions, two dropped QoS 0 publishes, two re-subscription passes of the library -/

def demoAll : Script :=
  { faults := [.ok, .ok, .lostReq, .ok, .ok, .ok, .ok, .lostAck],
    evs := [.start, .dialOk 10, .connackOk false [],
            .app (.sub [sA, sB]), .app (.pub 1 1), .app (.sub [sA]), .app (.pub 2 0), .app (.unsub [[98]]),
            .app (.pub 3 1),
            .waitElapsed, .dialOk 20, .connackOk false [], .app (.sub [sB]), .app (.pub 4 0),
            .waitElapsed, .dialOk 30, .app (.pub 5 2), .connackOk false [], .disconnect, .app (.pub 6 1)] }

/-- request 2 (`sub [sA]`) is lost and retransmitted, so is request 6 (`sub [sB]`, acknowledgement lost,
    retransmitted on the third connection); requests 3 and 7 (QoS 0) are dropped; the three
    `none` are the library's re-subscriptions (`[sA]` on the second connection, `[sA]`, `[sB]` on the third);
    request 9 is refused after Disconnect -/
example : reqLabels demoAll =
    [some 0, some 1, some 2, some 2, some 4, some 5, none, some 6, some 6, some 8, none, none] := by
  decide +kernel
example : wireKeys (exec demoAll) =
    [.sub [sA, sB], .pub 1, .sub [sA], .sub [sA], .unsub [[98]], .pub 3, .sub [sA], .sub [sB], .sub [sB],
     .pub 5, .sub [sA], .sub [sB]] := by decide +kernel
example : firstTransmitted demoAll =
    [.sub [sA, sB], .pub 1 1, .sub [sA], .unsub [[98]], .pub 3 1, .sub [sB], .pub 5 2] := by decide +kernel
example : (exec demoAll).conns.length = 3 := by decide +kernel

/-- Why the origin of a SUBSCRIBE cannot be read off its content: the library re-subscribes `[sA]` (after
    the session was lost) BEFORE the application submits `pub 2` and then its own `sub [sA]`. Identifying
    requests by content would see "`sub [sA]` transmitted before `pub 2`", against the submission order
    (request 1 = `pub 2`, request 2 = `sub [sA]`); the labelling attributes the early packet to the library. -/
def demoAmbiguous : Script :=
  { evs := [.start, .dialOk 10, .connackOk false [], .app (.sub [sB, sA]), .peerClose, .waitElapsed, .dialOk 20,
            .connackOk false [], .app (.pub 2 1), .app (.sub [sA])] }

example : wireKeys (exec demoAmbiguous) = [.sub [sB, sA], .sub [sB], .sub [sA], .pub 2, .sub [sA]] := by
  decide +kernel
example : reqLabels demoAmbiguous = [some 0, none, none, some 1, some 2] := by decide +kernel

/-- in the three runs above (Disconnect in `.backoff`, Disconnect in `.dialGate`, cancelled context) only
    request 0 is ever attempted -/
example : reqLabels demoDiscBackoff = [some 0] := by decide +kernel
example : reqLabels demoDiscDial = [some 0] := by decide +kernel
example : reqLabels demoCancel = [some 0] := by decide +kernel

end Mqtt.C03
