/-
  Property C03 — requests reach the wire in submission order, also when retransmitted.

  Model: `MqttVerif/Model/Retry.lean`; helper lemmas and the invariants: `MqttVerif/Proofs/RetryOrder.lean`.

  * `per_connection_order`, `first_transmission_order`: proved as stated, for all scripts, fault
    sequences and configurations (both follow from the stronger `global_order`).
  * `first_delivery_order`: the statement as given is FALSE OF THE MODEL for an invalid QoS value
    (`.app (.pub m 3)`), see `first_delivery_order_asStated_false`; with the extra hypothesis
    `ValidQos s` (every submitted QoS is ≤ 2) it is proved, and in fact in the stronger form
    `first_delivery_order_strong` (all QoS levels, no assumption on kept sessions).
-/
import MqttVerif.Proofs.RetryOrder

namespace Mqtt.C03
open Mqtt.Retry

/-! ### order on the wire -/

/-- The PUBLISH attempts of the whole run, over all connections in wire order, are non-decreasing
    in the message index (retransmissions repeat a message). -/
theorem global_order (s : Script) (hi : Script.Increasing s) :
    (pubMsgs (allPkts (exec s))).Pairwise (· ≤ ·) :=
  att_sorted s hi

/-- On every connection of the run, PUBLISH attempts of different messages are in submission order
    (retransmissions of one message may repeat it: hence `≤`). -/
theorem per_connection_order (s : Script) (hi : Script.Increasing s) (k : Nat) (c : Conn)
    (hc : (exec s).conns[k]? = some c) : (pubMsgs c.pkts).Pairwise (· ≤ ·) := by
  have hs : (pubMsgs c.pkts).Sublist (att (exec s)) := by
    unfold att allPkts pubMsgs
    apply List.Sublist.filterMap
    rw [List.flatMap_def]
    exact List.sublist_flatten_of_mem (List.mem_map.2 ⟨c, List.mem_of_getElem? hc, rfl⟩)
  exact (att_sorted s hi).sublist hs

/-- The order in which messages are transmitted for the first time (over all connections of the run)
    is the submission order. -/
theorem first_transmission_order (s : Script) (hi : Script.Increasing s) :
    (firsts (pubMsgs (allPkts (exec s)))).Pairwise (· < ·) :=
  firsts_pairwise_lt (att_sorted s hi)

/-! ### order of first deliveries by the broker -/

/-- every submitted QoS is a valid MQTT QoS (the model, like the Go API, accepts any number) -/
def ValidQos (s : Script) : Prop := ∀ m q, Ev.app (.pub m q) ∈ s.evs → q ≤ 2

def connackSps (evs : List Ev) : List Bool :=
  evs.filterMap (fun e => match e with | .connackOk sp _ => some sp | _ => none)

/-- every `.connackOk sp _` event except the first has `sp = true` -/
def SessionsKept (s : Script) : Prop := ∀ sp ∈ (connackSps s.evs).tail, sp = true

/-- the QoS with which message `m` was submitted (0 if it never was) -/
def qosOfMsg (s : Script) (m : Nat) : Nat :=
  ((s.evs.filterMap (fun e => match e with
    | .app (.pub m' q) => if m' = m then some q else none
    | _ => none)).head?).getD 0

/-- Stronger form: when no acknowledgement is swallowed silently and all QoS values are valid, ALL
    onward deliveries of the broker (any QoS, sessions kept or not, re-deliveries included) are in
    submission order. -/
theorem delivery_order (s : Script) (hi : Script.Increasing s) (hv : ValidQos s)
    (hs : Fault.silent ∉ s.faults) : (exec s).broker.delivered.Pairwise (· ≤ ·) :=
  delivered_sorted s hi hs hv

theorem first_delivery_order_strong (s : Script) (hi : Script.Increasing s) (hv : ValidQos s)
    (hs : Fault.silent ∉ s.faults) : (firsts (exec s).broker.delivered).Pairwise (· < ·) :=
  firsts_pairwise_lt (delivered_sorted s hi hs hv)

/-- The statement of the task, with the one additional hypothesis `ValidQos s`. -/
theorem first_delivery_order (s : Script) (hi : Script.Increasing s) (hv : ValidQos s)
    (_hk : SessionsKept s) (hs : Fault.silent ∉ s.faults) :
    (firsts ((exec s).broker.delivered.filter (fun m => qosOfMsg s m ≥ 1))).Pairwise (· < ·) :=
  firsts_pairwise_lt ((delivered_sorted s hi hs hv).sublist List.filter_sublist)

/-- the statement exactly as given in the task (without `ValidQos`) -/
def first_delivery_order_asStated : Prop :=
  ∀ s : Script, Script.Increasing s → SessionsKept s → Fault.silent ∉ s.faults →
    (firsts ((exec s).broker.delivered.filter (fun m => qosOfMsg s m ≥ 1))).Pairwise (· < ·)

/-- Counterexample to the statement as given: message 1 is published with the invalid QoS 3. The
    broker (delivering on PUBREL) stashes it under packet id 1, the client treats the PUBACK-less
    exchange as complete and never sends PUBREL. Message 2 (QoS 1) is delivered. After a reconnect
    whose id counter starts at 0 again, QoS 2 message 3 reuses packet id 1: its PUBLISH is taken for
    a duplicate and its PUBREL releases the stale message 1 — delivered after message 2. -/
def cexQos3 : Script :=
  { method := .onPubrel,
    evs := [.start, .dialOk 0, .connackOk true [], .app (.pub 1 3), .app (.pub 2 1), .peerClose,
            .dialOk 0, .connackOk true [], .app (.pub 3 2)] }

example : (exec cexQos3).broker.delivered = [2, 1] := by decide +kernel

theorem first_delivery_order_asStated_false : ¬ first_delivery_order_asStated := by
  intro h
  have h1 := h cexQos3 (by simp [Script.Increasing, cexQos3])
    (by simp [SessionsKept, connackSps, cexQos3]) (by simp [cexQos3])
  have h2 : firsts ((exec cexQos3).broker.delivered.filter (fun m => qosOfMsg cexQos3 m ≥ 1)) = [2, 1] := by
    decide +kernel
  rw [h2] at h1
  revert h1; decide

/-! ### non-vacuity: a run with faults, three connections, retransmissions, a QoS 2 exchange,
    a dropped QoS 0 message and queued messages -/

def demo : Script :=
  { faults := [.ok, .lostReq, .lostAck, .ok, .ok, .ok, .writeFail],
    evs := [.start, .dialOk 10, .connackOk false [],
            .app (.pub 1 1), .app (.pub 2 1), .app (.pub 3 2), .app (.pub 4 0),
            .dialOk 20, .app (.pub 5 1), .connackOk true [],
            .app (.pub 6 0), .dialOk 30, .connackOk true [], .app (.pub 7 1)] }

example : Script.Increasing demo := by simp [Script.Increasing, demo]
example : ValidQos demo := by simp [ValidQos, demo]; omega
example : SessionsKept demo := by simp [SessionsKept, connackSps, demo]
example : Fault.silent ∉ demo.faults := by simp [demo]
example : (exec demo).conns.map (fun c => pubMsgs c.pkts) = [[1, 2], [2], [2, 3, 5]] := by decide +kernel
example : (exec demo).conns.map (fun c => c.alive) = [false, false, false] := by decide +kernel
example : firsts (pubMsgs (allPkts (exec demo))) = [1, 2, 3, 5] := by decide +kernel
example : (exec demo).retryQ = [.rePublish 5 1, .qPub 7 1] := by decide +kernel
example : (exec demo).broker.delivered = [1, 2, 2, 3] := by decide +kernel
example : firsts ((exec demo).broker.delivered.filter (fun m => qosOfMsg demo m ≥ 1)) = [1, 2, 3] := by
  decide +kernel

end Mqtt.C03
