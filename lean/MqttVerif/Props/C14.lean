/-
  C14 — Topic filters validate and match per MQTT 3.1.1 §4.7; ServeMux dispatches accordingly.
  Property theorems only; helper lemmas live in Proofs/Filter.lean.
  All statements hold for arbitrary byte strings: no bound on length or number of levels.
-/
import MqttVerif.Proofs.Filter

namespace Mqtt.C14

/-! ### Splitting into levels (`strings.Split(s, "/")`) -/

theorem split_eq_levels (s : Bytes) : splitSlash s = Spec.levels s :=
  splitSlash_eq_levels s

theorem split_nonempty (s : Bytes) : splitSlash s ≠ [] :=
  splitSlash_ne_nil s

-- "a//b" has an empty middle level; "" has one empty level; "/" has two.
example : splitSlash [97, 47, 47, 98] = [[97], [], [98]] := by decide
example : splitSlash [] = [[]] := by decide
example : splitSlash [47] = [[], []] := by decide

/-! ### Validation (`newTopicFilter`) -/

/-- A filter is accepted exactly when it is valid per §4.7.1. -/
theorem validate_iff (s : Bytes) : (∃ tf, newTopicFilter s = .ok tf) ↔ Spec.ValidFilter s := by
  constructor
  · rintro ⟨tf, h⟩
    apply Classical.byContradiction
    intro v
    rw [newTopicFilter_invalid v] at h
    cases h
  · intro v
    exact ⟨_, newTopicFilter_valid v⟩

/-- The accepted filter is its level list. -/
theorem validate_levels (s : Bytes) (tf : List Bytes) (h : newTopicFilter s = .ok tf) :
    tf = Spec.levels s := by
  have v : Spec.ValidFilter s := (validate_iff s).1 ⟨tf, h⟩
  rw [newTopicFilter_valid v] at h
  cases h
  rfl

/-- Invalid filters are refused with the single error class `ErrInvalidTopicFilter`; no panic. -/
theorem validate_error (s : Bytes) :
    ¬ Spec.ValidFilter s → newTopicFilter s = .err .invalidTopicFilter :=
  newTopicFilter_invalid

-- "a/+/#" is accepted, with levels ["a", "+", "#"].
example : newTopicFilter [97, 47, 43, 47, 35] = .ok [[97], [43], [35]] := by decide
example : Spec.ValidFilter [97, 47, 43, 47, 35] := by decide
-- "#" and "+" alone, and "/" are accepted.
example : newTopicFilter [35] = .ok [[35]] := by decide
example : newTopicFilter [43] = .ok [[43]] := by decide
example : newTopicFilter [47] = .ok [[], []] := by decide
-- "a+", "#/a", "", "a/#/b", "a/b#" are rejected.
example : newTopicFilter [97, 43] = .err .invalidTopicFilter := by decide
example : newTopicFilter [35, 47, 97] = .err .invalidTopicFilter := by decide
example : newTopicFilter [] = .err .invalidTopicFilter := by decide
example : newTopicFilter [97, 47, 35, 47, 98] = .err .invalidTopicFilter := by decide
example : newTopicFilter [97, 47, 98, 35] = .err .invalidTopicFilter := by decide
example : ¬ Spec.ValidFilter [97, 43] := by decide
example : ¬ Spec.ValidFilter [35, 47, 97] := by decide
example : ¬ Spec.ValidFilter [] := by decide

/-! ### Matching (`topicFilter.Match`) -/

/-- An accepted filter matches a topic name exactly when the level-wise rules say so. -/
theorem match_iff (s : Bytes) (v : Spec.ValidFilter s) (t : Bytes) :
    matchTopic (Spec.levels s) t = true ↔ Spec.Matches (Spec.levels s) (Spec.levels t) := by
  unfold matchTopic
  rw [splitSlash_eq_levels]
  exact matchLevels_iff _ ((validFilter_iff s).1 v).2 _

/-- '+' matches exactly one level (possibly empty) … -/
theorem plus_matches_exactly_one_level (fs ts : List Bytes) (t : Bytes) :
    (Spec.Matches ([43] :: fs) (t :: ts) ↔ Spec.Matches fs ts) ∧ ¬ Spec.Matches ([43] :: fs) [] :=
  ⟨matches_plus_cons fs ts t, not_matches_plus_nil fs⟩

/-- … '#' matches the parent level and every descendant (includes `ts = []`) … -/
theorem hash_matches_parent_and_descendants (ts : List Bytes) : Spec.Matches [[35]] ts :=
  Spec.Matches.hash ts

/-- … and any other level is compared literally. -/
theorem literal_levels_compare (f : Bytes) (hf1 : f ≠ [43]) (hf2 : f ≠ [35])
    (fs ts : List Bytes) (t : Bytes) :
    Spec.Matches (f :: fs) (t :: ts) ↔ (f = t ∧ Spec.Matches fs ts) :=
  matches_lit_cons f hf1 hf2 fs ts t

-- "a/+/#" matches "a//x/y" (empty level for '+', two levels for '#') but not "a".
example : matchTopic [[97], [43], [35]] [97, 47, 47, 120, 47, 121] = true := by decide
example : Spec.Matches (Spec.levels [97, 47, 43, 47, 35]) (Spec.levels [97, 47, 47, 120, 47, 121]) :=
  (match_iff _ (by decide) _).1 (by decide)
example : matchTopic [[97], [43], [35]] [97] = false := by decide
example : ¬ Spec.Matches (Spec.levels [97, 47, 43, 47, 35]) (Spec.levels [97]) :=
  fun m => by
    have := (match_iff _ (by decide) _).2 m
    revert this; decide
-- "a/+/#" matches "a/b" ('#' also matches the parent level).
example : matchTopic [[97], [43], [35]] [97, 47, 98] = true := by decide
-- "a/#" matches "a" (parent), "a/b/c", but not "b" or "ab".
example : matchTopic [[97], [35]] [97] = true := by decide
example : Spec.Matches (Spec.levels [97, 47, 35]) (Spec.levels [97]) :=
  (match_iff _ (by decide) _).1 (by decide)
example : matchTopic [[97], [35]] [97, 47, 98, 47, 99] = true := by decide
example : matchTopic [[97], [35]] [98] = false := by decide
example : matchTopic [[97], [35]] [97, 98] = false := by decide
-- "a/+" matches "a/b" and "a/" but neither "a" nor "a/b/c".
example : matchTopic [[97], [43]] [97, 47, 98] = true := by decide
example : matchTopic [[97], [43]] [97, 47] = true := by decide
example : matchTopic [[97], [43]] [97] = false := by decide
example : matchTopic [[97], [43]] [97, 47, 98, 47, 99] = false := by decide
-- literal "a/b" matches only "a/b".
example : matchTopic [[97], [98]] [97, 47, 98] = true := by decide
example : matchTopic [[97], [98]] [97, 47, 99] = false := by decide
example : matchTopic [[97], [98]] [97, 47, 98, 47] = false := by decide

/-! ### ServeMux -/

/-- `Serve` calls handler `i` (the i-th `Handle` call, 0-based) exactly when its filter is valid
    and matches the topic; invalid filters are refused and never called. -/
theorem mux_called_iff (fs : List Bytes) (topic : Bytes) (i : Nat) :
    i ∈ muxServe (muxRegister fs) topic ↔
      ∃ f, fs[i]? = some f ∧ Spec.ValidFilter f ∧
        Spec.Matches (Spec.levels f) (Spec.levels topic) := by
  unfold muxServe muxRegister
  simp only [List.mem_map, List.mem_filter, mem_muxRegister_go]
  constructor
  · rintro ⟨p, ⟨⟨j, f, hj, hv, rfl⟩, hm⟩, rfl⟩
    refine ⟨f, by simpa using hj, hv, (match_iff f hv topic).1 hm⟩
  · rintro ⟨f, hi, hv, hm⟩
    exact ⟨(i, Spec.levels f), ⟨⟨i, f, hi, hv, by simp⟩, (match_iff f hv topic).2 hm⟩, rfl⟩

/-- Handlers are called in registration order, each at most once. -/
theorem mux_order (fs : List Bytes) (topic : Bytes) :
    (muxServe (muxRegister fs) topic).Pairwise (· < ·) := by
  unfold muxServe muxRegister
  rw [List.pairwise_map]
  exact (muxRegister_go_pairwise fs 0).sublist List.filter_sublist

-- Handlers: 0 "a/#", 1 "a+" (refused), 2 "+/b", 3 "a/b", 4 "c", 5 "#"; topic "a/b".
example :
    muxServe (muxRegister [[97, 47, 35], [97, 43], [43, 47, 98], [97, 47, 98], [99], [35]])
      [97, 47, 98] = [0, 2, 3, 5] := by decide
-- Same handlers, topic "c": only 4 and 5.
example :
    muxServe (muxRegister [[97, 47, 35], [97, 43], [43, 47, 98], [97, 47, 98], [99], [35]])
      [99] = [4, 5] := by decide
-- The same filter registered twice is called twice, in order.
example : muxServe (muxRegister [[35], [35]]) [97] = [0, 1] := by decide

/-! ### a ServeMux used over time (`Handle` and `Serve` interleaved) -/

/-- the filters passed to `Handle` in a list of operations -/
def handlesOf : List MuxOp → List Bytes
  | [] => []
  | .handle f :: rest => f :: handlesOf rest
  | .serve _ :: rest => handlesOf rest

/-- the number of `Serve` calls in a list of operations -/
def servesIn : List MuxOp → Nat
  | [] => 0
  | .handle _ :: rest => servesIn rest
  | .serve _ :: rest => servesIn rest + 1

theorem muxSeq_length (ops : List MuxOp) (fs : List Bytes) : (muxSeq ops fs).length = servesIn ops := by
  induction ops generalizing fs with
  | nil => rfl
  | cons o rest ih => cases o <;> simp [muxSeq, servesIn, ih]

/-- Every `Serve` — wherever it stands in the history — calls exactly the handlers registered BEFORE it
    whose filter matches (so a handler registered after a topic was first served is called for it next time,
    and one registered later is not called earlier). -/
theorem muxSeq_serve (pre post : List MuxOp) (t : Bytes) (fs : List Bytes) :
    (muxSeq (pre ++ .serve t :: post) fs)[servesIn pre]? =
      some (muxServe (muxRegister (fs ++ handlesOf pre)) t) := by
  induction pre generalizing fs with
  | nil => simp [muxSeq, servesIn, handlesOf]
  | cons o rest ih =>
    cases o with
    | handle f => simpa [muxSeq, servesIn, handlesOf, List.append_assoc] using ih (fs ++ [f])
    | serve u => simpa [muxSeq, servesIn, handlesOf] using ih fs

/-- … spelled out with the §4.7 specification -/
theorem muxSeq_called_iff (pre post : List MuxOp) (t : Bytes) (i : Nat) :
    (∃ called, (muxSeq (pre ++ .serve t :: post) [])[servesIn pre]? = some called ∧ i ∈ called) ↔
      ∃ f, (handlesOf pre)[i]? = some f ∧ Spec.ValidFilter f ∧ Spec.Matches (Spec.levels f) (Spec.levels t) := by
  rw [muxSeq_serve]
  simp only [List.nil_append, Option.some.injEq, exists_eq_left']
  exact mux_called_iff (handlesOf pre) t i

-- Serve "a/b", then Handle "a/#", then Serve "a/b" again: the second Serve calls the new handler.
example : muxSeq [.serve [97, 47, 98], .handle [97, 47, 35], .serve [97, 47, 98], .handle [35], .serve [99]] []
    = [[], [0], [1]] := by decide

end Mqtt.C14
