/-
  Property C03, burst submission — pushing a task commutes with running the tasks in front of it.

  Model: `MqttVerif/Model/Retry.lean`; helper lemmas: `MqttVerif/Proofs/RetryBurst.lean`.

  The model makes one task of the RetryClient's task goroutine one atomic step and lets the application act
  only between tasks (`step w (.app r)` = accept, push, run goroutine and reconnect loop to their next
  blocking points). The library lets Publish / Subscribe / Unsubscribe be called while a task is in flight;
  the call only appends to the FIFO `taskQueue` (retryclient.go `pushTask`). The harness's burst mode submits
  consecutive requests back to back and compares with the model's one-at-a-time result. Justification:

  * `runTasks_add`         fuel of `runTasks` = "at most this many more tasks"        (true as stated)
  * `runTask_push_comm`    a running task neither reads nor writes the tail of the task queue
                           (all `Task` constructors, `retryLoop`, `resubLoop`, `send`, `absorb`, …)
  * `runTasks_push_comm`   `n ≤ taskQ.length`: the first `n` tasks run the same with `t` behind them
                           (FALSE without the hypothesis, `runTasks_push_comm_needs_bound`: with fuel left
                            over, the pushed task runs too)
  * `push_any_time`        a request entering after `n` tasks = a request entering before them
  * `fuel_saturates`       fuel beyond `taskQ.length + 1` changes nothing (`progress` gives exactly that)
  * `burst_eq_sequential`  for every world that is not closed and every NON-EMPTY list of requests,
                           one-at-a-time submission = accept and push all, then `progress` once.
                           FULL equality of worlds: no bookkeeping field differs, the loop phase, `waits`
                           and `waitExp` included (the reconnect loop may react between two submissions —
                           `demoLost` —, but a dead connection stays dead and the goroutine does not look at
                           the loop, so an early reaction is the late one: `loop_may_react_early`).
                           For the empty list: equal after `progress` (`burst_eq_sequential_upto`); equal
                           outright iff the world is at a blocking point (`empty_burst_differs`).
  * `any_schedule`         the general form: ANY schedule of submissions, partial runs of the goroutine
                           (any fuel), reactions of the loop, ends after `progress` in the world of
                           accept-all-then-run.
  * `exec_burst_eq`        whole scripts `pre ++ rs.map .app ++ post`: the burst run is `exec s`; hence the
                           C03 theorems (which talk about `exec s`) hold of the burst run:
                           `burst_labels_match_wire`, `burst_per_connection_order`, `burst_global_order`,
                           `burst_delivery_order`, and the wire logs are the same packet for packet
                           (`burst_same_wire`).
-/
import MqttVerif.Proofs.RetryBurst
import MqttVerif.Props.C03

namespace Mqtt.C03.Burst
open Mqtt.Retry

/-! ### 1.–4. the task goroutine and the tail of its queue -/

/-- 1. Fuel is just "at most this many more tasks". -/
theorem runTasks_add (n m : Nat) (w : World) : runTasks (n + m) w = runTasks m (runTasks n w) :=
  Mqtt.Retry.runTasks_add n m w

/-- 2. A task `t0` run on connection `k` neither reads nor writes the tail of the task queue. -/
theorem runTask_push_comm (w : World) (t : Task) (k : Nat) (t0 : Task) :
    runTask (pushTask w t) k t0 = pushTask (runTask w k t0) t :=
  Mqtt.Retry.runTask_push_comm w t k t0

/-- … nor the log of accepted requests, nor the state of the reconnect loop (`phase`, `waits`, `waitExp`). -/
theorem runTask_side_comm (s : Side) (w : World) (k : Nat) (t0 : Task) :
    runTask (s.put w) k t0 = s.put (runTask w k t0) :=
  put_runTask s w k t0

/-- 3. The first `n` queued tasks run the same whether or not `t` is already behind them. -/
theorem runTasks_push_comm (n : Nat) (w : World) (t : Task) (h : n ≤ w.taskQ.length) :
    runTasks n (pushTask w t) = pushTask (runTasks n w) t :=
  Mqtt.Retry.runTasks_push_comm n w t h

/-- 4. A request that enters the queue after the goroutine has processed `n` of the queued tasks gives the same
    result as one that entered before any of them ran. -/
theorem push_any_time (n m : Nat) (w : World) (t : Task) (h : n ≤ w.taskQ.length) :
    runTasks (n + m) (pushTask w t) = runTasks m (pushTask (runTasks n w) t) :=
  Mqtt.Retry.push_any_time n m w t h

/-- The fuel `progress` gives (`taskQ.length + 1`) is enough: more changes nothing. -/
theorem fuel_saturates (n : Nat) (w : World) (h : w.taskQ.length < n) :
    runTasks n w = runTasks (w.taskQ.length + 1) w :=
  runTasks_eq_drain n w h

/-- However far the goroutine has got (any fuel `n`), running it to its blocking point ends in the same world. -/
theorem drain_any_time (n : Nat) (w : World) :
    runTasks ((runTasks n w).taskQ.length + 1) (runTasks n w) = runTasks (w.taskQ.length + 1) w :=
  drain_runTasks n w

/-! ### 5. burst = sequential -/

/-- The reconnect loop may notice the end of its connection before or after the goroutine's run. -/
theorem loop_may_react_early (w : World) : progress (loopReact w) = progress w :=
  progress_loopReact w

/-- 5. One-at-a-time submission equals accepting and pushing all the requests first
    (`acceptAll w rs = { w with accepted := w.accepted ++ rs, taskQ := w.taskQ ++ rs.map .req }`)
    and letting goroutine and loop run afterwards. Equality of WORLDS: nothing differs. -/
theorem burst_eq_sequential (w : World) (hs : w.stopped = false) (rs : List Req) (hne : rs ≠ []) :
    rs.foldl (fun w r => step w (.app r)) w = progress (acceptAll w rs) :=
  Mqtt.Retry.burst_eq_sequential w hs rs hne

/-- … for every list, the empty one included, up to a final `progress` -/
theorem burst_eq_sequential_upto (w : World) (hs : w.stopped = false) (rs : List Req) :
    progress (rs.foldl (fun w r => step w (.app r)) w) = progress (acceptAll w rs) :=
  burst_eq_sequential' w hs rs

/-- … and outright, from a world that is at a blocking point (as the worlds between two events are) -/
theorem burst_eq_sequential_settled (w : World) (hs : w.stopped = false) (hw : progress w = w) (rs : List Req) :
    rs.foldl (fun w r => step w (.app r)) w = progress (acceptAll w rs) :=
  Mqtt.Retry.burst_eq_sequential_settled w hs hw rs

/-- a closed client (after Disconnect) refuses every request of the burst: only the counter moves -/
theorem burst_refused (w : World) (hs : w.stopped = true) (rs : List Req) :
    rs.foldl (fun w r => step w (.app r)) w = { w with rejected := w.rejected + rs.length } :=
  foldl_step_app_stopped rs w hs

/-- The general form. `play acts w` runs a schedule of `.submit r` (accept and push; nothing runs), `.run n`
    (the goroutine runs with fuel `n`), `.react` (the loop reacts), `.settle` (`progress`) in the given order.
    Whatever the schedule, after a final `progress` the world is that of accept-all-then-run. -/
theorem any_schedule (acts : List Act) (w : World) :
    progress (play acts w) = progress (acceptAll w (submitted acts)) :=
  progress_play acts w

/-- two schedules submitting the same requests in the same order cannot be told apart -/
theorem schedules_agree (a b : List Act) (w : World) (h : submitted a = submitted b) :
    progress (play a w) = progress (play b w) := by
  rw [any_schedule, any_schedule, h]

/-! ### whole scripts; 6. the C03 statements hold of the burst run -/

/-- `s.evs = pre ++ (burst).map .app ++ post`, the burst is not empty and starts on a client that is not closed -/
structure IsBurst (s : Script) (pre : List Ev) (acts : List Act) (post : List Ev) : Prop where
  evs : s.evs = pre ++ (submitted acts).map .app ++ post
  nonempty : submitted acts ≠ []
  notClosed : (s.before pre).stopped = false

/-- the run in which the requests of the burst are submitted by the schedule `acts` (e.g. all at once:
    `acts = rs.map .submit`) instead of one at a time -/
def execBurst (s : Script) (pre : List Ev) (acts : List Act) (post : List Ev) : World :=
  post.foldl step (progress (play acts (s.before pre)))

theorem exec_burst_eq {s : Script} {pre post : List Ev} {acts : List Act} (h : IsBurst s pre acts post) :
    execBurst s pre acts post = exec s :=
  (exec_play s pre post _ h.evs h.nonempty h.notClosed acts rfl).symm

/-- the wire logs of the burst run are those of the model's run, connection by connection, packet for packet -/
theorem burst_same_wire {s : Script} {pre post : List Ev} {acts : List Act} (h : IsBurst s pre acts post) :
    (execBurst s pre acts post).conns.map (·.pkts) = (exec s).conns.map (·.pkts) := by
  rw [exec_burst_eq h]

/-- `C03.labels_match_wire` for the burst run -/
theorem burst_labels_match_wire {s : Script} {pre post : List Ev} {acts : List Act} (h : IsBurst s pre acts post) :
    All2 (LabKey (appReqs s.evs)) (reqLabels s) (wireKeys (execBurst s pre acts post)) := by
  rw [exec_burst_eq h]; exact labels_match_wire s

/-- `C03.per_connection_order` for the burst run -/
theorem burst_per_connection_order {s : Script} {pre post : List Ev} {acts : List Act}
    (h : IsBurst s pre acts post) (hi : Script.Increasing s) (k : Nat) (c : Conn)
    (hc : (execBurst s pre acts post).conns[k]? = some c) : (pubMsgs c.pkts).Pairwise (· ≤ ·) := by
  rw [exec_burst_eq h] at hc; exact per_connection_order s hi k c hc

/-- `C03.global_order` / `first_transmission_order` for the burst run -/
theorem burst_global_order {s : Script} {pre post : List Ev} {acts : List Act}
    (h : IsBurst s pre acts post) (hi : Script.Increasing s) :
    (pubMsgs (allPkts (execBurst s pre acts post))).Pairwise (· ≤ ·) ∧
    (firsts (pubMsgs (allPkts (execBurst s pre acts post)))).Pairwise (· < ·) := by
  rw [exec_burst_eq h]; exact ⟨global_order s hi, first_transmission_order s hi⟩

/-- `C03.delivery_order` for the burst run -/
theorem burst_delivery_order {s : Script} {pre post : List Ev} {acts : List Act}
    (h : IsBurst s pre acts post) (hi : Script.Increasing s) (hv : ValidQos s) (hs : Fault.silent ∉ s.faults) :
    (execBurst s pre acts post).broker.delivered.Pairwise (· ≤ ·) := by
  rw [exec_burst_eq h]; exact delivery_order s hi hv hs

/-! ### demos -/

/-- a connected client with three requests in the queue, nothing run yet -/
def w3 : World :=
  acceptAll (exec { evs := [.start, .dialOk 10, .connackOk false []] }) [.pub 1 1, .sub [sA], .pub 2 2]

example : (w3.taskQ.length, w3.phase) = (3, .up 0) ∧ Ready w3 := by decide +kernel

/-- the fields of a world the demos compare (`World` has no decidable equality: all fields that carry state
    of the client, the connections with their packet logs, the broker's logs) -/
def SameObs (a b : World) : Prop :=
  a.conns.map (fun c => (c.pkts, c.alive, c.ctr)) = b.conns.map (fun c => (c.pkts, c.alive, c.ctr)) ∧
  a.taskQ = b.taskQ ∧ a.retryQ = b.retryQ ∧ a.subEst = b.subEst ∧ a.onErrors = b.onErrors ∧
  a.totalTasks = b.totalTasks ∧ a.totalRetries = b.totalRetries ∧ a.gConnected = b.gConnected ∧
  a.closeAfterTask = b.closeAfterTask ∧ a.stuck = b.stuck ∧ a.connReady = b.connReady ∧ a.pid = b.pid ∧
  a.accepted = b.accepted ∧ a.phase = b.phase ∧ a.waits = b.waits ∧ a.waitExp = b.waitExp ∧
  a.broker.delivered = b.broker.delivered ∧ a.broker.acked = b.broker.acked ∧ a.broker.subs = b.broker.subs ∧
  a.faults = b.faults

instance (a b : World) : Decidable (SameObs a b) := by unfold SameObs; infer_instance

/-- 3. with `n = 2 ≤ 3`: the pushed task waits behind the third -/
example : SameObs (runTasks 2 (pushTask w3 (.req (.pub 3 1))))
    (pushTask (runTasks 2 w3) (.req (.pub 3 1))) := by
  decide +kernel
example : (runTasks 2 (pushTask w3 (.req (.pub 3 1)))).taskQ = [.req (.pub 2 2), .req (.pub 3 1)] := by decide +kernel

/-- 3. is FALSE without `n ≤ taskQ.length`: with fuel 4 for 3 queued tasks the pushed task is run too
    (left), whereas pushing after the run leaves it queued (right) -/
theorem runTasks_push_comm_needs_bound :
    ¬ ∀ (n : Nat) (w : World) (t : Task), runTasks n (pushTask w t) = pushTask (runTasks n w) t := by
  intro h
  have := congrArg World.taskQ (h 4 w3 (.req (.pub 3 1)))
  revert this; decide +kernel

example : (runTasks 4 (pushTask w3 (.req (.pub 3 1)))).taskQ = [] ∧
    (pushTask (runTasks 4 w3) (.req (.pub 3 1))).taskQ = [.req (.pub 3 1)] := by decide +kernel

/-- 4. entering after 2 tasks = entering before them -/
example : SameObs (runTasks (2 + 2) (pushTask w3 (.req (.pub 3 1))))
    (runTasks 2 (pushTask (runTasks 2 w3) (.req (.pub 3 1)))) := by decide +kernel

/-- 5. with a fault: the first request of the burst is lost with its connection. Submitted one at a time, the
    reconnect loop reacts (`.backoff`, a wait is requested) BEFORE the second and third request are submitted;
    in the burst run it reacts after all three tasks have run. The final worlds are the same. -/
def upWorld (faults : List Fault) : World :=
  exec { faults := faults, evs := [.start, .dialOk 10, .connackOk false []] }

def burst3 : List Req := [.pub 1 1, .sub [sA], .pub 2 2]

example : (execTrace { faults := [.lostReq],
                       evs := [.start, .dialOk 10, .connackOk false []] ++ burst3.map .app }).map (fun w => (w.phase, w.waits)) =
    [(.dialGate, []), (.connackGate 0, []), (.up 0, []), (.backoff, [0]), (.backoff, [0]), (.backoff, [0])] := by
  decide +kernel
/-- accepted and pushed, nothing run: the loop has not reacted -/
example : ((acceptAll (upWorld [.lostReq]) burst3).phase, (acceptAll (upWorld [.lostReq]) burst3).waits) = (.up 0, []) := by
  decide +kernel
theorem demoLost : SameObs (burst3.foldl (fun w r => step w (.app r)) (upWorld [.lostReq]))
    (progress (acceptAll (upWorld [.lostReq]) burst3)) := by decide +kernel
example : (progress (acceptAll (upWorld [.lostReq]) burst3)).retryQ = [.rePublish 1 1, .qSub [sA], .qPub 2 2] ∧
    (progress (acceptAll (upWorld [.lostReq]) burst3)).phase = .backoff := by decide +kernel

/-- … without faults: all three go out, in order -/
example : SameObs (burst3.foldl (fun w r => step w (.app r)) (upWorld []))
    (progress (acceptAll (upWorld []) burst3)) := by
  decide +kernel
example : wireKeys (progress (acceptAll (upWorld []) burst3)) = [.pub 1, .sub [sA], .pub 2] := by decide +kernel

/-- a schedule in which the second request arrives while the first task is still in the queue, the loop reacts in
    between, the third arrives after the goroutine has run out of work -/
def sched : List Act := [.submit (.pub 1 1), .submit (.sub [sA]), .run 1, .react, .run 5, .submit (.pub 2 2), .run 0]

example : submitted sched = burst3 := by decide +kernel
example : SameObs (progress (play sched (upWorld [.ok, .lostAck])))
    (burst3.foldl (fun w r => step w (.app r)) (upWorld [.ok, .lostAck])) := by decide +kernel

/-- a whole script with a burst in the middle -/
def demoScript : Script :=
  { faults := [.ok, .lostAck],
    evs := [.start, .dialOk 10, .connackOk false []] ++ burst3.map .app ++
           [.waitElapsed, .dialOk 20, .connackOk true [], .app (.pub 3 1)] }

theorem demoScript_isBurst :
    IsBurst demoScript [.start, .dialOk 10, .connackOk false []] sched
      [.waitElapsed, .dialOk 20, .connackOk true [], .app (.pub 3 1)] :=
  ⟨rfl, by decide +kernel, by decide +kernel⟩

example : wireKeys (execBurst demoScript [.start, .dialOk 10, .connackOk false []] sched
      [.waitElapsed, .dialOk 20, .connackOk true [], .app (.pub 3 1)]) =
    [.pub 1, .sub [sA], .sub [sA], .pub 2, .pub 3] := by decide +kernel
example : reqLabels demoScript = [some 0, some 1, some 1, some 2, some 3] := by decide +kernel

/-- the empty burst: `progress` of a world that is not at a blocking point moves it (here: the goroutine's wait
    for its connection is over), the empty fold does not. Hence `rs ≠ []` (or `progress w = w`) in 5. -/
def wUnsettled : World := { goroutine := true, connReady := true }

theorem empty_burst_differs :
    wUnsettled.stopped = false ∧
    ([] : List Req).foldl (fun w r => step w (.app r)) wUnsettled ≠ progress (acceptAll wUnsettled []) := by
  refine ⟨rfl, fun h => ?_⟩
  have := congrArg World.gConnected h
  revert this; decide +kernel

end Mqtt.C03.Burst
