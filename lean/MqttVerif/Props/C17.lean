/-
  C17 — the handler registered on the retrying / reconnecting client, before or after connecting and
  whenever it is replaced, receives the messages arriving on every subsequent connection, including
  the connections created by automatic reconnection; no inbound message is dropped merely because a
  reconnect replaced the underlying connection object.

  All theorems quantify over every script (events, faults, configuration). Helper lemmas and the
  invariant `HInv` are in `MqttVerif/Proofs/RetryHandler.lean`.
-/
import MqttVerif.Proofs.RetryHandler

namespace Mqtt.C17
open Mqtt.Retry

/-- the handler registered last -/
def lastHandle (evs : List Ev) : Option Nat :=
  (evs.filterMap (fun e => match e with | .handle h => some h | _ => none)).getLast?

theorem lastHandle_snoc (evs : List Ev) (e : Ev) :
    lastHandle (evs ++ [e]) = match e with | .handle h => some h | _ => lastHandle evs := by
  unfold lastHandle
  rw [List.filterMap_append]
  cases e <;> simp

theorem exec_handler (s : Script) : (exec s).handler = lastHandle s.evs := by
  obtain ⟨cfg, method, faults, evs⟩ := s
  induction evs using snoc_induction with
  | nil => rfl
  | snoc evs e ih =>
    rw [exec_snoc, step_handler, lastHandle_snoc]
    cases e <;> first | exact ih | rfl

/-- invariant: the current connection object always carries the client's current handler, which is
    the last one registered -/
theorem handler_current (s : Script) :
    (exec s).handler = lastHandle s.evs ∧
    ∀ k, (exec s).cli = some k → (getConn (exec s) k).handler = (exec s).handler :=
  ⟨exec_handler s, fun k hk => ((exec_HInv s).cur k hk).2⟩

/-- while the reconnect loop is on connection `k` (awaiting CONNACK or up), `k` is the client's current
    connection object and it exists -/
theorem phase_current (s : Script) (k : Nat)
    (h : (exec s).phase = .up k ∨ (exec s).phase = .connackGate k) :
    (exec s).cli = some k ∧ k < (exec s).conns.length :=
  ⟨(exec_HInv s).ph k h, ((exec_HInv s).cur k ((exec_HInv s).ph k h)).1⟩

/-- exactly the hand-overs `handOver` prescribes, for every event in every reachable world -/
theorem handled_exact (s : Script) (e : Ev) :
    (step (exec s) e).handled = (exec s).handled ++ handOver (exec s) e :=
  step_handled _ _ (exec_HInv s)

theorem inbound_handed_to_current (s : Script) (m q : Nat) : let w := exec s
    ∀ k, w.phase = .up k → (getConn w k).alive = true →
      (step w (.inbound m q)).handled =
        w.handled ++ (match lastHandle s.evs with | some h => [(k, h, m)] | none => []) := by
  dsimp only
  intro k hph hal
  rw [handled_exact, ← exec_handler]
  simp only [handOver, hph, hal, if_true]
  cases (exec s).handler <;> rfl

/-- messages pushed right behind CONNACK reach the handler although Handle may have been called long
    before this connection object existed -/
theorem inbound_after_connack (s : Script) (sp : Bool) (inb : List (Nat × Nat)) : let w := exec s
    ∀ k, w.phase = .connackGate k → (getConn w k).alive = true →
      (step w (.connackOk sp inb)).handled =
        w.handled ++ (match lastHandle s.evs with
          | some h => inb.map (fun mq => (k, h, mq.1)) | none => []) := by
  dsimp only
  intro k hph hal
  rw [handled_exact, ← exec_handler]
  simp only [handOver, hph, hal, if_true]
  cases (exec s).handler <;> rfl

/-- nothing handed over is ever taken back -/
theorem nothing_dropped (s : Script) (e : Ev) : (exec s).handled <+: (step (exec s) e).handled := by
  rw [handled_exact]; exact List.prefix_append _ _

/-- the hand-overs prescribed for a whole run -/
def handOvers (w : World) : List Ev → List (Nat × Nat × Nat)
  | [] => []
  | e :: es => handOver w e ++ handOvers (step w e) es

theorem foldl_handled (es : List Ev) (w : World) (hi : HInv w) :
    (es.foldl step w).handled = w.handled ++ handOvers w es := by
  induction es generalizing w with
  | nil => simp [handOvers]
  | cons e es ih =>
    rw [List.foldl_cons, ih _ (step_HInv w e hi), step_handled w e hi, handOvers, List.append_assoc]

/-- every inbound message event applied while a connection is up (or right behind its CONNACK) and a
    handler has been registered produces exactly one hand-over, and nothing else does: the log of
    hand-overs of a run is exactly the prescribed one -/
theorem nothing_dropped_exact (s : Script) : (exec s).handled = handOvers (init s) s.evs := by
  have := foldl_handled s.evs (init s) (HInv_init s)
  simpa [exec, init] using this

/-- the count form: for every message `m`, as many hand-overs as prescribed -/
theorem nothing_dropped_count (s : Script) (m : Nat) :
    (exec s).handled.countP (fun x => x.2.2 = m) = (handOvers (init s) s.evs).countP (fun x => x.2.2 = m) := by
  rw [nothing_dropped_exact]

/-- what `handOver` prescribes for an applicable inbound message: exactly one hand-over -/
theorem handOver_inbound (w : World) (k h m q : Nat) (hp : w.phase = .up k) (ha : (getConn w k).alive = true)
    (hh : w.handler = some h) : handOver w (.inbound m q) = [(k, h, m)] := by
  simp [handOver, hp, ha, hh]

/-! ### non-vacuity: handler registered before Connect, two connections (the first one lost through a
    lost PUBACK; the loop backs off and redials when the timer fires), messages right behind both
    CONNACKs, the handler replaced while up -/

def demo : Script :=
  { faults := [.lostAck],
    evs := [.handle 7, .start, .dialOk 0, .connackOk false [(5, 1)], .app (.pub 0 1),
            .waitElapsed, .dialOk 10, .connackOk true [(6, 0), (8, 1)], .inbound 9 0, .handle 3, .inbound 10 1] }

example : (exec demo).handled = [(0, 7, 5), (1, 7, 6), (1, 7, 8), (1, 7, 9), (1, 3, 10)] := by decide
example : (exec demo).conns.length = 2 ∧ (exec demo).phase = .up 1 ∧ (exec demo).handler = some 3 ∧
    (getConn (exec demo) 0).alive = false ∧ (exec demo).broker.acked = [.pub 0 1] ∧
    (exec demo).dials = 2 ∧ (exec demo).waits = [0] := by decide
example : lastHandle demo.evs = some 3 := by decide

/-- the handler is replaced while the loop is backing off (no connection object is current in the
    loop's eyes): the connection dialled after the timer carries the new handler -/
example : let s : Script := { demo with
      evs := [.handle 7, .start, .dialOk 0, .connackOk false [(5, 1)], .app (.pub 0 1),
              .handle 3, .inbound 4 0, .waitElapsed, .handle 2, .dialOk 10, .connackOk true [(6, 0)], .inbound 9 0] }
    (exec s).handled = [(0, 7, 5), (1, 2, 6), (1, 2, 9)] ∧ (getConn (exec s) 1).handler = some 2 := by decide

/-- Disconnect while the loop is backing off: the loop exits, there is no further connection, nothing
    more is (or could be) handed over -/
example : let s : Script := { demo with
      evs := [.handle 7, .start, .dialOk 0, .connackOk false [(5, 1)], .app (.pub 0 1),
              .disconnect, .waitElapsed, .dialOk 10, .connackOk true [(6, 0)], .inbound 9 0] }
    (exec s).handled = [(0, 7, 5)] ∧ (exec s).phase = .exited ∧ (exec s).conns.length = 1 := by decide

/-- Disconnect while DialContext is in flight, the dial then succeeds: the connection object is created
    with the registered handler, and the messages the broker pushes right behind its CONNACK are handed
    to that handler before the queued Disconnect task closes the connection -/
example : let s : Script :=
      { evs := [.handle 7, .start, .disconnect, .dialOk 0, .connackOk false [(5, 1)], .inbound 6 0] }
    (exec s).handled = [(0, 7, 5)] ∧ (exec s).phase = .exited ∧ (getConn (exec s) 0).handler = some 7 ∧
    (getConn (exec s) 0).alive = false := by decide

/-- the context given to Connect is cancelled while the CONNACK is outstanding: the connection is
    closed, Connect returns the error, the late CONNACK (with its messages) is not served -/
example : let s : Script :=
      { evs := [.handle 7, .start, .dialOk 0, .cancelCtx, .connackOk false [(5, 1)], .inbound 6 0] }
    (exec s).handled = [] ∧ (exec s).phase = .exited ∧ (exec s).connectErr = true ∧
    (getConn (exec s) 0).alive = false := by decide

/-- cancelled once Connect has returned: no effect, the handler keeps following the reconnects -/
example : (exec { demo with evs := [.handle 7, .start, .dialOk 0, .connackOk false [(5, 1)], .cancelCtx, .app (.pub 0 1),
            .cancelCtx, .waitElapsed, .dialOk 10, .connackOk true [(6, 0), (8, 1)], .inbound 9 0, .handle 3, .inbound 10 1] }).handled
    = (exec demo).handled := by decide

/-! ### a dialer that ignores its context (`Cfg.deafDialer`, e.g. `NoContextDialer`)

  All theorems above hold for every configuration, `deafDialer = true` included; none of their statements
  had to change. What is new with such a dialer: a transport can arrive after the context of the first
  Connect was cancelled. The connection object created for it is the client's current one and carries the
  registered handler (`handler_current`, as for every connection), but it is closed from the start and the
  reconnect loop is gone: no event can hand anything over on it (`handOver` is `[]` outside `.up` /
  `.connackGate`, `handled_exact`). -/

/-- a dial result never hands anything over by itself, late or not -/
theorem dial_hands_over_nothing (s : Script) (i : Nat) :
    (step (exec s) (.dialOk i)).handled = (exec s).handled ∧
    (step (exec s) .dialFail).handled = (exec s).handled := by
  rw [handled_exact, handled_exact]; simp [handOver]

/-- once the loop has exited nothing is handed over any more, whatever connection object is current -/
theorem exited_hands_over_nothing (s : Script) (e : Ev) (h : (exec s).phase = .exited) :
    (step (exec s) e).handled = (exec s).handled := by
  rw [handled_exact]
  cases e <;> simp [handOver, h]

/-- cancellation during the first dial, then the transport arrives: one connection object with the
    registered handler, carrying CONNECT only, closed; the loop has exited, Connect returned the context's
    error; a CONNACK or a message arriving afterwards is not served -/
example : let s : Script :=
      { cfg := { deafDialer := true },
        evs := [.handle 7, .start, .cancelCtx, .dialOk 0, .connackOk false [(5, 1)], .inbound 6 0] }
    (exec s).handled = [] ∧ (exec s).phase = .exited ∧ (exec s).connectErr = true ∧
    (exec s).connectReturned = none ∧ (exec s).cli = some 0 ∧ (exec s).conns.length = 1 ∧
    (getConn (exec s) 0).handler = some 7 ∧ (getConn (exec s) 0).alive = false ∧
    (getConn (exec s) 0).pkts = [(.connect, .sent .ok)] ∧ (exec s).dials = 1 ∧ (exec s).waits = [] := by decide

/-- … and Handle afterwards still reaches that (current) connection object -/
example : let s : Script :=
      { cfg := { deafDialer := true }, evs := [.handle 7, .start, .cancelCtx, .dialOk 0, .handle 3] }
    (getConn (exec s) 0).handler = some 3 ∧ (exec s).handler = some 3 := by decide

/-- the same with a failing dial: no connection object, the loop has exited without backing off -/
example : let s : Script :=
      { cfg := { deafDialer := true },
        evs := [.handle 7, .start, .cancelCtx, .dialFail, .waitElapsed, .dialOk 0, .inbound 6 0] }
    (exec s).handled = [] ∧ (exec s).phase = .exited ∧ (exec s).connectErr = true ∧
    (exec s).conns.length = 0 ∧ (exec s).cli = none ∧ (exec s).dials = 1 ∧ (exec s).waits = [] := by decide

/-- with a dialer that honours its context the same events end at the cancellation: the late transport
    is ignored -/
example : let s : Script := { evs := [.handle 7, .start, .cancelCtx, .dialOk 0] }
    (exec s).phase = .exited ∧ (exec s).connectErr = true ∧ (exec s).conns.length = 0 := by decide

end Mqtt.C17
