/-
  C09 (reconnect lifecycle) — the reconnect loop of `Model/Retry.lean`, for all scripts:
    (1) never two transports open at once,
    (2) every connection's packet log begins with exactly one CONNECT,
    (3) the logged back-off exponents are the numbers of consecutive failures since the last
        accepted CONNACK (so, with C09a, the real waits are `Backoff.run base max attempts`),
    (4) after Disconnect, in every phase: no new dial and no new connection (the Connect in progress
        may finish); only Disconnect BEFORE Connect (`.idle`) still allows the one dial the Go loop
        makes before it first looks at `disconnected`.
  Helper lemmas: `MqttVerif/Proofs/RetryLoop.lean`.
-/
import MqttVerif.Proofs.RetryLoop
import MqttVerif.Props.C09a

namespace Mqtt.C09
open Mqtt.Retry Mqtt.Backoff

/-! ### (1) one live transport -/

/-- (1) one live transport: all connections except possibly the last one are dead, and the last one
    is dead whenever the loop is at the dial gate -/
theorem one_transport (s : Script) : let w := exec s
    (∀ k, k + 1 < w.conns.length → (getConn w k).alive = false) ∧
    (w.phase = .dialGate → ∀ k, k < w.conns.length → (getConn w k).alive = false) :=
  ⟨(TInv.exec s).1, (TInv.exec s).2.1⟩

/-- the loop always watches the LAST connection; before `Connect` there is none -/
theorem loop_watches_last (s : Script) : let w := exec s
    (w.phase = .idle → w.conns = []) ∧
    (∀ k, (w.phase = .connackGate k ∨ w.phase = .up k) → k + 1 = w.conns.length) :=
  ⟨fun h => List.eq_nil_of_length_eq_zero ((TInv.exec s).2.2.1 h), (TInv.exec s).2.2.2⟩

/-- hence a new transport is only ever created when no other is open -/
theorem dial_only_when_all_closed (s : Script) (i : Nat) : let w := exec s
    (step w (.dialOk i)).conns.length = w.conns.length + 1 →
      ∀ k, k < w.conns.length → (getConn w k).alive = false := by
  intro w hlen
  by_cases hp : w.phase = .dialGate
  · exact (one_transport s).2 hp
  · have : step w (.dialOk i) = w := by simp [step, hp]
    rw [this] at hlen
    omega

/-! ### (2) CONNECT first and once -/

/-- (2) every connection begins with exactly one CONNECT -/
theorem connect_first_and_once (s : Script) (k : Nat) (c : Conn) (h : (exec s).conns[k]? = some c) :
    c.pkts.head? = some (.connect, .sent .ok) ∧ (c.pkts.filter (fun pw => pw.1 == .connect)).length = 1 :=
  CInv.exec s k c h

/-! ### (3) the waits -/

/-- the exponent in force after a sequence of attempts (companion of `consecutive`) -/
def expAfter : Nat → List Attempt → Nat
  | k, [] => k
  | k, .failed :: rest => expAfter (k + 1) rest
  | _, .established :: rest => expAfter 1 rest

theorem consecutive_snoc_failed (k : Nat) (as : List Attempt) :
    consecutive k (as ++ [.failed]) = consecutive k as ++ [expAfter k as] := by
  induction as generalizing k with
  | nil => simp [consecutive, expAfter]
  | cons a as ih => cases a <;> simp [consecutive, expAfter, ih]

theorem consecutive_snoc_established (k : Nat) (as : List Attempt) :
    consecutive k (as ++ [.established]) = consecutive k as ++ [0] := by
  induction as generalizing k with
  | nil => simp [consecutive]
  | cons a as ih => cases a <;> simp [consecutive, ih]

theorem expAfter_snoc_failed (k : Nat) (as : List Attempt) :
    expAfter k (as ++ [.failed]) = expAfter k as + 1 := by
  induction as generalizing k with
  | nil => simp [expAfter]
  | cons a as ih => cases a <;> simp [expAfter, ih]

theorem expAfter_snoc_established (k : Nat) (as : List Attempt) :
    expAfter k (as ++ [.established]) = 1 := by
  induction as generalizing k with
  | nil => simp [expAfter]
  | cons a as ih => cases a <;> simp [expAfter, ih]

/-- the wait log is `consecutive 0 attempts` and the exponent in force is the one `consecutive`
    would use next (`expAfter`), or 0 right after an accepted CONNACK -/
def WInv (ws : List Nat) (e : Nat) : Prop :=
  ∃ as : List Attempt, ws = consecutive 0 as ∧ (e = expAfter 0 as ∨ e = 0)

theorem WInv.bump {ws : List Nat} {e : Nat} (h : WInv ws e) : WInv (ws ++ [e]) (e + 1) := by
  obtain ⟨as, hw, he | he⟩ := h
  · exact ⟨as ++ [.failed], by rw [consecutive_snoc_failed, hw, he],
      Or.inl (by rw [expAfter_snoc_failed, he])⟩
  · exact ⟨as ++ [.established], by rw [consecutive_snoc_established, hw, he],
      Or.inl (by rw [expAfter_snoc_established, he])⟩

theorem WInv.reset {ws : List Nat} {e : Nat} (h : WInv ws e) : WInv ws 0 := by
  obtain ⟨as, hw, _⟩ := h
  exact ⟨as, hw, Or.inr rfl⟩

theorem WInv.exec (s : Script) : WInv (exec s).waits (exec s).waitExp := by
  refine exec_inv (fun w => WInv w.waits w.waitExp) ?_ ?_ s
  · intro s; exact ⟨[], rfl, Or.inl rfl⟩
  · intro w ev h
    rcases shape_waits (step_shape w ev) with ⟨a, b⟩ | ⟨a, b⟩ | ⟨a, b⟩ | ⟨a, b⟩
    · rw [a, b]; exact h
    · rw [a, b]; exact h.bump
    · rw [a, b]; exact h.reset
    · rw [a, b]; exact h.reset.bump

/-- (3) the waits: the j-th logged wait exponent is the number of consecutive failures since the last
    accepted CONNACK -/
theorem waits_are_consecutive_failures (s : Script) : ∃ attempts : List Backoff.Attempt,
    (exec s).waits = C09.consecutive 0 attempts := by
  obtain ⟨as, h, _⟩ := WInv.exec s
  exact ⟨as, h⟩

/-- the same with the exponent in force: the NEXT wait will use `expAfter 0 attempts`, or 0 when a
    CONNACK has just been accepted -/
theorem waits_and_next_exponent (s : Script) : ∃ attempts : List Backoff.Attempt,
    (exec s).waits = C09.consecutive 0 attempts ∧
      ((exec s).waitExp = expAfter 0 attempts ∨ (exec s).waitExp = 0) :=
  WInv.exec s

/-- with C09a: the real waits of any run are those of the back-off arithmetic `Backoff.run`, hence
    each is at least `min base max` -/
theorem waits_follow_backoff (s : Script) (base max : Nat) : ∃ attempts : List Backoff.Attempt,
    (exec s).waits.map (waitAfter base max) = Backoff.run base max attempts := by
  obtain ⟨as, h⟩ := waits_are_consecutive_failures s
  exact ⟨as, by rw [h, run_spec]⟩

theorem waits_ge_base (s : Script) (base max : Nat) :
    ∀ e ∈ (exec s).waits, waitAfter base max e ≥ min base max :=
  fun e _ => waitAfter_ge_base base max e

/-- one step of the loop: a wait is logged with the exponent in force, which then grows by one;
    an accepted CONNACK resets it (the four possibilities of `shape_waits`) -/
theorem step_waits (w : World) (ev : Ev) : let w' := step w ev
    (w'.waits = w.waits ∧ w'.waitExp = w.waitExp) ∨
    (w'.waits = w.waits ++ [w.waitExp] ∧ w'.waitExp = w.waitExp + 1) ∨
    (w'.waits = w.waits ∧ w'.waitExp = 0) ∨
    (w'.waits = w.waits ++ [0] ∧ w'.waitExp = 1) :=
  shape_waits (step_shape w ev)

/-- the loop dials again, after a wait, as soon as the connection it watches has ended -/
theorem redials_after_loss (w : World) (k : Nat) (h : w.phase = .up k) (hd : (getConn w k).alive = false)
    (hs : w.stopped = false) :
    (loopReact w).phase = .dialGate ∧ (loopReact w).dials = w.dials + 1 ∧
      (loopReact w).waits = w.waits ++ [w.waitExp] := by
  simp [loopReact, h, hd, hs]

/-- over whole runs: the loop is never found resting in `.up k` on a connection that has ended — by
    then it has already reacted (`redials_after_loss`, or exited if Disconnect was called) -/
theorem up_means_alive (s : Script) (k : Nat) (h : (exec s).phase = .up k) :
    (getConn (exec s) k).alive = true :=
  UInv.exec s k h

/-! ### (4) Disconnect -/

/-- Disconnect on a running client: `stopped` is set and the loop exits from `.up` / `.dialGate` -/
theorem disconnect_stops (s : Script) : let w := exec s
    w.stopped = false → (step w .disconnect).stopped = true ∧
      (w.phase = .up k ∨ w.phase = .dialGate → (step w .disconnect).phase = .exited) := by
  intro w hs
  obtain ⟨h1, h2, _, _⟩ := disconnect_spec w hs
  refine ⟨h1, ?_⟩
  rintro (h | h) <;> rw [h2, h] <;> rfl

/-- Disconnect in every phase (any world): it creates no connection and starts no dial; the loop
    exits from `.up` / `.dialGate`, and stays where it is in `.idle` / `.connackGate` / `.exited` -/
theorem disconnect_every_phase (w : World) (hs : w.stopped = false) : let w' := step w .disconnect
    w'.stopped = true ∧ w'.dials = w.dials ∧ w'.conns.length = w.conns.length ∧
    ((w.phase = .dialGate ∨ ∃ k, w.phase = .up k) → w'.phase = .exited) ∧
    ((w.phase = .idle ∨ w.phase = .exited ∨ ∃ k, w.phase = .connackGate k) → w'.phase = w.phase) := by
  obtain ⟨h1, h2, h3, h4⟩ := disconnect_spec w hs
  refine ⟨h1, h3, h4, ?_, ?_⟩
  · rintro (h | ⟨k, h⟩) <;> rw [h2, h] <;> rfl
  · rintro (h | h | ⟨k, h⟩) <;> rw [h2, h] <;> rfl

/-- a second Disconnect does nothing -/
theorem disconnect_idempotent (w : World) (hs : w.stopped = true) : step w .disconnect = w := by
  simp [step, hs]

/-- once the loop has exited it never dials again and creates no connection, whatever happens -/
theorem no_dial_after_exit (w : World) (evs' : List Ev) (h : w.phase = .exited) :
    (evs'.foldl step w).phase = .exited ∧ (evs'.foldl step w).dials = w.dials ∧
      (evs'.foldl step w).conns.length = w.conns.length :=
  exited_foldl evs' w h

/-- The general statement, for ANY stopped world and ANY later events: `stopped` stays, and the loop
    makes at most `dialBudget phase` more dials and at most `connBudget phase` more connections, where
      dialBudget = 1 in `.idle`, 0 otherwise;  connBudget = 1 in `.idle` / `.dialGate`, 0 otherwise. -/
theorem stopped_budget (w : World) (evs' : List Ev) (hs : w.stopped = true) : let w' := evs'.foldl step w
    w'.stopped = true ∧
    w.dials ≤ w'.dials ∧ w'.dials ≤ w.dials + dialBudget w.phase ∧
    w.conns.length ≤ w'.conns.length ∧ w'.conns.length ≤ w.conns.length + connBudget w.phase := by
  obtain ⟨h1, h2, h3, h4, h5⟩ := stopped_foldl evs' w hs
  exact ⟨h1, h2, by omega, h3, by omega⟩

/-- (4) after Disconnect the loop never dials again: in every phase but `.idle`, for all later events
    (refused / absent / accepted CONNACKs, dial results, peer closes, …), `dials` stays; the number of
    connections stays too, except that a stopped loop standing at the dial gate (reachable only by
    Disconnect-before-Connect, see `stopped_budget`) may still get the transport of the dial in flight.
    This is the original statement with `.idle` removed, `.up` and `.dialGate` added and no
    restriction on `evs'`. -/
theorem no_dial_after_disconnect (s : Script) (evs' : List Ev) : let w := exec s
    w.stopped = true → w.phase ≠ .idle →
      (evs'.foldl step w).dials = w.dials ∧
      (w.phase ≠ .dialGate → (evs'.foldl step w).conns.length = w.conns.length) ∧
      w.conns.length ≤ (evs'.foldl step w).conns.length ∧
      (evs'.foldl step w).conns.length ≤ w.conns.length + 1 := by
  intro w hs hp
  obtain ⟨_, h2, h3, h4, h5⟩ := stopped_budget w evs' hs
  have hd : dialBudget w.phase = 0 := by
    cases hph : w.phase <;> first | rfl | exact absurd hph hp
  have hc : connBudget w.phase ≤ 1 := by cases w.phase <;> simp [connBudget]
  refine ⟨by omega, ?_, h4, by omega⟩
  intro hng
  have hc0 : connBudget w.phase = 0 := by
    cases hph : w.phase <;> first | rfl | exact absurd hph hp | exact absurd hph hng
  omega

/-- the same in the phases named in the task (`.exited`, `.connackGate k`) and `.up k`: plain equality,
    no hypothesis on the later events -/
theorem no_dial_while_stopped (w : World) (evs' : List Ev) (hs : w.stopped = true)
    (hp : w.phase = .exited ∨ ∃ k, w.phase = .connackGate k ∨ w.phase = .up k) : let w' := evs'.foldl step w
    w'.stopped = true ∧ w'.dials = w.dials ∧ w'.conns.length = w.conns.length := by
  obtain ⟨h1, h2, h3, h4, h5⟩ := stopped_budget w evs' hs
  have hb : dialBudget w.phase = 0 ∧ connBudget w.phase = 0 := by
    rcases hp with h | ⟨k, h | h⟩ <;> rw [h] <;> exact ⟨rfl, rfl⟩
  exact ⟨h1, by omega, by omega⟩

/-- Disconnect on a running client in ANY phase other than `.idle` (connected, dialling, waiting for
    CONNACK, already exited), then ANY events: never another dial, never another connection.
    Holds for every world, reachable or not. -/
theorem disconnect_then_no_dial (w : World) (evs' : List Ev) (hs : w.stopped = false) (hp : w.phase ≠ .idle) :
    (evs'.foldl step (step w .disconnect)).dials = w.dials ∧
    (evs'.foldl step (step w .disconnect)).conns.length = w.conns.length := by
  obtain ⟨h1, h2, h3, h4⟩ := disconnect_spec w hs
  obtain ⟨_, b2, b3, b4, b5⟩ := stopped_budget (step w .disconnect) evs' h1
  have hb : dialBudget (step w .disconnect).phase = 0 ∧ connBudget (step w .disconnect).phase = 0 := by
    rw [h2]
    cases hph : w.phase <;> first | exact ⟨rfl, rfl⟩ | exact absurd hph hp
  omega

/-- … in particular along any run -/
theorem disconnect_then_no_dial_exec (s : Script) (evs' : List Ev) : let w := exec s
    w.stopped = false → w.phase ≠ .idle →
      (evs'.foldl step (step w .disconnect)).dials = w.dials ∧
      (evs'.foldl step (step w .disconnect)).conns.length = w.conns.length :=
  fun hs hp => disconnect_then_no_dial _ evs' hs hp

/-- Disconnect before `Connect` (phase `.idle`): nothing happens until the application calls Connect … -/
theorem no_dial_while_idle (w : World) (evs' : List Ev) (h : w.phase = .idle) (hev : ∀ e ∈ evs', e ≠ .start) :
    (evs'.foldl step w).phase = .idle ∧ (evs'.foldl step w).dials = w.dials ∧
      (evs'.foldl step w).conns.length = w.conns.length :=
  idle_foldl evs' hev w h

/-- … and if it does call Connect afterwards, the model (like the Go loop, whose first action is
    `DialContext`) makes exactly that one dial attempt: at most one dial, at most one connection, ever.
    (Out of scope of C09, recorded for completeness; see `demoIdle*` below for what then happens:
    a dial error or any CONNACK outcome ends the loop.) -/
theorem disconnect_before_connect (w : World) (evs' : List Ev) (hs : w.stopped = false) (hp : w.phase = .idle) :
    (evs'.foldl step (step w .disconnect)).dials ≤ w.dials + 1 ∧
    (evs'.foldl step (step w .disconnect)).conns.length ≤ w.conns.length + 1 := by
  obtain ⟨h1, h2, h3, h4⟩ := disconnect_spec w hs
  obtain ⟨_, b2, b3, b4, b5⟩ := stopped_budget (step w .disconnect) evs' h1
  have hb : dialBudget (step w .disconnect).phase = 1 ∧ connBudget (step w .disconnect).phase = 1 := by
    rw [h2, hp]; exact ⟨rfl, rfl⟩
  omega

/-! ### non-vacuity -/

/-- two dial failures, a refused CONNACK, an accepted one, a QoS 1 publish, a peer close, another dial
    failure, an accepted CONNACK, a publish whose PUBACK is lost with the connection, a reconnect
    that retransmits it -/
def demo : Script :=
  { faults := [.ok, .lostAck, .ok],
    evs := [.start, .dialFail, .dialFail, .dialOk 0, .connackRefused, .dialOk 5, .connackOk false [],
            .app (.pub 1 1), .peerClose, .dialFail, .dialOk 7, .connackOk true [], .app (.pub 2 1),
            .dialOk 9, .connackOk true []] }

example : (exec demo).waits = [0, 1, 2, 0, 1, 0] := by decide
example : (exec demo).waits = consecutive 0 [.failed, .failed, .failed, .established, .failed, .established] := by
  decide
example : (exec demo).waits.map (waitAfter 4 10) = [4, 8, 10, 4, 8, 4] := by decide
example : (exec demo).dials = 7 ∧ (exec demo).waitExp = 0 ∧ (exec demo).phase = .up 3 := by decide
example : (exec demo).conns.map (·.alive) = [false, false, false, true] := by decide
example : (exec demo).conns.map (·.pkts.head?) =
    [some (.connect, .sent .ok), some (.connect, .sent .ok), some (.connect, .sent .ok), some (.connect, .sent .ok)] := by
  decide
example : (exec demo).conns.map (·.pkts.length) = [1, 2, 2, 2] := by decide
example : (exec demo).conns.map (fun c => (c.pkts.filter (fun pw => pw.1 == .connect)).length) = [1, 1, 1, 1] := by
  decide
-- `dial_only_when_all_closed` is not vacuous: after the peer close a dial does create a connection
example : let w := exec { demo with evs := demo.evs.take 9 }
    w.phase = .dialGate ∧ (step w (.dialOk 3)).conns.length = w.conns.length + 1 := by decide

/-- Disconnect while connected: the loop exits, DISCONNECT is the last packet, later events change nothing -/
def demoDisc : Script :=
  { evs := [.start, .dialOk 0, .connackOk false [], .app (.pub 1 1), .disconnect,
            .peerClose, .dialOk 1, .dialFail, .connackRefused, .start, .app (.pub 2 1)] }

example : (exec demoDisc).phase = .exited ∧ (exec demoDisc).stopped = true ∧ (exec demoDisc).dials = 1 ∧
    (exec demoDisc).conns.length = 1 ∧ (exec demoDisc).rejected = 1 := by decide
example : (exec demoDisc).conns.map (·.pkts.getLast?) = [some (.disconnect, .sent .ok)] := by decide

/-- Disconnect while the CONNACK is pending, which then arrives and is accepted: the connection is
    established, the queued Disconnect task closes it at once, the loop exits — no further dial -/
def demoDiscGate : Script := { evs := [.start, .dialOk 0, .disconnect, .connackOk false [], .dialOk 1, .dialFail] }

example : let w := exec { demoDiscGate with evs := demoDiscGate.evs.take 3 }
    w.stopped = true ∧ w.phase = .connackGate 0 ∧ w.dials = 1 := by decide
example : (exec demoDiscGate).phase = .exited ∧ (exec demoDiscGate).dials = 1 ∧
    (exec demoDiscGate).conns.map (·.alive) = [false] := by decide

/-! ### Disconnect while the CONNACK is pending, which is then refused (the former counterexamples)

  Before the model was refined (`connectFailed`, `.dialFail`, `.connackOk` now observe `stopped`, as the
  `select` on `c.disconnected` in reconnclient.go does) these scripts ended with two dials / two
  connections, resp. with a stopped client connected for good. Now the loop exits. -/

def demoDiscGateRefused : Script := { evs := [.start, .dialOk 0, .disconnect, .connackRefused, .dialOk 0] }

example : let w := exec { demoDiscGateRefused with evs := demoDiscGateRefused.evs.take 3 }
    w.stopped = true ∧ w.phase = .connackGate 0 ∧ w.dials = 1 ∧ w.conns.length = 1 := by decide
example : (exec demoDiscGateRefused).stopped = true ∧ (exec demoDiscGateRefused).dials = 1 ∧
    (exec demoDiscGateRefused).conns.map (·.alive) = [false] ∧ (exec demoDiscGateRefused).waits = [] ∧
    (exec demoDiscGateRefused).phase = .exited := by decide

def demoDiscGateLong : Script :=
  { evs := [.start, .dialOk 0, .disconnect, .connackNever, .dialFail, .dialFail, .dialOk 0, .connackOk false []] }

example : (exec demoDiscGateLong).stopped = true ∧ (exec demoDiscGateLong).phase = .exited ∧
    (exec demoDiscGateLong).dials = 1 ∧ (exec demoDiscGateLong).conns.map (·.alive) = [false] ∧
    (exec demoDiscGateLong).taskQ = [] := by decide

/-! ### Disconnect before Connect (`.idle`, out of scope): one dial, then the loop exits -/

def demoIdleFail : Script := { evs := [.disconnect, .start, .dialFail, .dialFail, .dialOk 0] }

example : let w := exec { demoIdleFail with evs := demoIdleFail.evs.take 1 }
    w.stopped = true ∧ w.phase = .idle ∧ w.dials = 0 := by decide
example : (exec demoIdleFail).stopped = true ∧ (exec demoIdleFail).dials = 1 ∧
    (exec demoIdleFail).conns.length = 0 ∧ (exec demoIdleFail).phase = .exited := by decide

def demoIdleOk : Script := { evs := [.disconnect, .start, .dialOk 0, .connackOk false [], .dialOk 1, .dialFail] }

example : (exec demoIdleOk).stopped = true ∧ (exec demoIdleOk).dials = 1 ∧
    (exec demoIdleOk).conns.map (·.alive) = [false] ∧ (exec demoIdleOk).phase = .exited := by decide
/-- so the original statement of `no_dial_after_disconnect` stays false for `.idle` (and only there) -/
example : ¬ (∀ (s : Script) (evs' : List Ev), let w := exec s
    w.stopped = true → (w.phase = .exited ∨ w.phase = .idle ∨ ∃ k, w.phase = .connackGate k) →
      (evs'.foldl step w).dials = w.dials ∧ (evs'.foldl step w).conns.length = w.conns.length) := by
  intro h
  have := h { evs := [.disconnect] } [.start] (by decide) (Or.inr (Or.inl (by decide)))
  revert this
  decide

end Mqtt.C09
