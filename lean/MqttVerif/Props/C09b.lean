/-
  C09 (reconnect lifecycle) — the reconnect loop of `Model/Retry.lean`, for all scripts:
    (1) never two transports open at once,
    (2) every connection's packet log begins with exactly one CONNECT,
    (3) the logged back-off exponents are the numbers of consecutive failures since the last
        accepted CONNACK (so, with C09a, the real waits are `Backoff.run base max attempts`),
    (4) what happens after Disconnect, phase by phase — including the two phases in which the MODEL
        still dials afterwards (counterexamples at the end of the file).
  Helper lemmas: `MqttVerif/Proofs/RetryLoop.lean`.
-/
import MqttVerif.Proofs.RetryLoop
import MqttVerif.Props.C09a

namespace Mqtt.C09
open Mqtt.Retry Mqtt.Backoff

/-! ### (1) one live transport -/

/-- (1) one live transport: all connections except possibly the last one are dead, and the last one
    is dead whenever the loop is at the dial gate -/
theorem one_transport (s : Script) : let w := exec s
    (∀ k, k + 1 < w.conns.length → (getConn w k).alive = false) ∧
    (w.phase = .dialGate → ∀ k, k < w.conns.length → (getConn w k).alive = false) :=
  ⟨(TInv.exec s).1, (TInv.exec s).2.1⟩

/-- the loop always watches the LAST connection; before `Connect` there is none -/
theorem loop_watches_last (s : Script) : let w := exec s
    (w.phase = .idle → w.conns = []) ∧
    (∀ k, (w.phase = .connackGate k ∨ w.phase = .up k) → k + 1 = w.conns.length) :=
  ⟨fun h => List.eq_nil_of_length_eq_zero ((TInv.exec s).2.2.1 h), (TInv.exec s).2.2.2⟩

/-- hence a new transport is only ever created when no other is open -/
theorem dial_only_when_all_closed (s : Script) (i : Nat) : let w := exec s
    (step w (.dialOk i)).conns.length = w.conns.length + 1 →
      ∀ k, k < w.conns.length → (getConn w k).alive = false := by
  intro w hlen
  by_cases hp : w.phase = .dialGate
  · exact (one_transport s).2 hp
  · have : step w (.dialOk i) = w := by simp [step, hp]
    rw [this] at hlen
    omega

/-! ### (2) CONNECT first and once -/

/-- (2) every connection begins with exactly one CONNECT -/
theorem connect_first_and_once (s : Script) (k : Nat) (c : Conn) (h : (exec s).conns[k]? = some c) :
    c.pkts.head? = some (.connect, .sent .ok) ∧ (c.pkts.filter (fun pw => pw.1 == .connect)).length = 1 :=
  CInv.exec s k c h

/-! ### (3) the waits -/

/-- the exponent in force after a sequence of attempts (companion of `consecutive`) -/
def expAfter : Nat → List Attempt → Nat
  | k, [] => k
  | k, .failed :: rest => expAfter (k + 1) rest
  | _, .established :: rest => expAfter 1 rest

theorem consecutive_snoc_failed (k : Nat) (as : List Attempt) :
    consecutive k (as ++ [.failed]) = consecutive k as ++ [expAfter k as] := by
  induction as generalizing k with
  | nil => simp [consecutive, expAfter]
  | cons a as ih => cases a <;> simp [consecutive, expAfter, ih]

theorem consecutive_snoc_established (k : Nat) (as : List Attempt) :
    consecutive k (as ++ [.established]) = consecutive k as ++ [0] := by
  induction as generalizing k with
  | nil => simp [consecutive]
  | cons a as ih => cases a <;> simp [consecutive, ih]

theorem expAfter_snoc_failed (k : Nat) (as : List Attempt) :
    expAfter k (as ++ [.failed]) = expAfter k as + 1 := by
  induction as generalizing k with
  | nil => simp [expAfter]
  | cons a as ih => cases a <;> simp [expAfter, ih]

theorem expAfter_snoc_established (k : Nat) (as : List Attempt) :
    expAfter k (as ++ [.established]) = 1 := by
  induction as generalizing k with
  | nil => simp [expAfter]
  | cons a as ih => cases a <;> simp [expAfter, ih]

/-- the wait log is `consecutive 0 attempts` and the exponent in force is the one `consecutive`
    would use next (`expAfter`), or 0 right after an accepted CONNACK -/
def WInv (ws : List Nat) (e : Nat) : Prop :=
  ∃ as : List Attempt, ws = consecutive 0 as ∧ (e = expAfter 0 as ∨ e = 0)

theorem WInv.bump {ws : List Nat} {e : Nat} (h : WInv ws e) : WInv (ws ++ [e]) (e + 1) := by
  obtain ⟨as, hw, he | he⟩ := h
  · exact ⟨as ++ [.failed], by rw [consecutive_snoc_failed, hw, he],
      Or.inl (by rw [expAfter_snoc_failed, he])⟩
  · exact ⟨as ++ [.established], by rw [consecutive_snoc_established, hw, he],
      Or.inl (by rw [expAfter_snoc_established, he])⟩

theorem WInv.reset {ws : List Nat} {e : Nat} (h : WInv ws e) : WInv ws 0 := by
  obtain ⟨as, hw, _⟩ := h
  exact ⟨as, hw, Or.inr rfl⟩

theorem WInv.exec (s : Script) : WInv (exec s).waits (exec s).waitExp := by
  refine exec_inv (fun w => WInv w.waits w.waitExp) ?_ ?_ s
  · intro s; exact ⟨[], rfl, Or.inl rfl⟩
  · intro w ev h
    rcases shape_waits (step_shape w ev) with ⟨a, b⟩ | ⟨a, b⟩ | ⟨a, b⟩ | ⟨a, b⟩
    · rw [a, b]; exact h
    · rw [a, b]; exact h.bump
    · rw [a, b]; exact h.reset
    · rw [a, b]; exact h.reset.bump

/-- (3) the waits: the j-th logged wait exponent is the number of consecutive failures since the last
    accepted CONNACK -/
theorem waits_are_consecutive_failures (s : Script) : ∃ attempts : List Backoff.Attempt,
    (exec s).waits = C09.consecutive 0 attempts := by
  obtain ⟨as, h, _⟩ := WInv.exec s
  exact ⟨as, h⟩

/-- the same with the exponent in force: the NEXT wait will use `expAfter 0 attempts`, or 0 when a
    CONNACK has just been accepted -/
theorem waits_and_next_exponent (s : Script) : ∃ attempts : List Backoff.Attempt,
    (exec s).waits = C09.consecutive 0 attempts ∧
      ((exec s).waitExp = expAfter 0 attempts ∨ (exec s).waitExp = 0) :=
  WInv.exec s

/-- with C09a: the real waits of any run are those of the back-off arithmetic `Backoff.run`, hence
    each is at least `min base max` -/
theorem waits_follow_backoff (s : Script) (base max : Nat) : ∃ attempts : List Backoff.Attempt,
    (exec s).waits.map (waitAfter base max) = Backoff.run base max attempts := by
  obtain ⟨as, h⟩ := waits_are_consecutive_failures s
  exact ⟨as, by rw [h, run_spec]⟩

theorem waits_ge_base (s : Script) (base max : Nat) :
    ∀ e ∈ (exec s).waits, waitAfter base max e ≥ min base max :=
  fun e _ => waitAfter_ge_base base max e

/-- one step of the loop: a wait is logged with the exponent in force, which then grows by one;
    an accepted CONNACK resets it (the four possibilities of `shape_waits`) -/
theorem step_waits (w : World) (ev : Ev) : let w' := step w ev
    (w'.waits = w.waits ∧ w'.waitExp = w.waitExp) ∨
    (w'.waits = w.waits ++ [w.waitExp] ∧ w'.waitExp = w.waitExp + 1) ∨
    (w'.waits = w.waits ∧ w'.waitExp = 0) ∨
    (w'.waits = w.waits ++ [0] ∧ w'.waitExp = 1) :=
  shape_waits (step_shape w ev)

/-- the loop dials again, after a wait, as soon as the connection it watches has ended -/
theorem redials_after_loss (w : World) (k : Nat) (h : w.phase = .up k) (hd : (getConn w k).alive = false)
    (hs : w.stopped = false) :
    (loopReact w).phase = .dialGate ∧ (loopReact w).dials = w.dials + 1 ∧
      (loopReact w).waits = w.waits ++ [w.waitExp] := by
  simp [loopReact, h, hd, hs]

/-- over whole runs: the loop is never found resting in `.up k` on a connection that has ended — by
    then it has already reacted (`redials_after_loss`, or exited if Disconnect was called) -/
theorem up_means_alive (s : Script) (k : Nat) (h : (exec s).phase = .up k) :
    (getConn (exec s) k).alive = true :=
  UInv.exec s k h

/-! ### (4) Disconnect -/

/-- Disconnect on a running client: `stopped` is set and the loop exits from `.up` / `.dialGate` -/
theorem disconnect_stops (s : Script) : let w := exec s
    w.stopped = false → (step w .disconnect).stopped = true ∧
      (w.phase = .up k ∨ w.phase = .dialGate → (step w .disconnect).phase = .exited) := by
  intro w hs
  obtain ⟨h1, h2, _, _⟩ := disconnect_spec w hs
  refine ⟨h1, ?_⟩
  rintro (h | h) <;> rw [h2, h] <;> rfl

/-- Disconnect in every phase (any world): it creates no connection and starts no dial; the loop
    exits from `.up` / `.dialGate`, and stays where it is in `.idle` / `.connackGate` / `.exited` -/
theorem disconnect_every_phase (w : World) (hs : w.stopped = false) : let w' := step w .disconnect
    w'.stopped = true ∧ w'.dials = w.dials ∧ w'.conns.length = w.conns.length ∧
    ((w.phase = .dialGate ∨ ∃ k, w.phase = .up k) → w'.phase = .exited) ∧
    ((w.phase = .idle ∨ w.phase = .exited ∨ ∃ k, w.phase = .connackGate k) → w'.phase = w.phase) := by
  obtain ⟨h1, h2, h3, h4⟩ := disconnect_spec w hs
  refine ⟨h1, h3, h4, ?_, ?_⟩
  · rintro (h | ⟨k, h⟩) <;> rw [h2, h] <;> rfl
  · rintro (h | h | ⟨k, h⟩) <;> rw [h2, h] <;> rfl

/-- a second Disconnect does nothing -/
theorem disconnect_idempotent (w : World) (hs : w.stopped = true) : step w .disconnect = w := by
  simp [step, hs]

/-- once the loop has exited it never dials again and creates no connection, whatever happens -/
theorem no_dial_after_exit (w : World) (evs' : List Ev) (h : w.phase = .exited) :
    (evs'.foldl step w).phase = .exited ∧ (evs'.foldl step w).dials = w.dials ∧
      (evs'.foldl step w).conns.length = w.conns.length :=
  exited_foldl evs' w h

/-- (4) after Disconnect the loop never dials again — the form that is true of the model:
    from `.exited` unconditionally; from `.connackGate k` / `.up k` as long as the pending Connect does
    not FAIL (no `.connackRefused` / `.connackNever` event): the one Connect attempt in progress may
    finish, no new dial starts, no new connection is created. (`.idle` and a failing CONNACK: see the
    counterexamples below.) -/
theorem no_dial_after_disconnect (s : Script) (evs' : List Ev) : let w := exec s
    w.stopped = true → (w.phase = .exited ∨ ∃ k, w.phase = .connackGate k ∨ w.phase = .up k) →
    (w.phase = .exited ∨ ∀ e ∈ evs', e ≠ .connackRefused ∧ e ≠ .connackNever) →
      (evs'.foldl step w).dials = w.dials ∧ (evs'.foldl step w).conns.length = w.conns.length := by
  intro w hs hp hev
  rcases hev with he | hev
  · exact (exited_foldl evs' w he).2
  · refine (SInv.foldl evs' ?_ w ⟨hs, hp⟩).2
    intro e he hf
    have := hev e he
    cases e <;> simp_all [Ev.connackFails]

/-- the same for an arbitrary (not necessarily reachable) world, with the phase kept in range -/
theorem no_dial_while_stopped (w : World) (evs' : List Ev) (hs : w.stopped = true)
    (hp : w.phase = .exited ∨ ∃ k, w.phase = .connackGate k ∨ w.phase = .up k)
    (hev : ∀ e ∈ evs', e ≠ .connackRefused ∧ e ≠ .connackNever) : let w' := evs'.foldl step w
    w'.stopped = true ∧ (w'.phase = .exited ∨ ∃ k, w'.phase = .connackGate k ∨ w'.phase = .up k) ∧
      w'.dials = w.dials ∧ w'.conns.length = w.conns.length := by
  have := SInv.foldl evs' (fun e he hf => by
    have := hev e he
    cases e <;> simp_all [Ev.connackFails]) w ⟨hs, hp⟩
  exact ⟨this.1.1, this.1.2, this.2.1, this.2.2⟩

/-- Disconnect before `Connect` (phase `.idle`): nothing happens until the application calls Connect -/
theorem no_dial_while_idle (w : World) (evs' : List Ev) (h : w.phase = .idle) (hev : ∀ e ∈ evs', e ≠ .start) :
    (evs'.foldl step w).phase = .idle ∧ (evs'.foldl step w).dials = w.dials ∧
      (evs'.foldl step w).conns.length = w.conns.length :=
  idle_foldl evs' hev w h

/-- Disconnect while connected or dialling, then anything: no further dial, no further connection -/
theorem disconnect_then_no_dial (s : Script) (evs' : List Ev) : let w := exec s
    w.stopped = false → (w.phase = .dialGate ∨ ∃ k, w.phase = .up k) →
      (evs'.foldl step (step w .disconnect)).dials = w.dials ∧
      (evs'.foldl step (step w .disconnect)).conns.length = w.conns.length := by
  intro w hs hp
  obtain ⟨_, h2, h3, h4, _⟩ := disconnect_every_phase w hs
  obtain ⟨_, e2, e3⟩ := exited_foldl evs' _ (h4 hp)
  exact ⟨e2.trans h2, e3.trans h3⟩

/-! ### non-vacuity -/

/-- two dial failures, a refused CONNACK, an accepted one, a QoS 1 publish, a peer close, another dial
    failure, an accepted CONNACK, a publish whose PUBACK is lost with the connection, a reconnect
    that retransmits it -/
def demo : Script :=
  { faults := [.ok, .lostAck, .ok],
    evs := [.start, .dialFail, .dialFail, .dialOk 0, .connackRefused, .dialOk 5, .connackOk false [],
            .app (.pub 1 1), .peerClose, .dialFail, .dialOk 7, .connackOk true [], .app (.pub 2 1),
            .dialOk 9, .connackOk true []] }

example : (exec demo).waits = [0, 1, 2, 0, 1, 0] := by decide
example : (exec demo).waits = consecutive 0 [.failed, .failed, .failed, .established, .failed, .established] := by
  decide
example : (exec demo).waits.map (waitAfter 4 10) = [4, 8, 10, 4, 8, 4] := by decide
example : (exec demo).dials = 7 ∧ (exec demo).waitExp = 0 ∧ (exec demo).phase = .up 3 := by decide
example : (exec demo).conns.map (·.alive) = [false, false, false, true] := by decide
example : (exec demo).conns.map (·.pkts.head?) =
    [some (.connect, .sent .ok), some (.connect, .sent .ok), some (.connect, .sent .ok), some (.connect, .sent .ok)] := by
  decide
example : (exec demo).conns.map (·.pkts.length) = [1, 2, 2, 2] := by decide
example : (exec demo).conns.map (fun c => (c.pkts.filter (fun pw => pw.1 == .connect)).length) = [1, 1, 1, 1] := by
  decide
-- `dial_only_when_all_closed` is not vacuous: after the peer close a dial does create a connection
example : let w := exec { demo with evs := demo.evs.take 9 }
    w.phase = .dialGate ∧ (step w (.dialOk 3)).conns.length = w.conns.length + 1 := by decide

/-- Disconnect while connected: the loop exits, DISCONNECT is the last packet, later events change nothing -/
def demoDisc : Script :=
  { evs := [.start, .dialOk 0, .connackOk false [], .app (.pub 1 1), .disconnect,
            .peerClose, .dialOk 1, .dialFail, .connackRefused, .start, .app (.pub 2 1)] }

example : (exec demoDisc).phase = .exited ∧ (exec demoDisc).stopped = true ∧ (exec demoDisc).dials = 1 ∧
    (exec demoDisc).conns.length = 1 ∧ (exec demoDisc).rejected = 1 := by decide
example : (exec demoDisc).conns.map (·.pkts.getLast?) = [some (.disconnect, .sent .ok)] := by decide

/-- Disconnect while the CONNACK is pending, which then arrives and is accepted: the connection is
    established, the queued Disconnect task closes it at once, the loop exits — no further dial -/
def demoDiscGate : Script := { evs := [.start, .dialOk 0, .disconnect, .connackOk false [], .dialOk 1, .dialFail] }

example : let w := exec { demoDiscGate with evs := demoDiscGate.evs.take 3 }
    w.stopped = true ∧ w.phase = .connackGate 0 ∧ w.dials = 1 := by decide
example : (exec demoDiscGate).phase = .exited ∧ (exec demoDiscGate).dials = 1 ∧
    (exec demoDiscGate).conns.map (·.alive) = [false] := by decide

/-! ### FINDINGS: phases in which the model still dials after Disconnect

  `connectFailed` and the `.dialFail` step never look at `stopped`: the model's loop only observes the
  Disconnect signal in `.up` (through `loopReact`) and at the moment of the `.disconnect` event itself.
  Consequently:

  (a) Disconnect while the CONNACK is pending (`.connackGate`), followed by a refused / absent CONNACK:
      the loop backs off and heads for the dial gate again (`dials` grows), a later `.dialOk` creates a
      NEW connection, and if that one is accepted the stopped client ends up holding an open
      connection for ever (`.up`, alive, `stopped = true`, the Disconnect task long gone).
  (b) Disconnect before `Connect` (`.idle`), then `Connect`: the first dial happens (as in the Go loop,
      whose first action is `DialContext`), but dial errors are then retried without end.
  In reconnclient.go the `select` that follows a failed dial / Connect has a `case <-c.disconnected:
  return`, so either the model is wrong here (missing `if w.stopped then exited` in `connectFailed` and
  `.dialFail`) or the code is — to be settled against the Go source. -/

/-- (a) the prefix ends stopped in `.connackGate 0` with one dial … -/
def cexGate : Script := { evs := [.start, .dialOk 0, .disconnect, .connackRefused, .dialOk 0] }

example : let w := exec { cexGate with evs := cexGate.evs.take 3 }
    w.stopped = true ∧ w.phase = .connackGate 0 ∧ w.dials = 1 ∧ w.conns.length = 1 := by decide
/-- … and two events later there are two dials and two connections -/
example : (exec cexGate).stopped = true ∧ (exec cexGate).dials = 2 ∧ (exec cexGate).conns.length = 2 ∧
    (exec cexGate).phase = .connackGate 1 := by decide
/-- so the original statement of `no_dial_after_disconnect` is false for `.connackGate` -/
example : ¬ (∀ (s : Script) (evs' : List Ev), let w := exec s
    w.stopped = true → (w.phase = .exited ∨ w.phase = .idle ∨ ∃ k, w.phase = .connackGate k) →
      (evs'.foldl step w).dials = w.dials ∧ (evs'.foldl step w).conns.length = w.conns.length) := by
  intro h
  have := h { cexGate with evs := cexGate.evs.take 3 } [.connackRefused, .dialOk 0]
    (by decide) (Or.inr (Or.inr ⟨0, by decide⟩))
  revert this
  decide

/-- (a') it can even end with a stopped client that is connected for good -/
def cexGateUp : Script :=
  { evs := [.start, .dialOk 0, .disconnect, .connackRefused, .dialFail, .dialFail, .dialOk 0, .connackOk false []] }

example : (exec cexGateUp).stopped = true ∧ (exec cexGateUp).phase = .up 1 ∧ (exec cexGateUp).dials = 4 ∧
    (exec cexGateUp).conns.map (·.alive) = [false, true] ∧ (exec cexGateUp).taskQ = [] := by decide

/-- (b) Disconnect before Connect, then Connect: three dials -/
def cexIdle : Script := { evs := [.disconnect, .start, .dialFail, .dialFail, .dialOk 0] }

example : let w := exec { cexIdle with evs := cexIdle.evs.take 1 }
    w.stopped = true ∧ w.phase = .idle ∧ w.dials = 0 := by decide
example : (exec cexIdle).stopped = true ∧ (exec cexIdle).dials = 3 ∧ (exec cexIdle).conns.length = 1 := by decide

end Mqtt.C09
