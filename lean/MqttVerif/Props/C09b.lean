/-
  C09 (reconnect lifecycle) — the reconnect loop of `Model/Retry.lean`, for all scripts:
    (1) never two transports open at once,
    (2) every connection's packet log begins with exactly one CONNECT,
    (3) the logged back-off exponents are the numbers of consecutive failures since the last
        accepted CONNACK (so, with C09a, the real waits are `Backoff.run base max attempts`), and
        every redial happens only after its wait was logged and the back-off timer fired
        (`.waitElapsed`): `dials` = (1 once Connect was called) + number of effective `.waitElapsed`,
    (4) after Disconnect, in every phase but `.idle` (connected, waiting to redial, dialling, waiting
        for CONNACK, exited): no new dial; no new connection except the one of a dial that was in
        flight; the loop exits at once from `.up` / `.backoff` and as soon as the dial / CONNECT in
        flight is resolved otherwise. Only Disconnect BEFORE Connect (`.idle`) still allows the one
        dial the Go loop makes before it first looks at `disconnected`,
    (5) cancellation of the context given to Connect before the first success, in any phase (dialling,
        awaiting CONNACK, waiting to redial, exited): Connect returns the error at once and `dials` never
        grows again, in EVERY configuration. With a context-aware dialer (`deafDialer = false`) the loop is
        `.exited` at once and no connection is ever created again. With a dialer that ignores its context
        (`deafDialer = true`, e.g. `NoContextDialer`) a DialContext in flight is not interrupted: the phase
        stays `.dialGate` until the dial resolves, then the loop is `.exited` (`.dialFail`: no wait;
        `.dialOk`: ONE more connection, CONNECT written, closed from the start). After the first success
        cancellation does nothing.
  Helper lemmas: `MqttVerif/Proofs/RetryLoop.lean`.
-/
import MqttVerif.Proofs.RetryLoop
import MqttVerif.Props.C09a

namespace Mqtt.C09
open Mqtt.Retry Mqtt.Backoff

/-! ### (1) one live transport -/

/-- (1) one live transport: all connections except possibly the last one are dead, and the last one
    is dead too whenever the loop is at the dial gate or waiting to redial -/
theorem one_transport (s : Script) : let w := exec s
    (∀ k, k + 1 < w.conns.length → (getConn w k).alive = false) ∧
    (w.phase = .dialGate ∨ w.phase = .backoff → ∀ k, k < w.conns.length → (getConn w k).alive = false) :=
  ⟨(TInv.exec s).1, (TInv.exec s).2.1⟩

/-- the loop always watches the LAST connection; before `Connect` there is none -/
theorem loop_watches_last (s : Script) : let w := exec s
    (w.phase = .idle → w.conns = []) ∧
    (∀ k, (w.phase = .connackGate k ∨ w.phase = .up k) → k + 1 = w.conns.length) :=
  ⟨fun h => List.eq_nil_of_length_eq_zero ((TInv.exec s).2.2.1 h), (TInv.exec s).2.2.2⟩

/-- hence a new transport is only ever created when no other is open -/
theorem dial_only_when_all_closed (s : Script) (i : Nat) : let w := exec s
    (step w (.dialOk i)).conns.length = w.conns.length + 1 →
      ∀ k, k < w.conns.length → (getConn w k).alive = false := by
  intro w hlen
  by_cases hp : w.phase = .dialGate
  · exact (one_transport s).2 (Or.inl hp)
  · have : step w (.dialOk i) = w := by simp [step, hp]
    rw [this] at hlen
    omega

/-! ### (2) CONNECT first and once -/

/-- (2) every connection begins with exactly one CONNECT -/
theorem connect_first_and_once (s : Script) (k : Nat) (c : Conn) (h : (exec s).conns[k]? = some c) :
    c.pkts.head? = some (.connect, .sent .ok) ∧ (c.pkts.filter (fun pw => pw.1 == .connect)).length = 1 :=
  CInv.exec s k c h

/-! ### (3) the waits -/

/-- the exponent in force after a sequence of attempts (companion of `consecutive`) -/
def expAfter : Nat → List Attempt → Nat
  | k, [] => k
  | k, .failed :: rest => expAfter (k + 1) rest
  | _, .established :: rest => expAfter 1 rest

theorem consecutive_snoc_failed (k : Nat) (as : List Attempt) :
    consecutive k (as ++ [.failed]) = consecutive k as ++ [expAfter k as] := by
  induction as generalizing k with
  | nil => simp [consecutive, expAfter]
  | cons a as ih => cases a <;> simp [consecutive, expAfter, ih]

theorem consecutive_snoc_established (k : Nat) (as : List Attempt) :
    consecutive k (as ++ [.established]) = consecutive k as ++ [0] := by
  induction as generalizing k with
  | nil => simp [consecutive]
  | cons a as ih => cases a <;> simp [consecutive, ih]

theorem expAfter_snoc_failed (k : Nat) (as : List Attempt) :
    expAfter k (as ++ [.failed]) = expAfter k as + 1 := by
  induction as generalizing k with
  | nil => simp [expAfter]
  | cons a as ih => cases a <;> simp [expAfter, ih]

theorem expAfter_snoc_established (k : Nat) (as : List Attempt) :
    expAfter k (as ++ [.established]) = 1 := by
  induction as generalizing k with
  | nil => simp [expAfter]
  | cons a as ih => cases a <;> simp [expAfter, ih]

/-- the wait log is `consecutive 0 attempts` and the exponent in force is the one `consecutive`
    would use next (`expAfter`), or 0 right after an accepted CONNACK -/
def WInv (ws : List Nat) (e : Nat) : Prop :=
  ∃ as : List Attempt, ws = consecutive 0 as ∧ (e = expAfter 0 as ∨ e = 0)

theorem WInv.bump {ws : List Nat} {e : Nat} (h : WInv ws e) : WInv (ws ++ [e]) (e + 1) := by
  obtain ⟨as, hw, he | he⟩ := h
  · exact ⟨as ++ [.failed], by rw [consecutive_snoc_failed, hw, he],
      Or.inl (by rw [expAfter_snoc_failed, he])⟩
  · exact ⟨as ++ [.established], by rw [consecutive_snoc_established, hw, he],
      Or.inl (by rw [expAfter_snoc_established, he])⟩

theorem WInv.reset {ws : List Nat} {e : Nat} (h : WInv ws e) : WInv ws 0 := by
  obtain ⟨as, hw, _⟩ := h
  exact ⟨as, hw, Or.inr rfl⟩

theorem WInv.exec (s : Script) : WInv (exec s).waits (exec s).waitExp := by
  refine exec_inv (fun w => WInv w.waits w.waitExp) ?_ ?_ s
  · intro s; exact ⟨[], rfl, Or.inl rfl⟩
  · intro w ev h
    rcases shape_waits (step_shape w ev) with ⟨a, b⟩ | ⟨a, b⟩ | ⟨a, b⟩ | ⟨a, b⟩
    · rw [a, b]; exact h
    · rw [a, b]; exact h.bump
    · rw [a, b]; exact h.reset
    · rw [a, b]; exact h.reset.bump

/-- (3) the waits: the j-th logged wait exponent is the number of consecutive failures since the last
    accepted CONNACK -/
theorem waits_are_consecutive_failures (s : Script) : ∃ attempts : List Backoff.Attempt,
    (exec s).waits = C09.consecutive 0 attempts := by
  obtain ⟨as, h, _⟩ := WInv.exec s
  exact ⟨as, h⟩

/-- the same with the exponent in force: the NEXT wait will use `expAfter 0 attempts`, or 0 when a
    CONNACK has just been accepted -/
theorem waits_and_next_exponent (s : Script) : ∃ attempts : List Backoff.Attempt,
    (exec s).waits = C09.consecutive 0 attempts ∧
      ((exec s).waitExp = expAfter 0 attempts ∨ (exec s).waitExp = 0) :=
  WInv.exec s

/-- with C09a: the real waits of any run are those of the back-off arithmetic `Backoff.run`, hence
    each is at least `min base max` -/
theorem waits_follow_backoff (s : Script) (base max : Nat) : ∃ attempts : List Backoff.Attempt,
    (exec s).waits.map (waitAfter base max) = Backoff.run base max attempts := by
  obtain ⟨as, h⟩ := waits_are_consecutive_failures s
  exact ⟨as, by rw [h, run_spec]⟩

theorem waits_ge_base (s : Script) (base max : Nat) :
    ∀ e ∈ (exec s).waits, waitAfter base max e ≥ min base max :=
  fun e _ => waitAfter_ge_base base max e

/-- one step of the loop: a wait is logged with the exponent in force, which then grows by one;
    an accepted CONNACK resets it (the four possibilities of `shape_waits`) -/
theorem step_waits (w : World) (ev : Ev) : let w' := step w ev
    (w'.waits = w.waits ∧ w'.waitExp = w.waitExp) ∨
    (w'.waits = w.waits ++ [w.waitExp] ∧ w'.waitExp = w.waitExp + 1) ∨
    (w'.waits = w.waits ∧ w'.waitExp = 0) ∨
    (w'.waits = w.waits ++ [0] ∧ w'.waitExp = 1) :=
  shape_waits (step_shape w ev)

/-- when the connection it watches has ended the loop logs the wait and sleeps (no dial yet); it dials
    again when — and only when — the back-off timer fires -/
theorem redials_after_loss (w : World) (k : Nat) (h : w.phase = .up k) (hd : (getConn w k).alive = false)
    (hs : w.stopped = false) :
    (loopReact w).phase = .backoff ∧ (loopReact w).dials = w.dials ∧
      (loopReact w).waits = w.waits ++ [w.waitExp] ∧
      (step (loopReact w) .waitElapsed).phase = .dialGate ∧
      (step (loopReact w) .waitElapsed).dials = w.dials + 1 ∧
      (step (loopReact w) .waitElapsed).waits = w.waits ++ [w.waitExp] := by
  simp [loopReact, step, h, hd, hs]

/-- over whole runs: the loop is never found resting in `.up k` on a connection that has ended — by
    then it has already reacted (`redials_after_loss`, or exited if Disconnect was called) -/
theorem up_means_alive (s : Script) (k : Nat) (h : (exec s).phase = .up k) :
    (getConn (exec s) k).alive = true :=
  UInv.exec s k h

/-! ### (3') every dial is preceded by its wait -/

/-- one step makes at most one dial; the only dialling steps are `.start` (Connect called, from `.idle`)
    and `.waitElapsed` (the back-off timer fires, from `.backoff`). In particular no failure event
    (`.dialFail`, refused / absent CONNACK, `.peerClose`, a failed request) dials by itself. -/
theorem dial_only_at_start_or_waitElapsed (w : World) (ev : Ev) :
    (step w ev).dials = w.dials ∨
    ((step w ev).dials = w.dials + 1 ∧
      ((ev = .start ∧ w.phase = .idle) ∨ (ev = .waitElapsed ∧ w.phase = .backoff))) :=
  shape_dials (step_shape w ev)

/-- `.waitElapsed` outside `.backoff` does nothing -/
theorem waitElapsed_only_in_backoff (w : World) (h : w.phase ≠ .backoff) : step w .waitElapsed = w := by
  simp [step, h]

/-- the loop sleeps only after a wait was logged: phase by phase, the number of DialContext calls
    against the number of logged waits, in every reachable world. The first dial needs no wait; every
    redial consumed exactly one logged wait; in `.backoff` the last logged wait is still running. -/
theorem dials_vs_waits (s : Script) : let w := exec s
    (w.phase = .idle → w.dials = 0 ∧ w.waits = []) ∧
    (w.phase = .backoff → w.dials = w.waits.length ∧ 1 ≤ w.dials) ∧
    ((w.phase = .dialGate ∨ ∃ k, w.phase = .connackGate k ∨ w.phase = .up k) → w.dials = w.waits.length + 1) ∧
    (w.phase = .exited → w.waits.length ≤ w.dials ∧ w.dials ≤ w.waits.length + 1 ∧ 1 ≤ w.dials) := by
  have h : DRel (exec s).phase (exec s).dials (exec s).waits.length := DInv.exec s
  dsimp only
  generalize exec s = w at h ⊢
  refine ⟨fun hp => ?_, fun hp => ?_, fun hp => ?_, fun hp => ?_⟩
  · rw [hp] at h; exact ⟨h.1, List.eq_nil_of_length_eq_zero h.2⟩
  · rw [hp] at h; exact h
  · rcases hp with hp | ⟨k, hp | hp⟩ <;> rw [hp] at h <;> exact h
  · rw [hp] at h; exact h

/-- … hence always `dials ≤ waits.length + 1`, and `waits.length ≤ dials` once Connect was called;
    `dials = waits.length` exactly while a logged wait is pending (or was abandoned on exit) -/
theorem dials_le_waits_succ (s : Script) : let w := exec s
    w.dials ≤ w.waits.length + 1 ∧ (w.phase ≠ .idle → w.waits.length ≤ w.dials) := by
  have h : DRel (exec s).phase (exec s).dials (exec s).waits.length := DInv.exec s
  dsimp only
  generalize exec s = w at h ⊢
  cases hp : w.phase <;> rw [hp] at h <;> simp [DRel] at h ⊢ <;> omega

/-- the k-th redial: the timer can only fire on a logged wait. In `.backoff` the wait log is
    `ws ++ [e]` with `dials = ws.length + 1`: exactly one wait per dial so far, the last one (`e`, the
    exponent in force when the failure was observed) still running; `.waitElapsed` then makes dial
    number `ws.length + 2` and leaves the log as it is. -/
theorem redial_consumes_last_wait (s : Script) : let w := exec s
    w.phase = .backoff → ∃ ws e, w.waits = ws ++ [e] ∧ w.dials = ws.length + 1 ∧
      (step w .waitElapsed).phase = .dialGate ∧ (step w .waitElapsed).dials = ws.length + 2 ∧
      (step w .waitElapsed).waits = ws ++ [e] := by
  have hv := (dials_vs_waits s).2.1
  dsimp only at hv ⊢
  generalize exec s = w at hv ⊢
  intro hp
  obtain ⟨h1, h2⟩ := hv hp
  have hne : w.waits ≠ [] := by
    intro h0
    have : w.waits.length = 0 := by rw [h0]; rfl
    omega
  have hl : w.waits.dropLast.length + 1 = w.waits.length := by
    rw [List.length_dropLast]
    have : w.waits.length ≠ 0 := fun h0 => hne (List.eq_nil_of_length_eq_zero h0)
    omega
  refine ⟨w.waits.dropLast, w.waits.getLast hne, (List.dropLast_concat_getLast hne).symm, by omega, ?_, ?_, ?_⟩
  · simp [step, hp]
  · simp [step, hp]; omega
  · rw [List.dropLast_concat_getLast hne]; simp [step, hp]

def isStart : Ev → Bool
  | .start => true
  | _ => false

def isWaitElapsed : Ev → Bool
  | .waitElapsed => true
  | _ => false

/-- the `.start` events of a script that found the loop in `.idle` (at most one, `starts_le_one`) -/
def starts (w : World) : List Ev → Nat
  | [] => 0
  | e :: es => (if isStart e = true ∧ w.phase = .idle then 1 else 0) + starts (step w e) es

/-- the `.waitElapsed` events of a script that found the loop in `.backoff`: the timer firings -/
def redials (w : World) : List Ev → Nat
  | [] => 0
  | e :: es => (if isWaitElapsed e = true ∧ w.phase = .backoff then 1 else 0) + redials (step w e) es

theorem step_dials_count (w : World) (e : Ev) :
    (step w e).dials = w.dials + (if isStart e = true ∧ w.phase = .idle then 1 else 0) +
      (if isWaitElapsed e = true ∧ w.phase = .backoff then 1 else 0) := by
  have hsh := dial_only_at_start_or_waitElapsed w e
  cases e with
  | start =>
    by_cases hp : w.phase = .idle
    · have : (step w .start).dials = w.dials + 1 := by
        simp only [step, hp]
        split
        · rename_i h; exact absurd rfl h
        · split
          · split <;> rfl
          · rfl
      rw [this]; simp [isStart, isWaitElapsed, hp]
    · have : step w .start = w := by simp [step, hp]
      rw [this]; simp [isStart, isWaitElapsed, hp]
  | waitElapsed =>
    by_cases hp : w.phase = .backoff
    · simp [step, isStart, isWaitElapsed, hp]
    · simp [step, isStart, isWaitElapsed, hp]
  | _ =>
    simp only [isStart, isWaitElapsed]
    rcases hsh with h | ⟨_, ⟨h, _⟩ | ⟨h, _⟩⟩
    · simp [h]
    · cases h
    · cases h

/-- `dials` counts exactly the effective `.start` and the timer firings -/
theorem dials_count (evs : List Ev) (w : World) :
    (evs.foldl step w).dials = w.dials + starts w evs + redials w evs := by
  induction evs generalizing w with
  | nil => simp [starts, redials]
  | cons e es ih =>
    simp only [List.foldl_cons, starts, redials]
    rw [ih, step_dials_count]
    omega

theorem foldl_not_idle (evs : List Ev) (w : World) (h : w.phase ≠ .idle) : (evs.foldl step w).phase ≠ .idle := by
  induction evs generalizing w with
  | nil => exact h
  | cons e es ih => exact ih _ (shape_not_idle h (step_shape w e))

theorem starts_of_not_idle (evs : List Ev) (w : World) (h : w.phase ≠ .idle) : starts w evs = 0 := by
  induction evs generalizing w with
  | nil => rfl
  | cons e es ih =>
    simp only [starts]
    rw [ih _ (shape_not_idle h (step_shape w e))]
    simp [h]

/-- Connect starts the loop once: the effective `.start` events are 1 if the run left `.idle`, else 0 -/
theorem starts_eq (evs : List Ev) (w : World) (h : w.phase = .idle) :
    starts w evs = if (evs.foldl step w).phase = .idle then 0 else 1 := by
  induction evs generalizing w with
  | nil => simp [starts, h]
  | cons e es ih =>
    show (if isStart e = true ∧ w.phase = .idle then 1 else 0) + starts (step w e) es =
      if (es.foldl step (step w e)).phase = .idle then 0 else 1
    cases hs : isStart e
    · have hne : e ≠ .start := by intro h0; rw [h0] at hs; cases hs
      have hi := (idle_shape h hne (step_shape w e)).1
      rw [ih _ hi]; simp
    · have he : e = .start := by cases e <;> first | rfl | cases hs
      subst he
      have hni : (step w .start).phase ≠ .idle := by
        simp only [step, h]
        split
        · rename_i h0; exact absurd rfl h0
        · split
          · split <;> simp
          · simp
      rw [starts_of_not_idle es _ hni, if_neg (foldl_not_idle es _ hni)]
      simp [h]

theorem starts_le_one (s : Script) : starts (init s) s.evs ≤ 1 := by
  rw [starts_eq s.evs (init s) rfl]; split <;> omega

/-- over whole runs: DialContext was called once when Connect was called and once per timer firing -/
theorem dials_are_start_plus_redials (s : Script) :
    (exec s).dials = (if (exec s).phase = .idle then 0 else 1) + redials (init s) s.evs := by
  have h := dials_count s.evs (init s)
  rw [starts_eq s.evs (init s) rfl] at h
  have h0 : (init s).dials = 0 := rfl
  rw [h0] at h
  show (s.evs.foldl step (init s)).dials =
    (if (s.evs.foldl step (init s)).phase = .idle then 0 else 1) + redials (init s) s.evs
  rw [h]; omega

/-- every timer firing was preceded by its logged wait: the number of redials never exceeds the number
    of logged waits; they are equal while dialling / connecting / connected and differ by the one
    running wait in `.backoff` -/
theorem redials_le_waits (s : Script) : let w := exec s
    redials (init s) s.evs ≤ w.waits.length ∧
    (w.phase = .backoff → redials (init s) s.evs + 1 = w.waits.length) ∧
    ((w.phase = .dialGate ∨ ∃ k, w.phase = .connackGate k ∨ w.phase = .up k) →
      redials (init s) s.evs = w.waits.length) := by
  have hd : (exec s).dials = (if (exec s).phase = .idle then 0 else 1) + redials (init s) s.evs :=
    dials_are_start_plus_redials s
  have h : DRel (exec s).phase (exec s).dials (exec s).waits.length := DInv.exec s
  dsimp only
  generalize exec s = w at h hd ⊢
  generalize redials (init s) s.evs = r at hd ⊢
  refine ⟨?_, fun hp => ?_, fun hp => ?_⟩
  · cases hp : w.phase <;> rw [hp] at h hd <;> simp [DRel] at h hd ⊢ <;> omega
  · rw [hp] at h hd; simp [DRel] at h hd; omega
  · rcases hp with hp | ⟨k, hp | hp⟩ <;> rw [hp] at h hd <;> simp [DRel] at h hd <;> omega

/-! ### (4) Disconnect -/

/-- Disconnect on a running client: `stopped` is set and the loop exits at once from `.up` (connected)
    and from `.backoff` (waiting to redial: the select on the timer also listens on `disconnected`) -/
theorem disconnect_stops (s : Script) : let w := exec s
    w.stopped = false → (step w .disconnect).stopped = true ∧
      ((w.phase = .backoff ∨ ∃ k, w.phase = .up k) → (step w .disconnect).phase = .exited) := by
  intro w hs
  obtain ⟨h1, h2, _, _⟩ := disconnect_spec w hs
  refine ⟨h1, ?_⟩
  rintro (h | ⟨k, h⟩) <;> rw [h2, h] <;> rfl

/-- Disconnect in every phase (any world): it creates no connection and starts no dial; the loop
    exits from `.up` / `.backoff`, and stays where it is in `.idle` / `.dialGate` / `.connackGate` /
    `.exited` (a DialContext or a CONNECT in flight is not interrupted: see `disconnect_in_flight_exits`) -/
theorem disconnect_every_phase (w : World) (hs : w.stopped = false) : let w' := step w .disconnect
    w'.stopped = true ∧ w'.dials = w.dials ∧ w'.conns.length = w.conns.length ∧
    ((w.phase = .backoff ∨ ∃ k, w.phase = .up k) → w'.phase = .exited) ∧
    ((w.phase = .idle ∨ w.phase = .dialGate ∨ w.phase = .exited ∨ ∃ k, w.phase = .connackGate k) →
      w'.phase = w.phase) := by
  obtain ⟨h1, h2, h3, h4⟩ := disconnect_spec w hs
  refine ⟨h1, h3, h4, ?_, ?_⟩
  · rintro (h | ⟨k, h⟩) <;> rw [h2, h] <;> rfl
  · rintro (h | h | h | ⟨k, h⟩) <;> rw [h2, h] <;> rfl

/-- a second Disconnect does nothing -/
theorem disconnect_idempotent (w : World) (hs : w.stopped = true) : step w .disconnect = w := by
  simp [step, hs]

/-- once the loop has exited it never dials again and creates no connection, whatever happens -/
theorem no_dial_after_exit (w : World) (evs' : List Ev) (h : w.phase = .exited) :
    (evs'.foldl step w).phase = .exited ∧ (evs'.foldl step w).dials = w.dials ∧
      (evs'.foldl step w).conns.length = w.conns.length :=
  exited_foldl evs' w h

/-- a stopped loop is never found waiting to redial: Disconnect releases the back-off select, and every
    failure observed after Disconnect ends the loop instead of starting a wait -/
theorem stopped_not_backoff (s : Script) : (exec s).stopped = true → (exec s).phase ≠ .backoff :=
  SInv.exec s

/-- The general statement, for ANY stopped world (reachable or not) and ANY later events: `stopped`
    stays, and the loop makes at most `dialBudget phase` more dials and at most `connBudget phase` more
    connections, where
      dialBudget = 1 in `.idle` and in `.backoff` (unreachable when stopped: `stopped_not_backoff`), 0 otherwise;
      connBudget = 1 in `.idle` / `.backoff` / `.dialGate`, 0 otherwise. -/
theorem stopped_budget (w : World) (evs' : List Ev) (hs : w.stopped = true) : let w' := evs'.foldl step w
    w'.stopped = true ∧
    w.dials ≤ w'.dials ∧ w'.dials ≤ w.dials + dialBudget w.phase ∧
    w.conns.length ≤ w'.conns.length ∧ w'.conns.length ≤ w.conns.length + connBudget w.phase := by
  obtain ⟨h1, h2, h3, h4, h5⟩ := stopped_foldl evs' w hs
  exact ⟨h1, h2, by omega, h3, by omega⟩

/-- (4) after Disconnect the loop never dials again: in every reachable stopped world outside `.idle`
    (`.backoff` cannot occur, `.dialGate` = Disconnect arrived while a DialContext was in flight), for
    all later events (timer firings, refused / absent / accepted CONNACKs, dial results, peer closes,
    cancellations, …) `dials` stays; the number of connections stays too, except that the dial in
    flight may still deliver its transport: at most one more connection, and only from `.dialGate`. -/
theorem no_dial_after_disconnect (s : Script) (evs' : List Ev) : let w := exec s
    w.stopped = true → w.phase ≠ .idle →
      (evs'.foldl step w).dials = w.dials ∧
      (w.phase ≠ .dialGate → (evs'.foldl step w).conns.length = w.conns.length) ∧
      w.conns.length ≤ (evs'.foldl step w).conns.length ∧
      (evs'.foldl step w).conns.length ≤ w.conns.length + 1 := by
  intro w hs hp
  have hnb : w.phase ≠ .backoff := stopped_not_backoff s hs
  obtain ⟨_, h2, h3, h4, h5⟩ := stopped_budget w evs' hs
  have hd : dialBudget w.phase = 0 := by
    cases hph : w.phase <;> first | rfl | exact absurd hph hp | exact absurd hph hnb
  have hc : connBudget w.phase ≤ 1 := by cases w.phase <;> simp [connBudget]
  refine ⟨by omega, ?_, h4, by omega⟩
  intro hng
  have hc0 : connBudget w.phase = 0 := by
    cases hph : w.phase <;> first | rfl | exact absurd hph hp | exact absurd hph hng | exact absurd hph hnb
  omega

/-- the same in `.exited`, `.connackGate k` and `.up k`, for any world: plain equality, no hypothesis on
    the later events -/
theorem no_dial_while_stopped (w : World) (evs' : List Ev) (hs : w.stopped = true)
    (hp : w.phase = .exited ∨ ∃ k, w.phase = .connackGate k ∨ w.phase = .up k) : let w' := evs'.foldl step w
    w'.stopped = true ∧ w'.dials = w.dials ∧ w'.conns.length = w.conns.length := by
  obtain ⟨h1, h2, h3, h4, h5⟩ := stopped_budget w evs' hs
  have hb : dialBudget w.phase = 0 ∧ connBudget w.phase = 0 := by
    rcases hp with h | ⟨k, h | h⟩ <;> rw [h] <;> exact ⟨rfl, rfl⟩
  exact ⟨h1, by omega, by omega⟩

/-- Disconnect on a running client in ANY phase other than `.idle` (connected, waiting to redial,
    dialling, waiting for CONNACK, already exited), then ANY events: never another dial. The number of
    connections grows by at most one, and only when Disconnect arrived while a DialContext was in
    flight (`.dialGate`), whose transport may still be delivered. Holds for every world, reachable or not. -/
theorem disconnect_then_no_dial (w : World) (evs' : List Ev) (hs : w.stopped = false) (hp : w.phase ≠ .idle) :
    (evs'.foldl step (step w .disconnect)).dials = w.dials ∧
    w.conns.length ≤ (evs'.foldl step (step w .disconnect)).conns.length ∧
    (evs'.foldl step (step w .disconnect)).conns.length ≤ w.conns.length + 1 ∧
    (w.phase ≠ .dialGate → (evs'.foldl step (step w .disconnect)).conns.length = w.conns.length) := by
  obtain ⟨h1, h2, h3, h4⟩ := disconnect_spec w hs
  obtain ⟨_, b2, b3, b4, b5⟩ := stopped_budget (step w .disconnect) evs' h1
  have hb : dialBudget (step w .disconnect).phase = 0 ∧ connBudget (step w .disconnect).phase ≤ 1 ∧
      (w.phase ≠ .dialGate → connBudget (step w .disconnect).phase = 0) := by
    rw [h2]
    cases hph : w.phase <;>
      first
      | exact absurd hph hp
      | exact ⟨rfl, by simp [discPhase, connBudget], fun _ => rfl⟩
      | exact ⟨rfl, by simp [discPhase, connBudget], fun h => absurd rfl h⟩
  refine ⟨by omega, by omega, by omega, fun hng => ?_⟩
  have := hb.2.2 hng
  omega

/-- … in particular along any run -/
theorem disconnect_then_no_dial_exec (s : Script) (evs' : List Ev) : let w := exec s
    w.stopped = false → w.phase ≠ .idle →
      (evs'.foldl step (step w .disconnect)).dials = w.dials ∧
      w.conns.length ≤ (evs'.foldl step (step w .disconnect)).conns.length ∧
      (evs'.foldl step (step w .disconnect)).conns.length ≤ w.conns.length + 1 ∧
      (w.phase ≠ .dialGate → (evs'.foldl step (step w .disconnect)).conns.length = w.conns.length) :=
  fun hs hp => disconnect_then_no_dial _ evs' hs hp

/-! #### the loop exits as soon as the attempt in flight is resolved -/

/-- a stopped loop inside DialContext: a dial error ends it at once -/
theorem stopped_dialFail_exits (w : World) (hs : w.stopped = true) (hp : w.phase = .dialGate) :
    (step w .dialFail).phase = .exited := by
  simp [step, hp, hs]

/-- … a transport is handed over (SetClient, CONNECT written): the loop, still stopped, awaits the
    CONNACK — provided the context of the first Connect was not cancelled during the dial (otherwise, which
    needs a dialer that ignores its context, the loop ends at once: `stopped_dialOk`) -/
theorem stopped_dialOk_connects (w : World) (hs : w.stopped = true) (hp : w.phase = .dialGate) (i : Nat)
    (hnc : ¬ (w.ctxCancelled = true ∧ w.connectReturned = none)) :
    (step w (.dialOk i)).phase = .connackGate w.conns.length ∧ (step w (.dialOk i)).stopped = true ∧
      (step w (.dialOk i)).dials = w.dials ∧ (step w (.dialOk i)).conns.length = w.conns.length + 1 := by
  rw [step_dialOk_live w i hp hnc]
  exact ⟨rfl, hs, rfl, by simp⟩

/-- in general (any world, any configuration): the loop awaits the CONNACK or — first Connect cancelled
    during the dial — has ended; one more connection, no dial -/
theorem stopped_dialOk (w : World) (hs : w.stopped = true) (hp : w.phase = .dialGate) (i : Nat) :
    ((step w (.dialOk i)).phase = .connackGate w.conns.length ∨ (step w (.dialOk i)).phase = .exited) ∧
      (step w (.dialOk i)).stopped = true ∧
      (step w (.dialOk i)).dials = w.dials ∧ (step w (.dialOk i)).conns.length = w.conns.length + 1 := by
  by_cases hnc : w.ctxCancelled = true ∧ w.connectReturned = none
  · obtain ⟨a, b, _, c, _, _, d, _⟩ := dialOk_cancelled_spec w i hp hnc.1 hnc.2
    exact ⟨Or.inr a, c.trans hs, b, d⟩
  · obtain ⟨a, b, c, d⟩ := stopped_dialOk_connects w hs hp i hnc
    exact ⟨Or.inl a, b, c, d⟩

/-- a stopped loop awaiting the CONNACK: any resolution of the CONNECT attempt ends it -/
theorem stopped_connack_exits (w : World) (k : Nat) (hs : w.stopped = true) (hp : w.phase = .connackGate k) :
    (∀ sp inb, (step w (.connackOk sp inb)).phase = .exited) ∧
    (step w .connackRefused).phase = .exited ∧
    (w.cfg.connectTimeout = true → (step w .connackNever).phase = .exited) :=
  ⟨fun sp inb => connackOk_stopped w k sp inb hp hs, connackRefused_stopped w k hp hs,
   fun ht => connackNever_stopped w k hp hs ht⟩

/-- the whole path: from a stopped world in `.dialGate`, `.dialFail` exits at once, and `.dialOk`
    followed by any of accepted / refused / (with a connect timeout) absent CONNACK exits -/
theorem stopped_dialGate_resolves (w : World) (hs : w.stopped = true) (hp : w.phase = .dialGate) :
    (step w .dialFail).phase = .exited ∧
    ∀ i, (∀ sp inb, (step (step w (.dialOk i)) (.connackOk sp inb)).phase = .exited) ∧
      (step (step w (.dialOk i)) .connackRefused).phase = .exited ∧
      (w.cfg.connectTimeout = true → (step (step w (.dialOk i)) .connackNever).phase = .exited) := by
  refine ⟨stopped_dialFail_exits w hs hp, fun i => ?_⟩
  obtain ⟨h1 | h1, h2, _, _⟩ := stopped_dialOk w hs hp i
  · obtain ⟨a, b, c⟩ := stopped_connack_exits _ _ h2 h1
    refine ⟨a, b, fun ht => c ?_⟩
    rw [step_cfg]; exact ht
  · -- the first Connect was cancelled during the dial: the loop has already ended, and stays so
    exact ⟨fun sp inb => (exited_shape h1 (step_shape _ _)).1, (exited_shape h1 (step_shape _ _)).1,
      fun _ => (exited_shape h1 (step_shape _ _)).1⟩

/-- Disconnect while a DialContext or a CONNECT is in flight: the loop stays where it is, stopped, and
    the statements above apply to `step w .disconnect` -/
theorem disconnect_in_flight_exits (w : World) (hs : w.stopped = false) :
    (w.phase = .dialGate → let w1 := step w .disconnect
      w1.stopped = true ∧ w1.phase = .dialGate ∧ (step w1 .dialFail).phase = .exited ∧
      ∀ i, (∀ sp inb, (step (step w1 (.dialOk i)) (.connackOk sp inb)).phase = .exited) ∧
        (step (step w1 (.dialOk i)) .connackRefused).phase = .exited ∧
        (w.cfg.connectTimeout = true → (step (step w1 (.dialOk i)) .connackNever).phase = .exited)) ∧
    (∀ k, w.phase = .connackGate k → let w1 := step w .disconnect
      w1.stopped = true ∧ w1.phase = .connackGate k ∧
      (∀ sp inb, (step w1 (.connackOk sp inb)).phase = .exited) ∧
      (step w1 .connackRefused).phase = .exited ∧
      (w.cfg.connectTimeout = true → (step w1 .connackNever).phase = .exited)) := by
  obtain ⟨h1, h2, _, _⟩ := disconnect_spec w hs
  have hcfg : (step w .disconnect).cfg = w.cfg := step_disconnect_cfg w
  refine ⟨fun hp => ?_, fun k hp => ?_⟩
  · have hp1 : (step w .disconnect).phase = .dialGate := by rw [h2, hp]; rfl
    obtain ⟨a, b⟩ := stopped_dialGate_resolves _ h1 hp1
    refine ⟨h1, hp1, a, fun i => ?_⟩
    obtain ⟨b1, b2, b3⟩ := b i
    exact ⟨b1, b2, fun ht => b3 (by rw [hcfg]; exact ht)⟩
  · have hp1 : (step w .disconnect).phase = .connackGate k := by rw [h2, hp]; rfl
    obtain ⟨a, b, c⟩ := stopped_connack_exits _ k h1 hp1
    exact ⟨h1, hp1, a, b, fun ht => c (by rw [hcfg]; exact ht)⟩

/-- and whatever else happens in between (requests, timer firings, peer closes, `.start`, a second
    Disconnect, …), a stopped loop with a dial or a CONNECT in flight never goes back to waiting or
    dialling: it stays in flight or has exited -/
theorem stopped_in_flight_stays (w : World) (evs' : List Ev) (hs : w.stopped = true)
    (hp : w.phase = .dialGate ∨ ∃ k, w.phase = .connackGate k) : let w' := evs'.foldl step w
    w'.phase = .dialGate ∨ (∃ k, w'.phase = .connackGate k) ∨ w'.phase = .exited := by
  induction evs' generalizing w with
  | nil => rcases hp with h | h; exact Or.inl h; exact Or.inr (Or.inl h)
  | cons e es ih =>
    have hs1 : (step w e).stopped = true := (stopped_shape hs (step_shape w e)).1
    obtain ⟨g1, g2⟩ := stopped_gate_shape hs (step_shape w e)
    have hnext : (step w e).phase = .dialGate ∨ (∃ k, (step w e).phase = .connackGate k) ∨
        (step w e).phase = .exited := by
      rcases hp with h | ⟨k, h⟩
      · rcases g1 h with a | a | ⟨_, a⟩
        · exact Or.inl a
        · exact Or.inr (Or.inr a)
        · exact Or.inr (Or.inl ⟨_, a⟩)
      · rcases g2 k h with a | a
        · exact Or.inr (Or.inl ⟨k, a⟩)
        · exact Or.inr (Or.inr a)
    rcases hnext with a | a | a
    · exact ih _ hs1 (Or.inl a)
    · exact ih _ hs1 (Or.inr a)
    · exact Or.inr (Or.inr (exited_foldl es _ a).1)

/-- Disconnect before `Connect` (phase `.idle`): nothing happens until the application calls Connect … -/
theorem no_dial_while_idle (w : World) (evs' : List Ev) (h : w.phase = .idle) (hev : ∀ e ∈ evs', e ≠ .start) :
    (evs'.foldl step w).phase = .idle ∧ (evs'.foldl step w).dials = w.dials ∧
      (evs'.foldl step w).conns.length = w.conns.length :=
  idle_foldl evs' hev w h

/-- … and if it does call Connect afterwards, the model (like the Go loop, whose first action is
    `DialContext`) makes exactly that one dial attempt: at most one dial, at most one connection, ever.
    (Out of scope of C09, recorded for completeness; see `demoIdle*` below for what then happens:
    a dial error or any CONNACK outcome ends the loop.) -/
theorem disconnect_before_connect (w : World) (evs' : List Ev) (hs : w.stopped = false) (hp : w.phase = .idle) :
    (evs'.foldl step (step w .disconnect)).dials ≤ w.dials + 1 ∧
    (evs'.foldl step (step w .disconnect)).conns.length ≤ w.conns.length + 1 := by
  obtain ⟨h1, h2, h3, h4⟩ := disconnect_spec w hs
  obtain ⟨_, b2, b3, b4, b5⟩ := stopped_budget (step w .disconnect) evs' h1
  have hb : dialBudget (step w .disconnect).phase = 1 ∧ connBudget (step w .disconnect).phase = 1 := by
    rw [h2, hp]; exact ⟨rfl, rfl⟩
  omega

/-! ### (5) cancellation of the context given to Connect -/

/-- `.cancelCtx` after the first success (Connect has returned: the loop runs on `context.Background()`)
    changes nothing -/
theorem cancel_after_success (w : World) (h : w.connectReturned.isSome = true) : step w .cancelCtx = w :=
  step_cancel_noop w (Or.inr h)

/-- a context can be cancelled only once -/
theorem cancel_twice (w : World) (h : w.ctxCancelled = true) : step w .cancelCtx = w :=
  step_cancel_noop w (Or.inl h)

/-- An EFFECTIVE cancellation (Connect has not returned, the context was live) while the loop is running
    and not connected — waiting to redial, dialling, awaiting the CONNACK — or has already ended on
    Disconnect: the loop is `.exited` immediately, Connect returns the context's error, nothing is
    dialled or created; the connection whose CONNACK was awaited is closed. Any world, any configuration;
    the only exception (`hnd`) is a cancellation that arrives inside the DialContext of a dialer that ignores
    its context, for which see `cancel_deaf_dial`. -/
theorem cancel_exits (w : World) (hcr : w.connectReturned = none) (hcc : w.ctxCancelled = false)
    (hp : w.phase = .backoff ∨ w.phase = .dialGate ∨ (∃ k, w.phase = .connackGate k) ∨ w.phase = .exited)
    (hnd : w.phase = .dialGate → w.cfg.deafDialer = false) :
    let w' := step w .cancelCtx
    w'.phase = .exited ∧ w'.connectErr = true ∧ w'.ctxCancelled = true ∧ w'.connectReturned = none ∧
    w'.dials = w.dials ∧ w'.conns.length = w.conns.length ∧ w'.waits = w.waits ∧ w'.stopped = w.stopped ∧
    (∀ k, w.phase = .connackGate k → k < w.conns.length → (getConn w' k).alive = false) := by
  obtain ⟨c1, c2, _, c4, _, c6, c7, c8⟩ := cancel_spec w hcc hcr hnd
  obtain ⟨x1, x2, x3⟩ := ctxSt_eq' c8
  have hph : cancelPhase w.phase = .exited ∧ cancelErr w.phase w.connectErr = true := by
    rcases hp with h | h | ⟨k, h⟩ | h <;> rw [h] <;> exact ⟨rfl, rfl⟩
  refine ⟨c2.trans hph.1, x3.trans hph.2, x2, x1, c6, c1.1, c4, c7, fun k hk hlt => ?_⟩
  show (getConn (step w .cancelCtx) k).alive = false
  rw [step_cancel_gate w k hcc hcr hk]
  exact cancelGate_dead w k hlt

/-- An effective cancellation inside the DialContext of a dialer that ignores its context: Connect
    returns the context's error at once, nothing else changes — the dial goes on, the loop acts on its
    result (`cancelled_dialGate_resolves`). -/
theorem cancel_deaf_dial (w : World) (hcr : w.connectReturned = none) (hcc : w.ctxCancelled = false)
    (hp : w.phase = .dialGate) (hdf : w.cfg.deafDialer = true) :
    step w .cancelCtx = { w with ctxCancelled := true, connectErr := true } :=
  step_cancel_deaf w hcc hcr hp hdf

/-- The general statement (any world, ANY configuration): an effective cancellation outside `.idle` / `.up`
    makes Connect return the error immediately, dials nothing, creates nothing; the loop is `.exited`, or —
    only if it was inside the DialContext of a dialer that ignores its context — still `.dialGate`. -/
theorem cancel_effective (w : World) (hcr : w.connectReturned = none) (hcc : w.ctxCancelled = false)
    (hp : w.phase = .backoff ∨ w.phase = .dialGate ∨ (∃ k, w.phase = .connackGate k) ∨ w.phase = .exited) :
    let w' := step w .cancelCtx
    w'.connectErr = true ∧ w'.ctxCancelled = true ∧ w'.connectReturned = none ∧
    w'.dials = w.dials ∧ w'.conns.length = w.conns.length ∧ w'.waits = w.waits ∧ w'.stopped = w.stopped ∧
    (w'.phase = .exited ∨ (w'.phase = .dialGate ∧ w.phase = .dialGate ∧ w.cfg.deafDialer = true)) ∧
    ((w.phase = .dialGate → w.cfg.deafDialer = false) → w'.phase = .exited) := by
  by_cases hdd : w.phase = .dialGate ∧ w.cfg.deafDialer = true
  · have hst := cancel_deaf_dial w hcr hcc hdd.1 hdd.2
    dsimp only
    rw [hst]
    refine ⟨rfl, rfl, hcr, rfl, rfl, rfl, rfl, Or.inr ⟨hdd.1, hdd.1, hdd.2⟩, fun hnd => ?_⟩
    have := hnd hdd.1
    rw [hdd.2] at this; cases this
  · have hnd : w.phase = .dialGate → w.cfg.deafDialer = false := by
      intro h
      cases hq : w.cfg.deafDialer
      · rfl
      · exact absurd ⟨h, hq⟩ hdd
    obtain ⟨a1, a2, a3, a4, a5, a6, a7, a8, _⟩ := cancel_exits w hcr hcc hp hnd
    exact ⟨a2, a3, a4, a5, a6, a7, a8, Or.inl a1, fun _ => a1⟩

/-- The resolution of a dial that outlived the cancellation of the first Connect (any world with a
    cancelled first Connect in `.dialGate`; reachable only with a dialer that ignores its context): the loop
    is `.exited` as soon as `.dialFail` or `.dialOk` arrives, whether or not Disconnect was called.
    `.dialFail`: nothing else changes — no wait is logged, no back-off. `.dialOk`: exactly ONE connection is
    appended, CONNECT written and closed from the start (with nothing queued it carries only CONNECT); no
    dial, no wait; Connect's outcome stays the error. -/
theorem cancelled_dialGate_resolves (w : World) (hcc : w.ctxCancelled = true) (hcr : w.connectReturned = none)
    (hp : w.phase = .dialGate) :
    step w .dialFail = { w with phase := .exited } ∧
    ∀ i, (step w (.dialOk i)).phase = .exited ∧ (step w (.dialOk i)).dials = w.dials ∧
      (step w (.dialOk i)).waits = w.waits ∧
      (step w (.dialOk i)).conns.length = w.conns.length + 1 ∧
      (getConn (step w (.dialOk i)) w.conns.length).alive = false ∧
      (w.taskQ = [] → (step w (.dialOk i)).conns =
        w.conns ++ [{ ctr := i, handler := w.handler, pkts := [(.connect, .sent .ok)], alive := false }]) ∧
      (step w (.dialOk i)).connectErr = w.connectErr ∧ (step w (.dialOk i)).connectReturned = none := by
  refine ⟨step_dialFail_cancelled w hp hcc hcr, fun i => ?_⟩
  obtain ⟨a, b, c, _, d, _, e, f, g⟩ := dialOk_cancelled_spec w i hp hcc hcr
  obtain ⟨d1, _, d3⟩ := ctxSt_eq d
  exact ⟨a, b, c, e, f, g, d3, d1.trans hcr⟩

/-- Connect returns once, and an error only for a cancelled context from a loop that never connected: in
    every reachable world `connectErr` implies a cancelled context, no success, and a loop that is `.exited`
    or — only with a dialer that ignores its context — still inside the DialContext that was in flight; a
    loop that watches a connection has returned success (so an effective cancellation never meets `.up`);
    and once Connect was called, a cancelled context without a success means the error HAS been returned. -/
theorem connect_returns_once (s : Script) : let w := exec s
    (w.connectErr = true → (w.phase = .exited ∨ (w.phase = .dialGate ∧ w.cfg.deafDialer = true)) ∧
      w.connectReturned = none ∧ w.ctxCancelled = true) ∧
    (∀ k, w.phase = .up k → w.connectReturned.isSome = true) ∧
    (w.phase = .idle → w.connectReturned = none ∧ w.connectErr = false) ∧
    (w.ctxCancelled = true → w.connectReturned = none → w.phase ≠ .idle → w.connectErr = true) :=
  ⟨(XInv.exec s).2.1, (XInv.exec s).2.2.1, (XInv.exec s).1, (XInv.exec s).2.2.2⟩

/-- the statement as it was before the dialer that ignores its context: with a context-aware dialer an
    error is only ever returned by a loop that has ended -/
theorem connect_error_means_exited (s : Script) (hdf : s.cfg.deafDialer = false) : let w := exec s
    w.connectErr = true → w.phase = .exited ∧ w.connectReturned = none ∧ w.ctxCancelled = true := by
  intro w he
  obtain ⟨a | ⟨_, a⟩, b, c⟩ := (connect_returns_once s).1 he
  · exact ⟨a, b, c⟩
  · rw [show (exec s).cfg = s.cfg from exec_cfg s, hdf] at a; cases a

/-- where a loop whose first Connect was cancelled before any success can be -/
theorem cancelled_means_ended (s : Script) : let w := exec s
    w.ctxCancelled = true → w.connectReturned = none →
      w.phase = .idle ∨ w.phase = .exited ∨ (w.phase = .dialGate ∧ w.cfg.deafDialer = true) :=
  fun hcc hcr => (XInv.exec s).cancelled_phase hcc hcr

/-- with a context-aware dialer the branches of `step` added for the deaf dialer (`.dialOk` / `.dialFail`
    in `.dialGate` with a cancelled first Connect) are unreachable: the step function is the old one on
    every reachable world -/
theorem deaf_branches_unreachable (s : Script) (hdf : s.cfg.deafDialer = false) : let w := exec s
    ¬ (w.phase = .dialGate ∧ w.ctxCancelled = true ∧ w.connectReturned = none) :=
  (XInv.exec s).not_deaf ((exec_cfg s).symm ▸ hdf)

/-- in particular cancellation while connected does nothing (reachable worlds) -/
theorem cancel_while_connected (s : Script) (k : Nat) (h : (exec s).phase = .up k) :
    step (exec s) .cancelCtx = exec s :=
  cancel_after_success _ ((connect_returns_once s).2.1 k h)

/-- what Connect returned is never revoked: for any world and any later events an error stays, a
    cancelled context stays cancelled, a returned session-present flag stays -/
theorem connect_outcome_is_final (w : World) (evs' : List Ev) : let w' := evs'.foldl step w
    (w.connectErr = true → w'.connectErr = true) ∧ (w.ctxCancelled = true → w'.ctxCancelled = true) ∧
    (w.connectReturned.isSome = true → w'.connectReturned = w.connectReturned) :=
  ctxMono_foldl evs' w

theorem exec_append (s : Script) (l : List Ev) : exec { s with evs := s.evs ++ l } = l.foldl step (exec s) := by
  show (s.evs ++ l).foldl step (init s) = _
  rw [List.foldl_append]; rfl

/-- the phases an effective cancellation can meet along a run, once Connect was called -/
theorem cancel_phases (s : Script) : let w := exec s
    w.connectReturned = none → w.phase ≠ .idle →
      w.phase = .backoff ∨ w.phase = .dialGate ∨ (∃ k, w.phase = .connackGate k) ∨ w.phase = .exited := by
  intro w hcr hp
  cases hq : w.phase with
  | idle => exact absurd hq hp
  | backoff => exact Or.inl rfl
  | dialGate => exact Or.inr (Or.inl rfl)
  | connackGate k => exact Or.inr (Or.inr (Or.inl ⟨k, rfl⟩))
  | exited => exact Or.inr (Or.inr (Or.inr rfl))
  | up k =>
    have := (connect_returns_once s).2.1 k hq
    rw [show (exec s).connectReturned = none from hcr] at this; cases this

/-- (5), ALL configurations. Along any run: an effective cancellation before the first success, in ANY
    phase after Connect was called (waiting to redial, dialling, awaiting CONNACK, exited; `.up` cannot
    occur): Connect returns the context's error immediately; nothing is dialled or created by the
    cancellation itself; the loop is `.exited` at once, or — only inside the DialContext of a dialer that
    ignores its context — still `.dialGate`. Then for ANY later events `w'`:
      * `dials` NEVER grows again;
      * the loop is `.exited`, or still inside that same DialContext — and then nothing was created;
      * at most ONE more connection is ever created (none if the loop was `.exited` at once), every
        connection created is closed from the start;
      * Connect's result stays the error and never becomes a success. -/
theorem cancel_never_dials (s : Script) (evs' : List Ev) : let w := exec s
    w.connectReturned = none → w.ctxCancelled = false → w.phase ≠ .idle →
      let w1 := step w .cancelCtx
      let w' := evs'.foldl step w1
      w1.connectErr = true ∧ w1.dials = w.dials ∧ w1.conns.length = w.conns.length ∧
      (w1.phase = .exited ∨ (w1.phase = .dialGate ∧ w.phase = .dialGate ∧ w.cfg.deafDialer = true)) ∧
      w'.dials = w.dials ∧
      (w'.phase = .exited ∨ (w'.phase = .dialGate ∧ w1.phase = .dialGate)) ∧
      (w'.phase = .dialGate → w'.conns.length = w.conns.length) ∧
      w.conns.length ≤ w'.conns.length ∧ w'.conns.length ≤ w.conns.length + 1 ∧
      (w1.phase = .exited → w'.conns.length = w.conns.length) ∧
      (∀ j, w.conns.length ≤ j → j < w'.conns.length → (getConn w' j).alive = false) ∧
      w'.connectErr = true ∧ w'.connectReturned = none ∧ w'.ctxCancelled = true := by
  intro w hcr hcc hp
  have hph := cancel_phases s hcr hp
  obtain ⟨a1, a2, a3, a4, a5, _, _, a8, _⟩ := cancel_effective w hcr hcc hph
  have hp1 : (step w .cancelCtx).phase = .exited ∨ (step w .cancelCtx).phase = .dialGate := by
    rcases a8 with h | ⟨h, _⟩
    · exact Or.inl h
    · exact Or.inr h
  obtain ⟨b1, b2, b3, b4, b5, b6, b7⟩ := cancelled_foldl evs' (step w .cancelCtx) a2 a3 hp1
  have b8 := (ctxMono_foldl evs' (step w .cancelCtx)).1 a1
  have hb : connBudget (step w .cancelCtx).phase ≤ 1 := by
    rcases hp1 with h | h <;> rw [h] <;> simp [connBudget]
  dsimp only
  refine ⟨a1, a4, a5, a8, b3.trans a4, b4, fun hg => ?_, by omega, by omega, fun he => ?_,
    fun j h1 h2 => b7 j (by omega) h2, b8, b2, b1⟩
  · rw [hg] at b6; simp only [connBudget] at b6 hb; omega
  · rw [he] at b6; simp only [connBudget] at b6 hb; omega

/-- (5) as it was stated before the dialer that ignores its context; it holds in EVERY configuration for a
    cancellation that arrives while waiting to redial, awaiting the CONNACK or after the loop has ended, and
    for one that arrives inside DialContext with a context-aware dialer (`hnd`): the loop ends at once with
    the context's error, and for ANY later events it stays `.exited`, `dials` and the number of connections
    never grow again, Connect's result stays the error and never becomes a success.
    (FALSE without `hnd`: `demoDeafCancelDialOk`, `old_cancel_then_nothing_false` below.) -/
theorem cancel_then_nothing (s : Script) (evs' : List Ev) : let w := exec s
    w.connectReturned = none → w.ctxCancelled = false → w.phase ≠ .idle →
    (w.phase = .dialGate → w.cfg.deafDialer = false) →
      (step w .cancelCtx).phase = .exited ∧ (step w .cancelCtx).connectErr = true ∧
      (step w .cancelCtx).dials = w.dials ∧ (step w .cancelCtx).conns.length = w.conns.length ∧
      (evs'.foldl step (step w .cancelCtx)).phase = .exited ∧
      (evs'.foldl step (step w .cancelCtx)).dials = w.dials ∧
      (evs'.foldl step (step w .cancelCtx)).conns.length = w.conns.length ∧
      (evs'.foldl step (step w .cancelCtx)).connectErr = true ∧
      (evs'.foldl step (step w .cancelCtx)).connectReturned = none := by
  intro w hcr hcc hp hnd
  have hph := cancel_phases s hcr hp
  obtain ⟨a1, a2, _, _, a5, a6, _, _, _⟩ := cancel_exits w hcr hcc hph hnd
  obtain ⟨b1, b2, b3⟩ := exited_foldl evs' _ a1
  have b4 := (ctxMono_foldl evs' (step w .cancelCtx)).1 a2
  refine ⟨a1, a2, a5, a6, b1, b2.trans a5, b3.trans a6, b4, ?_⟩
  have hx := (connect_returns_once { s with evs := s.evs ++ .cancelCtx :: evs' }).1
  rw [exec_append] at hx
  exact (hx b4).2.1

/-- … in particular, word for word the old statement, for every script run with a context-aware dialer -/
theorem cancel_then_nothing_aware (s : Script) (hdf : s.cfg.deafDialer = false) (evs' : List Ev) : let w := exec s
    w.connectReturned = none → w.ctxCancelled = false → w.phase ≠ .idle →
      (step w .cancelCtx).phase = .exited ∧ (step w .cancelCtx).connectErr = true ∧
      (step w .cancelCtx).dials = w.dials ∧ (step w .cancelCtx).conns.length = w.conns.length ∧
      (evs'.foldl step (step w .cancelCtx)).phase = .exited ∧
      (evs'.foldl step (step w .cancelCtx)).dials = w.dials ∧
      (evs'.foldl step (step w .cancelCtx)).conns.length = w.conns.length ∧
      (evs'.foldl step (step w .cancelCtx)).connectErr = true ∧
      (evs'.foldl step (step w .cancelCtx)).connectReturned = none :=
  fun hcr hcc hp => cancel_then_nothing s evs' hcr hcc hp (fun _ => (exec_cfg s).symm ▸ hdf)

/-- … and with a dialer that ignores its context, cancelled inside DialContext: Connect returns the error
    at once, the loop stays in `.dialGate` exactly until the dial resolves — the FIRST `.dialFail` /
    `.dialOk` ends it (see `cancelled_dialGate_resolves` for what that step does) -/
theorem cancel_deaf_then_resolves (w : World) (hcr : w.connectReturned = none) (hcc : w.ctxCancelled = false)
    (hp : w.phase = .dialGate) (hdf : w.cfg.deafDialer = true) : let w1 := step w .cancelCtx
    w1.phase = .dialGate ∧ w1.connectErr = true ∧ w1.dials = w.dials ∧ w1.conns = w.conns ∧
    (step w1 .dialFail).phase = .exited ∧ (step w1 .dialFail).conns = w.conns ∧
    (step w1 .dialFail).waits = w.waits ∧ (step w1 .dialFail).dials = w.dials ∧
    ∀ i, (step w1 (.dialOk i)).phase = .exited ∧ (step w1 (.dialOk i)).dials = w.dials ∧
      (step w1 (.dialOk i)).conns.length = w.conns.length + 1 ∧
      (getConn (step w1 (.dialOk i)) w.conns.length).alive = false ∧
      (step w1 (.dialOk i)).connectErr = true := by
  have hst := cancel_deaf_dial w hcr hcc hp hdf
  obtain ⟨r1, r2⟩ := cancelled_dialGate_resolves (step w .cancelCtx) (by rw [hst]) (by rw [hst]; exact hcr)
    (by rw [hst]; exact hp)
  dsimp only
  refine ⟨by rw [hst]; exact hp, by rw [hst], by rw [hst], by rw [hst], by rw [r1], by rw [r1, hst],
    by rw [r1, hst], by rw [r1, hst], fun i => ?_⟩
  obtain ⟨q1, q2, _, q4, q5, _, q7, _⟩ := r2 i
  have e1 : (step w .cancelCtx).dials = w.dials := by rw [hst]
  have e2 : (step w .cancelCtx).conns = w.conns := by rw [hst]
  have e3 : (step w .cancelCtx).connectErr = true := by rw [hst]
  rw [e2] at q4 q5
  exact ⟨q1, q2.trans e1, q4, q5, q7.trans e3⟩

/-- cancellation before Connect is even called: nothing happens until `.start`, which then makes the one
    dial attempt of the Go loop and returns the error; a context-aware dialer fails at once (the loop is
    `.exited`), a dialer that ignores its context goes on dialling (`.dialGate`, see
    `cancel_before_connect_then`) -/
theorem cancel_before_connect (w : World) (hcr : w.connectReturned = none) (hcc : w.ctxCancelled = false)
    (hp : w.phase = .idle) : let w1 := step w .cancelCtx
    w1.phase = .idle ∧ w1.dials = w.dials ∧ w1.ctxCancelled = true ∧ w1.connectErr = w.connectErr ∧
    (step w1 .start).phase = (if w.cfg.deafDialer = true then .dialGate else .exited) ∧
    (step w1 .start).dials = w.dials + 1 ∧
    (step w1 .start).connectErr = true ∧ (step w1 .start).conns = w.conns ∧
    (step w1 .start).ctxCancelled = true ∧ (step w1 .start).connectReturned = none := by
  have h : ¬ (w.ctxCancelled = true ∨ w.connectReturned.isSome = true) := by rw [hcc, hcr]; simp
  have hst : step w .cancelCtx = { w with ctxCancelled := true } := by simp only [step, if_neg h, hp]
  simp only [hst]
  cases hdf : w.cfg.deafDialer <;> simp [step, hp, hdf, hcr]

/-- … and whatever happens after that `.start`: never another dial, at most one connection (none with a
    context-aware dialer), closed from the start; the loop is `.exited` or inside that one DialContext -/
theorem cancel_before_connect_then (w : World) (hcr : w.connectReturned = none) (hcc : w.ctxCancelled = false)
    (hp : w.phase = .idle) (evs' : List Ev) : let w' := evs'.foldl step (step (step w .cancelCtx) .start)
    w'.dials = w.dials + 1 ∧ (w'.phase = .exited ∨ w'.phase = .dialGate) ∧
    w.conns.length ≤ w'.conns.length ∧ w'.conns.length ≤ w.conns.length + 1 ∧
    (w.cfg.deafDialer = false → w'.phase = .exited ∧ w'.conns.length = w.conns.length) ∧
    (∀ j, w.conns.length ≤ j → j < w'.conns.length → (getConn w' j).alive = false) ∧
    w'.connectErr = true ∧ w'.connectReturned = none := by
  obtain ⟨_, _, _, _, a5, a6, a7, a8, a9, a10⟩ := cancel_before_connect w hcr hcc hp
  have hp2 : (step (step w .cancelCtx) .start).phase = .exited ∨ (step (step w .cancelCtx) .start).phase = .dialGate := by
    rw [a5]; split
    · exact Or.inr rfl
    · exact Or.inl rfl
  obtain ⟨b1, b2, b3, b4, b5, b6, b7⟩ := cancelled_foldl evs' _ a9 a10 hp2
  have b8 := (ctxMono_foldl evs' (step (step w .cancelCtx) .start)).1 a7
  have hb : connBudget (step (step w .cancelCtx) .start).phase ≤ 1 := by
    rcases hp2 with h | h <;> rw [h] <;> simp [connBudget]
  rw [a8] at b5 b6 b7
  dsimp only
  refine ⟨b3.trans a6, ?_, b5, by omega, fun hdf => ?_, b7, b8, b2⟩
  · rcases b4 with h | ⟨h, _⟩
    · exact Or.inl h
    · exact Or.inr h
  · have he : (step (step w .cancelCtx) .start).phase = .exited := by rw [a5, hdf]; rfl
    obtain ⟨c1, _, c3⟩ := exited_foldl evs' _ he
    exact ⟨c1, by rw [c3, a8]⟩

/-! ### non-vacuity -/

/-- two dial failures, a refused CONNACK, an accepted one, a QoS 1 publish, a peer close, another dial
    failure, an accepted CONNACK, a publish whose PUBACK is lost with the connection, a reconnect
    that retransmits it; every redial after its `.waitElapsed` -/
def demo : Script :=
  { faults := [.ok, .lostAck, .ok],
    evs := [.start, .dialFail, .waitElapsed, .dialFail, .waitElapsed, .dialOk 0, .connackRefused, .waitElapsed,
            .dialOk 5, .connackOk false [], .app (.pub 1 1), .peerClose, .waitElapsed, .dialFail, .waitElapsed,
            .dialOk 7, .connackOk true [], .app (.pub 2 1), .waitElapsed, .dialOk 9, .connackOk true []] }

example : (exec demo).waits = [0, 1, 2, 0, 1, 0] := by decide
example : (exec demo).waits = consecutive 0 [.failed, .failed, .failed, .established, .failed, .established] := by
  decide
example : (exec demo).waits.map (waitAfter 4 10) = [4, 8, 10, 4, 8, 4] := by decide
example : (exec demo).dials = 7 ∧ (exec demo).waitExp = 0 ∧ (exec demo).phase = .up 3 := by decide
example : redials (init demo) demo.evs = 6 ∧ starts (init demo) demo.evs = 1 := by decide
example : (exec demo).conns.map (·.alive) = [false, false, false, true] := by decide
example : (exec demo).conns.map (·.pkts.head?) =
    [some (.connect, .sent .ok), some (.connect, .sent .ok), some (.connect, .sent .ok), some (.connect, .sent .ok)] := by
  decide
example : (exec demo).conns.map (·.pkts.length) = [1, 2, 2, 2] := by decide
example : (exec demo).conns.map (fun c => (c.pkts.filter (fun pw => pw.1 == .connect)).length) = [1, 1, 1, 1] := by
  decide
-- `dial_only_when_all_closed` is not vacuous: after the peer close and the wait a dial does create a connection
example : let w := exec { demo with evs := demo.evs.take 13 }
    w.phase = .dialGate ∧ (step w (.dialOk 3)).conns.length = w.conns.length + 1 := by decide
-- without `.waitElapsed` the loop does NOT dial: the failure leaves it in `.backoff`, where `.dialOk` / `.dialFail` do nothing
example : let w := exec { demo with evs := demo.evs.take 12 }
    w.phase = .backoff ∧ w.dials = 4 ∧ w.waits = [0, 1, 2, 0] ∧
    (step w (.dialOk 3)).conns.length = w.conns.length ∧ (step w .dialFail).waits = w.waits ∧
    (step w .waitElapsed).dials = 5 ∧ (step w .waitElapsed).phase = .dialGate := by decide
-- the same script with the timer firings removed never gets past the first failure
example : (exec { demo with evs := demo.evs.filter (fun e => !isWaitElapsed e) }).dials = 1 ∧
    (exec { demo with evs := demo.evs.filter (fun e => !isWaitElapsed e) }).phase = .backoff ∧
    (exec { demo with evs := demo.evs.filter (fun e => !isWaitElapsed e) }).conns.length = 0 := by decide

/-- Disconnect while connected: the loop exits, DISCONNECT is the last packet, later events change nothing -/
def demoDisc : Script :=
  { evs := [.start, .dialOk 0, .connackOk false [], .app (.pub 1 1), .disconnect,
            .peerClose, .waitElapsed, .dialOk 1, .dialFail, .connackRefused, .start, .cancelCtx, .app (.pub 2 1)] }

example : (exec demoDisc).phase = .exited ∧ (exec demoDisc).stopped = true ∧ (exec demoDisc).dials = 1 ∧
    (exec demoDisc).conns.length = 1 ∧ (exec demoDisc).rejected = 1 ∧ (exec demoDisc).connectErr = false := by decide
example : (exec demoDisc).conns.map (·.pkts.getLast?) = [some (.disconnect, .sent .ok)] := by decide

/-- Disconnect while waiting to redial (`.backoff`): the select on the timer returns, the loop exits;
    the timer firing and dial results afterwards do nothing -/
def demoDiscBackoff : Script :=
  { evs := [.start, .dialFail, .waitElapsed, .dialOk 0, .connackOk false [], .peerClose, .disconnect,
            .waitElapsed, .dialOk 1, .connackOk false [], .dialFail, .waitElapsed] }

example : let w := exec { demoDiscBackoff with evs := demoDiscBackoff.evs.take 6 }
    w.phase = .backoff ∧ w.stopped = false ∧ w.dials = 2 ∧ w.waits = [0, 0] ∧ w.conns.map (·.alive) = [false] := by
  decide
example : let w := exec { demoDiscBackoff with evs := demoDiscBackoff.evs.take 7 }
    w.phase = .exited ∧ w.stopped = true ∧ w.dials = 2 := by decide
example : (exec demoDiscBackoff).phase = .exited ∧ (exec demoDiscBackoff).dials = 2 ∧
    (exec demoDiscBackoff).conns.length = 1 ∧ (exec demoDiscBackoff).waits = [0, 0] := by decide

/-- Disconnect while DialContext is in flight (`.dialGate`), which then succeeds: the transport is
    taken, CONNECT goes out, the accepted CONNACK ends the loop, the queued Disconnect task closes the
    connection — one more connection, no further dial -/
def demoDiscDial : Script :=
  { evs := [.start, .dialFail, .waitElapsed, .disconnect, .dialOk 0, .connackOk false [],
            .waitElapsed, .dialOk 1, .dialFail] }

example : let w := exec { demoDiscDial with evs := demoDiscDial.evs.take 4 }
    w.stopped = true ∧ w.phase = .dialGate ∧ w.dials = 2 ∧ w.conns.length = 0 := by decide
example : let w := exec { demoDiscDial with evs := demoDiscDial.evs.take 5 }
    w.stopped = true ∧ w.phase = .connackGate 0 ∧ w.dials = 2 ∧
    w.conns.map (·.pkts) = [[(.connect, .sent .ok)]] := by decide
example : (exec demoDiscDial).phase = .exited ∧ (exec demoDiscDial).dials = 2 ∧
    (exec demoDiscDial).conns.map (·.alive) = [false] ∧ (exec demoDiscDial).waits = [0] ∧
    (exec demoDiscDial).conns.map (·.pkts.getLast?) = [some (.disconnect, .sent .ok)] := by decide

/-- … the dial in flight fails: the loop exits on the spot, no wait is logged -/
def demoDiscDialFail : Script :=
  { evs := [.start, .disconnect, .dialFail, .waitElapsed, .dialOk 0] }

example : (exec demoDiscDialFail).phase = .exited ∧ (exec demoDiscDialFail).dials = 1 ∧
    (exec demoDiscDialFail).conns.length = 0 ∧ (exec demoDiscDialFail).waits = [] := by decide

/-- … the dial succeeds but the CONNACK is refused: exits, no wait, no redial -/
def demoDiscDialRefused : Script :=
  { evs := [.start, .disconnect, .dialOk 0, .connackRefused, .waitElapsed, .dialOk 1] }

example : (exec demoDiscDialRefused).phase = .exited ∧ (exec demoDiscDialRefused).dials = 1 ∧
    (exec demoDiscDialRefused).conns.map (·.alive) = [false] ∧ (exec demoDiscDialRefused).waits = [] := by decide
/-- so the former statement of `disconnect_then_no_dial` (number of connections unchanged) is false in `.dialGate` -/
example : ¬ (∀ (w : World) (evs' : List Ev), w.stopped = false → w.phase ≠ .idle →
    (evs'.foldl step (step w .disconnect)).conns.length = w.conns.length) := by
  intro h
  have := h (exec { evs := [.start] }) [.dialOk 0] (by decide) (by decide)
  revert this
  decide

/-- Disconnect while the CONNACK is pending, which then arrives and is accepted: the connection is
    established, the queued Disconnect task closes it at once, the loop exits — no further dial -/
def demoDiscGate : Script :=
  { evs := [.start, .dialOk 0, .disconnect, .connackOk false [], .waitElapsed, .dialOk 1, .dialFail] }

example : let w := exec { demoDiscGate with evs := demoDiscGate.evs.take 3 }
    w.stopped = true ∧ w.phase = .connackGate 0 ∧ w.dials = 1 := by decide
example : (exec demoDiscGate).phase = .exited ∧ (exec demoDiscGate).dials = 1 ∧
    (exec demoDiscGate).conns.map (·.alive) = [false] := by decide

/-! ### Disconnect while the CONNACK is pending, which is then refused / never comes -/

def demoDiscGateRefused : Script :=
  { evs := [.start, .dialOk 0, .disconnect, .connackRefused, .waitElapsed, .dialOk 0] }

example : let w := exec { demoDiscGateRefused with evs := demoDiscGateRefused.evs.take 3 }
    w.stopped = true ∧ w.phase = .connackGate 0 ∧ w.dials = 1 ∧ w.conns.length = 1 := by decide
example : (exec demoDiscGateRefused).stopped = true ∧ (exec demoDiscGateRefused).dials = 1 ∧
    (exec demoDiscGateRefused).conns.map (·.alive) = [false] ∧ (exec demoDiscGateRefused).waits = [] ∧
    (exec demoDiscGateRefused).phase = .exited := by decide

def demoDiscGateLong : Script :=
  { evs := [.start, .dialOk 0, .disconnect, .connackNever, .waitElapsed, .dialFail, .waitElapsed, .dialFail,
            .dialOk 0, .connackOk false []] }

example : (exec demoDiscGateLong).stopped = true ∧ (exec demoDiscGateLong).phase = .exited ∧
    (exec demoDiscGateLong).dials = 1 ∧ (exec demoDiscGateLong).conns.map (·.alive) = [false] ∧
    (exec demoDiscGateLong).taskQ = [] := by decide

/-! ### cancellation of Connect's context -/

/-- cancelled while waiting to redial, before any success: the loop exits, Connect returns the error;
    the timer and dial results afterwards do nothing -/
def demoCancelBackoff : Script :=
  { evs := [.start, .dialFail, .cancelCtx, .waitElapsed, .dialOk 0, .connackOk false []] }

example : let w := exec { demoCancelBackoff with evs := demoCancelBackoff.evs.take 2 }
    w.phase = .backoff ∧ w.connectReturned = none ∧ w.ctxCancelled = false := by decide
example : (exec demoCancelBackoff).phase = .exited ∧ (exec demoCancelBackoff).connectErr = true ∧
    (exec demoCancelBackoff).dials = 1 ∧ (exec demoCancelBackoff).conns.length = 0 ∧
    (exec demoCancelBackoff).connectReturned = none ∧ (exec demoCancelBackoff).stopped = false := by decide

/-- cancelled inside DialContext -/
def demoCancelDial : Script := { evs := [.start, .cancelCtx, .dialOk 0, .dialFail, .waitElapsed] }

example : (exec demoCancelDial).phase = .exited ∧ (exec demoCancelDial).connectErr = true ∧
    (exec demoCancelDial).dials = 1 ∧ (exec demoCancelDial).conns.length = 0 ∧ (exec demoCancelDial).waits = [] := by
  decide

/-- cancelled while the CONNACK is awaited: the connection is closed, the loop exits; a late CONNACK does nothing -/
def demoCancelGate : Script :=
  { evs := [.start, .dialOk 0, .app (.pub 1 1), .cancelCtx, .connackOk false [], .waitElapsed, .dialOk 1] }

example : (exec demoCancelGate).phase = .exited ∧ (exec demoCancelGate).connectErr = true ∧
    (exec demoCancelGate).dials = 1 ∧ (exec demoCancelGate).conns.map (·.alive) = [false] ∧
    (exec demoCancelGate).conns.map (·.connected) = [false] ∧ (exec demoCancelGate).connectReturned = none := by
  decide

/-- cancelled after the first success: no effect at all — the loop goes on reconnecting -/
def demoCancelLate : Script :=
  { evs := [.start, .dialOk 0, .connackOk false [], .cancelCtx, .peerClose, .waitElapsed, .dialOk 1,
            .connackOk true []] }

example : (exec demoCancelLate).phase = .up 1 ∧ (exec demoCancelLate).connectErr = false ∧
    (exec demoCancelLate).ctxCancelled = false ∧ (exec demoCancelLate).dials = 2 ∧
    (exec demoCancelLate).connectReturned = some false ∧
    (exec demoCancelLate).conns.map (·.alive) = [false, true] := by decide
example : exec demoCancelLate =
    exec { demoCancelLate with evs := demoCancelLate.evs.filter (fun e => match e with | .cancelCtx => false | _ => true) } := by
  rfl

/-- cancelled before Connect is called: one dial attempt, the error, nothing else -/
def demoCancelIdle : Script := { evs := [.cancelCtx, .start, .dialOk 0, .waitElapsed, .dialFail] }

example : (exec demoCancelIdle).phase = .exited ∧ (exec demoCancelIdle).connectErr = true ∧
    (exec demoCancelIdle).dials = 1 ∧ (exec demoCancelIdle).conns.length = 0 := by decide

/-- Disconnect first (loop exited), then the context expires while Connect was still waiting: only the error is recorded -/
def demoDiscThenCancel : Script := { evs := [.start, .dialFail, .disconnect, .cancelCtx, .waitElapsed] }

example : (exec demoDiscThenCancel).phase = .exited ∧ (exec demoDiscThenCancel).connectErr = true ∧
    (exec demoDiscThenCancel).stopped = true ∧ (exec demoDiscThenCancel).dials = 1 := by decide

/-! ### cancellation of Connect's context with a dialer that ignores its context (`deafDialer := true`) -/

/-- cancelled inside the first DialContext, which then SUCCEEDS: Connect has returned the error at once, the
    loop stays in `.dialGate`; the transport is taken, CONNECT written, the client closed, the loop ends.
    One connection that carries only CONNECT and is dead; timer firings and dial results afterwards do nothing -/
def demoDeafCancelDialOk : Script :=
  { cfg := { deafDialer := true },
    evs := [.start, .cancelCtx, .dialOk 0, .waitElapsed, .dialOk 1, .dialFail, .connackOk false [], .cancelCtx] }

example : let w := exec { demoDeafCancelDialOk with evs := demoDeafCancelDialOk.evs.take 2 }
    w.phase = .dialGate ∧ w.connectErr = true ∧ w.ctxCancelled = true ∧ w.connectReturned = none ∧
    w.dials = 1 ∧ w.conns.length = 0 := by decide
example : let w := exec { demoDeafCancelDialOk with evs := demoDeafCancelDialOk.evs.take 3 }
    w.phase = .exited ∧ w.connectErr = true ∧ w.dials = 1 ∧ w.waits = [] ∧
    w.conns.map (·.alive) = [false] ∧ w.conns.map (·.pkts) = [[(.connect, .sent .ok)]] ∧
    w.conns.map (·.connected) = [false] ∧ w.connectReturned = none ∧ w.stopped = false := by decide
example : (exec demoDeafCancelDialOk).phase = .exited ∧ (exec demoDeafCancelDialOk).connectErr = true ∧
    (exec demoDeafCancelDialOk).dials = 1 ∧ (exec demoDeafCancelDialOk).waits = [] ∧
    (exec demoDeafCancelDialOk).conns.map (·.alive) = [false] ∧
    (exec demoDeafCancelDialOk).conns.map (·.pkts) = [[(.connect, .sent .ok)]] ∧
    (exec demoDeafCancelDialOk).connectReturned = none := by decide

/-- … which then FAILS: the loop ends on the spot, no wait is logged, no redial -/
def demoDeafCancelDialFail : Script :=
  { cfg := { deafDialer := true }, evs := [.start, .cancelCtx, .dialFail, .waitElapsed, .dialOk 0, .dialFail] }

example : let w := exec { demoDeafCancelDialFail with evs := demoDeafCancelDialFail.evs.take 2 }
    w.phase = .dialGate ∧ w.connectErr = true ∧ w.dials = 1 := by decide
example : (exec demoDeafCancelDialFail).phase = .exited ∧ (exec demoDeafCancelDialFail).connectErr = true ∧
    (exec demoDeafCancelDialFail).dials = 1 ∧ (exec demoDeafCancelDialFail).conns.length = 0 ∧
    (exec demoDeafCancelDialFail).waits = [] ∧ (exec demoDeafCancelDialFail).connectReturned = none := by decide

/-- cancelled inside a LATER DialContext (after a failed attempt and its wait), requests queued meanwhile:
    the dead connection also carries the failed write of the queued request, nothing else -/
def demoDeafCancelRedial : Script :=
  { cfg := { deafDialer := true },
    evs := [.start, .dialFail, .waitElapsed, .app (.pub 1 1), .cancelCtx, .dialOk 3, .waitElapsed, .dialOk 4] }

example : (exec demoDeafCancelRedial).phase = .exited ∧ (exec demoDeafCancelRedial).connectErr = true ∧
    (exec demoDeafCancelRedial).dials = 2 ∧ (exec demoDeafCancelRedial).waits = [0] ∧
    (exec demoDeafCancelRedial).conns.map (·.alive) = [false] ∧
    (exec demoDeafCancelRedial).conns.map (·.pkts.map (·.2)) = [[.sent .ok, .dead]] := by decide

/-- cancelled while waiting to redial / awaiting the CONNACK: a deaf dialer makes no difference, the loop exits at once -/
example : (exec { demoCancelBackoff with cfg := { deafDialer := true } }).phase = .exited ∧
    (exec { demoCancelBackoff with cfg := { deafDialer := true } }).dials = 1 ∧
    (exec { demoCancelBackoff with cfg := { deafDialer := true } }).conns.length = 0 := by decide
example : (exec { demoCancelGate with cfg := { deafDialer := true } }).phase = .exited ∧
    (exec { demoCancelGate with cfg := { deafDialer := true } }).dials = 1 ∧
    (exec { demoCancelGate with cfg := { deafDialer := true } }).conns.map (·.alive) = [false] := by decide

/-- cancelled before Connect is called, deaf dialer: `.start` returns the error and dials on; the result ends the loop -/
def demoDeafCancelIdle : Script :=
  { cfg := { deafDialer := true }, evs := [.cancelCtx, .start, .dialOk 0, .waitElapsed, .dialFail, .dialOk 1] }

example : let w := exec { demoDeafCancelIdle with evs := demoDeafCancelIdle.evs.take 2 }
    w.phase = .dialGate ∧ w.connectErr = true ∧ w.dials = 1 ∧ w.conns.length = 0 := by decide
example : (exec demoDeafCancelIdle).phase = .exited ∧ (exec demoDeafCancelIdle).connectErr = true ∧
    (exec demoDeafCancelIdle).dials = 1 ∧ (exec demoDeafCancelIdle).conns.map (·.alive) = [false] := by decide

/-- cancelled inside DialContext, then Disconnect, then the dial succeeds: the loop ends at once (it does
    NOT go on to await a CONNACK as a merely stopped loop would) -/
def demoDeafCancelDiscDialOk : Script :=
  { cfg := { deafDialer := true }, evs := [.start, .cancelCtx, .disconnect, .dialOk 0, .connackOk false []] }

example : let w := exec { demoDeafCancelDiscDialOk with evs := demoDeafCancelDiscDialOk.evs.take 3 }
    w.stopped = true ∧ w.phase = .dialGate ∧ w.ctxCancelled = true := by decide
example : (exec demoDeafCancelDiscDialOk).phase = .exited ∧ (exec demoDeafCancelDiscDialOk).dials = 1 ∧
    (exec demoDeafCancelDiscDialOk).conns.map (·.alive) = [false] ∧
    (exec demoDeafCancelDiscDialOk).conns.map (·.connected) = [false] := by decide

/-- so the former statements are FALSE for a dialer that ignores its context:
    `cancel_exits` / `cancel_then_nothing` (the loop is `.exited` at once, no connection ever again) … -/
theorem old_cancel_then_nothing_false : ¬ (∀ (s : Script) (evs' : List Ev), let w := exec s
    w.connectReturned = none → w.ctxCancelled = false → w.phase ≠ .idle →
      (step w .cancelCtx).phase = .exited ∧
      (evs'.foldl step (step w .cancelCtx)).conns.length = w.conns.length) := by
  intro h
  have := h { cfg := { deafDialer := true }, evs := [.start] } [.dialOk 0] (by decide) (by decide) (by decide)
  revert this
  decide

/-- … the second clause of the old `XInv` / `connect_returns_once` (`connectErr` implies `.exited`) … -/
theorem old_connect_returns_once_false : ¬ (∀ s : Script,
    (exec s).connectErr = true → (exec s).phase = .exited) := by
  intro h
  have := h { cfg := { deafDialer := true }, evs := [.start, .cancelCtx] } (by decide)
  revert this
  decide

/-- … `cancel_before_connect` (`.start` with a cancelled context leaves the loop `.exited`) … -/
theorem old_cancel_before_connect_false : ¬ (∀ w : World, w.connectReturned = none → w.ctxCancelled = false →
    w.phase = .idle → (step (step w .cancelCtx) .start).phase = .exited) := by
  intro h
  have := h (init { cfg := { deafDialer := true } }) (by decide) (by decide) (by decide)
  revert this
  decide

/-- … and `stopped_dialOk_connects` (a stopped loop whose dial succeeds awaits the CONNACK) -/
theorem old_stopped_dialOk_connects_false : ¬ (∀ (w : World) (i : Nat), w.stopped = true → w.phase = .dialGate →
    (step w (.dialOk i)).phase = .connackGate w.conns.length) := by
  intro h
  have := h (exec { demoDeafCancelDiscDialOk with evs := demoDeafCancelDiscDialOk.evs.take 3 }) 0
    (by decide) (by decide)
  revert this
  decide

/-! ### Disconnect before Connect (`.idle`, out of scope): one dial, then the loop exits -/

def demoIdleFail : Script := { evs := [.disconnect, .start, .dialFail, .waitElapsed, .dialFail, .dialOk 0] }

example : let w := exec { demoIdleFail with evs := demoIdleFail.evs.take 1 }
    w.stopped = true ∧ w.phase = .idle ∧ w.dials = 0 := by decide
example : (exec demoIdleFail).stopped = true ∧ (exec demoIdleFail).dials = 1 ∧
    (exec demoIdleFail).conns.length = 0 ∧ (exec demoIdleFail).phase = .exited := by decide

def demoIdleOk : Script :=
  { evs := [.disconnect, .start, .dialOk 0, .connackOk false [], .waitElapsed, .dialOk 1, .dialFail] }

example : (exec demoIdleOk).stopped = true ∧ (exec demoIdleOk).dials = 1 ∧
    (exec demoIdleOk).conns.map (·.alive) = [false] ∧ (exec demoIdleOk).phase = .exited := by decide
/-- so the original statement of `no_dial_after_disconnect` stays false for `.idle` (and only there) -/
example : ¬ (∀ (s : Script) (evs' : List Ev), let w := exec s
    w.stopped = true → (w.phase = .exited ∨ w.phase = .idle ∨ ∃ k, w.phase = .connackGate k) →
      (evs'.foldl step w).dials = w.dials ∧ (evs'.foldl step w).conns.length = w.conns.length) := by
  intro h
  have := h { evs := [.disconnect] } [.start] (by decide) (Or.inr (Or.inl (by decide)))
  revert this
  decide

end Mqtt.C09
