/-
  C05 — Emitted packets are well-formed MQTT 3.1.1 carrying exactly the requested fields.
  Property theorems only; helper lemmas live in Proofs/.
-/
import MqttVerif.Proofs.Codec
import MqttVerif.Proofs.CodecRoundtrip
import MqttVerif.Model.Api

namespace Mqtt.C05

/-- Remaining length: for every body length up to 268 435 455 the encoder succeeds and the
    standard's decoder reads back exactly `n`, leaving whatever follows untouched. -/
theorem rl_roundtrip (n : Nat) (h : n ≤ 268435455) (rest : Bytes) :
    ∃ bs, remainingLength n = .ok bs ∧ Spec.decodeVarInt (bs ++ rest) = some (n, rest) := by
  refine ⟨_, remainingLength_eq n h, ?_⟩
  by_cases h1 : n ≤ 127
  · simp [h1, Spec.decodeVarInt]; omega
  · by_cases h2 : n ≤ 16383
    · have a : ¬ (n % 128 + 128 < 128) := by omega
      have b : n / 128 < 128 := by omega
      have c : n / 128 ≠ 0 := by omega
      simp [h1, h2, Spec.decodeVarInt, a, b, c]; omega
    · by_cases h3 : n ≤ 2097151
      · have a : ¬ (n % 128 + 128 < 128) := by omega
        have a' : ¬ (n / 128 % 128 + 128 < 128) := by omega
        have b : n / 16384 < 128 := by omega
        have c : n / 16384 ≠ 0 := by omega
        simp [h1, h2, h3, Spec.decodeVarInt, a, a', b, c]; omega
      · have a : ¬ (n % 128 + 128 < 128) := by omega
        have a' : ¬ (n / 128 % 128 + 128 < 128) := by omega
        have a'' : ¬ (n / 16384 % 128 + 128 < 128) := by omega
        have b : n / 2097152 < 128 := by omega
        have c : n / 2097152 ≠ 0 := by omega
        simp [h1, h2, h3, Spec.decodeVarInt, a, a', a'', b, c]; omega

/-- … and the encoding is the minimal one. -/
theorem rl_minimal (n : Nat) (h : n ≤ 268435455) :
    ∃ bs, remainingLength n = .ok bs ∧ bs.length = Spec.minimalLen n := by
  refine ⟨_, remainingLength_eq n h, ?_⟩
  unfold Spec.minimalLen
  by_cases h1 : n ≤ 127 <;> by_cases h2 : n ≤ 16383 <;> by_cases h3 : n ≤ 2097151 <;> simp [h1, h2, h3]

/-- Every emitted length byte is a byte. -/
theorem rl_bytes (n : Nat) (h : n ≤ 268435455) :
    ∃ bs, remainingLength n = .ok bs ∧ ∀ b ∈ bs, b < 256 := by
  refine ⟨_, remainingLength_eq n h, ?_⟩
  by_cases h1 : n ≤ 127 <;> by_cases h2 : n ≤ 16383 <;> by_cases h3 : n ≤ 2097151 <;>
    simp [h1, h2, h3] <;> omega

/-- Beyond the protocol maximum the Go code panics (documented on `MaxPayloadLen`); nothing is produced. -/
theorem rl_overflow (n : Nat) (h : 268435455 < n) : remainingLength n = .panic := by
  unfold remainingLength rlMax1 rlMax2 rlMax3 rlMax4
  have h1 : ¬ n ≤ 127 := by omega
  have h2 : ¬ n ≤ 16383 := by omega
  have h3 : ¬ n ≤ 2097151 := by omega
  have h4 : ¬ n ≤ 268435455 := by omega
  simp [h1, h2, h3, h4]

-- non-vacuity: the hypotheses are met at every boundary
example : remainingLength 2097152 = .ok [0x80, 0x80, 0x80, 0x01] := by decide
example : Spec.decodeVarInt ([0x80, 0x80, 0x80, 0x01] ++ [7]) = some (2097152, [7]) := by decide

/-! ## Whole packets -/

/-- Framing: whatever `pack` emits for a body within the protocol maximum decodes, under the
    standard's fixed-header rules, to what the body decodes to; trailing bytes are untouched. -/
theorem pack_roundtrip (t : Nat) (cs : List Bytes) (hl : cs.flatten.length ≤ 268435455) (rest : Bytes) :
    ∃ bs, pack t cs = .ok bs ∧
      Spec.decode (bs ++ rest) = (Spec.decodeBody (t / 16) (t % 16) cs.flatten).map (fun p => (p, rest)) := by
  obtain ⟨rl, hrl, hdec⟩ := rl_roundtrip cs.flatten.length hl (cs.flatten ++ rest)
  exact ⟨_, pack_of_rl t cs rl hrl, decode_frame t rl cs.flatten rest hdec⟩

/-! ### PUBLISH -/

/-- body length of a PUBLISH -/
def publishBodyLen (m : Message) : Nat :=
  2 + m.topic.length + (if m.qos = 0 then 0 else 2) + m.payload.length

theorem publish_roundtrip (m : Message) (hq : m.qos ≤ 2) (ht : m.topic.length ≤ 65535)
    (hid : m.qos ≠ 0 → 0 < m.id ∧ m.id < 65536) (hl : publishBodyLen m ≤ 268435455) (rest : Bytes) :
    ∃ bs, packPublish m = .ok bs ∧
      Spec.decode (bs ++ rest) =
        some (.publish m.topic m.payload m.qos m.retain m.dup (if m.qos = 0 then none else some m.id), rest) := by
  obtain ⟨h, hh, h16, hqos, hret, hdup⟩ := publishHeaderByte_ok m hq
  have hlen : ([u16be m.topic.length ++ (m.topic ++ (if m.qos = 0 then [] else u16be m.id)),
      m.payload] : List Bytes).flatten.length ≤ 268435455 := by
    rw [publish_flatten, publishBody_length]; exact hl
  obtain ⟨bs, hbs, hdec⟩ := pack_roundtrip h _ hlen rest
  refine ⟨bs, by rw [packPublish_eq m h hh ht, hbs], ?_⟩
  rw [hdec, publish_flatten, h16, decodeBody_publish _ m hq hqos ht hid, hret, hdup]
  rfl

/-- `pktPublish.Pack` panics exactly on an invalid QoS, an over-long topic, or a body beyond the
    protocol maximum (it never returns an error). -/
theorem publish_panics_iff (m : Message) :
    packPublish m = .panic ↔ (m.qos > 2 ∨ m.topic.length > 65535 ∨ publishBodyLen m > 268435455) := by
  have e : packPublish m = (publishHeaderByte m).bind (fun h => (appendString [] m.topic).bind
      (fun header => pack h [if m.qos ≠ 0 then appendUint16 header m.id else header, m.payload])) := rfl
  by_cases hq : m.qos ≤ 2
  · by_cases ht : m.topic.length ≤ 65535
    · obtain ⟨h, hh, -⟩ := publishHeaderByte_ok m hq
      rw [packPublish_eq m h hh ht, pack_panic_iff, publish_flatten, publishBody_length]
      unfold publishBodyLen
      omega
    · obtain ⟨h, hh, -⟩ := publishHeaderByte_ok m hq
      have : packPublish m = .panic := by
        rw [e, hh, appendString_panic _ _ (by omega)]; rfl
      simp only [this, true_iff]
      omega
  · have : packPublish m = .panic := by
      rw [e, publishHeaderByte_panic m (by omega)]; rfl
    simp only [this, true_iff]
    omega

-- non-vacuity: QoS 1, retained, id 0x1234, topic "a/b", payload [1,2,3], followed by other bytes
example :
    packPublish { topic := [0x61, 0x2F, 0x62], id := 0x1234, qos := 1, retain := true, dup := false,
                  payload := [1, 2, 3] }
      = .ok [0x33, 10, 0, 3, 0x61, 0x2F, 0x62, 0x12, 0x34, 1, 2, 3] := by decide
example : Spec.decode ([0x33, 10, 0, 3, 0x61, 0x2F, 0x62, 0x12, 0x34, 1, 2, 3] ++ [0xC0, 0]) =
    some (.publish [0x61, 0x2F, 0x62] [1, 2, 3] 1 true false (some 0x1234), [0xC0, 0]) := by decide
example : packPublish { topic := [], id := 0, qos := 3, retain := false, dup := false, payload := [] }
    = .panic := by decide

/-! ### PUBACK / PUBREC / PUBREL / PUBCOMP, PINGREQ, DISCONNECT -/

theorem puback_roundtrip (id : Nat) (h : 0 < id ∧ id < 65536) (rest : Bytes) :
    ∃ bs, packPubAck id = .ok bs ∧ Spec.decode (bs ++ rest) = some (.puback id, rest) := by
  obtain ⟨bs, hbs, hdec⟩ := pack_roundtrip packetPubAck [packUint16 id] (by simp [packUint16_eq]) rest
  refine ⟨bs, hbs, ?_⟩
  have h0 : id ≠ 0 := by omega
  rw [hdec]
  simp [packUint16_eq, packetPubAck, Spec.decodeBody, decodeU16_id id h.2, h0]

theorem pubrec_roundtrip (id : Nat) (h : 0 < id ∧ id < 65536) (rest : Bytes) :
    ∃ bs, packPubRec id = .ok bs ∧ Spec.decode (bs ++ rest) = some (.pubrec id, rest) := by
  obtain ⟨bs, hbs, hdec⟩ := pack_roundtrip packetPubRec [packUint16 id] (by simp [packUint16_eq]) rest
  refine ⟨bs, hbs, ?_⟩
  have h0 : id ≠ 0 := by omega
  rw [hdec]
  simp [packUint16_eq, packetPubRec, Spec.decodeBody, decodeU16_id id h.2, h0]

theorem pubrel_roundtrip (id : Nat) (h : 0 < id ∧ id < 65536) (rest : Bytes) :
    ∃ bs, packPubRel id = .ok bs ∧ Spec.decode (bs ++ rest) = some (.pubrel id, rest) := by
  obtain ⟨bs, hbs, hdec⟩ :=
    pack_roundtrip (packetPubRel ||| packetFromClient) [packUint16 id] (by simp [packUint16_eq]) rest
  refine ⟨bs, hbs, ?_⟩
  have h0 : id ≠ 0 := by omega
  rw [hdec]
  simp [packUint16_eq, packetPubRel, packetFromClient, Spec.decodeBody, decodeU16_id id h.2, h0]

theorem pubcomp_roundtrip (id : Nat) (h : 0 < id ∧ id < 65536) (rest : Bytes) :
    ∃ bs, packPubComp id = .ok bs ∧ Spec.decode (bs ++ rest) = some (.pubcomp id, rest) := by
  obtain ⟨bs, hbs, hdec⟩ := pack_roundtrip packetPubComp [packUint16 id] (by simp [packUint16_eq]) rest
  refine ⟨bs, hbs, ?_⟩
  have h0 : id ≠ 0 := by omega
  rw [hdec]
  simp [packUint16_eq, packetPubComp, Spec.decodeBody, decodeU16_id id h.2, h0]

theorem pingreq_roundtrip (rest : Bytes) :
    ∃ bs, packPingReq = .ok bs ∧ Spec.decode (bs ++ rest) = some (.pingreq, rest) := by
  obtain ⟨bs, hbs, hdec⟩ := pack_roundtrip packetPingReq [] (by simp) rest
  refine ⟨bs, hbs, ?_⟩
  rw [hdec]
  simp [packetPingReq, Spec.decodeBody]

theorem disconnect_roundtrip (rest : Bytes) :
    ∃ bs, packDisconnect = .ok bs ∧ Spec.decode (bs ++ rest) = some (.disconnect, rest) := by
  obtain ⟨bs, hbs, hdec⟩ := pack_roundtrip packetDisconnect [] (by simp) rest
  refine ⟨bs, hbs, ?_⟩
  rw [hdec]
  simp [packetDisconnect, Spec.decodeBody]

-- non-vacuity
example : packPubRel 0xABCD = .ok [0x62, 2, 0xAB, 0xCD] := by decide
example : Spec.decode ([0x62, 2, 0xAB, 0xCD] ++ [9]) = some (.pubrel 0xABCD, [9]) := by decide
example : Spec.decode ((match packPubAck 65535 with | .ok b => b | _ => []) ++ [9]) =
    some (.puback 65535, [9]) := by decide
example : Spec.decode (match packPingReq with | .ok b => b | _ => []) = some (.pingreq, []) := by decide
example : Spec.decode (match packDisconnect with | .ok b => b | _ => []) = some (.disconnect, []) := by decide

/-! ### SUBSCRIBE / UNSUBSCRIBE -/

def subsBodyLen (subs : List Subscription) : Nat := 2 + (subs.map (fun s => 3 + s.topic.length)).sum

theorem subscribe_roundtrip (id : Nat) (subs : List Subscription) (hid : 0 < id ∧ id < 65536)
    (hne : subs ≠ []) (hq : ∀ s ∈ subs, s.qos ≤ 2) (ht : ∀ s ∈ subs, s.topic.length ≤ 65535)
    (hl : subsBodyLen subs ≤ 268435455) (rest : Bytes) :
    ∃ bs, packSubscribe id subs = .ok bs ∧
      Spec.decode (bs ++ rest) = some (.subscribe id (subs.map fun s => (s.topic, s.qos)), rest) := by
  have hflat : ([u16be id, subsBytes subs] : List Bytes).flatten = u16be id ++ subsBytes subs := by simp
  have hlen : ([u16be id, subsBytes subs] : List Bytes).flatten.length ≤ 268435455 := by
    rw [hflat, List.length_append, u16be_length, subsBytes_length]; exact hl
  obtain ⟨bs, hbs, hdec⟩ := pack_roundtrip (packetSubscribe ||| packetFromClient) _ hlen rest
  have e : packSubscribe id subs = (subscribePayload subs []).bind (fun payload =>
      pack (packetSubscribe ||| packetFromClient) [packUint16 id, payload]) := rfl
  refine ⟨bs, ?_, ?_⟩
  · rw [e, subscribePayload_ok subs [] hq ht, packUint16_eq]
    simpa [Res.bind] using hbs
  · rw [hdec, hflat]
    have : (packetSubscribe ||| packetFromClient) / 16 = 8 ∧
        (packetSubscribe ||| packetFromClient) % 16 = 2 := by decide
    rw [this.1, this.2, decodeBody_subscribe id subs hid hne hq ht]
    rfl

def unsubsBodyLen (ts : List Bytes) : Nat := 2 + (ts.map (fun t => 2 + t.length)).sum

theorem unsubscribe_roundtrip (id : Nat) (ts : List Bytes) (hid : 0 < id ∧ id < 65536) (hne : ts ≠ [])
    (ht : ∀ t ∈ ts, t.length ≤ 65535) (hl : unsubsBodyLen ts ≤ 268435455) (rest : Bytes) :
    ∃ bs, packUnsubscribe id ts = .ok bs ∧
      Spec.decode (bs ++ rest) = some (.unsubscribe id ts, rest) := by
  have hflat : ([u16be id, filtersBytes ts] : List Bytes).flatten = u16be id ++ filtersBytes ts := by simp
  have hlen : ([u16be id, filtersBytes ts] : List Bytes).flatten.length ≤ 268435455 := by
    rw [hflat, List.length_append, u16be_length, filtersBytes_length]; exact hl
  obtain ⟨bs, hbs, hdec⟩ := pack_roundtrip (packetUnsubscribe ||| packetFromClient) _ hlen rest
  have e : packUnsubscribe id ts = (unsubscribePayload ts []).bind (fun payload =>
      pack (packetUnsubscribe ||| packetFromClient) [packUint16 id, payload]) := rfl
  refine ⟨bs, ?_, ?_⟩
  · rw [e, unsubscribePayload_ok ts [] ht, packUint16_eq]
    simpa [Res.bind] using hbs
  · rw [hdec, hflat]
    have : (packetUnsubscribe ||| packetFromClient) / 16 = 10 ∧
        (packetUnsubscribe ||| packetFromClient) % 16 = 2 := by decide
    rw [this.1, this.2, decodeBody_unsubscribe id ts hid hne ht]
    rfl

-- non-vacuity: two filters ("a" at QoS 2, "" at QoS 0), trailing bytes preserved
example : packSubscribe 7 [⟨[0x61], 2⟩, ⟨[], 0⟩] = .ok [0x82, 9, 0, 7, 0, 1, 0x61, 2, 0, 0, 0] := by decide
example : Spec.decode ([0x82, 9, 0, 7, 0, 1, 0x61, 2, 0, 0, 0] ++ [5]) =
    some (.subscribe 7 [([0x61], 2), ([], 0)], [5]) := by decide
example : packUnsubscribe 7 [[0x61], [0x62, 0x63]] = .ok [0xA2, 9, 0, 7, 0, 1, 0x61, 0, 2, 0x62, 0x63] := by decide
example : Spec.decode ([0xA2, 9, 0, 7, 0, 1, 0x61, 0, 2, 0x62, 0x63] ++ [5]) =
    some (.unsubscribe 7 [[0x61], [0x62, 0x63]], [5]) := by decide

/-! ### CONNECT -/

/-- CONNECT: flags ⇔ presence of will / user name / password, fields in order. No length hypothesis
    is needed: the body is at most 10 + 5·65537 bytes. `up` is [MQTT-3.1.2-22], which the library
    does not enforce (see the counterexample below). -/
theorem connect_roundtrip (p : ConnectPkt) (hlv : p.protocolLevel < 256) (hka : p.keepAlive < 65536)
    (hcid : p.clientID.length ≤ 65535) (hu : p.userName.length ≤ 65535) (hp : p.password.length ≤ 65535)
    (hw : ∀ w, p.will = some w → w.qos ≤ 2 ∧ w.topic.length ≤ 65535 ∧ w.payload.length ≤ 65535)
    (up : p.password ≠ [] → p.userName ≠ [])
    (rest : Bytes) :
    ∃ bs, packConnect p = .ok bs ∧
      Spec.decode (bs ++ rest) = some (.connect p.protocolLevel p.cleanSession p.keepAlive p.clientID
        (p.will.map fun w => (w.topic, w.payload, w.qos, w.retain))
        (if p.userName = [] then none else some p.userName)
        (if p.password = [] then none else some p.password), rest) := by
  have hw' : ∀ w, p.will = some w → w.topic.length ≤ 65535 ∧ w.payload.length ≤ 65535 :=
    fun w h => (hw w h).2
  have hlen : ([[0x00, 0x04, 0x4D, 0x51, 0x54, 0x54, p.protocolLevel % 256, connectFlags p],
      u16be p.keepAlive, connectPayload p] : List Bytes).flatten.length ≤ 268435455 := by
    have := connectPayload_length_le p hcid hu hp hw'
    simp; omega
  obtain ⟨bs, hbs, hdec⟩ := pack_roundtrip packetConnect _ hlen rest
  refine ⟨bs, by rw [packConnect_eq p hcid hu hp hw', hbs], ?_⟩
  obtain ⟨f0, f1, f2, f3, f5, f6, f7⟩ := connectFlags_bits p (fun w h => (hw w h).1)
  have hl : p.protocolLevel % 256 = p.protocolLevel := Nat.mod_eq_of_lt hlv
  have hbody : ([[0x00, 0x04, 0x4D, 0x51, 0x54, 0x54, p.protocolLevel % 256, connectFlags p],
      u16be p.keepAlive, connectPayload p] : List Bytes).flatten =
      0 :: 4 :: 0x4D :: 0x51 :: 0x54 :: 0x54 :: p.protocolLevel :: connectFlags p ::
        (u16be p.keepAlive ++ (u16be p.clientID.length ++ (p.clientID ++ (willBytes p.will ++
          (optBytes p.userName ++ optBytes p.password))))) := by
    simp [connectPayload, hl]
  have ht : packetConnect / 16 = 1 ∧ packetConnect % 16 = 0 := by decide
  rw [hdec, hbody, ht.1, ht.2]
  have hd := decodeConnect_ok p.protocolLevel (connectFlags p) p.keepAlive p.cleanSession p.clientID
    p.userName p.password p.will hka hcid hu hp hw up f0 f1 f2 f3 f5 f6 f7
  simp only [Spec.decodeBody, if_true, hd]
  rfl

/-- The hypothesis `up` is necessary: with a password but no user name the library emits a CONNECT
    that violates [MQTT-3.1.2-22] and is rejected by the standard's decoder. -/
theorem connect_password_without_username_counterexample :
    ∃ bs, packConnect { protocolLevel := 4, cleanSession := false, keepAlive := 60, clientID := [],
                        userName := [], password := [0x70], will := none } = .ok bs
      ∧ Spec.decode bs = none :=
  ⟨[0x10, 15, 0, 4, 0x4D, 0x51, 0x54, 0x54, 4, 0x40, 0, 60, 0, 0, 0, 1, 0x70], by decide, by decide⟩

-- non-vacuity: clean session, will (QoS 1, retained), user name and password, keep-alive 300
example :
    packConnect { protocolLevel := 4, cleanSession := true, keepAlive := 300, clientID := [0x63],
                  userName := [0x75], password := [0x70],
                  will := some { topic := [0x74], payload := [0x6D, 0x6E], qos := 1, retain := true } }
      = .ok [0x10, 26, 0, 4, 0x4D, 0x51, 0x54, 0x54, 4, 0xEE, 1, 44, 0, 1, 0x63, 0, 1, 0x74, 0, 2, 0x6D, 0x6E,
             0, 1, 0x75, 0, 1, 0x70] := by decide
example :
    Spec.decode ([0x10, 26, 0, 4, 0x4D, 0x51, 0x54, 0x54, 4, 0xEE, 1, 44, 0, 1, 0x63, 0, 1, 0x74, 0, 2, 0x6D, 0x6E,
                  0, 1, 0x75, 0, 1, 0x70] ++ [1, 2])
      = some (.connect 4 true 300 [0x63] (some ([0x74], [0x6D, 0x6E], 1, true)) (some [0x75]) (some [0x70]),
              [1, 2]) := by decide

/-! ### What `Publish` hands to the transport -/

/-- Messages the protocol cannot carry are rejected before anything is written (publish.go:115-131). -/
theorem rejected_before_write (max c : Nat) (m : Message)
    (h : m.qos > 2 ∨ (max ≠ 0 ∧ m.payload.length ≥ max)) :
    (publishCall max c m).written = [] ∧ (publishCall max c m).result ≠ .ok () := by
  have hv : ∃ e, validateMessage max m = .err e := by
    unfold validateMessage
    by_cases h1 : max ≠ 0 ∧ m.payload.length ≥ max
    · exact ⟨_, if_pos h1⟩
    · have h2 : m.qos > 2 := h.resolve_right h1
      exact ⟨.invalidQoS, by rw [if_neg h1, if_pos h2]⟩
  obtain ⟨e, he⟩ := hv
  simp [publishCall, he]

/-- An accepted first transmission is the PUBLISH of that message with DUP = 0 and a fresh or
    caller-chosen id. -/
theorem api_publish_written (max c : Nat) (m : Message) (hv : validateMessage max m = .ok ()) :
    (publishCall max c m).written =
      (match packPublish { m with id := (publishCall max c m).msgId, dup := false } with
        | .ok b => b | _ => [])
    ∧ (m.id ≠ 0 → (publishCall max c m).msgId = m.id) := by
  unfold publishCall
  rw [hv]
  by_cases h0 : m.id = 0
  · simp only [h0, if_true]
    constructor
    · split <;> simp_all
    · intro h; exact absurd rfl h
  · simp only [h0, if_false]
    constructor
    · split <;> simp_all
    · intro _; split <;> rfl

-- non-vacuity: id 0 with counter 41 gets the fresh id 42; QoS 3 is refused with nothing written
example : (publishCall 0 41 { topic := [0x61], id := 0, qos := 1, retain := false, dup := true,
                              payload := [9] }).written = [0x32, 6, 0, 1, 0x61, 0, 42, 9] := by decide
example : (publishCall 0 41 { topic := [0x61], id := 0, qos := 3, retain := false, dup := true,
                              payload := [9] }).written = [] := by decide
example : validateMessage 0 { topic := [0x61], id := 0, qos := 1, retain := false, dup := true,
                              payload := [9] } = .ok () := by decide

end Mqtt.C05
