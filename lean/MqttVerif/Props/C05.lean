/-
  C05 — Emitted packets are well-formed MQTT 3.1.1 carrying exactly the requested fields.
  Property theorems only; helper lemmas live in Proofs/.
-/
import MqttVerif.Proofs.Codec

namespace Mqtt.C05

/-- Remaining length: for every body length up to 268 435 455 the encoder succeeds and the
    standard's decoder reads back exactly `n`, leaving whatever follows untouched. -/
theorem rl_roundtrip (n : Nat) (h : n ≤ 268435455) (rest : Bytes) :
    ∃ bs, remainingLength n = .ok bs ∧ Spec.decodeVarInt (bs ++ rest) = some (n, rest) := by
  refine ⟨_, remainingLength_eq n h, ?_⟩
  by_cases h1 : n ≤ 127
  · simp [h1, Spec.decodeVarInt]; omega
  · by_cases h2 : n ≤ 16383
    · have a : ¬ (n % 128 + 128 < 128) := by omega
      have b : n / 128 < 128 := by omega
      have c : n / 128 ≠ 0 := by omega
      simp [h1, h2, Spec.decodeVarInt, a, b, c]; omega
    · by_cases h3 : n ≤ 2097151
      · have a : ¬ (n % 128 + 128 < 128) := by omega
        have a' : ¬ (n / 128 % 128 + 128 < 128) := by omega
        have b : n / 16384 < 128 := by omega
        have c : n / 16384 ≠ 0 := by omega
        simp [h1, h2, h3, Spec.decodeVarInt, a, a', b, c]; omega
      · have a : ¬ (n % 128 + 128 < 128) := by omega
        have a' : ¬ (n / 128 % 128 + 128 < 128) := by omega
        have a'' : ¬ (n / 16384 % 128 + 128 < 128) := by omega
        have b : n / 2097152 < 128 := by omega
        have c : n / 2097152 ≠ 0 := by omega
        simp [h1, h2, h3, Spec.decodeVarInt, a, a', a'', b, c]; omega

/-- … and the encoding is the minimal one. -/
theorem rl_minimal (n : Nat) (h : n ≤ 268435455) :
    ∃ bs, remainingLength n = .ok bs ∧ bs.length = Spec.minimalLen n := by
  refine ⟨_, remainingLength_eq n h, ?_⟩
  unfold Spec.minimalLen
  by_cases h1 : n ≤ 127 <;> by_cases h2 : n ≤ 16383 <;> by_cases h3 : n ≤ 2097151 <;> simp [h1, h2, h3]

/-- Every emitted length byte is a byte. -/
theorem rl_bytes (n : Nat) (h : n ≤ 268435455) :
    ∃ bs, remainingLength n = .ok bs ∧ ∀ b ∈ bs, b < 256 := by
  refine ⟨_, remainingLength_eq n h, ?_⟩
  by_cases h1 : n ≤ 127 <;> by_cases h2 : n ≤ 16383 <;> by_cases h3 : n ≤ 2097151 <;>
    simp [h1, h2, h3] <;> omega

/-- Beyond the protocol maximum the Go code panics (documented on `MaxPayloadLen`); nothing is produced. -/
theorem rl_overflow (n : Nat) (h : 268435455 < n) : remainingLength n = .panic := by
  unfold remainingLength rlMax1 rlMax2 rlMax3 rlMax4
  have h1 : ¬ n ≤ 127 := by omega
  have h2 : ¬ n ≤ 16383 := by omega
  have h3 : ¬ n ≤ 2097151 := by omega
  have h4 : ¬ n ≤ 268435455 := by omega
  simp [h1, h2, h3, h4]

-- non-vacuity: the hypotheses are met at every boundary
example : remainingLength 2097152 = .ok [0x80, 0x80, 0x80, 0x01] := by decide
example : Spec.decodeVarInt ([0x80, 0x80, 0x80, 0x01] ++ [7]) = some (2097152, [7]) := by decide

end Mqtt.C05
