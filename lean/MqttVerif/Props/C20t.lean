/- C20, tie to the source: ServeMux / ServeAsync pass `message.clone()`, ServeAsync clones in the calling goroutine, clone allocates a fresh payload and copies every field. -/
import MqttVerif.Proofs.FactsTie
namespace Mqtt.C20.Tie
open Mqtt.FactsTie

/-- three-valued facts ("yes" | "no" | "unknown", see tools/extract): nothing in today's sources hands the caller's own
    message through, copies inside the new goroutine or aliases the payload; where a composite literal builds the copy it
    names every field -/
theorem clone_discipline :
    (Generated.muxServesClone == "no") = false ∧ (Generated.asyncServesCloneInCaller == "no") = false ∧
    (Generated.clonePayloadFresh == "no") = false ∧
    (Generated.cloneCopiesAllFields.isEmpty ||
      ["Dup", "ID", "Payload", "QoS", "Retain", "Topic"].all (Generated.cloneCopiesAllFields.contains ·)) = true := by decide +kernel

end Mqtt.C20.Tie
