/- C20, tie to the source: ServeMux / ServeAsync pass `message.clone()`, ServeAsync clones in the calling goroutine, clone allocates a fresh payload and copies every field. -/
import MqttVerif.Proofs.FactsTie
namespace Mqtt.C20.Tie
open Mqtt.FactsTie

theorem clone_discipline :
    Generated.muxServesClone = true ∧ Generated.asyncServesCloneInCaller = true ∧ Generated.clonePayloadFresh = true ∧
    (["Dup", "ID", "Payload", "QoS", "Retain", "Topic"].all (Generated.cloneCopiesAllFields.contains ·)) = true := by decide

end Mqtt.C20.Tie
