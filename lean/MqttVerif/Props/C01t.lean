/-
  C01 (the task goroutine and client switches) — "no accepted request is lost … wherever connections break",
  for the one mechanism the retry-stack model treats as atomic: the goroutine that runs the queued requests has
  to notice on its own that `SetClient` installed a new client while a request was running.

  Model: `Mqtt.TaskLoop` (small-step; every interleaving of the goroutine's steps with SetClient, Connect
  returning, requests being pushed and the running request returning is an event list).

    1. `started_only_after_connect`   (repaired loop) every request is started on a client on which
                                      `RetryClient.Connect` has returned — never on a client without a signaller,
                                      where it would fail with the non-retryable ErrNotConnected and be dropped,
                                      and never ahead of the CONNECT packet
    2. `stale_starts_before_connect`  the loop as it was before the repair D21 does start a request on such a client
                                      (witness schedule: a switch while a request is running)
    3. `fifo`                         started requests ++ waiting requests = submitted requests, in order (both variants)
    4. `no_lost_wakeup`               the goroutine never sleeps in its idle select with a request waiting and no
                                      token in `chTask` (both variants)
    5. `switch_noticed`               at the top of the loop a switch is noticed before anything is popped
    6. `waits_for_connect`            after noticing, nothing is started until Connect returns on the new client
       `starts_next`                  … and once it has returned, at most six steps of the goroutine start the oldest
                                      waiting request on the current client (noticing a switch never strands the queue)
    7. `task_client_read_with_pop`    tie to the source (regenerated fact): the model's `top` step looks at the switch
                                      channel, pops the task and reads the client in ONE step; in retryclient.go the
                                      client handed to `task(ctx, cli)` is not read after the lock was released
                                      (three-valued fact: only a recognised wrong form breaks the tie)
-/
import MqttVerif.Proofs.TaskLoop
import MqttVerif.Generated.Facts

namespace Mqtt.C01.TaskLoop
open Mqtt.TaskLoop

/-! ### 1. the repaired loop -/

/-- Every request is started on a client on which `RetryClient.Connect` has returned, whatever the interleaving
    of SetClient / Connect / submissions / task completions with the goroutine's own steps. -/
theorem started_only_after_connect (evs : List Ev) :
    ∀ e ∈ (run .fixed evs).log, e.2.2 = true := (inv_run evs).log

/-! ### 2. the loop before the repair -/

/-- a switch while request 0 is running; request 1 is then started on client 2, on which Connect has not been called -/
def staleWitness : List Ev :=
  [.setClient, .loop false, .connectReturn 1, .loop false, .submit 0, .submit 1, .loop false,
   .setClient, .taskEnd false, .loop false]

theorem stale_starts_before_connect :
    ∃ evs, ∃ e ∈ (run .stale evs).log, e.2.2 = false :=
  ⟨staleWitness, (1, 2, false), by decide, rfl⟩

/-- the same schedule on the repaired loop: request 1 waits for Connect on client 2 -/
example : (run .fixed staleWitness).log = [(0, 1, true)] ∧ (run .fixed staleWitness).pc = .waitRead ∧
    (run .fixed (staleWitness ++ [.loop false, .connectReturn 2, .loop false, .loop false])).log
      = [(0, 1, true), (1, 2, true)] := by decide

/-! ### 3. order -/

/-- started requests followed by waiting requests are the submitted requests, in submission order -/
theorem fifo (v : Variant) (evs : List Ev) :
    (run v evs).log.map (·.1) ++ (run v evs).queue = submitted evs := by
  unfold run
  suffices ∀ s, (evs.foldl (step v) s).log.map (·.1) ++ (evs.foldl (step v) s).queue
      = s.log.map (·.1) ++ s.queue ++ submitted evs by simpa [init] using this init
  induction evs with
  | nil => intro s; simp [submitted]
  | cons e es ih =>
      intro s
      rw [List.foldl_cons, ih, fifo_step]
      have : submitted (e :: es) = submitted [e] ++ submitted es := submitted_append [e] es
      rw [this]; simp [List.append_assoc]

/-! ### 4. no lost wake-up -/

/-- The goroutine never sleeps in its idle select while a request is waiting and `chTask` holds no token. -/
theorem no_lost_wakeup (v : Variant) (evs : List Ev) :
    (run v evs).pc = .idle → (run v evs).queue ≠ [] → (run v evs).token = true := by
  have : Awake (run v evs) := by
    unfold run
    suffices ∀ s, Awake s → Awake (evs.foldl (step v) s) from this _ (by intro hh; simp [init] at hh)
    induction evs with
    | nil => intro s h; exact h
    | cons e es ih => intro s h; exact ih _ (awake_step v s e h)
  intro h1 h2; exact (this h1).2 h2

/-! ### 5./6. what the goroutine does about a switch -/

/-- at the top of the loop a switch is noticed before anything is popped -/
theorem switch_noticed (s : S) (p : Bool) (h0 : s.gen ≠ 0) (hpc : s.pc = .top) (hsw : s.gen ≠ s.seen) :
    loopStep .fixed s p = { s with pc := .waitRead } := by
  simp [loopStep, h0, hpc, hsw]

/-- after noticing, the goroutine does not leave the wait for Connect of the current client until that
    Connect returns: from `waitRead` / `waitSel`, any number of its own steps keep it there and start nothing -/
theorem waits_for_connect (s : S) (hw : s.pc = .waitRead ∨ s.pc = .waitSel s.gen)
    (hnr : s.gen ∉ s.returned) (ps : List Bool) :
    let s' := ps.foldl (loopStep .fixed) s
    (s'.pc = .waitRead ∨ s'.pc = .waitSel s'.gen) ∧ s'.log = s.log ∧ s'.gen = s.gen ∧ s'.returned = s.returned := by
  induction ps generalizing s with
  | nil => exact ⟨hw, rfl, rfl, rfl⟩
  | cons p ps ih =>
      simp only [List.foldl_cons]
      have key : ((loopStep .fixed s p).pc = .waitRead ∨ (loopStep .fixed s p).pc = .waitSel (loopStep .fixed s p).gen)
          ∧ (loopStep .fixed s p).log = s.log ∧ (loopStep .fixed s p).gen = s.gen
          ∧ (loopStep .fixed s p).returned = s.returned := by
        unfold loopStep
        by_cases h0 : s.gen = 0
        · simp [h0]; simpa [h0] using hw
        · rcases hw with hw | hw
          · simp [h0, hw]
          · simp [h0, hw, hnr]
      obtain ⟨k1, k2, k3, k4⟩ := key
      have := ih (loopStep .fixed s p) (by rw [k3] at k1 ⊢; simpa [k3] using k1) (by rw [k3, k4]; exact hnr)
      simp only at this
      refine ⟨?_, ?_, ?_, ?_⟩
      · exact this.1
      · rw [this.2.1, k2]
      · rw [this.2.2.1, k3]
      · rw [this.2.2.2, k4]

/-- the hypotheses of `waits_for_connect` are met right after a noticed switch -/
example : let s := run .fixed staleWitness
    (s.pc = .waitRead ∨ s.pc = .waitSel s.gen) ∧ s.gen ∉ s.returned := by decide

/-! ### 6b. … and once Connect has returned on the current client, the next waiting request IS started -/

/-- the goroutine's own steps, always taking the first ready case of a select -/
def steps (v : Variant) : Nat → S → S
  | 0, s => s
  | n + 1, s => steps v n (loopStep v s false)

theorem steps_add (v : Variant) (a b : Nat) (s : S) : steps v (a + b) s = steps v b (steps v a s) := by
  induction a generalizing s with
  | zero => simp [steps]
  | succ n ih => rw [Nat.succ_add]; simp [steps, ih]

/-- what "request `t` has been started on the current client, after Connect" means for the state reached -/
def Started (s s' : S) (t : Nat) : Prop :=
  s'.pc = .run t s.gen ∧ s'.log = s.log ++ [(t, s.gen, true)] ∧ s'.gen = s.gen

theorem start_from_top (s : S) (t : Nat) (q : List Nat) (h0 : s.gen ≠ 0) (hret : s.gen ∈ s.returned)
    (hq : s.queue = t :: q) (hpc : s.pc = .top) (hs : s.gen = s.seen) : Started s (steps .fixed 1 s) t := by
  simp [steps, loopStep, h0, hpc, hs.symm, hq, Started, hret]

theorem start_from_waitRead (s : S) (t : Nat) (q : List Nat) (h0 : s.gen ≠ 0) (hret : s.gen ∈ s.returned)
    (hq : s.queue = t :: q) (hpc : s.pc = .waitRead) : Started s (steps .fixed 3 s) t := by
  simp [steps, loopStep, h0, hpc, hq, Started, hret]

theorem start_from_top_any (s : S) (t : Nat) (q : List Nat) (h0 : s.gen ≠ 0) (hret : s.gen ∈ s.returned)
    (hq : s.queue = t :: q) (hpc : s.pc = .top) : ∃ n ≤ 4, Started s (steps .fixed n s) t := by
  by_cases hs : s.gen = s.seen
  · exact ⟨1, by omega, start_from_top s t q h0 hret hq hpc hs⟩
  · refine ⟨4, by omega, ?_⟩
    have h1 : steps .fixed 1 s = { s with pc := .waitRead } := by simp [steps, loopStep, h0, hpc, hs]
    have := start_from_waitRead { s with pc := .waitRead } t q h0 hret hq rfl
    rw [show (4 : Nat) = 1 + 3 from rfl, steps_add, h1]
    exact this

/-- Whenever `RetryClient.Connect` has returned on the current client, a request is waiting, no request is running and the
    goroutine is not asleep without a token (`no_lost_wakeup`), at most six of its own steps start the oldest waiting request
    on the current client: noticing a switch never strands the queue. -/
theorem starts_next (s : S) (t : Nat) (q : List Nat) (h0 : s.gen ≠ 0) (hret : s.gen ∈ s.returned)
    (hq : s.queue = t :: q) (hrun : ∀ t g, s.pc ≠ .run t g) (hidle : s.pc = .idle → s.token = true)
    (hsel : ∀ g, s.pc = .waitSel g → g = s.seen) :
    ∃ n ≤ 6, Started s (steps .fixed n s) t := by
  cases hpc : s.pc with
  | run t' g => exact absurd hpc (hrun t' g)
  | top =>
      obtain ⟨n, hn, h⟩ := start_from_top_any s t q h0 hret hq hpc
      exact ⟨n, by omega, h⟩
  | waitRead => exact ⟨3, by omega, start_from_waitRead s t q h0 hret hq hpc⟩
  | idle =>
      have htok := hidle hpc
      have h1 : steps .fixed 1 s = { s with token := false, pc := .top } := by
        simp [steps, loopStep, h0, hpc, htok]
      obtain ⟨n, hn, h⟩ := start_from_top_any { s with token := false, pc := .top } t q h0 hret hq rfl
      refine ⟨1 + n, by omega, ?_⟩
      rw [steps_add, h1]
      exact h
  | waitSel g =>
      have hg := hsel g hpc
      by_cases hok : g ∈ s.returned
      · have h1 : steps .fixed 1 s = { s with pc := .top } := by
          simp [steps, loopStep, h0, hpc, hok]
        obtain ⟨n, hn, h⟩ := start_from_top_any { s with pc := .top } t q h0 hret hq rfl
        refine ⟨1 + n, by omega, ?_⟩
        rw [steps_add, h1]
        exact h
      · have hsw : s.gen ≠ g := by
          intro e; exact hok (e ▸ hret)
        have h1 : steps .fixed 1 s = { s with pc := .waitRead } := by
          simp [steps, loopStep, h0, hpc, hok, hsw]
        have := start_from_waitRead { s with pc := .waitRead } t q h0 hret hq rfl
        refine ⟨1 + 3, by omega, ?_⟩
        rw [steps_add, h1]
        exact this

/-- the hypotheses are met on the D21 schedule once Connect has returned on client 2 -/
example : let s := run .fixed (staleWitness ++ [.loop false, .connectReturn 2])
    s.gen ≠ 0 ∧ s.gen ∈ s.returned ∧ s.queue = [1] ∧ s.pc = .waitSel 2 ∧ s.seen = 2 := by decide

/-! ### 7. tie to the source -/

/-- retryclient.go: the client a task runs on is not read after `c.mu.Unlock()` (a SetClient could land in between and the
    task would run on a client it was not popped for — `Model/TaskLoop.loopStep` at `top` is a single step) -/
theorem task_client_read_with_pop : (Generated.taskClientReadWithPop == "no") = false := by decide +kernel

end Mqtt.C01.TaskLoop
