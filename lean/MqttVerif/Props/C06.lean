/-
  C06 — Arbitrary broker bytes never crash the client; malformed input ends the link.
  Property theorems only; helper lemmas live in Proofs/Parse.lean.

  Where a statement carries an `IsBytes` hypothesis (all stream elements < 256) it is kept for
  fidelity with the property text; the primed/unprimed helper in `Proofs/Parse.lean` shows the
  hypothesis is not needed (every length byte is masked with `0x7F` before use).
-/
import MqttVerif.Proofs.Parse

namespace Mqtt.C06

/-! ## 1. every parser is total: no input makes it panic -/

theorem unpackString_no_panic (b : Bytes) : unpackString b ≠ .panic :=
  Mqtt.unpackString_no_panic b
theorem parseConnAck_no_panic (f : Nat) (c : Bytes) : parseConnAck f c ≠ .panic :=
  Mqtt.parseConnAck_no_panic f c
theorem parseIdOnly_no_panic (e f : Nat) (c : Bytes) : parseIdOnly e f c ≠ .panic :=
  Mqtt.parseIdOnly_no_panic e f c
theorem parseSubAck_no_panic (f : Nat) (c : Bytes) : parseSubAck f c ≠ .panic :=
  Mqtt.parseSubAck_no_panic f c
theorem parsePingResp_no_panic (f : Nat) (c : Bytes) : parsePingResp f c ≠ .panic :=
  Mqtt.parsePingResp_no_panic f c
theorem parsePublish_no_panic (f : Nat) (c : Bytes) : parsePublish f c ≠ .panic :=
  Mqtt.parsePublish_no_panic f c

-- non-vacuity: the parsers do return all three non-panic shapes on concrete inputs
example : unpackString [0, 3, 0x61, 0x2f, 0x62, 9] = .ok (5, [0x61, 0x2f, 0x62]) := by decide
example : unpackString [0, 3, 0x61] = .err .invalidPacketLength := by decide
example : unpackString [0, 1, 0xff] = .ok (3, [0xEF, 0xBF, 0xBD]) := by decide   -- lossy decoding
example : parsePublish 0x02 [0, 1, 0x61, 0x12, 0x34, 7] =
    .ok { topic := [0x61], id := 0x1234, qos := 1, retain := false, dup := false, payload := [7] } := by
  decide
example : parsePublish 0x02 [0, 1, 0x61, 0x12] = .err .invalidPacketLength := by decide
example : parseConnAck 0 [1, 0] = .ok (true, 0) := by decide
example : parseSubAck 0 [0, 1, 0x80] = .ok (1, [0x80]) := by decide
example : parseIdOnly 2 2 [0, 9] = .ok 9 := by decide

/-! ## 2. readPacket never panics and never allocates more than the protocol maximum -/

theorem readPacket_no_panic (bs : Bytes) (_hb : IsBytes bs) : (readPacket bs).res ≠ .panic :=
  readPacket_res_ne_panic bs

theorem readPacket_alloc_bound (bs : Bytes) (_hb : IsBytes bs) (a : Nat)
    (h : (readPacket bs).alloc = some a) : a ≤ 268435455 :=
  readPacket_alloc_le bs a h

/-- key lemma, as stated in the property (the `< 256` hypothesis is not needed) -/
theorem readLen_lt (shift acc b1 : Nat) (rest : Bytes) (rl : Nat) (rest' : Bytes)
    (h7 : shift % 7 = 0) (hs : shift ≤ 21) (ha : acc < 2 ^ shift)
    (h : readLen shift acc b1 rest = .ok (rl, rest')) : rl < 2 ^ 28 :=
  (readLen_ok_bound shift acc b1 rest rl rest' h7 hs ha h).1

example : IsBytes [0x30, 0xff, 0xff, 0xff, 0x7f] := by decide
-- the largest encodable length is really requested from the allocator, and no more
example : (readPacket [0x30, 0xff, 0xff, 0xff, 0x7f]).alloc = some 268435455 := by decide
example : (readPacket [0x30, 0xff, 0xff, 0xff, 0x7f]).res = .err .eof := by decide
example : (readPacket [0x30, 0xff, 0xff, 0xff, 0x7f, 1]).res = .err .unexpectedEOF := by decide
example : (readPacket [0xD0, 0, 0x40]).res =
    .ok ({ ptype := packetPingResp, flag := 0, contents := [] }, [0x40]) := by decide

/-! ## 3. one reader-loop iteration never panics -/

theorem serveStep_no_panic (sb : SubBuffer) (h : Bool) (p : Packet) : serveStep sb h p ≠ .panic :=
  Mqtt.serveStep_no_panic sb h p

example : serveStep [] true { ptype := packetPublish, flag := 2, contents := [0, 1, 0x61, 0, 5, 7] } =
    .ok ([], [.handOver { topic := [0x61], id := 5, qos := 1, retain := false, dup := false,
                          payload := [7] },
              .write [0x40, 2, 0, 5]]) := by decide
example : serveStep [] true { ptype := packetPublish, flag := 6, contents := [0, 1, 0x61, 0, 5, 7] } =
    .err .invalidPacket := by decide

/-! ## 4. the whole reader loop on any byte stream -/

theorem serve_no_panic (sb : SubBuffer) (h : Bool) (bs : Bytes) (_hb : IsBytes bs) :
    (serveStream sb h bs).outcome ≠ .panic := by
  refine serveStream_induct h (fun _ _ run => run.outcome ≠ .panic) ?_ ?_ sb bs
  · intro _ _ _; simp
  · intro _ _ _ _ _ _ _ _ ih; exact ih

theorem serve_alloc_bound (sb : SubBuffer) (h : Bool) (bs : Bytes) (_hb : IsBytes bs) :
    ∀ a ∈ (serveStream sb h bs).allocs, a ≤ 268435455 := by
  refine serveStream_induct h (fun _ _ run => ∀ a ∈ run.allocs, a ≤ 268435455) ?_ ?_ sb bs
  · intro _ bs _ a ha
    exact readPacket_alloc_le bs a (by simpa [Option.mem_toList] using ha)
  · intro _ bs _ _ _ _ _ _ ih a ha
    rcases List.mem_append.1 ha with ha | ha
    · exact readPacket_alloc_le bs a (by simpa [Option.mem_toList] using ha)
    · exact ih a ha

theorem serve_ends_with_error (sb : SubBuffer) (h : Bool) (bs : Bytes) :
    ∃ e, (serveStream sb h bs).outcome = .err e := by
  refine serveStream_induct h (fun _ _ run => ∃ e, run.outcome = .err e) ?_ ?_ sb bs
  · intro _ _ e; exact ⟨e, rfl⟩
  · intro _ _ _ _ _ _ _ _ ih; exact ih

/-- `bs.length + 1` iterations always suffice (every successfully read packet consumes at least
    two bytes), so the "fuel exhausted" placeholder of `serveFuel 0` is never what `serveStream`
    returns: more fuel changes nothing. -/
theorem serve_fuel_sufficient (sb : SubBuffer) (h : Bool) (bs : Bytes) (n : Nat)
    (hn : bs.length + 1 ≤ n) : serveFuel n sb h bs = serveStream sb h bs :=
  serveFuel_sufficient sb h bs n hn

theorem readPacket_consumes (bs : Bytes) (p : Packet) (rest : Bytes)
    (h : (readPacket bs).res = .ok (p, rest)) : rest.length + 2 ≤ bs.length :=
  readPacket_ok_length h

example : (serveStream [] true [0x30, 0xff, 0xff, 0xff, 0xff, 0x7f]).outcome = .err .invalidPacketLength := by
  decide
example : (serveStream [] true []).outcome = .err .eof := by decide
example : (serveStream [] true [0x30, 0xff, 0xff, 0xff, 0x7f]).allocs = [268435455] := by decide

/-! ## 5. compositionality -/

theorem serve_cons_ok (sb sb' : SubBuffer) (h : Bool) (bs : Bytes) (p : Packet) (rest : Bytes)
    (outs : List Out)
    (hr : (readPacket bs).res = .ok (p, rest)) (hs : serveStep sb h p = .ok (sb', outs)) :
    (serveStream sb h bs).outs = outs ++ (serveStream sb' h rest).outs ∧
    (serveStream sb h bs).outcome = (serveStream sb' h rest).outcome ∧
    (serveStream sb h bs).processed = (serveStream sb' h rest).processed + 1 := by
  rw [serveStream_ok hr hs]
  exact ⟨rfl, rfl, rfl⟩

theorem serve_cons_err (sb : SubBuffer) (h : Bool) (bs : Bytes) (p : Packet) (rest : Bytes)
    (e : ErrClass)
    (hr : (readPacket bs).res = .ok (p, rest)) (hs : serveStep sb h p = .err e) :
    (serveStream sb h bs).outs = [] ∧ (serveStream sb h bs).outcome = .err e ∧
    (serveStream sb h bs).processed = 0 := by
  rw [serveStream_step_err hr hs]
  exact ⟨rfl, rfl, rfl⟩

theorem serve_read_err (sb : SubBuffer) (h : Bool) (bs : Bytes) (e : ErrClass)
    (hr : (readPacket bs).res = .err e) :
    (serveStream sb h bs).outs = [] ∧ (serveStream sb h bs).outcome = .err e ∧
    (serveStream sb h bs).processed = 0 := by
  rw [serveStream_read_err hr]
  exact ⟨rfl, rfl, rfl⟩

/-- two well-formed packets (CONNACK, PUBLISH QoS 1 "a" id 5 payload 07) are processed, the third
    (PUBLISH with both QoS bits) ends the link -/
example :
    let run := serveStream [] true
      [0x20, 2, 0, 0,   0x32, 6, 0, 1, 0x61, 0, 5, 7,   0x36, 6, 0, 1, 0x61, 0, 5, 7,   0xD0, 0]
    run.processed = 2 ∧ run.outcome = .err .invalidPacket ∧
    run.outs = [.connAck false 0,
                .handOver { topic := [0x61], id := 5, qos := 1, retain := false, dup := false,
                            payload := [7] },
                .write [0x40, 2, 0, 5]] := by
  decide

/-- two well-formed packets then a truncated one -/
example :
    let run := serveStream [] false [0xD0, 0,   0x40, 2, 0, 9,   0x30, 5, 0, 1]
    run.processed = 2 ∧ run.outcome = .err .unexpectedEOF ∧ run.allocs = [0, 2, 5] := by
  decide

/-! ## 6. each malformed-input class is an error, whatever the state -/

/-- a fifth length byte would be needed: the loop stops after four -/
theorem malformed_overlong_length (b0 c1 c2 c3 c4 : Nat) (rest : Bytes)
    (h1 : c1 &&& 0x80 ≠ 0) (h2 : c2 &&& 0x80 ≠ 0) (h3 : c3 &&& 0x80 ≠ 0) (h4 : c4 &&& 0x80 ≠ 0) :
    (readPacket (b0 :: c1 :: c2 :: c3 :: c4 :: rest)).res = .err .invalidPacketLength := by
  have hcont : ∀ shift acc c b rest, c &&& 0x80 ≠ 0 → shift < 21 →
      readLen shift acc c (b :: rest) = readLen (shift + 7) (acc ||| ((c &&& 0x7F) <<< shift)) b rest := by
    intro shift acc c b rest hc hs
    rw [readLen]
    simp [hc, Nat.not_le.2 hs]
  have hstop : readLen 21 (0 ||| ((c1 &&& 0x7F) <<< 0) ||| ((c2 &&& 0x7F) <<< 7) ||| ((c3 &&& 0x7F) <<< 14))
      c4 rest = .err .invalidPacketLength := by
    unfold readLen
    simp [h4]
  simp only [readPacket]
  rw [hcont _ _ _ _ _ h1 (by decide), hcont _ _ _ _ _ h2 (by decide), hcont _ _ _ _ _ h3 (by decide), hstop]

example : (readPacket [0x30, 0x80, 0x80, 0x80, 0x80, 0x01]).res = .err .invalidPacketLength := by
  decide

/-- a stream that ends inside a packet yields an error, never a panic -/
theorem malformed_truncated (bs : Bytes) (hno : ∀ p rest, (readPacket bs).res ≠ .ok (p, rest)) :
    ∃ e, (readPacket bs).res = .err e := by
  cases hr : (readPacket bs).res with
  | ok pr => exact absurd hr (hno pr.1 pr.2)
  | err e => exact ⟨e, rfl⟩
  | panic => exact absurd hr (readPacket_res_ne_panic bs)

example : (readPacket [0x30]).res = .err .unexpectedEOF := by decide
example : (readPacket [0x30, 0x80]).res = .err .eof := by decide
example : (readPacket [0x30, 3, 1, 2]).res = .err .unexpectedEOF := by decide

theorem malformed_flags (sb : SubBuffer) (h : Bool) (p : Packet)
    (ht : p.ptype ∈ [packetConnAck, packetPubAck, packetPubRec, packetPubComp, packetSubAck,
      packetUnsubAck, packetPingResp])
    (hf : p.flag ≠ 0) : serveStep sb h p = .err .invalidPacket := by
  simp only [List.mem_cons, List.not_mem_nil, or_false] at ht
  rcases ht with ht | ht | ht | ht | ht | ht | ht <;>
    simp [serveStep, ht, hf, parseConnAck, parseIdOnly, parseSubAck, parsePingResp, packetConnAck,
      packetPublish, packetPubAck, packetPubRec, packetPubRel, packetPubComp, packetSubAck,
      packetUnsubAck, packetPingResp]

example : serveStep [] true { ptype := packetSubAck, flag := 1, contents := [0, 1, 0] } =
    .err .invalidPacket := by decide

theorem malformed_flags_pubrel (sb : SubBuffer) (h : Bool) (p : Packet)
    (ht : p.ptype = packetPubRel) (hf : p.flag ≠ 2) : serveStep sb h p = .err .invalidPacket := by
  simp [serveStep, ht, hf, parseIdOnly, packetConnAck, packetPublish, packetPubAck, packetPubRec,
    packetPubRel]

example : serveStep [] true { ptype := packetPubRel, flag := 0, contents := [0, 1] } =
    .err .invalidPacket := by decide

theorem malformed_qos3 (sb : SubBuffer) (h : Bool) (p : Packet)
    (ht : p.ptype = packetPublish) (hf : p.flag &&& 0x06 = 0x06) :
    serveStep sb h p = .err .invalidPacket := by
  simp [serveStep, ht, parsePublish, hf, packetConnAck, packetPublish, publishFlagQoSMask,
    publishFlagQoS1, publishFlagQoS2]

example : serveStep [] true { ptype := packetPublish, flag := 0x0F, contents := [0, 1, 0x61, 0, 1] } =
    .err .invalidPacket := by decide

/-- covers CONNECT, SUBSCRIBE, UNSUBSCRIBE, PINGREQ, DISCONNECT, 0x00 and 0xF0 -/
theorem malformed_type (sb : SubBuffer) (h : Bool) (p : Packet)
    (ht : p.ptype ∉ [packetConnAck, packetPublish, packetPubAck, packetPubRec, packetPubRel,
      packetPubComp, packetSubAck, packetUnsubAck, packetPingResp]) :
    serveStep sb h p = .err .invalidPacket := by
  simp only [List.mem_cons, List.not_mem_nil, or_false, not_or] at ht
  simp [serveStep, ht]

example : ∀ t ∈ [packetConnect, packetSubscribe, packetUnsubscribe, packetPingReq, packetDisconnect,
      0x00, 0xF0],
    t ∉ [packetConnAck, packetPublish, packetPubAck, packetPubRec, packetPubRel,
      packetPubComp, packetSubAck, packetUnsubAck, packetPingResp] := by decide
example : serveStep [] true { ptype := packetConnect, flag := 0, contents := [] } =
    .err .invalidPacket := by decide

theorem malformed_short_body (sb : SubBuffer) (h : Bool) (p : Packet)
    (ht : p.ptype ∈ [packetPubAck, packetPubRec, packetPubRel, packetPubComp, packetSubAck,
      packetUnsubAck])
    (hl : p.contents.length < 2) : ∃ e, serveStep sb h p = .err e := by
  simp only [List.mem_cons, List.not_mem_nil, or_false] at ht
  rcases ht with ht | ht | ht | ht | ht | ht
  · by_cases hf : p.flag = 0 <;>
      simp [serveStep, ht, hf, hl, parseIdOnly, packetConnAck, packetPublish, packetPubAck]
  · by_cases hf : p.flag = 0 <;>
      simp [serveStep, ht, hf, hl, parseIdOnly, packetConnAck, packetPublish, packetPubAck,
        packetPubRec]
  · by_cases hf : p.flag = 2 <;>
      simp [serveStep, ht, hf, hl, parseIdOnly, packetConnAck, packetPublish, packetPubAck,
        packetPubRec, packetPubRel]
  · by_cases hf : p.flag = 0 <;>
      simp [serveStep, ht, hf, hl, parseIdOnly, packetConnAck, packetPublish, packetPubAck,
        packetPubRec, packetPubRel, packetPubComp]
  · by_cases hf : p.flag = 0 <;>
      simp [serveStep, ht, hf, hl, parseSubAck, packetConnAck, packetPublish, packetPubAck,
        packetPubRec, packetPubRel, packetPubComp, packetSubAck]
  · by_cases hf : p.flag = 0 <;>
      simp [serveStep, ht, hf, hl, parseIdOnly, packetConnAck, packetPublish, packetPubAck,
        packetPubRec, packetPubRel, packetPubComp, packetSubAck, packetUnsubAck]

example : serveStep [] true { ptype := packetPubAck, flag := 0, contents := [7] } =
    .err .invalidPacketLength := by decide

theorem malformed_short_connack (sb : SubBuffer) (h : Bool) (p : Packet)
    (ht : p.ptype = packetConnAck) (hl : p.contents.length ≠ 2) :
    ∃ e, serveStep sb h p = .err e := by
  by_cases hf : p.flag = 0 <;> simp [serveStep, ht, hf, hl, parseConnAck]

example : serveStep [] true { ptype := packetConnAck, flag := 0, contents := [0, 0, 0] } =
    .err .invalidPacketLength := by decide

/-- PUBLISH body shorter than the topic length prefix -/
theorem malformed_short_publish_no_prefix (sb : SubBuffer) (h : Bool) (p : Packet)
    (ht : p.ptype = packetPublish) (hl : p.contents.length < 2) :
    ∃ e, serveStep sb h p = .err e :=
  serveStep_publish_err sb h p ht
    (parsePublish_err_of_topic _ _ _ (unpackString_short hl))

/-- PUBLISH whose topic length prefix exceeds the body -/
theorem malformed_short_publish_topic (sb : SubBuffer) (h : Bool) (p : Packet)
    (ht : p.ptype = packetPublish) (b0 b1 : Nat) (tl : Bytes)
    (hc : p.contents = b0 :: b1 :: tl) (hn : ((b0 <<< 8) ||| b1) > tl.length) :
    ∃ e, serveStep sb h p = .err e := by
  refine serveStep_publish_err sb h p ht (parsePublish_err_of_topic _ _ .invalidPacketLength ?_)
  rw [hc, unpackString_cons, if_pos hn]

/-- PUBLISH with QoS ≠ 0 and no room for the two-byte packet identifier after the topic -/
theorem malformed_short_publish_id (sb : SubBuffer) (h : Bool) (p : Packet)
    (ht : p.ptype = packetPublish) (b0 b1 : Nat) (tl : Bytes)
    (hc : p.contents = b0 :: b1 :: tl) (hq : p.flag &&& 0x06 ≠ 0)
    (hn : tl.length < ((b0 <<< 8) ||| b1) + 2) :
    ∃ e, serveStep sb h p = .err e := by
  refine serveStep_publish_err sb h p ht ?_
  cases hu : unpackString p.contents with
  | panic => exact absurd hu (Mqtt.unpackString_no_panic _)
  | err e => exact parsePublish_err_of_topic _ _ e hu
  | ok nt =>
    obtain ⟨n, topic⟩ := nt
    have hn' : n = ((b0 <<< 8) ||| b1) + 2 := by
      rw [hc, unpackString_cons] at hu
      split at hu
      · simp at hu
      · split at hu
        · simp at hu
        · simp only [Res.ok.injEq, Prod.mk.injEq] at hu
          exact hu.1.symm
    have hlen : p.contents.length - n < 2 := by
      rw [hc, hn']; simp only [List.length_cons]; omega
    by_cases h1 : p.flag &&& 6 = 2
    · exact ⟨.invalidPacketLength, by
        simp [parsePublish, hu, h1, hlen, publishFlagQoSMask, publishFlagQoS1]⟩
    · by_cases h2 : p.flag &&& 6 = 4
      · exact ⟨.invalidPacketLength, by
          simp [parsePublish, hu, h2, hlen, publishFlagQoSMask, publishFlagQoS1, publishFlagQoS2]⟩
      · exact ⟨.invalidPacket, by
          simp [parsePublish, hq, h1, h2, publishFlagQoSMask, publishFlagQoS1, publishFlagQoS2]⟩

/-- the three sub-cases together, stated in terms of `p.contents` and `p.flag` -/
theorem malformed_short_publish (sb : SubBuffer) (h : Bool) (p : Packet)
    (ht : p.ptype = packetPublish)
    (hm : p.contents.length < 2 ∨
      (∃ b0 b1 tl, p.contents = b0 :: b1 :: tl ∧ ((b0 <<< 8) ||| b1) > tl.length) ∨
      (∃ b0 b1 tl, p.contents = b0 :: b1 :: tl ∧ p.flag &&& 0x06 ≠ 0 ∧
        tl.length < ((b0 <<< 8) ||| b1) + 2)) :
    ∃ e, serveStep sb h p = .err e := by
  rcases hm with hl | ⟨b0, b1, tl, hc, hn⟩ | ⟨b0, b1, tl, hc, hq, hn⟩
  · exact malformed_short_publish_no_prefix sb h p ht hl
  · exact malformed_short_publish_topic sb h p ht b0 b1 tl hc hn
  · exact malformed_short_publish_id sb h p ht b0 b1 tl hc hq hn

example : serveStep [] true { ptype := packetPublish, flag := 0, contents := [0] } =
    .err .invalidPacketLength := by decide
example : serveStep [] true { ptype := packetPublish, flag := 0, contents := [0, 5, 0x61] } =
    .err .invalidPacketLength := by decide
example : serveStep [] true { ptype := packetPublish, flag := 2, contents := [0, 1, 0x61, 9] } =
    .err .invalidPacketLength := by decide

/-- U+0000 in the topic: a NUL byte always decodes to the rune 0, which `unpackString` rejects -/
theorem malformed_nul_in_topic (sb : SubBuffer) (h : Bool) (p : Packet)
    (ht : p.ptype = packetPublish) (n : Nat) (topic payload : Bytes)
    (hc : p.contents = [n / 256, n % 256] ++ topic ++ payload) (hn : topic.length = n)
    (_hn16 : n < 65536) (h0 : 0 ∈ topic) (_hq : p.flag &&& 0x06 ≠ 0x06) :
    ∃ e, serveStep sb h p = .err e := by
  refine serveStep_publish_err sb h p ht (parsePublish_err_of_topic _ _ .invalidRune ?_)
  have hc' : p.contents = (n / 256) :: (n % 256) :: (topic ++ payload) := by
    rw [hc]; simp
  have hbe : ((n / 256) <<< 8) ||| (n % 256) = n := by
    rw [Bits.be16 _ _ (Nat.mod_lt _ (by decide))]; omega
  rw [hc', unpackString_cons, hbe]
  have h1 : ¬ n > (topic ++ payload).length := by
    simp only [List.length_append]; omega
  have h2 : (topic ++ payload).take n = topic := by
    rw [← hn]; simp
  rw [if_neg h1, h2]
  have h3 : (decodeRunes topic).any badRune = true := by
    rw [List.any_eq_true]
    exact ⟨0, decodeRunes_zero h0, by decide⟩
  rw [if_pos h3]

example : serveStep [] true { ptype := packetPublish, flag := 0, contents := [0, 3, 0x61, 0, 0x62, 7] } =
    .err .invalidRune := by decide
-- a NUL following a lead byte is not swallowed by the lossy decoding
example : serveStep [] true { ptype := packetPublish, flag := 0, contents := [0, 2, 0xC3, 0, 7] } =
    .err .invalidRune := by decide

end Mqtt.C06
