/-
  C12l — LAYERING: the one-step request summary of the retry model is a sound abstraction of the
  base-client transition system.

  `Retry.send w c p true` (Model/Retry.lean) decides in ONE step, from the next scripted `Fault`, how a request
  packet ends (`acked | failed | timedOut | stuck`) and whether the connection survives; `pubAttempt`,
  `relAttempt`, `subAttempt`, `unsubAttempt` turn that into an `Outcome`, always with a retry handle.
  The base-client model (Model/BaseClient.lean) does the same thing in several steps: an API call registers a
  waiter and writes, then acknowledgements / cancellations / the end of the connection release it.

  Here: for every fault there is a concrete environment behaviour in BC events (`realise`, `realise2`) such
  that, from EVERY client state with a live connection, the BC run gives exactly the result class, the
  retry-handle flag, the written packets and the connection liveness that the Retry model assumes
  (`send_refines_live`, `send_refines_dead`, `pub1_refines`, `sub_refines`, `unsub_refines`, `pub2_refines`),
  and that behaviour does nothing to any other call of the client that the Retry model's
  one-task-at-a-time view would hide (`others_undisturbed`, `others_released_on_close`, `others_stay_registered`).

  QoS 0 (`send … false`) has no counterpart: the BC model has no QoS 0 call kind, so there is no `qos0_refines`.
-/
import MqttVerif.Proofs.Layer
import MqttVerif.Props.C07

namespace Mqtt.Layer
open Mqtt

/-! ## 1. the dictionary between the two models -/

/-- the base-client call that transmits a Retry request packet (for QoS 2: the call, whose first leg it is) -/
def kindOf : Retry.Pkt → Option BC.Kind
  | .publish _ 1 _ _ => some .pub1
  | .publish _ 2 _ _ => some .pub2
  | .subscribe _ subs => some (.sub subs.length)
  | .unsubscribe _ _ => some .unsub
  | _ => none

/-- the packet identifier it carries -/
def idOf : Retry.Pkt → Nat
  | .publish _ _ id _ | .pubrel id _ | .subscribe id _ | .unsubscribe id _ | .puback id => id
  | _ => 0

/-- the acknowledgement that ends the (first) wait of a request call; `codes` = return codes of a SUBACK -/
def ackOf (k : BC.Kind) (id : Nat) (codes : List Nat) : BC.In :=
  match k with
  | .pub1 => .puback id
  | .pub2 => .pubrec id
  | .sub _ => .suback id codes
  | .unsub => .unsuback id
  | .connect => .connack false 0       -- (not a request kind; never used below)
  | _ => .pingresp                     -- (not a request kind; never used below)

/-- what the environment does BEFORE the request is written, to realise fault `f` -/
def before : Retry.Fault → List BC.Ev
  | .writeFail => [.writeFail true]                 -- Transport.Write will return an error
  | _ => []

/-- what the environment does AFTER the request of call `i` (waiting for `a`) has been written -/
def after (a : BC.In) (i : Nat) (f : Retry.Fault) (respTimeout : Bool) : List BC.Ev :=
  match f with
  | .ok => [.inb a]                                  -- the acknowledgement arrives
  | .writeFail => []                                 -- the call has already failed
  | .lostReq | .lostAck => [.peerClose]              -- no acknowledgement; the connection closes
  | .silent => if respTimeout then [.cancel i] else []   -- nothing arrives; ResponseTimeout expires, if set

/-- the BC behaviour that realises fault `f` on one request: call of kind `k`, id `id`, becoming call `i` -/
def realise (k : BC.Kind) (id i : Nat) (codes : List Nat) (f : Retry.Fault) (respTimeout : Bool) : List BC.Ev :=
  before f ++ [.call k id] ++ after (ackOf k id codes) i f respTimeout

/-- QoS 2: fault `f1` on the PUBLISH; if PUBREC arrives, fault `f2` on the PUBREL that the same call then writes -/
def realise2 (id i : Nat) (f1 f2 : Retry.Fault) (respTimeout : Bool) : List BC.Ev :=
  match f1 with
  | .ok => [.call .pub2 id] ++ before f2 ++ [.inb (.pubrec id)] ++ after (.pubcomp id) i f2 respTimeout
  | _ => realise .pub2 id i [] f1 respTimeout

/-- the class of a BC call phase in Retry terms (`none`: a result that `Retry.send` has no word for) -/
def sentOf : BC.Phase → Option Retry.Sent
  | .returned .ok | .returned (.okSub _) => some .acked
  | .returned (.closed _) | .returned (.writeErr _) => some .failed
  | .returned (.ctxErr _) => some .timedOut
  | .returned _ => none                              -- invalidSubAck, refused, notConnected
  | _ => some .stuck                                 -- still blocked

/-- does the error that the call returned carry a retry handle? (`none`: the call did not fail that way) -/
def retryFlag : BC.Phase → Option Bool
  | .returned (.ctxErr r) | .returned (.closed r) | .returned (.writeErr r) => some r
  | _ => none

/-- the result class of an `Outcome` … -/
def classOf : Retry.Outcome → Retry.Sent
  | .done => .acked
  | .stuck => .stuck
  | .fail _ .timeout => .timedOut
  | .fail _ .retryable => .failed

/-- … and whether it carries a retry handle -/
def handleOf : Retry.Outcome → Option Bool
  | .fail h _ => some h.isSome
  | _ => none

/-- A client with a live connection: Connect has run, the reader goroutine is running (Done() is open),
    the transport is open and accepts writes. No other assumption: any calls, blocked or not, any signaller
    maps, any ids. -/
structure LiveConn (s : BC.St) : Prop where
  inited : s.inited = true
  notDone : s.doneClosed = false
  transportOpen : s.transportOpen = true
  writable : s.writeFails = false

/-- the four request kinds -/
theorem kindOf_isReq {p : Retry.Pkt} {k : BC.Kind} (h : kindOf p = some k) : BC.isReq k = true := by
  unfold kindOf at h
  split at h <;> first | (cases h; rfl) | cases h

/-! ## 2. the effect of the realising behaviour, fault by fault -/

/-- the phase a request call is in, and what it has written, once its (first) acknowledgement has arrived -/
def ackedPhase (k : BC.Kind) (codes : List Nat) : BC.Phase :=
  match k with
  | .pub2 => .waitPubComp
  | .sub _ => .returned (.okSub codes)
  | _ => .returned .ok

/-- … and what it has written by then (QoS 2: PUBLISH and, on PUBREC, PUBREL) -/
def ackedWrites (k : BC.Kind) (id : Nat) : List BC.W :=
  match k with
  | .pub2 => [.publish 2 id, .pubrel id]
  | k => [BC.reqW k id]

/-- One request on a live connection, under each fault. (`BC.After s s' c ws wf`: `s'` is `s` plus the new
    call record `c`, the writes `ws`; older calls untouched; connection up; transport refuses writes iff `wf`.
    `BC.Ended`: the same, but the connection has ended and every blocked call was released.) -/
theorem realise_effect (s : BC.St) (hl : LiveConn s) (k : BC.Kind) (id : Nat) (codes : List Nat)
    (hk : BC.isReq k = true) (hcodes : ∀ n, k = .sub n → codes.length = n) (f : Retry.Fault) (rt : Bool) :
    let s' := (realise k id s.calls.length codes f rt).foldl BC.step s
    match f with
    | .ok => BC.After s s' ⟨k, id, ackedPhase k codes⟩ (ackedWrites k id) false
    | .writeFail => BC.After s s' ⟨k, id, .returned (.writeErr true)⟩ [] true
    | .lostReq | .lostAck => BC.Ended s s' ⟨k, id, .returned (.closed true)⟩ [BC.reqW k id]
    | .silent =>
      BC.After s s' ⟨k, id, if rt then .returned (.ctxErr true) else BC.waitPhase k⟩ [BC.reqW k id] false := by
  intro s'
  have h1 := BC.After.start s k id hk hl.inited hl.notDone hl.transportOpen hl.writable
  have hcw : BC.canWrite s = true := by simp [BC.canWrite, hl.transportOpen, hl.writable]
  have hreg := BC.start_target s k id hk hl.inited hcw
  cases f with
  | ok =>
    show BC.After s (BC.step (BC.step s (.call k id)) (.inb (ackOf k id codes))) _ _ _
    cases k with
    | pub1 => exact h1.onPuback hreg
    | pub2 => exact (h1.onPubrecOk hreg).1
    | sub n =>
      obtain rfl := hcodes n rfl
      exact h1.onSuback hreg
    | unsub => exact h1.onUnsuback hreg
    | _ => cases hk
  | writeFail => exact BC.After.startFail s k id hk hl.inited hl.notDone hl.transportOpen
  | lostReq =>
    have := h1.onPeerClose
    rw [BC.release_req k id hk] at this
    exact this
  | lostAck =>
    have := h1.onPeerClose
    rw [BC.release_req k id hk] at this
    exact this
  | silent =>
    cases rt with
    | false => exact h1
    | true =>
      have := h1.onCancel (BC.isReq_blocked hk id)
      rw [show BC.ctxRetry (BC.waitPhase k) = true from BC.isReq_ctxRetry hk] at this
      exact this

/-- the two-leg QoS 2 exchange on a live connection, under each pair of faults -/
theorem realise2_effect (s : BC.St) (hl : LiveConn s) (id : Nat) (f1 f2 : Retry.Fault) (rt : Bool) :
    let s' := (realise2 id s.calls.length f1 f2 rt).foldl BC.step s
    match f1, f2 with
    | .ok, .ok => BC.After s s' ⟨.pub2, id, .returned .ok⟩ [.publish 2 id, .pubrel id] false
    | .ok, .writeFail => BC.After s s' ⟨.pub2, id, .returned (.writeErr true)⟩ [.publish 2 id] true
    | .ok, .lostReq | .ok, .lostAck =>
      BC.Ended s s' ⟨.pub2, id, .returned (.closed true)⟩ [.publish 2 id, .pubrel id]
    | .ok, .silent =>
      BC.After s s' ⟨.pub2, id, if rt then .returned (.ctxErr true) else .waitPubComp⟩
        [.publish 2 id, .pubrel id] false
    | .writeFail, _ => BC.After s s' ⟨.pub2, id, .returned (.writeErr true)⟩ [] true
    | .lostReq, _ | .lostAck, _ => BC.Ended s s' ⟨.pub2, id, .returned (.closed true)⟩ [.publish 2 id]
    | .silent, _ =>
      BC.After s s' ⟨.pub2, id, if rt then .returned (.ctxErr true) else .waitPubRec⟩ [.publish 2 id] false := by
  intro s'
  have h1 := BC.After.start s .pub2 id rfl hl.inited hl.notDone hl.transportOpen hl.writable
  have hcw : BC.canWrite s = true := by simp [BC.canWrite, hl.transportOpen, hl.writable]
  have hreg : BC.mapGet (BC.step s (.call .pub2 id)).pubRec id = some s.calls.length :=
    BC.start_target s .pub2 id rfl hl.inited hcw
  cases f1 with
  | ok =>
    cases f2 with
    | ok => exact (h1.onPubrecOk hreg).1.onPubcomp (h1.onPubrecOk hreg).2
    | writeFail => exact (h1.onWriteFail true).onPubrecFail hreg
    | lostReq => exact (h1.onPubrecOk hreg).1.onPeerClose
    | lostAck => exact (h1.onPubrecOk hreg).1.onPeerClose
    | silent =>
      cases rt with
      | false => exact (h1.onPubrecOk hreg).1
      | true => exact (h1.onPubrecOk hreg).1.onCancel rfl
  | writeFail => cases f2 <;> exact realise_effect s hl .pub2 id [] rfl (by intro n h; cases h) .writeFail rt
  | lostReq => cases f2 <;> exact realise_effect s hl .pub2 id [] rfl (by intro n h; cases h) .lostReq rt
  | lostAck => cases f2 <;> exact realise_effect s hl .pub2 id [] rfl (by intro n h; cases h) .lostAck rt
  | silent => cases f2 <;> exact realise_effect s hl .pub2 id [] rfl (by intro n h; cases h) .silent rt

/-! ## 3. what "the BC run agrees with the Retry summary" means -/

/-- `Matches s s' k id r h ws dead` : in `s'` the call appended to `s` (index `s.calls.length`) has kind `k`
    and id `id`; its phase has result class `r` and retry-handle flag `h`; exactly the packets `ws` were
    written; and the client has lost its connection (cannot write, or Done() is closed) iff `dead`. -/
def Matches (s s' : BC.St) (k : BC.Kind) (id : Nat) (r : Retry.Sent) (h : Option Bool) (ws : List BC.W)
    (dead : Bool) : Prop :=
  ∃ c', s'.calls[s.calls.length]? = some c' ∧ c'.kind = k ∧ c'.id = id ∧
    sentOf c'.phase = some r ∧ retryFlag c'.phase = h ∧
    s'.writes = s.writes ++ ws ∧
    (dead = true ↔ (BC.canWrite s' = false ∨ s'.doneClosed = true))

theorem Matches.ofAfter {s s' : BC.St} {k : BC.Kind} {id : Nat} {ph : BC.Phase} {ws : List BC.W} {wf : Bool}
    (h : BC.After s s' ⟨k, id, ph⟩ ws wf) {r : Retry.Sent} {hf : Option Bool}
    (h1 : sentOf ph = some r) (h2 : retryFlag ph = hf) : Matches s s' k id r hf ws wf :=
  ⟨_, h.new, rfl, rfl, h1, h2, h.writes, by rw [h.canWrite, h.doneClosed]; cases wf <;> simp⟩

theorem Matches.ofEnded {s s' : BC.St} {k : BC.Kind} {id : Nat} {ph : BC.Phase} {ws : List BC.W}
    (h : BC.Ended s s' ⟨k, id, ph⟩ ws) {r : Retry.Sent} {hf : Option Bool}
    (h1 : sentOf ph = some r) (h2 : retryFlag ph = hf) : Matches s s' k id r hf ws true :=
  ⟨_, h.new, rfl, rfl, h1, h2, h.writes, by simp [h.doneClosed]⟩

/-- the retry-handle flag that the Retry model assumes for a result class: every failure exit of a
    QoS ≥ 1 publish / subscribe / unsubscribe carries a handle (`…Attempt` return `fail (some h)`) -/
def assumedFlag (r : Retry.Sent) : Option Bool := if r = .failed ∨ r = .timedOut then some true else none

/-- the request packet is on the wire unless the write itself failed -/
def written (k : BC.Kind) (id : Nat) (f : Retry.Fault) : List BC.W := if f = .writeFail then [] else [BC.reqW k id]

/-- QoS 2: the fault that decides the exchange (the second one counts only if the PUBLISH leg went through) -/
def deciding (f1 f2 : Retry.Fault) : Retry.Fault := if f1 = .ok then f2 else f1

/-- QoS 2: PUBLISH is on the wire unless its write failed; PUBREL too if PUBREC arrived and that write did not fail -/
def written2 (id : Nat) (f1 f2 : Retry.Fault) : List BC.W :=
  if f1 = .writeFail then [] else if f1 = .ok ∧ f2 ≠ .writeFail then [.publish 2 id, .pubrel id] else [.publish 2 id]

/-- `message.ID` as `pubAttempt` fills it: the recorded id of message `m`, else the next id of the connection -/
def pubId (w : Retry.World) (c m : Nat) : Nat :=
  (Retry.lookupPid w m).getD (newID (Retry.getConn w c).ctr).2

/-- the fresh id that `subAttempt` / `unsubAttempt` draw -/
def nextId (w : Retry.World) (c : Nat) : Nat := (newID (Retry.getConn w c).ctr).2

/-! ## 4. the BC side alone: the run under `realise f` has the result that `Retry.send` computes from `f` -/

/-- (`Retry.sentBy f rt` and `Retry.survives f` are `send`'s result and "connection still alive" as functions
    of the fault: `Retry.send_snd`, `Retry.send_alive` in Proofs/Layer.) -/
theorem realise_matches (s : BC.St) (hl : LiveConn s) (k : BC.Kind) (id : Nat) (codes : List Nat)
    (hreq : BC.isReq k = true) (h2 : k ≠ .pub2) (hcodes : ∀ n, k = .sub n → codes.length = n)
    (f : Retry.Fault) (rt : Bool) :
    Matches s ((realise k id s.calls.length codes f rt).foldl BC.step s) k id
      (Retry.sentBy f rt) (assumedFlag (Retry.sentBy f rt)) (written k id f) (!Retry.survives f) := by
  have he := realise_effect s hl k id codes hreq hcodes f rt
  cases f with
  | ok => cases k <;> first | exact Matches.ofAfter he rfl rfl | exact absurd rfl h2 | cases hreq
  | writeFail => exact Matches.ofAfter he rfl rfl
  | lostReq => exact Matches.ofEnded he rfl rfl
  | lostAck => exact Matches.ofEnded he rfl rfl
  | silent =>
    cases rt with
    | false => cases k <;> first | exact Matches.ofAfter he rfl rfl | cases hreq
    | true => exact Matches.ofAfter he rfl rfl

theorem realise2_matches (s : BC.St) (hl : LiveConn s) (id : Nat) (f1 f2 : Retry.Fault) (rt : Bool) :
    Matches s ((realise2 id s.calls.length f1 f2 rt).foldl BC.step s) .pub2 id
      (Retry.sentBy (deciding f1 f2) rt) (assumedFlag (Retry.sentBy (deciding f1 f2) rt))
      (written2 id f1 f2) (!Retry.survives (deciding f1 f2)) := by
  have he := realise2_effect s hl id f1 f2 rt
  cases f1 <;> cases f2 <;> cases rt <;>
    first | exact Matches.ofAfter he rfl rfl | exact Matches.ofEnded he rfl rfl

/-! ## 5. the layering theorems -/

/-- One request with a single acknowledgement (QoS 1 PUBLISH, SUBSCRIBE with a SUBACK of the right length,
    UNSUBSCRIBE) on a live connection: for every fault `f` — the next one in the script of the Retry world —
    and both settings of ResponseTimeout, the BC run under `realise … f` from ANY live client state has exactly
    the result class of `Retry.send`, a retry handle on every failure exit and on no other, the request written
    unless the write failed, and has lost its connection exactly when `Retry.send` marks it dead. -/
theorem send_refines_live (s : BC.St) (hl : LiveConn s)
    (w : Retry.World) (c : Nat) (hc : c < w.conns.length) (ha : (Retry.getConn w c).alive = true)
    (p : Retry.Pkt) (k : BC.Kind) (hk : kindOf p = some k) (h2 : k ≠ .pub2)
    (codes : List Nat) (hcodes : ∀ n, k = .sub n → codes.length = n)
    (f : Retry.Fault) (hf : (Retry.nextFault w).1 = f) :
    let s' := (realise k (idOf p) s.calls.length codes f w.cfg.respTimeout).foldl BC.step s
    let r := Retry.send w c p true
    Matches s s' k (idOf p) r.2 (assumedFlag r.2) (written k (idOf p) f) (!(Retry.getConn r.1 c).alive) := by
  intro s' r
  have hr : r.2 = Retry.sentBy f w.cfg.respTimeout := by rw [← hf]; exact Retry.send_snd w c p ha
  have hal : (Retry.getConn r.1 c).alive = Retry.survives f := by rw [← hf]; exact Retry.send_alive w c p ha hc
  rw [hr, hal]
  exact realise_matches s hl k (idOf p) codes (kindOf_isReq hk) h2 hcodes f w.cfg.respTimeout

/-- the script in its usual form: the fault is the head of `w.faults` -/
theorem send_refines_live_cons (s : BC.St) (hl : LiveConn s)
    (w : Retry.World) (c : Nat) (hc : c < w.conns.length) (ha : (Retry.getConn w c).alive = true)
    (p : Retry.Pkt) (k : BC.Kind) (hk : kindOf p = some k) (h2 : k ≠ .pub2)
    (codes : List Nat) (hcodes : ∀ n, k = .sub n → codes.length = n)
    (f : Retry.Fault) (rest : List Retry.Fault) (hf : w.faults = f :: rest) :
    let s' := (realise k (idOf p) s.calls.length codes f w.cfg.respTimeout).foldl BC.step s
    let r := Retry.send w c p true
    Matches s s' k (idOf p) r.2 (assumedFlag r.2) (written k (idOf p) f) (!(Retry.getConn r.1 c).alive) ∧
      r.1.faults = rest :=
  ⟨send_refines_live s hl w c hc ha p k hk h2 codes hcodes f (Retry.nextFault_cons w f rest hf).1,
   (Retry.send_faults w c p ha).trans (Retry.nextFault_cons w f rest hf).2⟩

/-- `Retry.send` raises `stuck` exactly when the BC call is left blocked -/
theorem send_stuck_iff_blocked (s : BC.St) (hl : LiveConn s)
    (w : Retry.World) (c : Nat) (ha : (Retry.getConn w c).alive = true) (hw : w.stuck = false)
    (p : Retry.Pkt) (k : BC.Kind) (hk : kindOf p = some k) (h2 : k ≠ .pub2)
    (codes : List Nat) (hcodes : ∀ n, k = .sub n → codes.length = n) :
    let s' := (realise k (idOf p) s.calls.length codes (Retry.nextFault w).1 w.cfg.respTimeout).foldl BC.step s
    (Retry.send w c p true).1.stuck = true ↔ ∃ c', s'.calls[s.calls.length]? = some c' ∧ BC.blocked c' = true := by
  intro s'
  obtain ⟨c', h1, _, _, h4, _⟩ :=
    realise_matches s hl k (idOf p) codes (kindOf_isReq hk) h2 hcodes (Retry.nextFault w).1 w.cfg.respTimeout
  rw [Retry.send_stuck w c p ha, hw, Retry.send_snd w c p ha]
  have hb : BC.blocked c' = true ↔ Retry.sentBy (Retry.nextFault w).1 w.cfg.respTimeout = .stuck := by
    revert h4
    generalize Retry.sentBy (Retry.nextFault w).1 w.cfg.respTimeout = x
    cases c' with | mk k' id' ph =>
    cases ph with
    | returned r => cases r <;> cases x <;> simp [sentOf, BC.blocked]
    | _ => cases x <;> simp [sentOf, BC.blocked]
  constructor
  · intro h; exact ⟨c', h1, hb.2 (by simpa using h)⟩
  · rintro ⟨c'', h1', hb'⟩
    rw [h1] at h1'; cases h1'
    simpa using hb.1 hb'

/-- A request on a client that cannot write any more (the connection has ended, or the transport refuses
    writes): the call returns at once with the write error and a retry handle, writes nothing and leaves
    everything else as it was — `Retry.send` on a connection with `alive = false`: logged `.dead`, `.failed`,
    no fault consumed. -/
theorem send_refines_dead (s : BC.St) (hi : s.inited = true) (hw : BC.canWrite s = false)
    (w : Retry.World) (c : Nat) (ha : (Retry.getConn w c).alive = false)
    (p : Retry.Pkt) (k : BC.Kind) (hk : kindOf p = some k) :
    let s' := BC.step s (.call k (idOf p))
    let r := Retry.send w c p true
    r = (Retry.logPkt w c p .dead, .failed) ∧
    Matches s s' k (idOf p) r.2 (assumedFlag r.2) [] (!(Retry.getConn r.1 c).alive) ∧
    (∀ j, j < s.calls.length → s'.calls[j]? = s.calls[j]?) ∧ s'.calls.length = s.calls.length + 1 ∧
    s'.doneClosed = s.doneClosed := by
  intro s' r
  have hr : r = (Retry.logPkt w c p .dead, .failed) := Retry.send_dead w c p true ha
  obtain ⟨h1, h2, _, h4, h5, h6⟩ := BC.call_cannot_write s k (idOf p) (kindOf_isReq hk) hi hw
  refine ⟨hr, ?_, ?_, ?_, h4⟩
  · rw [hr]
    refine ⟨⟨k, idOf p, .returned (.writeErr true)⟩, ?_, rfl, rfl, rfl, rfl, ?_, ?_⟩
    · show (BC.step s _).calls[_]? = _
      rw [h1]; simp
    · show (BC.step s _).writes = _
      rw [h2]; simp
    · have : BC.canWrite s' = false := by
        show BC.canWrite (BC.step s _) = false
        rw [← hw]; unfold BC.canWrite; rw [h5, h6]
      simp [this, ha]
  · intro j hj
    show (BC.step s _).calls[j]? = _
    rw [h1, List.getElem?_append_left hj]
  · show (BC.step s _).calls.length = _
    rw [h1]; simp

/-- … in particular in every reachable state whose connection has ended (C11 `call_after_done_returns_at_once`) -/
theorem send_refines_dead_reachable (evs : List BC.Ev) (hd : (BC.run evs).doneClosed = true)
    (w : Retry.World) (c : Nat) (ha : (Retry.getConn w c).alive = false)
    (p : Retry.Pkt) (k : BC.Kind) (hk : kindOf p = some k) :
    let s := BC.run evs
    let s' := BC.run (evs ++ [.call k (idOf p)])
    let r := Retry.send w c p true
    Matches s s' k (idOf p) r.2 (assumedFlag r.2) [] (!(Retry.getConn r.1 c).alive) := by
  intro s s' r
  obtain ⟨ht, hi⟩ := C11.done_implies_transport_closed evs hd
  have hw : BC.canWrite s = false := by simp [BC.canWrite, s, ht]
  have := (send_refines_dead s hi hw w c ha p k hk).2.1
  show Matches s (BC.run (evs ++ [.call k (idOf p)])) _ _ _ _ _ _
  rw [BC.run_snoc]
  exact this

theorem classOf_outcomeOf (h : Retry.Entry) (x : Retry.Sent) : classOf (Retry.outcomeOf (some h) x) = x := by
  cases x <;> rfl

theorem handleOf_outcomeOf (h : Retry.Entry) (x : Retry.Sent) :
    handleOf (Retry.outcomeOf (some h) x) = assumedFlag x := by
  cases x <;> rfl

theorem assignId_snd (w : Retry.World) (c m : Nat) : (Retry.assignId w c m).2 = pubId w c m := by
  unfold Retry.assignId pubId
  cases Retry.lookupPid w m <;> rfl

/-- `pubAttempt` at QoS 1 = `publishImpl`: result class and retry handle of the `Outcome` are those of the BC call -/
theorem pub1_refines (s : BC.St) (hl : LiveConn s)
    (w : Retry.World) (c : Nat) (hc : c < w.conns.length) (ha : (Retry.getConn w c).alive = true)
    (m : Nat) (dup : Bool) (f : Retry.Fault) (hf : (Retry.nextFault w).1 = f) :
    let id := pubId w c m
    let s' := (realise .pub1 id s.calls.length [] f w.cfg.respTimeout).foldl BC.step s
    let r := Retry.pubAttempt w c m 1 dup
    Matches s s' .pub1 id (classOf r.2) (handleOf r.2) (written .pub1 id f) (!(Retry.getConn r.1 c).alive) := by
  intro id s' r
  have h1 : r.2 = Retry.outcomeOf (some (.rePublish m 1)) (Retry.sentBy f w.cfg.respTimeout) := by
    rw [← hf, ← Retry.assign_send_snd w c m (.publish m 1 (Retry.assignId w c m).2 dup) ha]
    exact Retry.pubAttempt1_snd w c m dup
  have h2 : (Retry.getConn r.1 c).alive = Retry.survives f := by
    rw [← hf, ← Retry.assign_send_alive w c m (.publish m 1 (Retry.assignId w c m).2 dup) ha hc]
    exact congrArg Retry.Conn.alive (Retry.getConn_congr (Retry.pubAttempt1_conns w c m dup) c)
  rw [h1, h2, classOf_outcomeOf, handleOf_outcomeOf]
  exact realise_matches s hl .pub1 id [] rfl (by intro h; cases h) (by intro n h; cases h) f w.cfg.respTimeout

/-- `subAttempt` = `subscribeImpl`, with a SUBACK carrying one return code per requested filter -/
theorem sub_refines (s : BC.St) (hl : LiveConn s)
    (w : Retry.World) (c : Nat) (hc : c < w.conns.length) (ha : (Retry.getConn w c).alive = true)
    (subs : List Subscription) (codes : List Nat) (hcodes : codes.length = subs.length)
    (f : Retry.Fault) (hf : (Retry.nextFault w).1 = f) :
    let id := nextId w c
    let s' := (realise (.sub subs.length) id s.calls.length codes f w.cfg.respTimeout).foldl BC.step s
    let r := Retry.subAttempt w c subs
    Matches s s' (.sub subs.length) id (classOf r.2) (handleOf r.2) (written (.sub subs.length) id f)
      (!(Retry.getConn r.1 c).alive) := by
  intro id s' r
  have h1 : r.2 = Retry.outcomeOf (some (.reSub subs)) (Retry.sentBy f w.cfg.respTimeout) := by
    rw [← hf, ← Retry.fresh_send_snd w c (.subscribe (Retry.freshId w c).2 subs) ha]
    exact Retry.subAttempt_snd w c subs
  have h2 : (Retry.getConn r.1 c).alive = Retry.survives f := by
    rw [← hf, ← Retry.fresh_send_alive w c (.subscribe (Retry.freshId w c).2 subs) ha hc]
    exact congrArg Retry.Conn.alive (Retry.getConn_congr (Retry.subAttempt_conns w c subs) c)
  rw [h1, h2, classOf_outcomeOf, handleOf_outcomeOf]
  exact realise_matches s hl (.sub subs.length) id codes rfl (by intro h; cases h)
    (by intro n h; cases h; exact hcodes) f w.cfg.respTimeout

/-- `unsubAttempt` = `unsubscribeImpl` -/
theorem unsub_refines (s : BC.St) (hl : LiveConn s)
    (w : Retry.World) (c : Nat) (hc : c < w.conns.length) (ha : (Retry.getConn w c).alive = true)
    (ts : List Bytes) (f : Retry.Fault) (hf : (Retry.nextFault w).1 = f) :
    let id := nextId w c
    let s' := (realise .unsub id s.calls.length [] f w.cfg.respTimeout).foldl BC.step s
    let r := Retry.unsubAttempt w c ts
    Matches s s' .unsub id (classOf r.2) (handleOf r.2) (written .unsub id f) (!(Retry.getConn r.1 c).alive) := by
  intro id s' r
  have h1 : r.2 = Retry.outcomeOf (some (.reUnsub ts)) (Retry.sentBy f w.cfg.respTimeout) := by
    rw [← hf, ← Retry.fresh_send_snd w c (.unsubscribe (Retry.freshId w c).2 ts) ha]
    exact Retry.unsubAttempt_snd w c ts
  have h2 : (Retry.getConn r.1 c).alive = Retry.survives f := by
    rw [← hf, ← Retry.fresh_send_alive w c (.unsubscribe (Retry.freshId w c).2 ts) ha hc]
    exact congrArg Retry.Conn.alive (Retry.getConn_congr (Retry.unsubAttempt_conns w c ts) c)
  rw [h1, h2, classOf_outcomeOf, handleOf_outcomeOf]
  exact realise_matches s hl .unsub id [] rfl (by intro h; cases h) (by intro n h; cases h) f w.cfg.respTimeout

/-- The two-leg QoS 2 exchange, `pubAttempt … 2 …` = `send PUBLISH`, then (only if PUBREC came) `relAttempt` =
    `send PUBREL`: ONE BC call `.pub2` which, on PUBREC, writes PUBREL itself and waits for PUBCOMP, under the
    faults `f1` (PUBLISH leg) and `f2` (PUBREL leg; consumed only when `f1 = ok`). Result class, retry-handle
    flag, written packets (`[publish 2 id, pubrel id]` when both writes succeed) and connection liveness agree. -/
theorem pub2_refines (s : BC.St) (hl : LiveConn s)
    (w : Retry.World) (c : Nat) (hc : c < w.conns.length) (ha : (Retry.getConn w c).alive = true)
    (m : Nat) (dup : Bool) (f1 f2 : Retry.Fault)
    (hf1 : (Retry.nextFault w).1 = f1) (hf2 : (Retry.nextFault (Retry.nextFault w).2).1 = f2) :
    let id := pubId w c m
    let s' := (realise2 id s.calls.length f1 f2 w.cfg.respTimeout).foldl BC.step s
    let r := Retry.pubAttempt w c m 2 dup
    Matches s s' .pub2 id (classOf r.2) (handleOf r.2) (written2 id f1 f2) (!(Retry.getConn r.1 c).alive) ∧
    (∀ h e, r.2 = .fail h e → h = some (if f1 = .ok then .rePubRel m else .rePublish m 2)) := by
  intro id s' r
  have hm := realise2_matches s hl id f1 f2 w.cfg.respTimeout
  have h1 := Retry.assign_send_snd w c m (.publish m 2 (Retry.assignId w c m).2 dup) ha
  rw [hf1] at h1
  by_cases hok : f1 = .ok
  · -- PUBREC arrives: the PUBREL leg decides
    subst hok
    have hr : r = Retry.relAttempt _ c m (Retry.assignId w c m).2 := Retry.pubAttempt2_of_acked w c m dup h1
    obtain ⟨ha2, hf2', hcfg, hlen, _⟩ :=
      Retry.second_send w c m (.publish m 2 (Retry.assignId w c m).2 dup) ha (by rw [hf1]; rfl)
    rw [hf2] at hf2'
    have h2 : r.2 = Retry.outcomeOf (some (.rePubRel m)) (Retry.sentBy f2 w.cfg.respTimeout) := by
      rw [hr, Retry.relAttempt_snd, Retry.send_snd _ c _ ha2, hf2', hcfg]
    have h3 : (Retry.getConn r.1 c).alive = Retry.survives f2 := by
      rw [hr, Retry.getConn_congr (Retry.relAttempt_conns _ c m _) c,
        Retry.send_alive _ c _ ha2 (by rw [hlen]; exact hc), hf2']
    refine ⟨?_, ?_⟩
    · rw [h2, h3, classOf_outcomeOf, handleOf_outcomeOf]
      exact hm
    · intro h e he
      rw [h2] at he
      cases hs : Retry.sentBy f2 w.cfg.respTimeout <;> rw [hs] at he <;> cases he <;> rfl
  · -- the PUBLISH leg fails (or gets no answer): PUBREL is never sent, `f2` is not consumed
    have hne : Retry.sentBy f1 w.cfg.respTimeout ≠ .acked := by
      cases f1 <;> first | exact absurd rfl hok | (simp only [Retry.sentBy]; split <;> simp) | simp [Retry.sentBy]
    have hr : r = (_, Retry.outcomeOf (some (.rePublish m 2)) _) :=
      Retry.pubAttempt2_of_not_acked w c m dup (by rw [h1]; exact hne)
    have h2 : r.2 = Retry.outcomeOf (some (.rePublish m 2)) (Retry.sentBy f1 w.cfg.respTimeout) := by
      rw [hr, h1]
    have h3 : (Retry.getConn r.1 c).alive = Retry.survives f1 := by
      rw [hr, ← hf1]
      exact Retry.assign_send_alive w c m _ ha hc
    have hd : deciding f1 f2 = f1 := by simp [deciding, hok]
    refine ⟨?_, ?_⟩
    · rw [h2, h3, classOf_outcomeOf, handleOf_outcomeOf]
      rw [hd] at hm
      exact hm
    · intro h e he
      rw [h2] at he
      rw [if_neg hok]
      cases hs : Retry.sentBy f1 w.cfg.respTimeout <;> rw [hs] at he <;> cases he <;> rfl

/-! ## 6. the one-task-at-a-time view of the Retry model hides nothing about the other calls -/

/-- Whatever else the client is doing — any number of other calls, blocked or returned — the behaviour
    that realises a fault on one request appends exactly one call record and leaves every older record exactly
    as it was, except that the faults which end the connection (`lostReq`, `lostAck` ↦ `peerClose`) release the
    blocked ones (`BC.release`; spelled out in `others_released_on_close`). All four request kinds, including the
    first leg of QoS 2. -/
theorem others_undisturbed (s : BC.St) (hl : LiveConn s) (k : BC.Kind) (id : Nat) (codes : List Nat)
    (hk : BC.isReq k = true) (hcodes : ∀ n, k = .sub n → codes.length = n) (f : Retry.Fault) (rt : Bool) :
    let s' := (realise k id s.calls.length codes f rt).foldl BC.step s
    s'.calls.length = s.calls.length + 1 ∧
    ∀ j, j < s.calls.length →
      s'.calls[j]? = if f = .lostReq ∨ f = .lostAck then (s.calls[j]?).map BC.release else s.calls[j]? := by
  intro s'
  have he := realise_effect s hl k id codes hk hcodes f rt
  cases f <;> exact ⟨he.len, fun j hj => he.old j hj⟩

/-- the same for the two-leg QoS 2 exchange: the connection ends iff the deciding fault is a lost packet -/
theorem others_undisturbed2 (s : BC.St) (hl : LiveConn s) (id : Nat) (f1 f2 : Retry.Fault) (rt : Bool) :
    let s' := (realise2 id s.calls.length f1 f2 rt).foldl BC.step s
    s'.calls.length = s.calls.length + 1 ∧
    ∀ j, j < s.calls.length →
      s'.calls[j]? = if deciding f1 f2 = .lostReq ∨ deciding f1 f2 = .lostAck
        then (s.calls[j]?).map BC.release else s.calls[j]? := by
  intro s'
  have he := realise2_effect s hl id f1 f2 rt
  cases f1 <;> cases f2 <;> exact ⟨he.len, fun j hj => he.old j hj⟩

/-- When the realised fault closes the connection, every other call that was blocked returns
    ErrClosedTransport (with its retry-handle flag `ctxRetry`), every call that had returned keeps its result:
    this is C11 `connection_end_result` / `connection_end_releases_all` applied to the state after the call. -/
theorem others_released_on_close (s : BC.St) (hl : LiveConn s) (k : BC.Kind) (id : Nat) (codes : List Nat)
    (hk : BC.isReq k = true) (f : Retry.Fault) (hf : f = .lostReq ∨ f = .lostAck) (rt : Bool)
    (j : Nat) (cj : BC.Call) (hj : s.calls[j]? = some cj) :
    let s' := (realise k id s.calls.length codes f rt).foldl BC.step s
    s'.doneClosed = true ∧
    (BC.blocked cj = true → s'.calls[j]? = some { cj with phase := .returned (.closed (BC.ctxRetry cj.phase)) }) ∧
    (BC.blocked cj = false → s'.calls[j]? = some cj) := by
  intro s'
  have h1 := BC.After.start s k id hk hl.inited hl.notDone hl.transportOpen hl.writable
  have hjl : j < s.calls.length := by
    rcases Nat.lt_or_ge j s.calls.length with h | h
    · exact h
    · rw [List.getElem?_eq_none h] at hj; cases hj
  have hj1 : (BC.step s (.call k id)).calls[j]? = some cj := by rw [h1.old j hjl]; exact hj
  have hs' : s' = BC.step (BC.step s (.call k id)) .peerClose := by
    rcases hf with rfl | rfl <;> rfl
  rw [hs']
  have hall := C11.connection_end_releases_all _ .peerClose (Or.inl rfl) h1.inited h1.doneClosed
  exact ⟨hall.1,
    fun hb => C11.connection_end_result _ .peerClose (Or.inl rfl) h1.inited h1.doneClosed j cj hj1 hb,
    fun hb => hall.2.2.2.2.1 j cj hj1 hb⟩

/-- The signaller maps are not hidden either: if every blocked call of `s` is registered under its own id
    (`RegInv`, an invariant of well-formed runs, C07 `registered_of_wfids`) and the id of the new request is
    not in use by a blocked call of the same kind (`Fresh`, what `newID` is for), then the same holds afterwards:
    the other blocked calls can still be completed by their own acknowledgements. -/
theorem others_stay_registered (s : BC.St) (hr : BC.RegInv false s) (k : BC.Kind) (id : Nat) (codes : List Nat)
    (hfr : BC.Fresh false s k id) (f : Retry.Fault) (rt : Bool) :
    BC.RegInv false ((realise k id s.calls.length codes f rt).foldl BC.step s) := by
  apply BC.RegInv.onFoldl _ _ hr
  unfold realise
  apply BC.WFFrom.one_call
  · cases f <;> cases rt <;> simp [after]
  · cases f <;> simp [before]
  · cases f <;> first | exact hfr | exact BC.Fresh.congr hfr rfl

theorem others_stay_registered2 (s : BC.St) (hr : BC.RegInv false s) (id : Nat)
    (hfr : BC.Fresh false s .pub2 id) (f1 f2 : Retry.Fault) (rt : Bool) :
    BC.RegInv false ((realise2 id s.calls.length f1 f2 rt).foldl BC.step s) := by
  by_cases hok : f1 = .ok
  · subst hok
    apply BC.RegInv.onFoldl _ _ hr
    show BC.WFFrom false s ([] ++ [.call .pub2 id] ++ (before f2 ++ [.inb (.pubrec id)] ++ after (.pubcomp id) _ f2 rt))
    apply BC.WFFrom.one_call
    · cases f2 <;> cases rt <;> simp [before, after]
    · simp
    · exact hfr
  · have : realise2 id s.calls.length f1 f2 rt = realise .pub2 id s.calls.length [] f1 rt := by
      cases f1 <;> first | exact absurd rfl hok | rfl
    rw [this]
    exact others_stay_registered s hr .pub2 id [] hfr f1 rt

/-! ## 7. non-vacuity: the hypotheses hold on concrete reachable states, and the results differ per fault -/

/-- a freshly connected client -/
def s0 : BC.St := BC.run [.call .connect 0, .inb (.connack false 0)]
/-- a client with six calls blocked, one in each waiting phase (C11 `busy`) -/
def sBusy : BC.St := BC.run C11.busy
/-- a Retry world with one live connection and one scripted fault -/
def w0 (f : Retry.Fault) (rt : Bool) : Retry.World := { cfg := { respTimeout := rt }, conns := [{}], faults := [f] }

def allFaults : List Retry.Fault := [.ok, .writeFail, .lostReq, .lostAck, .silent]

theorem live_s0 : LiveConn s0 := ⟨by decide, by decide, by decide, by decide⟩
theorem live_sBusy : LiveConn sBusy := ⟨by decide, by decide, by decide, by decide⟩
example : sBusy.calls.map (·.phase) =
    [.returned .ok, .waitPubAck, .waitPubRec, .waitPubComp, .waitSubAck, .waitUnsubAck, .waitPingResp] := by decide

-- the Retry-side hypotheses, for every fault and both timeout settings
example (f : Retry.Fault) (rt : Bool) :
    0 < (w0 f rt).conns.length ∧ (Retry.getConn (w0 f rt) 0).alive = true ∧ (Retry.nextFault (w0 f rt)).1 = f ∧
      (w0 f rt).cfg.respTimeout = rt :=
  ⟨Nat.zero_lt_one, rfl, rfl, rfl⟩

-- the theorems instantiated (all hypotheses discharged): QoS 1 PUBLISH id 7 on the busy client, ACK lost
example := send_refines_live sBusy live_sBusy (w0 .lostAck true) 0 (by decide) rfl (.publish 0 1 7 false) .pub1 rfl
  (by decide) [] (by intro n h; cases h) .lostAck rfl
example := pub2_refines sBusy live_sBusy (w0 .ok false) 0 (by decide) rfl 3 false .ok .ok rfl rfl
example := sub_refines s0 live_s0 (w0 .silent true) 0 (by decide) rfl [] [] rfl .silent rfl

/-- phase of the new call (index 7) after realising `f` on a QoS 1 PUBLISH with id 9 on the busy client -/
def newPhase (rt : Bool) (f : Retry.Fault) : Option BC.Phase :=
  (((realise .pub1 9 7 [] f rt).foldl BC.step sBusy).calls[7]?).map (·.phase)

-- BC: the result differs per fault …
example : allFaults.map (newPhase true) =
    [some (.returned .ok), some (.returned (.writeErr true)), some (.returned (.closed true)),
     some (.returned (.closed true)), some (.returned (.ctxErr true))] := by decide
example : newPhase false .silent = some .waitPubAck := by decide
-- … exactly as `Retry.send` says
example : allFaults.map (fun f => (Retry.send (w0 f true) 0 (.publish 0 1 9 false) true).2) =
    [.acked, .failed, .failed, .failed, .timedOut] := by decide
example : (Retry.send (w0 .silent false) 0 (.publish 0 1 9 false) true).2 = .stuck := by decide
example : allFaults.map (fun f => (newPhase true f).bind sentOf) =
    allFaults.map (fun f => some (Retry.send (w0 f true) 0 (.publish 0 1 9 false) true).2) := by decide
-- the connection afterwards
example : allFaults.map (fun f => (Retry.getConn (Retry.send (w0 f true) 0 (.publish 0 1 9 false) true).1 0).alive) =
    [true, false, false, false, true] := by decide
example : allFaults.map (fun f =>
      let s' := (realise .pub1 9 7 [] f true).foldl BC.step sBusy
      BC.canWrite s' && !s'.doneClosed) = [true, false, false, false, true] := by decide

-- QoS 2: PUBREC arrives, PUBCOMP never does, no ResponseTimeout: both models are stuck after PUBREL
example : (((realise2 9 7 .ok .silent false).foldl BC.step sBusy).calls[7]?).map (·.phase) = some .waitPubComp ∧
    ((realise2 9 7 .ok .silent false).foldl BC.step sBusy).writes = sBusy.writes ++ [.publish 2 9, .pubrel 9] := by
  decide
-- QoS 2: the PUBREL write fails: the handle is the PUBREL one, PUBREL is not on the wire
example : (((realise2 9 7 .ok .writeFail false).foldl BC.step sBusy).calls[7]?).map (·.phase) =
      some (.returned (.writeErr true)) ∧
    ((realise2 9 7 .ok .writeFail false).foldl BC.step sBusy).writes = sBusy.writes ++ [.publish 2 9] := by decide

-- the other calls: untouched by `ok`, released by a lost packet
example : ((realise .pub1 9 7 [] .ok true).foldl BC.step sBusy).calls.take 7 = sBusy.calls := by decide
example : (((realise .pub1 9 7 [] .lostReq true).foldl BC.step sBusy).calls.take 7).map (·.phase) =
    [.returned .ok, .returned (.closed true), .returned (.closed true), .returned (.closed true),
     .returned (.closed true), .returned (.closed true), .returned (.closed false)] := by decide

-- `RegInv` and `Fresh` on the busy client (id 9 is unused; id 1 is in use by the blocked QoS 1 publish)
theorem regInv_sBusy : BC.RegInv false sBusy :=
  BC.RegInv.onFoldl C11.busy {} (BC.RegInv.init false) (C07.wfIds_of_check C11.busy (by decide))
example : BC.Fresh false sBusy .pub1 9 := C07.fresh_of_freshB (by decide)
example : C07.freshB false sBusy .pub1 1 = false := by decide

end Mqtt.Layer
