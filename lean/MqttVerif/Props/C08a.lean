/-
  C08 (pure layer) — the list of established subscriptions kept by RetryClient denotes exactly
  the net effect of the history of Subscribe / Unsubscribe calls, and never holds a topic twice.
  Property theorems only; helper lemmas (and `Mqtt.NoDupTopics`) live in Proofs/Subs.
-/
import MqttVerif.Proofs.Subs

namespace Mqtt.C08

/-- `NoDupTopics d` is `(d.map (·.topic)).Nodup` (defined in Proofs/Subs as `Mqtt.NoDupTopics`) -/
example (d : SubList) : NoDupTopics d = (d.map (·.topic)).Nodup := rfl

theorem applyCall_nodup (d : SubList) (call : SubCall) (h : NoDupTopics d) :
    NoDupTopics (applyCall d call) := by
  cases call with
  | sub s => exact (applySubs_spec d s h).1
  | unsub t => exact (applyUnsubs_spec d t h).1

theorem applyCall_toMap (d : SubList) (call : SubCall) (h : NoDupTopics d) :
    Spec.toMap (applyCall d call) = Spec.netStep (Spec.toMap d) call := by
  cases call with
  | sub s => exact (applySubs_spec d s h).2
  | unsub t => exact (applyUnsubs_spec d t h).2

/-- generalisation of `bookkeeping` to an arbitrary duplicate-free start list -/
theorem bookkeeping_from (d : SubList) (calls : List SubCall) (h : NoDupTopics d) :
    Spec.toMap (calls.foldl applyCall d) = calls.foldl Spec.netStep (Spec.toMap d) ∧
      NoDupTopics (calls.foldl applyCall d) := by
  induction calls generalizing d with
  | nil => exact ⟨rfl, h⟩
  | cons c rest ih =>
    simp only [List.foldl_cons]
    rw [← applyCall_toMap d c h]
    exact ih _ (applyCall_nodup d c h)

/-- for EVERY history of Subscribe/Unsubscribe calls (repeated filters, changed QoS, multi-filter
    calls, duplicates inside one call, unsubscribing absent filters) the established list denotes
    exactly the net effect, and never holds a topic twice -/
theorem bookkeeping (calls : List SubCall) :
    Spec.toMap (calls.foldl applyCall []) = Spec.netEffect calls ∧
      NoDupTopics (calls.foldl applyCall []) :=
  bookkeeping_from [] calls noDupTopics_nil

/-! Non-vacuity: concrete histories (topic filters as byte lists: a = [97], b = [98]). -/

/-- Subscribe a/0; Subscribe a/1; Unsubscribe a ⇒ empty -/
example : [SubCall.sub [⟨[97], 0⟩], .sub [⟨[97], 1⟩], .unsub [[97]]].foldl applyCall [] = [] := by
  decide

/-- Subscribe a,b; Unsubscribe b,b ⇒ [a] -/
example : [SubCall.sub [⟨[97], 0⟩, ⟨[98], 1⟩], .unsub [[98], [98]]].foldl applyCall []
    = [⟨[97], 0⟩] := by
  decide

/-- changed QoS replaces in place; swap-with-last removal reorders the list -/
example : [SubCall.sub [⟨[97], 0⟩, ⟨[98], 1⟩, ⟨[99], 2⟩], .sub [⟨[97], 2⟩], .unsub [[97]]].foldl
    applyCall [] = [⟨[99], 2⟩, ⟨[98], 1⟩] := by
  decide

/-- the specification side of the same history -/
example : Spec.netEffect [.sub [⟨[97], 0⟩, ⟨[98], 1⟩], .unsub [[98], [98]]] [97] = some 0 ∧
    Spec.netEffect [.sub [⟨[97], 0⟩, ⟨[98], 1⟩], .unsub [[98], [98]]] [98] = none := by
  decide

end Mqtt.C08
