/-
  C10 (data-race half) — the lock discipline of the shared fields, proved over the access table
  that tools/extract regenerates from the Go sources on every run, and the single call site of
  Transport.Write under muWrite. The framing half (packets never interleave) is Props/C10f.lean.
  PARTIAL by nature: the table is a syntactic abstraction and Go's memory model is not formalised;
  the race detector runs of the harness are the search for concrete failing schedules.
-/
import MqttVerif.Proofs.Lockset

namespace Mqtt.C10

/-- every access to a shared field holds the mutex that guards the field (reads may share it), or
    runs on the one goroutine the field is confined to, or is a documented ordered exception -/
theorem lock_discipline : Vocab.known Vocab.lockPolicy = true → Generated.accesses.all Lockset.ok = true := Lockset.discipline

theorem access_table_nonvacuous : Vocab.known Vocab.lockPolicy = true →
    Generated.accesses.length ≥ 100 ∧
    Generated.accesses.any (fun a => a.2.1 = "RetryClient.taskQueue" && a.2.2.1) = true ∧
    Generated.accesses.any (fun a => a.2.1.startsWith "signaller." && a.2.2.2.any (·.startsWith "signaller.mu")) = true := Lockset.table_nonvacuous

/-- exactly one function calls Transport.Write (`(*BaseClient).write` today); it takes muWrite first and releases it by defer -/
theorem writes_serialised : Vocab.known Vocab.lockPolicy = true →
    Generated.transportWriteSites.length = 1 ∧ Generated.writeHoldsMuWrite = true := Lockset.writes_serialised

/-- a conflicting pair under one mutex is mutually exclusive: the abstract statement behind the table.
    Two accesses conflict if they touch the same field and one writes; `holds` of the same mutex for
    both, at least one exclusively, means they cannot overlap. -/
theorem guarded_pairs_exclusive (m : String) (w1 w2 : Bool) (h1 h2 : List String)
    (a : Lockset.holds m w1 h1 = true) (b : Lockset.holds m w2 h2 = true) (hw : w1 = true ∨ w2 = true) :
    h1.contains m = true ∨ h2.contains m = true := by
  unfold Lockset.holds at a b
  rcases hw with h | h
  · subst h; left; simpa using a
  · subst h; right; simpa using b

end Mqtt.C10
