/-
  C19 — error chains: `errors.Is` / `errors.As` see exactly what they should through the library's
  wrappers (`*Error`, `*errorWithRetry`, `*ConnectionError`, `*RequestTimeoutError`), at any depth.
  Property theorems only; helper lemmas live in Proofs/Errors.lean.
  All statements are for arbitrary error trees `E` (any depth, any mix of node kinds) and arbitrary
  target identities.
-/
import MqttVerif.Proofs.Errors

namespace Mqtt.C19

/-! ### `errors.Is` is sound and complete -/

/-- errors.Is never reports a target that is not among the causes (for ALL chains of any depth and
    ALL targets) -/
theorem is_sound (e : E) (t : Nat) (h : stdIs e t = true) : t ∈ e.causes :=
  stdIs_sound e t h

theorem is_never_foreign (e : E) (t : Nat) (h : t ∉ e.causes) : stdIs e t = false := by
  cases hs : stdIs e t with
  | false => rfl
  | true => exact absurd (stdIs_sound e t hs) h

/-- errors.Is finds every error on the Unwrap chain, through any depth of wrapping -/
theorem is_complete (e : E) (t : Nat) (h : t ∈ e.chain) : stdIs e t = true :=
  stdIs_complete e t h

/-- the Unwrap chain is part of the causes (so `is_complete` and `is_sound` bracket `errors.Is`) -/
theorem chain_sub_causes (e : E) (t : Nat) (h : t ∈ e.chain) : t ∈ e.causes :=
  E.chain_sub_causes e t h

/-- The library's own `(*Error).Is` walk additionally sees through an exported `Err` field: it finds
    every cause, except that the embedded `*Error` pointer of an `errorWithRetry` node below is
    stepped over (the walk calls the promoted `Unwrap`, which goes straight to the embedded node's
    `Err`). `E.wids` collects exactly those embedded pointers. -/
theorem lib_walk_complete (e : E) (t : Nat) (h : t ∈ e.causes) (hn : t ∉ e.wids) :
    e.walk t = true :=
  E.walk_complete e t h hn

/-- and it never reports anything else -/
theorem lib_walk_sound (e : E) (t : Nat) (h : e.walk t = true) : t ∈ e.causes :=
  E.walk_sound e t h

/-- consequently `errors.Is` on a library wrapper (`*Error` or `*errorWithRetry`) finds every cause of
    the wrapped error, including those behind `Err` fields -/
theorem is_through_lib_wrapper (n : Nat) (e : E) (t : Nat) (h : t ∈ e.causes) (hn : t ∉ e.wids) :
    stdIs (.wrap n e) t = true ∧ ∀ w, stdIs (.retry n w e) t = true := by
  have hw := E.walk_complete e t h hn
  simp [stdIs, libIs, hw]

/-! ### The smart constructors -/

/-- wrappers: io.EOF and nil pass through unwrapped; everything else keeps its cause inspectable -/
theorem wrap_eof (n : Nat) : wrapError (some (.leaf eofId)) n = some (.leaf eofId) := by
  simp [wrapError]

theorem wrap_nil (n : Nat) : wrapError none n = none := rfl

theorem wrapRetry_eof (n m : Nat) :
    wrapErrorWithRetry (some (.leaf eofId)) n m = some (.leaf eofId) := by
  simp [wrapErrorWithRetry, wrapError]

theorem wrapRetry_nil (n m : Nat) : wrapErrorWithRetry none n m = none := rfl

theorem wrap_keeps_cause (e : E) (n : Nat) (h : e ≠ .leaf eofId) :
    ∃ w, wrapError (some e) n = some w ∧ w.id = n ∧ ∀ t ∈ e.chain, stdIs w t = true := by
  refine ⟨.wrap n e, wrapError_some e n h, rfl, ?_⟩
  intro t ht
  exact stdIs_complete (.wrap n e) t (by simp [E.chain, ht])

theorem wrapRetry_keeps_cause_and_handle (e : E) (n m : Nat) (h : e ≠ .leaf eofId) :
    ∃ w, wrapErrorWithRetry (some e) n m = some w ∧ hasRetry w = true ∧
      ∀ t ∈ e.chain, stdIs w t = true := by
  refine ⟨.retry n m e, wrapErrorWithRetry_some e n m h, rfl, ?_⟩
  intro t ht
  exact stdIs_complete (.retry n m e) t (by simp [E.chain, ht])

/-! ### Wrapping at any depth -/

/-- `Wrapped outer inner`: outer is inner under zero or more wrap/retry/fmtw/conn nodes -/
inductive Wrapped : E → E → Prop
  | refl (e) : Wrapped e e
  | wrap (i o e) : Wrapped o e → Wrapped (.wrap i o) e
  | retry (i w o e) : Wrapped o e → Wrapped (.retry i w o) e
  | fmtw (i o e) : Wrapped o e → Wrapped (.fmtw i o) e
  | conn (i o e) : Wrapped o e → Wrapped (.conn i o) e

/-- an expired response timeout stays identifiable as RequestTimeoutError through any depth of
    library / fmt / ConnectionError wrapping -/
theorem timeout_identifiable (outer : E) (i : Nat) (x : E) (h : Wrapped outer (.rto i x)) :
    stdAsRto outer = some i := by
  generalize hin : E.rto i x = inner at h
  induction h with
  | refl e => subst hin; rfl
  | wrap j o e _ ih | fmtw j o e _ ih | conn j o e _ ih => simpa [stdAsRto] using ih hin
  | retry j w o e _ ih => simpa [stdAsRto] using ih hin

theorem wrapped_chain (outer inner : E) (h : Wrapped outer inner) (t : Nat) (ht : t ∈ inner.chain) :
    t ∈ outer.chain := by
  induction h with
  | refl e => exact ht
  | wrap j o e _ ih | fmtw j o e _ ih | conn j o e _ ih =>
    simp only [E.chain, List.mem_cons]; exact Or.inr (ih ht)
  | retry j w o e _ ih => simp only [E.chain, List.mem_cons]; exact Or.inr (ih ht)

theorem wrapped_is (outer inner : E) (h : Wrapped outer inner) (t : Nat) (ht : t ∈ inner.chain) :
    stdIs outer t = true :=
  stdIs_complete outer t (wrapped_chain outer inner h t ht)

/-! ### Non-vacuity on concrete chains -/

-- a depth-4 chain wrap(retry(fmtw(conn(leaf 4)))): finds 4 (and every node on the way), not 5
example : stdIs (.wrap 100 (.retry 101 102 (.fmtw 103 (.conn 104 (.leaf 4))))) 4 = true := by decide
example : stdIs (.wrap 100 (.retry 101 102 (.fmtw 103 (.conn 104 (.leaf 4))))) 103 = true := by decide
example : stdIs (.wrap 100 (.retry 101 102 (.fmtw 103 (.conn 104 (.leaf 4))))) 5 = false := by decide
-- the embedded *Error of the retry node answers for its own identity through its `Is` method
example : stdIs (.wrap 100 (.retry 101 102 (.fmtw 103 (.conn 104 (.leaf 4))))) 102 = true := by decide
example : (4 : Nat) ∈ (E.wrap 100 (.retry 101 102 (.fmtw 103 (.conn 104 (.leaf 4))))).chain := by decide
example : (5 : Nat) ∉ (E.wrap 100 (.retry 101 102 (.fmtw 103 (.conn 104 (.leaf 4))))).causes := by decide

-- the library wrapper sees through an exported `Err` field although 4 is not on the Unwrap chain …
example : stdIs (.wrap 100 (.field 101 (.leaf 4))) 4 = true := by decide
example : (4 : Nat) ∉ (E.wrap 100 (.field 101 (.leaf 4))).chain := by decide
example : (4 : Nat) ∈ (E.wrap 100 (.field 101 (.leaf 4))).causes := by decide
-- … a plain fmt.Errorf wrapper does not (so `is_sound` cannot be strengthened to `chain`,
-- and `is_complete` cannot be strengthened to `causes`)
example : stdIs (.fmtw 100 (.field 101 (.leaf 4))) 4 = false := by decide
example : (4 : Nat) ∈ (E.fmtw 100 (.field 101 (.leaf 4))).causes := by decide

-- the library walk steps over the embedded pointer of a retry node below it (why `lib_walk_complete`
-- excludes `wids`), while `errors.Is` on the retry node itself does answer for it
example : (E.retry 101 102 (.leaf 4)).walk 102 = false := by decide
example : (102 : Nat) ∈ (E.retry 101 102 (.leaf 4)).causes := by decide
example : stdIs (.retry 101 102 (.leaf 4)) 102 = true := by decide

-- RequestTimeoutError hides what it embeds from errors.Is (no Unwrap) but stays identifiable by As
example : stdAsRto (.wrap 100 (.retry 101 102 (.fmtw 103 (.conn 104 (.rto 7 (.leaf 4)))))) = some 7 := by
  decide
example : stdIs (.wrap 100 (.rto 7 (.leaf 4))) 4 = false := by decide
example : stdAsRto (.wrap 100 (.field 101 (.rto 7 (.leaf 4)))) = none := by decide
example : Wrapped (.wrap 100 (.retry 101 102 (.fmtw 103 (.conn 104 (.rto 7 (.leaf 4)))))) (.rto 7 (.leaf 4)) :=
  .wrap _ _ _ (.retry _ _ _ _ (.fmtw _ _ _ (.conn _ _ _ (.refl _))))

-- the wrappers on concrete inputs
example : wrapError (some (.leaf 4)) 100 = some (.wrap 100 (.leaf 4)) := by decide
example : wrapErrorWithRetry (some (.leaf 4)) 100 101 = some (.retry 100 101 (.leaf 4)) := by decide
example : wrapErrorWithRetry (some (.conn 9 (.leaf 4))) 100 101 = some (.retry 100 101 (.conn 9 (.leaf 4))) := by
  decide
example : wrapError (some (.leaf 0)) 100 = some (.leaf 0) := by decide

end Mqtt.C19
