/-
  C12 — Retransmissions are faithful: every PUBLISH attempt for a message carries the same packet
  identifier and QoS as the first one; the first has DUP=0, all later ones DUP=1; QoS 0 messages are
  never retransmitted; once PUBREL was sent for a QoS 2 message no PUBLISH for it follows, only PUBREL
  with the same identifier. For every script (all event lists, fault lists, configurations) in which
  the application submits each message index at most once; `.waitElapsed`, `.cancelCtx` and Disconnect
  in any phase of the reconnect loop are not restricted, nor is the dialer (`cfg.deafDialer`: a dialer
  that ignores the Connect context, see the `demoDeaf…` scripts at the end).
  Property theorems only; the invariant (`Mqtt.Retry.PInv`, `Inv12`) lives in Proofs/RetryMsg.
-/
import MqttVerif.Proofs.RetryMsg

namespace Mqtt.C12
open Mqtt.Retry

/-- the per-message shape of the log at the end of any run -/
theorem good (s : Script) (hd : s.DistinctMsgs) (m : Nat) :
    Good (lookupPid (exec s) m) (msgPkts (exec s) m) := (exec_inv s hd).good m

/-- (qos, id, dup, wire) of a PUBLISH of message `m` -/
def pubInfo (m : Nat) (pw : Pkt × Wire) : Option (Nat × Nat × Bool × Wire) :=
  match pw.1 with
  | .publish m' q i d => if m' = m then some (q, i, d, pw.2) else none
  | _ => none

theorem pubInfo_some {m : Nat} {pw : Pkt × Wire} {a : Nat × Nat × Bool × Wire}
    (h : pubInfo m pw = some a) : pw.1 = .publish m a.1 a.2.1 a.2.2.1 ∧ pw.2 = a.2.2.2 := by
  unfold pubInfo at h
  split at h
  · rename_i m' q i d hp
    split at h
    · rename_i hm; subst hm; cases h; exact ⟨hp, rfl⟩
    · cases h
  · cases h

theorem pubsOf_eq (w : World) (m : Nat) : pubsOf w m = (msgPkts w m).filterMap (pubInfo m) := by
  unfold pubsOf msgPkts
  rw [List.filterMap_filter]
  congr 1
  funext pw
  rcases pw with ⟨p, x⟩
  cases p <;> simp [pubInfo, about]

theorem mem_pubsOf {w : World} {m : Nat} {a : Nat × Nat × Bool × Wire} (h : a ∈ pubsOf w m) :
    ∃ pw ∈ msgPkts w m, pw.1 = .publish m a.1 a.2.1 a.2.2.1 ∧ pw.2 = a.2.2.2 := by
  rw [pubsOf_eq] at h
  obtain ⟨pw, hpw, hf⟩ := List.mem_filterMap.1 h
  exact ⟨pw, hpw, pubInfo_some hf⟩

theorem same_id_and_qos (s : Script) (hd : s.DistinctMsgs) (m : Nat) :
    ∀ a ∈ pubsOf (exec s) m, ∀ b ∈ pubsOf (exec s) m, a.1 = b.1 ∧ a.2.1 = b.2.1 := by
  intro a ha b hb
  have hg := good s hd m
  obtain ⟨pa, hpa, ea, _⟩ := mem_pubsOf ha
  obtain ⟨pb, hpb, eb, _⟩ := mem_pubsOf hb
  constructor
  · have := hg.qos pa hpa pb hpb (by rw [ea]; rfl) (by rw [eb]; rfl)
    rw [ea, eb] at this; simpa [pktQos] using this
  · have h1 := hg.id pa hpa
    have h2 := hg.id pb hpb
    rw [ea] at h1; rw [eb] at h2
    have := h1.trans h2.symm
    simpa [pktId] using this

theorem id_is_message_id (s : Script) (hd : s.DistinctMsgs) (m q i : Nat) (d : Bool) (x : Wire) :
    (q, i, d, x) ∈ pubsOf (exec s) m → lookupPid (exec s) m = some i := by
  intro h
  obtain ⟨pw, hpw, e, _⟩ := mem_pubsOf h
  have := (good s hd m).id pw hpw
  rw [e] at this; exact this.symm

/-- the head of the per-message log decides the shape of `pubsOf` -/
theorem pubsOf_cases {pid : Option Nat} {l : List (Pkt × Wire)} {m : Nat} (hg : Good pid l)
    (hall : ∀ pw ∈ l, about m pw.1 = true) :
    l.filterMap (pubInfo m) = [] ∨
    ∃ first, l.filterMap (pubInfo m) = first :: (l.tail.filterMap (pubInfo m)) ∧
      first.2.2.1 = false ∧
      ∀ r ∈ l.tail.filterMap (pubInfo m), r.2.2.1 = true ∧ r.1 ≠ 0 := by
  cases l with
  | nil => exact Or.inl rfl
  | cons a t =>
    have hord := List.pairwise_cons.1 hg.order
    cases hfa : pubInfo m a with
    | none =>
      left
      rw [List.filterMap_cons, hfa]
      rw [List.filterMap_eq_nil_iff]
      intro b hb
      cases hfb : pubInfo m b with
      | none => rfl
      | some r =>
        exfalso
        obtain ⟨eb, _⟩ := pubInfo_some hfb
        have := (hord.1 b hb (by rw [eb]; rfl)).1
        rcases about_cases (hall a (List.mem_cons_self ..)) with ⟨q, i, d, ea⟩ | ⟨i, ea⟩
        · simp [pubInfo, ea] at hfa
        · rw [ea] at this; simp [isPub] at this
    | some first =>
      right
      refine ⟨first, by rw [List.filterMap_cons, hfa]; rfl, ?_, ?_⟩
      · obtain ⟨ea, _⟩ := pubInfo_some hfa
        have := hg.head a rfl
        rw [ea] at this; exact this
      · intro r hr
        obtain ⟨b, hb, hfb⟩ := List.mem_filterMap.1 hr
        obtain ⟨eb, _⟩ := pubInfo_some hfb
        have := hord.1 b hb (by rw [eb]; rfl)
        rw [eb] at this
        exact ⟨this.2.1, by simpa [pktQos] using this.2.2⟩

theorem msgPkts_about (w : World) (m : Nat) : ∀ pw ∈ msgPkts w m, about m pw.1 = true :=
  fun _ h => (mem_msgPkts.1 h).2

theorem dup_flags (s : Script) (hd : s.DistinctMsgs) (m : Nat) :
    match pubsOf (exec s) m with
    | [] => True
    | first :: rest => first.2.2.1 = false ∧ ∀ r ∈ rest, r.2.2.1 = true := by
  rw [pubsOf_eq]
  rcases pubsOf_cases (good s hd m) (msgPkts_about _ m) with h | ⟨first, h, h1, h2⟩
  · rw [h]; trivial
  · rw [h]; exact ⟨h1, fun r hr => (h2 r hr).1⟩

/-- QoS 0 is never retransmitted -/
theorem qos0_once (s : Script) (hd : s.DistinctMsgs) (m : Nat) :
    (∀ a ∈ pubsOf (exec s) m, a.1 = 0) → (pubsOf (exec s) m).length ≤ 1 := by
  rw [pubsOf_eq]
  intro hall
  rcases pubsOf_cases (good s hd m) (msgPkts_about _ m) with h | ⟨first, h, _, h2⟩
  · rw [h]; simp
  · rw [h] at hall ⊢
    cases ht : (msgPkts (exec s) m).tail.filterMap (pubInfo m) with
    | nil => simp
    | cons r _ =>
      exfalso
      have hr : r ∈ (msgPkts (exec s) m).tail.filterMap (pubInfo m) := by rw [ht]; simp
      exact (h2 r hr).2 (hall r (List.mem_cons_of_mem _ hr))

/-- `p` is a PUBLISH of message `m` -/
def isPublishOf (m : Nat) (p : Pkt) : Prop := ∃ q i d, p = .publish m q i d

/-- once PUBREL was sent for `m`, no PUBLISH for `m` follows -/
theorem no_publish_after_pubrel (s : Script) (hd : s.DistinctMsgs) (m i : Nat) (x : Wire)
    (pre post : List (Pkt × Wire))
    (h : allPkts (exec s) = pre ++ [(.pubrel i m, x)] ++ post) :
    ∀ pw ∈ post, ¬ isPublishOf m pw.1 := by
  intro pw hpw ⟨q, j, d, e⟩
  have hord := (good s hd m).order
  unfold msgPkts at hord
  rw [h, List.filter_append, List.filter_append] at hord
  have h2 := (List.pairwise_append.1 hord).2.2
  have := h2 (Pkt.pubrel i m, x) (by simp [about]) pw
    (by rw [List.mem_filter]; exact ⟨hpw, by rw [e]; simp [about]⟩) (by rw [e]; rfl)
  simp [isPub] at this

/-- … only PUBREL with the message's identifier -/
theorem pubrel_same_id (s : Script) (hd : s.DistinctMsgs) (m i : Nat) (x : Wire) :
    (.pubrel i m, x) ∈ allPkts (exec s) → lookupPid (exec s) m = some i := by
  intro h
  have := (good s hd m).id (.pubrel i m, x) (mem_msgPkts.2 ⟨h, by simp [about]⟩)
  exact this.symm

/-- every prefix of a script with distinct messages has distinct messages, so all of the above
    holds at every intermediate point of a run as well -/
theorem distinct_prefix (s : Script) (hd : s.DistinctMsgs) (n : Nat) :
    ({ s with evs := s.evs.take n } : Script).DistinctMsgs :=
  List.Nodup.sublist ((List.take_sublist n s.evs).filterMap _) hd

/-! Non-vacuity: four connections; message 3 is QoS 0 (one attempt); message 1 (QoS 2) needs
    PUBLISH, PUBLISH(dup), PUBREL, PUBREL on three connections; message 2 (QoS 1) is queued behind
    it, keeps the identifier 65535 drawn on the third connection and is retransmitted on the fourth.
    Every redial needs the back-off timer to fire first (`.waitElapsed`). -/

def demo : Script :=
  { faults := [.ok, .lostAck, .ok, .lostReq, .ok, .writeFail, .ok],
    evs := [.start, .dialOk 10, .connackOk false [], .app (.pub 3 0), .app (.pub 1 2),
            .app (.pub 2 1), .waitElapsed, .dialOk 700, .connackOk true [],
            .waitElapsed, .dialOk 65534, .connackOk true [],
            .waitElapsed, .dialOk 5, .connackOk true []] }

example : demo.DistinctMsgs := by unfold Script.DistinctMsgs; decide

example : pubsOf (exec demo) 1 =
    [(2, 12, false, .sent .lostAck), (2, 12, true, .sent .ok)] := by decide +kernel

example : pubsOf (exec demo) 2 =
    [(1, 65535, false, .sent .writeFail), (1, 65535, true, .sent .ok)] := by decide +kernel

example : pubsOf (exec demo) 3 = [(0, 11, false, .sent .ok)] := by decide +kernel

example : msgPkts (exec demo) 1 =
    [(.publish 1 2 12 false, .sent .lostAck), (.publish 1 2 12 true, .sent .ok),
     (.pubrel 12 1, .sent .lostReq), (.pubrel 12 1, .sent .ok)] := by decide +kernel

example : (exec demo).conns.length = 4 ∧ lookupPid (exec demo) 2 = some 65535 ∧
    (exec demo).dials = 4 ∧ (exec demo).waits = [0, 0, 0] := by
  decide +kernel

/-- the same script without the `.waitElapsed` events: the loop stays in `.backoff`, the `.dialOk`
    events find no DialContext call, nothing is retransmitted -/
def demoNoWait : Script :=
  { demo with evs := demo.evs.filter (fun e => match e with | .waitElapsed => false | _ => true) }

example : (exec demoNoWait).phase = .backoff ∧ (exec demoNoWait).conns.length = 1 ∧
    (exec demoNoWait).dials = 1 ∧
    pubsOf (exec demoNoWait) 1 = [(2, 12, false, .sent .lostAck)] := by decide +kernel

/-- Disconnect while the loop backs off (`.backoff`): the loop exits, the later `.waitElapsed` /
    `.dialOk` / `.connackOk` events find nothing to act on; the one PUBLISH attempt (DUP = 0) stays
    the only one -/
def demoDiscBackoff : Script :=
  { faults := [.lostAck],
    evs := [.start, .dialOk 10, .connackOk false [], .app (.pub 1 2), .disconnect,
            .waitElapsed, .dialOk 20, .connackOk true []] }

example : (exec { demoDiscBackoff with evs := demoDiscBackoff.evs.take 4 }).phase = .backoff ∧
    (exec demoDiscBackoff).phase = .exited ∧ (exec demoDiscBackoff).conns.length = 1 ∧
    (exec demoDiscBackoff).dials = 1 ∧
    pubsOf (exec demoDiscBackoff) 1 = [(2, 11, false, .sent .lostAck)] := by decide +kernel

/-- Disconnect while DialContext is in flight (`.dialGate`): the dial is not interrupted, `.dialOk`
    creates the second connection and CONNECT goes out on it; the accepted CONNACK then ends the
    loop without `Retry` (the client is closed), so the message is not transmitted again -/
def demoDiscDial : Script :=
  { faults := [.lostAck],
    evs := [.start, .dialOk 10, .connackOk false [], .app (.pub 1 2), .waitElapsed, .disconnect,
            .dialOk 20, .connackOk true []] }

example : (exec { demoDiscDial with evs := demoDiscDial.evs.take 6 }).phase = .dialGate ∧
    (exec { demoDiscDial with evs := demoDiscDial.evs.take 7 }).phase = .connackGate 1 ∧
    (exec demoDiscDial).phase = .exited ∧ (exec demoDiscDial).dials = 2 ∧
    allPkts (exec demoDiscDial) =
      [(.connect, .sent .ok), (.publish 1 2 11 false, .sent .lostAck), (.disconnect, .dead),
       (.connect, .sent .ok)] ∧
    (exec demoDiscDial).retryQ = [.rePublish 1 2] := by decide +kernel

/-- the context given to Connect is cancelled while CONNACK is awaited: the connection is closed,
    Connect returns the error, the loop exits; the request accepted before is attempted once on the
    closed transport (DUP = 0, identifier 11) and never again -/
def demoCancel : Script :=
  { evs := [.start, .app (.pub 1 2), .dialOk 10, .cancelCtx, .waitElapsed, .dialOk 20,
            .connackOk true []] }

example : (exec demoCancel).phase = .exited ∧ (exec demoCancel).connectErr = true ∧
    (exec demoCancel).dials = 1 ∧ (exec demoCancel).conns.length = 1 ∧
    pubsOf (exec demoCancel) 1 = [(2, 11, false, .dead)] ∧
    (exec demoCancel).retryQ = [.rePublish 1 2] := by decide +kernel

/-- once Connect has returned, the cancellation of its context has no effect -/
def demoCancelLate : Script :=
  { demo with evs := demo.evs.take 3 ++ [.cancelCtx] ++ demo.evs.drop 3 }

example : (exec demoCancelLate).ctxCancelled = false ∧
    allPkts (exec demoCancelLate) = allPkts (exec demo) := by decide +kernel

example : demoNoWait.DistinctMsgs ∧ demoDiscBackoff.DistinctMsgs ∧ demoDiscDial.DistinctMsgs ∧
    demoCancel.DistinctMsgs ∧ demoCancelLate.DistinctMsgs := by
  unfold Script.DistinctMsgs; decide

/-! A dialer that ignores its context (`cfg.deafDialer`, e.g. `NoContextDialer`). The theorems above
    hold for every configuration, this one included; the scripts below reach the branches of `step`
    that only such a dialer makes reachable. -/

/-- the Connect context is cancelled while the FIRST dial is in flight and the dialer does not
    notice: Connect returns the context's error at once, the loop stays inside DialContext
    (`.dialGate`); when the transport arrives (`.dialOk`) CONNECT is written on it, the client is
    closed and the loop exits. The connection carries only CONNECT and is dead; the request accepted
    before is attempted once on it (DUP = 0, identifier 11, `.dead`), its handle stays queued, and
    nothing is dialled again -/
def demoDeafOk : Script :=
  { cfg := { deafDialer := true },
    evs := [.start, .app (.pub 1 2), .cancelCtx, .dialOk 10, .waitElapsed, .dialOk 20,
            .connackOk true []] }

example : (exec { demoDeafOk with evs := demoDeafOk.evs.take 3 }).phase = .dialGate ∧
    (exec { demoDeafOk with evs := demoDeafOk.evs.take 3 }).connectErr = true ∧
    (exec { demoDeafOk with evs := demoDeafOk.evs.take 3 }).conns.length = 0 ∧
    (exec { demoDeafOk with evs := demoDeafOk.evs.take 4 }).phase = .exited ∧
    (exec { demoDeafOk with evs := demoDeafOk.evs.take 4 }).conns.map (·.pkts)
      = [[(.connect, .sent .ok), (.publish 1 2 11 false, .dead)]] ∧
    (exec { demoDeafOk with evs := demoDeafOk.evs.take 4 }).conns.map (·.alive) = [false] ∧
    (exec { demoDeafOk with evs := demoDeafOk.evs.take 4 }).conns.map (·.connected) = [false] := by
  decide

example : (exec demoDeafOk).phase = .exited ∧ (exec demoDeafOk).connectErr = true ∧
    (exec demoDeafOk).connectReturned = none ∧ (exec demoDeafOk).initialized = false ∧
    (exec demoDeafOk).dials = 1 ∧ (exec demoDeafOk).waits = [] ∧
    (exec demoDeafOk).conns.length = 1 ∧ (exec demoDeafOk).cli = some 0 ∧
    allPkts (exec demoDeafOk) = [(.connect, .sent .ok), (.publish 1 2 11 false, .dead)] ∧
    pubsOf (exec demoDeafOk) 1 = [(2, 11, false, .dead)] ∧
    (exec demoDeafOk).retryQ = [.rePublish 1 2] ∧
    (exec demoDeafOk).broker.delivered = [] := by decide

/-- without the request: the connection carries CONNECT and nothing else -/
example : allPkts (exec { demoDeafOk with evs := [.start, .cancelCtx, .dialOk 10] })
      = [(.connect, .sent .ok)] ∧
    (exec { demoDeafOk with evs := [.start, .cancelCtx, .dialOk 10] }).conns.map (·.alive) = [false] ∧
    (exec { demoDeafOk with evs := [.start, .cancelCtx, .dialOk 10] }).phase = .exited ∧
    (exec { demoDeafOk with evs := [.start, .cancelCtx, .dialOk 10] }).connectErr = true := by decide

/-- the same, but the dial that outlived the cancellation fails: the loop exits through its select
    on `ctx.Done()` without a back-off wait; no connection was ever made, the request stays in the
    task queue, un-attempted -/
def demoDeafFail : Script :=
  { cfg := { deafDialer := true },
    evs := [.start, .app (.pub 1 2), .cancelCtx, .dialFail, .waitElapsed, .dialOk 20,
            .connackOk true []] }

example : (exec { demoDeafFail with evs := demoDeafFail.evs.take 3 }).phase = .dialGate ∧
    (exec { demoDeafFail with evs := demoDeafFail.evs.take 4 }).phase = .exited ∧
    (exec demoDeafFail).phase = .exited ∧ (exec demoDeafFail).connectErr = true ∧
    (exec demoDeafFail).waits = [] ∧ (exec demoDeafFail).dials = 1 ∧
    (exec demoDeafFail).conns.length = 0 ∧ pubsOf (exec demoDeafFail) 1 = [] ∧
    (exec demoDeafFail).taskQ = [.req (.pub 1 2)] ∧ (exec demoDeafFail).retryQ = [] := by decide

/-- Connect is called with a context that is already done: the deaf dialer dials all the same
    (`.dialGate`, Connect has returned the error); the result of that dial is acted upon as above -/
def demoDeafPre : Script :=
  { cfg := { deafDialer := true }, evs := [.cancelCtx, .start, .app (.pub 1 2), .dialOk 10] }

example : (exec { demoDeafPre with evs := demoDeafPre.evs.take 2 }).phase = .dialGate ∧
    (exec { demoDeafPre with evs := demoDeafPre.evs.take 2 }).connectErr = true ∧
    (exec { demoDeafPre with evs := demoDeafPre.evs.take 2 }).dials = 1 ∧
    (exec demoDeafPre).phase = .exited ∧
    allPkts (exec demoDeafPre) = [(.connect, .sent .ok), (.publish 1 2 11 false, .dead)] ∧
    (exec demoDeafPre).conns.map (·.alive) = [false] := by decide

/-- the same three scripts with a dialer that honours its context (`deafDialer := false`): the
    cancellation ends the dial and the loop, `.dialOk` / `.dialFail` find nothing to act on -/
example : (exec { demoDeafOk with cfg := {} }).phase = .exited ∧
    (exec { demoDeafOk with cfg := {}, evs := demoDeafOk.evs.take 3 }).phase = .exited ∧
    (exec { demoDeafOk with cfg := {} }).conns.length = 0 ∧
    (exec { demoDeafOk with cfg := {} }).connectErr = true ∧
    (exec { demoDeafFail with cfg := {} }).conns.length = 0 ∧
    (exec { demoDeafFail with cfg := {} }).waits = [] ∧
    (exec { demoDeafPre with cfg := {}, evs := demoDeafPre.evs.take 2 }).phase = .exited ∧
    (exec { demoDeafPre with cfg := {} }).conns.length = 0 := by decide

/-- a deaf dial that is still in flight when Disconnect is called as well: Disconnect does not
    interrupt it either; the late transport gets CONNECT and is closed, the DISCONNECT task then runs
    on the closed client -/
def demoDeafDisc : Script :=
  { cfg := { deafDialer := true }, evs := [.start, .cancelCtx, .disconnect, .dialOk 10] }

example : (exec { demoDeafDisc with evs := demoDeafDisc.evs.take 3 }).phase = .dialGate ∧
    (exec demoDeafDisc).phase = .exited ∧
    allPkts (exec demoDeafDisc) = [(.connect, .sent .ok), (.disconnect, .dead)] ∧
    (exec { demoDeafDisc with evs := [.start, .cancelCtx, .disconnect, .dialFail] }).phase = .exited ∧
    (exec { demoDeafDisc with evs := [.start, .cancelCtx, .disconnect, .dialFail] }).waits = [] := by
  decide

example : demoDeafOk.DistinctMsgs ∧ demoDeafFail.DistinctMsgs ∧ demoDeafPre.DistinctMsgs ∧
    demoDeafDisc.DistinctMsgs := by
  unfold Script.DistinctMsgs; decide

end Mqtt.C12
