/-
  C15 (caller-chosen identifiers through the retry stack) — "an identifier the caller already put on
  a message is used unchanged", for whole runs of the retry / reconnect stack.

  `Mqtt.Retry.execWith s p0` is the run of script `s` in which the messages listed in the table `p0`
  (message index ↦ identifier; the first entry for an index counts, as in `lookupPid`) carry an
  identifier before the application calls Publish; `exec s = execWith s []`. NO hypothesis on `p0` is
  needed anywhere below: keys may repeat, identifiers may repeat, and an identifier may coincide with
  one that a connection's counter draws for another message.

    1. `caller_id_kept`            the identifier on the message is on every PUBLISH and PUBREL for it,
                                   on every connection, and is still the message's identifier at the end
    2. `same_id_and_qos`, `dup_flags`, `qos0_once`, `no_publish_after_pubrel`, `pubrel_same_id`
                                   the C12 statements for `execWith s p0`
    3. `fresh_ids_untouched`       a message without a caller-chosen identifier gets one exactly at its
                                   first attempt, drawn by `newID`; `first_attempt_draws` /
                                   `attempt_with_id`: from which counter, and that an attempt for a
                                   message that has an identifier does not touch any counter
    4. `at_most_once`, `delivered_when_acked`, `silent_after_pubcomp`
                                   the C02 statements for `execWith s p0`: caller-chosen identifiers,
                                   colliding ones included, do not confuse the QoS 2 receiver (the
                                   RetryClient has one request outstanding at a time)
  Property theorems only; the invariants live in Proofs/RetryMsg, Proofs/RetryQos2, and the
  evolution of the identifier table (`PidStep`) in Proofs/RetryPreset.

  Not expressible as a Go run: a table entry with identifier 0 (in Go `Message.ID = 0` means "not
  set") or ≥ 65536; the theorems hold for such tables as well.
-/
import MqttVerif.Proofs.RetryPreset
import MqttVerif.Props.C12
import MqttVerif.Props.C02
import MqttVerif.Props.C15

namespace Mqtt.C15.Preset
open Mqtt.Retry

/-- `exec` is the run without caller-chosen identifiers -/
theorem exec_is_execWith_nil (s : Script) : exec s = execWith s [] := rfl

/-- the identifier the caller put on message `m`: the first entry for `m` in the table -/
theorem lookup_initWith (s : Script) (p0 : List (Nat × Nat)) (m : Nat) :
    lookupPid (initWith s p0) m = (p0.find? (fun e => e.1 = m)).map (·.2) := rfl

/-- the per-message shape of the log at the end of any run, from any start table -/
theorem good (s : Script) (hd : s.DistinctMsgs) (p0 : List (Nat × Nat)) (m : Nat) :
    Good (lookupPid (execWith s p0) m) (msgPkts (execWith s p0) m) := (execWith_inv s p0 hd).good m

/-- an identifier that is on a message at the start is on it at the end -/
theorem id_stable (s : Script) (hd : s.DistinctMsgs) (p0 : List (Nat × Nat)) (m id : Nat)
    (h : lookupPid (initWith s p0) m = some id) : lookupPid (execWith s p0) m = some id :=
  (execWith_ps s p0 hd).mono h

/-! ### 1. the caller's identifier is used unchanged -/

theorem caller_id_kept (s : Script) (hd : s.DistinctMsgs) (p0 : List (Nat × Nat)) (m id : Nat)
    (h : lookupPid (initWith s p0) m = some id) :
    (∀ q i d x, (Pkt.publish m q i d, x) ∈ allPkts (execWith s p0) → i = id) ∧
    (∀ i x, (Pkt.pubrel i m, x) ∈ allPkts (execWith s p0) → i = id) ∧
    lookupPid (execWith s p0) m = some id := by
  have hst := id_stable s hd p0 m id h
  have hg := good s hd p0 m
  rw [hst] at hg
  refine ⟨?_, ?_, hst⟩
  · intro q i d x hx
    have := hg.id _ (mem_msgPkts.2 ⟨hx, by simp [about]⟩)
    simpa [pktId] using this
  · intro i x hx
    have := hg.id _ (mem_msgPkts.2 ⟨hx, by simp [about]⟩)
    simpa [pktId] using this

/-- the same in the vocabulary of C12 (`pubsOf`: (qos, id, dup, wire) of the PUBLISH attempts) -/
theorem caller_id_kept_pubsOf (s : Script) (hd : s.DistinctMsgs) (p0 : List (Nat × Nat))
    (m id : Nat) (h : lookupPid (initWith s p0) m = some id) :
    ∀ a ∈ pubsOf (execWith s p0) m, a.2.1 = id := by
  intro a ha
  obtain ⟨pw, hpw, e, _⟩ := C12.mem_pubsOf ha
  have hmem := (mem_msgPkts.1 hpw).1
  have : pw = (Pkt.publish m a.1 a.2.1 a.2.2.1, pw.2) := by rw [← e]
  rw [this] at hmem
  exact (caller_id_kept s hd p0 m id h).1 _ _ _ _ hmem

/-! ### 2. the C12 statements for runs with caller-chosen identifiers -/

theorem same_id_and_qos (s : Script) (hd : s.DistinctMsgs) (p0 : List (Nat × Nat)) (m : Nat) :
    ∀ a ∈ pubsOf (execWith s p0) m, ∀ b ∈ pubsOf (execWith s p0) m,
      a.1 = b.1 ∧ a.2.1 = b.2.1 := by
  intro a ha b hb
  have hg := good s hd p0 m
  obtain ⟨pa, hpa, ea, _⟩ := C12.mem_pubsOf ha
  obtain ⟨pb, hpb, eb, _⟩ := C12.mem_pubsOf hb
  constructor
  · have := hg.qos pa hpa pb hpb (by rw [ea]; rfl) (by rw [eb]; rfl)
    rw [ea, eb] at this; simpa [pktQos] using this
  · have h1 := hg.id pa hpa
    have h2 := hg.id pb hpb
    rw [ea] at h1; rw [eb] at h2
    have := h1.trans h2.symm
    simpa [pktId] using this

theorem id_is_message_id (s : Script) (hd : s.DistinctMsgs) (p0 : List (Nat × Nat))
    (m q i : Nat) (d : Bool) (x : Wire) :
    (q, i, d, x) ∈ pubsOf (execWith s p0) m → lookupPid (execWith s p0) m = some i := by
  intro h
  obtain ⟨pw, hpw, e, _⟩ := C12.mem_pubsOf h
  have := (good s hd p0 m).id pw hpw
  rw [e] at this; exact this.symm

/-- the first PUBLISH has DUP = 0, every later one DUP = 1 -/
theorem dup_flags (s : Script) (hd : s.DistinctMsgs) (p0 : List (Nat × Nat)) (m : Nat) :
    match pubsOf (execWith s p0) m with
    | [] => True
    | first :: rest => first.2.2.1 = false ∧ ∀ r ∈ rest, r.2.2.1 = true := by
  rw [C12.pubsOf_eq]
  rcases C12.pubsOf_cases (good s hd p0 m) (C12.msgPkts_about _ m) with h | ⟨first, h, h1, h2⟩
  · rw [h]; trivial
  · rw [h]; exact ⟨h1, fun r hr => (h2 r hr).1⟩

/-- QoS 0 is never retransmitted -/
theorem qos0_once (s : Script) (hd : s.DistinctMsgs) (p0 : List (Nat × Nat)) (m : Nat) :
    (∀ a ∈ pubsOf (execWith s p0) m, a.1 = 0) → (pubsOf (execWith s p0) m).length ≤ 1 := by
  rw [C12.pubsOf_eq]
  intro hall
  rcases C12.pubsOf_cases (good s hd p0 m) (C12.msgPkts_about _ m) with h | ⟨first, h, _, h2⟩
  · rw [h]; simp
  · rw [h] at hall ⊢
    cases ht : (msgPkts (execWith s p0) m).tail.filterMap (C12.pubInfo m) with
    | nil => simp
    | cons r _ =>
      exfalso
      have hr : r ∈ (msgPkts (execWith s p0) m).tail.filterMap (C12.pubInfo m) := by
        rw [ht]; simp
      exact (h2 r hr).2 (hall r (List.mem_cons_of_mem _ hr))

/-- once PUBREL was sent for `m`, no PUBLISH for `m` follows -/
theorem no_publish_after_pubrel (s : Script) (hd : s.DistinctMsgs) (p0 : List (Nat × Nat))
    (m i : Nat) (x : Wire) (pre post : List (Pkt × Wire))
    (h : allPkts (execWith s p0) = pre ++ [(.pubrel i m, x)] ++ post) :
    ∀ pw ∈ post, ¬ C12.isPublishOf m pw.1 := by
  intro pw hpw ⟨q, j, d, e⟩
  have hord := (good s hd p0 m).order
  unfold msgPkts at hord
  rw [h, List.filter_append, List.filter_append] at hord
  have h2 := (List.pairwise_append.1 hord).2.2
  have := h2 (Pkt.pubrel i m, x) (by simp [about]) pw
    (by rw [List.mem_filter]; exact ⟨hpw, by rw [e]; simp [about]⟩) (by rw [e]; rfl)
  simp [isPub] at this

/-- … only PUBREL with the message's identifier -/
theorem pubrel_same_id (s : Script) (hd : s.DistinctMsgs) (p0 : List (Nat × Nat)) (m i : Nat)
    (x : Wire) :
    (.pubrel i m, x) ∈ allPkts (execWith s p0) → lookupPid (execWith s p0) m = some i := by
  intro h
  have := (good s hd p0 m).id (.pubrel i m, x) (mem_msgPkts.2 ⟨h, by simp [about]⟩)
  exact this.symm

/-! ### 3. messages without a caller-chosen identifier behave as before -/

/-- a message the caller put no identifier on has none until its first attempt, has one from then
    on, and that one was drawn by `newID` (so it is in 1 … 65535) -/
theorem fresh_ids_untouched (s : Script) (hd : s.DistinctMsgs) (p0 : List (Nat × Nat)) (m : Nat)
    (h : lookupPid (initWith s p0) m = none) :
    (lookupPid (execWith s p0) m = none ↔ msgPkts (execWith s p0) m = []) ∧
    (∀ id, lookupPid (execWith s p0) m = some id →
      (∃ c, id = (newID c).2) ∧ 0 < id ∧ id < 65536) := by
  have hk := (execWith_ps s p0 hd).keep m
  have hg := good s hd p0 m
  constructor
  · constructor
    · intro hn
      rw [hn] at hg
      cases hl : msgPkts (execWith s p0) m with
      | nil => rfl
      | cons pw t =>
        exfalso
        have hmem : pw ∈ msgPkts (execWith s p0) m := by rw [hl]; simp
        have hid := hg.id pw hmem
        rcases about_cases (mem_msgPkts.1 hmem).2 with ⟨q, i, d, e⟩ | ⟨i, e⟩ <;>
          rw [e] at hid <;> simp [pktId] at hid
    · intro hnil
      rcases hk with e | ⟨_, hne, _⟩
      · exact e.trans h
      · exact absurd hnil hne
  · intro id hid
    rcases hk with e | ⟨_, _, c, hc⟩
    · rw [e, h] at hid; cases hid
    · rw [hc] at hid
      have : id = (newID c).2 := by simpa using hid.symm
      subst this
      exact ⟨⟨c, rfl⟩, (C15.newID_range c).1, (C15.newID_range c).2.1⟩

/-- for `exec s` (no caller-chosen identifiers at all) this is the old "fresh" clause of the
    invariant: no identifier ⇔ no attempt yet -/
theorem exec_fresh (s : Script) (hd : s.DistinctMsgs) (m : Nat) :
    lookupPid (exec s) m = none ↔ msgPkts (exec s) m = [] :=
  (fresh_ids_untouched s hd [] m rfl).1

/-- where the identifier of such a message comes from: the first attempt (on connection `k`, the
    current one) draws `newID` of that connection's counter, records it as the message's identifier,
    puts it on the PUBLISH (and on the PUBREL if the exchange gets that far) and advances the
    counter of `k` only -/
theorem first_attempt_draws {w : World} {k m q : Nat} {d : Bool} (hk : k + 1 = w.conns.length)
    (h : lookupPid w m = none) :
    (∃ x rest, allPkts (pubAttempt w k m q d).1 =
        allPkts w ++ (.publish m q (newID (getConn w k).ctr).2 d, x) :: rest ∧
      (rest = [] ∨ ∃ y, rest = [(.pubrel (newID (getConn w k).ctr).2 m, y)])) ∧
    (pubAttempt w k m q d).1.pid = w.pid ++ [(m, (newID (getConn w k).ctr).2)] ∧
    lookupPid (pubAttempt w k m q d).1 m = some (newID (getConn w k).ctr).2 ∧
    (getConn (pubAttempt w k m q d).1 k).ctr = (newID (getConn w k).ctr).1 ∧
    ∀ k', k' ≠ k → (getConn (pubAttempt w k m q d).1 k').ctr = (getConn w k').ctr :=
  pubAttempt_fresh hk h

/-- an attempt for a message that has an identifier (the caller's, or one drawn earlier) uses it and
    draws nothing: the table and all counters are unchanged, so the identifiers of the other
    messages are exactly those the counters hand out to them -/
theorem attempt_with_id {w : World} {k m q id : Nat} {d : Bool} (hk : k + 1 = w.conns.length)
    (h : lookupPid w m = some id) :
    (∃ x rest, allPkts (pubAttempt w k m q d).1 = allPkts w ++ (.publish m q id d, x) :: rest ∧
      (rest = [] ∨ ∃ y, rest = [(.pubrel id m, y)])) ∧
    (pubAttempt w k m q d).1.pid = w.pid ∧
    ∀ k', (getConn (pubAttempt w k m q d).1 k').ctr = (getConn w k').ctr :=
  pubAttempt_preset hk h

/-! ### 4. QoS 2 exactly once with caller-chosen identifiers (the C02 statements)

  `Broker.publish` de-duplicates QoS 2 by identifier (`q2.contains id`), so two messages in flight
  with one identifier would be confused. They never are: the RetryClient has one request outstanding
  at a time, and the invariant of Proofs/RetryQos2 does not care where an identifier came from. -/

theorem at_most_once (s : Script) (hd : s.DistinctMsgs) (hk : SessionsKept s)
    (p0 : List (Nat × Nat)) (m q : Nat) (hq : Ev.app (.pub m q) ∈ s.evs) (h2 : q = 2) :
    C02.deliveries (execWith s p0) m ≤ 1 := by
  subst h2
  obtain ⟨hF, hacc⟩ := execWith_full s p0 hd hk
  have hok : Q2ok (execWith s p0) m := by
    intro q' hq'
    have := pub_unique hd hq (hacc _ hq')
    omega
  have := hF.i.x.base.bb.atMost m hok
  unfold load cnt at this
  unfold C02.deliveries
  omega

theorem delivered_when_acked (s : Script) (hd : s.DistinctMsgs) (hk : SessionsKept s)
    (hv : C02.ValidQos s) (p0 : List (Nat × Nat)) (m : Nat) :
    Req.pub m 2 ∈ (execWith s p0).broker.acked → C02.deliveries (execWith s p0) m = 1 := by
  intro ha
  obtain ⟨hF, hacc⟩ := execWith_full s p0 hd hk
  have hva : ValidAcc (execWith s p0) := fun m' q' h => hv m' q' (hacc _ h)
  have h1 : 1 ≤ cnt (execWith s p0).broker m := hF.i.x.base.ackedCnt hva m ha
  have hev : Ev.app (.pub m 2) ∈ s.evs := hacc _ (hF.i.x.base.ackedAcc m ha)
  have h2 := at_most_once s hd hk p0 m 2 hev rfl
  unfold C02.deliveries at *
  unfold cnt at h1
  omega

theorem silent_after_pubcomp (s : Script) (hd : s.DistinctMsgs) (p0 : List (Nat × Nat))
    (m i : Nat) (pre post : List (Pkt × Wire))
    (h : allPkts (execWith s p0) = pre ++ [(.pubrel i m, .sent .ok)] ++ post) :
    ∀ pw ∈ post, (∀ q j d, pw.1 ≠ .publish m q j d) ∧ (∀ j, pw.1 ≠ .pubrel j m) := by
  intro pw hpw
  have hfin := (good s hd p0 m).fin
  unfold msgPkts at hfin
  rw [h, List.filter_append, List.filter_append] at hfin
  have h2 := (List.pairwise_append.1 hfin).2.2
  have key : about m pw.1 = true → False := by
    intro hab
    exact h2 (Pkt.pubrel i m, .sent .ok) (by simp [about]) pw
      (by rw [List.mem_filter]; exact ⟨hpw, hab⟩) ⟨rfl, rfl⟩
  constructor
  · intro q j d he; apply key; rw [he]; simp [about]
  · intro j he; apply key; rw [he]; simp [about]

/-! ### Non-vacuity

  `demo`: the harness convention (`20000 + m` on messages 3 and 7). Message 3 (QoS 2) gets PUBREC on
  the first connection, its PUBREL is lost and the connection closes; message 7 (QoS 1, caller-chosen
  identifier) and message 1 (QoS 1, no identifier) are queued behind it. On the second connection
  (counter starts at 500) PUBREL 20003 is retried, then 7 goes out with 20007 and 1 with the first
  identifier of that connection, 501: the two caller-chosen identifiers consumed no draw. -/

def demo : Script :=
  { faults := [.ok, .lostReq, .ok, .ok, .ok],
    evs := [.start, .dialOk 10, .connackOk false [], .app (.pub 3 2), .app (.pub 7 1),
            .app (.pub 1 1), .waitElapsed, .dialOk 500, .connackOk true []] }

def demoIds : List (Nat × Nat) := [(3, 20003), (7, 20007)]

example : demo.DistinctMsgs ∧ SessionsKept demo := by
  refine ⟨by unfold Script.DistinctMsgs; decide, by unfold SessionsKept; decide⟩

example : allPkts (execWith demo demoIds) =
    [(.connect, .sent .ok),
     (.publish 3 2 20003 false, .sent .ok), (.pubrel 20003 3, .sent .lostReq),
     (.connect, .sent .ok),
     (.pubrel 20003 3, .sent .ok), (.publish 7 1 20007 false, .sent .ok),
     (.publish 1 1 501 false, .sent .ok)] := by decide +kernel

example : (execWith demo demoIds).conns.length = 2 ∧
    (getConn (execWith demo demoIds) 0).pkts.length = 3 ∧
    (getConn (execWith demo demoIds) 0).ctr = 10 ∧          -- no draw on the first connection
    (getConn (execWith demo demoIds) 1).ctr = 501 ∧         -- one draw on the second
    (execWith demo demoIds).pid = [(3, 20003), (7, 20007), (1, 501)] ∧
    (execWith demo demoIds).broker.delivered = [3, 7, 1] ∧
    (execWith demo demoIds).broker.acked = [.pub 3 2, .pub 7 1, .pub 1 1] ∧
    (execWith demo demoIds).retryQ = [] := by decide +kernel

/-- the same script without the table: the counters hand out 11, 501, 502 -/
example : (exec demo).pid = [(3, 11), (7, 501), (1, 502)] ∧
    msgPkts (exec demo) 3 =
      [(.publish 3 2 11 false, .sent .ok), (.pubrel 11 3, .sent .lostReq),
       (.pubrel 11 3, .sent .ok)] := by decide +kernel

/-- the QoS 1 message with a caller-chosen identifier is retransmitted with it, DUP = 1 -/
def demoRetransmit : Script :=
  { faults := [.lostAck, .ok],
    evs := [.start, .dialOk 10, .connackOk false [], .app (.pub 7 1),
            .waitElapsed, .dialOk 500, .connackOk true []] }

example : demoRetransmit.DistinctMsgs ∧
    pubsOf (execWith demoRetransmit demoIds) 7 =
      [(1, 20007, false, .sent .lostAck), (1, 20007, true, .sent .ok)] ∧
    (getConn (execWith demoRetransmit demoIds) 1).ctr = 500 := by
  refine ⟨by unfold Script.DistinctMsgs; decide, ?_, ?_⟩ <;> decide +kernel

/-! Colliding identifiers. The caller puts 11 on message 3; both counters start at 10, so the library
    draws 11 for message 1 as well. Both are QoS 2 and the exchange of the first one is cut three
    times (PUBLISH processed / PUBREC lost, PUBREL lost, PUBREL processed / PUBCOMP lost). Whichever
    of the two is submitted first, and for both receiver methods, each is delivered exactly once: the
    second message is not transmitted before PUBCOMP of the first has arrived, i.e. not before the
    broker has released the identifier. (`at_most_once`, `delivered_when_acked` above say so for all
    scripts and all tables.) -/

def collide (meth : Method) (first second : Nat) : Script :=
  { method := meth,
    faults := [.lostAck, .ok, .lostReq, .lostAck, .ok, .ok, .ok],
    evs := [.start, .dialOk 10, .connackOk false [], .app (.pub first 2), .app (.pub second 2),
            .waitElapsed, .dialOk 10, .connackOk true [], .waitElapsed, .dialOk 10,
            .connackOk true [], .waitElapsed, .dialOk 10, .connackOk true []] }

def collideIds : List (Nat × Nat) := [(3, 11)]

example : (collide .onPublish 3 1).DistinctMsgs ∧ SessionsKept (collide .onPublish 3 1) ∧
    (collide .onPubrel 1 3).DistinctMsgs ∧ SessionsKept (collide .onPubrel 1 3) := by
  refine ⟨by unfold Script.DistinctMsgs; decide, by unfold SessionsKept; decide,
    by unfold Script.DistinctMsgs; decide, by unfold SessionsKept; decide⟩

-- the caller's message first
example : allPkts (execWith (collide .onPubrel 3 1) collideIds) =
    [(.connect, .sent .ok), (.publish 3 2 11 false, .sent .lostAck),
     (.connect, .sent .ok), (.publish 3 2 11 true, .sent .ok), (.pubrel 11 3, .sent .lostReq),
     (.connect, .sent .ok), (.pubrel 11 3, .sent .lostAck),
     (.connect, .sent .ok), (.pubrel 11 3, .sent .ok),
     (.publish 1 2 11 false, .sent .ok), (.pubrel 11 1, .sent .ok)] := by decide +kernel

example : (execWith (collide .onPublish 3 1) collideIds).broker.delivered = [3, 1] ∧
    (execWith (collide .onPubrel 3 1) collideIds).broker.delivered = [3, 1] ∧
    (execWith (collide .onPubrel 3 1) collideIds).broker.acked = [.pub 3 2, .pub 1 2] ∧
    (execWith (collide .onPubrel 3 1) collideIds).broker.q2 = [] ∧
    (execWith (collide .onPubrel 3 1) collideIds).broker.stash = [] ∧
    (execWith (collide .onPubrel 3 1) collideIds).pid = [(3, 11), (1, 11)] := by decide +kernel

-- the library's message first, the caller's (same identifier) queued behind it
example : (execWith (collide .onPublish 1 3) collideIds).broker.delivered = [1, 3] ∧
    (execWith (collide .onPubrel 1 3) collideIds).broker.delivered = [1, 3] ∧
    (execWith (collide .onPubrel 1 3) collideIds).broker.acked = [.pub 1 2, .pub 3 2] ∧
    msgPkts (execWith (collide .onPubrel 1 3) collideIds) 3 =
      [(.publish 3 2 11 false, .sent .ok), (.pubrel 11 3, .sent .ok)] ∧
    (execWith (collide .onPubrel 1 3) collideIds).pid = [(3, 11), (1, 11)] := by decide +kernel

/-- two messages with the SAME caller-chosen identifier, and a table that lists message 3 twice (the
    first entry counts) -/
example : (execWith (collide .onPubrel 3 1) [(3, 11), (1, 11), (3, 99)]).broker.delivered = [3, 1] ∧
    (getConn (execWith (collide .onPubrel 3 1) [(3, 11), (1, 11), (3, 99)]) 3).ctr = 10 ∧
    pubsOf (execWith (collide .onPubrel 3 1) [(3, 11), (1, 11), (3, 99)]) 3 =
      [(2, 11, false, .sent .lostAck), (2, 11, true, .sent .ok)] := by decide +kernel

/-! A dialer that ignores its context (`cfg.deafDialer := true`; no theorem above has a hypothesis on
    `cfg`). The Connect context is cancelled during the first dial; the transport that arrives
    afterwards gets CONNECT and is closed at once. The one attempt for message 7 on that closed
    transport carries the caller's identifier and draws nothing from the counter; if the dial fails
    instead, no connection exists and the table is as the caller left it. -/

def deafOk : Script :=
  { cfg := { deafDialer := true },
    evs := [.start, .app (.pub 7 1), .cancelCtx, .dialOk 10, .waitElapsed, .dialOk 500,
            .connackOk true []] }

def deafFail : Script := { deafOk with evs := [.start, .app (.pub 7 1), .cancelCtx, .dialFail] }

example : deafOk.DistinctMsgs ∧ deafFail.DistinctMsgs ∧
    (execWith deafOk demoIds).phase = .exited ∧ (execWith deafOk demoIds).connectErr = true ∧
    allPkts (execWith deafOk demoIds) = [(.connect, .sent .ok), (.publish 7 1 20007 false, .dead)] ∧
    (execWith deafOk demoIds).conns.map (·.alive) = [false] ∧
    (getConn (execWith deafOk demoIds) 0).ctr = 10 ∧
    (execWith deafOk demoIds).pid = demoIds ∧
    (execWith deafOk demoIds).retryQ = [.rePublish 7 1] ∧
    pubsOf (exec deafOk) 7 = [(1, 11, false, .dead)] ∧
    (execWith deafFail demoIds).phase = .exited ∧ (execWith deafFail demoIds).connectErr = true ∧
    (execWith deafFail demoIds).conns.length = 0 ∧ (execWith deafFail demoIds).waits = [] ∧
    (execWith deafFail demoIds).pid = demoIds := by
  refine ⟨by unfold Script.DistinctMsgs; decide, by unfold Script.DistinctMsgs; decide, ?_⟩
  decide

end Mqtt.C15.Preset
