/-
  C16 — Per connection the state callback reports Active at most once and only after an accepting CONNACK,
  Closed exactly once when the connection ends without Disconnect having been called, together with the
  non-nil error that ended it (which Err() also returns), and Disconnected exactly once when Disconnect is
  called, after which Closed is never reported.  Err() stays nil for a healthy connection and after a
  graceful Disconnect, and Done() is closed if and only if the connection has ended.

  Model: `MqttVerif/Model/BaseClient.lean`: `callbacks` is the list of `(state, Err() at that moment)` pairs
  handed to `ConnState`, `err` is what `Err()` returns, `doneClosed` is "Done() is closed".
  All statements are for arbitrary event lists; none of them needs the hypothesis that Connect is called
  at most once (a second Connect can not produce a second Active: see `callbacks_shape`).
-/
import MqttVerif.Proofs.BaseClient
import MqttVerif.Props.C11

namespace Mqtt.C16
open Mqtt.BC

/-- the sequence of connection states reported to the callback -/
def cbStates (s : St) : List ConnState := s.callbacks.map (·.1)

theorem cbStates_eq (s : St) : cbStates s = (conn s).cbs := rfl

/-! ### 11. the shape of the callback sequence -/

/-- the possible callback sequences, by current connection state (and what Done() then is) -/
theorem callbacks_by_state (evs : List Ev) :
    Shape (run evs).state (cbStates (run evs)) (run evs).doneClosed := (CbInv.onRun evs).shape

theorem shape_enum {st : ConnState} {l : List ConnState} {dn : Bool} (h : Shape st l dn) :
    l = [] ∨ l = [.active] ∨ l = [.closed] ∨ l = [.active, .closed] ∨ l = [.disconnected] ∨
    l = [.active, .disconnected] ∨ l = [.closed, .disconnected] ∨ l = [.active, .closed, .disconnected] := by
  cases st <;> simp only [Shape] at h
  · simp [h.1]
  · simp [h.1]
  · rcases h.1 with h | h <;> simp [h]
  · rcases h with h | h | h | h <;> simp [h]

/-- exactly these eight sequences occur -/
theorem callbacks_enum (evs : List Ev) :
    let l := cbStates (run evs)
    l = [] ∨ l = [.active] ∨ l = [.closed] ∨ l = [.active, .closed] ∨ l = [.disconnected] ∨
    l = [.active, .disconnected] ∨ l = [.closed, .disconnected] ∨ l = [.active, .closed, .disconnected] :=
  shape_enum (callbacks_by_state evs)

/-- The callback sequence is a sub-sequence, in order, of `[Active, Closed, Disconnected]`. -/
theorem callbacks_shape (evs : List Ev) :
    (cbStates (run evs)).Sublist [.active, .closed, .disconnected] := by
  rcases callbacks_enum evs with h | h | h | h | h | h | h | h <;> rw [h] <;> decide

/-- ... spelled out: at most one Active, one Closed, one Disconnected; `new` is never reported;
    Active only as the first entry; Disconnected only as the last entry — so no Closed (nor anything else)
    is ever reported after Disconnected. -/
theorem callbacks_shape_spelled_out (evs : List Ev) :
    let l := cbStates (run evs)
    l.count .active ≤ 1 ∧ l.count .closed ≤ 1 ∧ l.count .disconnected ≤ 1 ∧ l.count .new = 0 ∧
    (∀ k : Nat, l[k]? = some ConnState.active → k = 0) ∧
    (∀ k : Nat, l[k]? = some ConnState.disconnected → k + 1 = l.length) ∧
    (∀ k m : Nat, l[k]? = some ConnState.disconnected → l[m]? = some ConnState.closed → m < k) := by
  rcases callbacks_enum evs with h | h | h | h | h | h | h | h <;> simp only [h] <;>
    exact ⟨by decide, by decide, by decide, by decide,
      (by intro k hk'; rcases k with _|_|_|k <;> simp_all),
      (by intro k hk'; rcases k with _|_|_|k <;> simp_all),
      (by intro k m hk' hm'; rcases k with _|_|_|k <;> rcases m with _|_|_|m <;> simp_all)⟩

/-! ### 12. Active only after an accepting CONNACK -/

/-- the step `e` from `s` is an accepting CONNACK arriving while the Connect call waits for it -/
def AcceptingConnack (s : St) (e : Ev) : Prop :=
  ∃ sp i c, e = .inb (.connack sp 0) ∧ s.inited = true ∧ s.doneClosed = false ∧ s.connAck = some i ∧
    s.calls[i]? = some c ∧ c.phase = .waitConnAck

theorem update_append (c : Conn) (n : ConnState) :
    ∃ l, (c.update n).callbacks = c.callbacks ++ l ∧ ∀ y ∈ l, y.1 = c.next n ∧ c.state ≠ c.next n := by
  rw [Conn.update_callbacks]
  split
  · next h => exact ⟨[(c.next n, c.err)], rfl, by simp [h]⟩
  · exact ⟨[], by simp, by simp⟩

theorem finish_append (c : Conn) (e : ErrClass) :
    ∃ l, (c.finish e).callbacks = c.callbacks ++ l ∧ ∀ y ∈ l, y.1 = .closed ∧ c.state ≠ .disconnected := by
  unfold Conn.finish
  simp only
  split
  · next hc =>
    obtain ⟨l, h1, h2⟩ := update_append { c with err := some e } .closed
    refine ⟨l, h1, ?_⟩
    intro y hy
    have := (h2 y hy).1
    simp only [Conn.next, hc.1, if_false] at this
    exact ⟨this, hc.1⟩
  · obtain ⟨l, h1, h2⟩ := update_append c .closed
    refine ⟨l, h1, ?_⟩
    intro y hy
    obtain ⟨h3, h4⟩ := h2 y hy
    by_cases hs : c.state = .disconnected
    · simp [Conn.next, hs] at h4
    · simp only [Conn.next, hs, if_false] at h3
      exact ⟨h3, hs⟩

/-- Every step only appends to the callback list, and what it appends is accounted for:
    `Active` only by an accepting CONNACK that finds the Connect call waiting, `Disconnected` only by a
    Disconnect call, `Closed` only by a step that ends a live connection on which Disconnect has not been
    called. -/
theorem callbacks_step (s : St) (e : Ev) :
    ∃ l, (step s e).callbacks = s.callbacks ++ l ∧ ∀ y ∈ l,
      (y.1 = .active ∧ AcceptingConnack s e) ∨
      (y.1 = .disconnected ∧ ∃ id, e = .call .disconnect id) ∨
      (y.1 = .closed ∧ endsConn s e = true ∧ s.doneClosed = false ∧ s.state ≠ .disconnected ∧
        ∀ id, e ≠ .call .disconnect id) := by
  have hc := conn_step (step_rel s e)
  have hcb : (step s e).callbacks = (conn (step s e)).callbacks := rfl
  rw [hcb]
  generalize conn (step s e) = c' at hc
  cases hc with
  | same => exact ⟨[], by simp [conn], by simp⟩
  | disc id he hw =>
    obtain ⟨l, h1, h2⟩ := update_append (conn s) .disconnected
    refine ⟨l, h1, ?_⟩
    intro y hy
    right; left
    refine ⟨?_, id, he⟩
    rw [(h2 y hy).1]; simp [Conn.next]
  | discEnd id he hw hi hd =>
    obtain ⟨l1, h1, h2⟩ := update_append (conn s) .disconnected
    obtain ⟨l2, h3, h4⟩ := finish_append ((conn s).update .disconnected) .other
    refine ⟨l1 ++ l2, by rw [h3, h1, List.append_assoc]; rfl, ?_⟩
    intro y hy
    rcases List.mem_append.1 hy with hy | hy
    · right; left
      refine ⟨?_, id, he⟩
      rw [(h2 y hy).1]; simp [Conn.next]
    · exfalso
      have := (h4 y hy).2
      simp [Conn.next] at this
  | active sp i c he hi hd hm hc hp =>
    obtain ⟨l, h1, h2⟩ := update_append (conn s) .active
    refine ⟨l, h1, ?_⟩
    intro y hy
    left
    obtain ⟨h3, h4⟩ := h2 y hy
    refine ⟨?_, sp, i, c, he, hi, hd, hm, hc, hp⟩
    by_cases hs : (conn s).state = .disconnected
    · simp [Conn.next, hs] at h4
    · simpa [Conn.next, hs] using h3
  | finish er hi hd he =>
    obtain ⟨l, h1, h2⟩ := finish_append (conn s) er
    refine ⟨l, h1, ?_⟩
    intro y hy
    right; right
    refine ⟨(h2 y hy).1, ?_, hd, (h2 y hy).2, ?_⟩
    · rcases he with ⟨rfl, _⟩ | ⟨rfl, _⟩ | ⟨rfl, _⟩ | ⟨id, i, n, codes, c, rfl, _, hm, hc, hp, hk, hl⟩ | ⟨p, rfl, _, hf⟩
      · simp [endsConn, hi]
      · simp [endsConn, hi]
      · simp [endsConn, hi]
      · simp [endsConn, hi, subAckMismatch, hm, hc, hp, hk, hl]
      · cases p <;> first | (simp [ackFails, needsAck] at hf; done) | simp [endsConn, hi, hf]
    · intro id hid
      rcases he with ⟨rfl, _⟩ | ⟨rfl, _⟩ | ⟨rfl, _⟩ | ⟨_, _, _, _, _, rfl, _⟩ | ⟨_, rfl, _⟩ <;> cases hid

/-- An Active callback is appended only by the step `inb (connack _ 0)` taken while the Connect call
    (kind `connect`, by `Sound`) registered in the CONNACK slot is in phase `waitConnAck`. -/
theorem active_only_after_accepting_connack (s : St) (hs : Sound s) (e : Ev) (l : List (ConnState × Option ErrClass))
    (happ : (step s e).callbacks = s.callbacks ++ l) (x : Option ErrClass) (hx : (ConnState.active, x) ∈ l) :
    ∃ sp i c, e = .inb (.connack sp 0) ∧ s.connAck = some i ∧ s.calls[i]? = some c ∧
      c.kind = .connect ∧ c.phase = .waitConnAck ∧ s.inited = true ∧ s.doneClosed = false := by
  obtain ⟨l', h1, h2⟩ := callbacks_step s e
  have : l = l' := List.append_cancel_left (happ.symm.trans h1)
  subst this
  rcases h2 _ hx with ⟨_, sp, i, c, he, hi, hd, hm, hc, hp⟩ | ⟨h, _⟩ | ⟨h, _⟩
  · refine ⟨sp, i, c, he, hm, hc, ?_, hp, hi, hd⟩
    have := hs.kp i c hc
    unfold KindPhase at this; rw [hp] at this; exact this
  · cases h
  · cases h

/-- along runs: an Active entry is explained by an accepting CONNACK somewhere in the event list -/
theorem active_reported_run (evs : List Ev) (x : Option ErrClass)
    (h : (ConnState.active, x) ∈ (run evs).callbacks) :
    ∃ pre post sp, evs = pre ++ .inb (.connack sp 0) :: post ∧ AcceptingConnack (run pre) (.inb (.connack sp 0)) := by
  have key : ∀ (evs : List Ev) (s : St), (ConnState.active, x) ∈ (evs.foldl step s).callbacks →
      (ConnState.active, x) ∈ s.callbacks ∨
      ∃ pre post sp, evs = pre ++ .inb (.connack sp 0) :: post ∧
        AcceptingConnack (pre.foldl step s) (.inb (.connack sp 0)) := by
    intro evs
    induction evs with
    | nil => intro s h; exact Or.inl h
    | cons e es ih =>
      intro s h
      rcases ih (step s e) h with h | ⟨pre, post, sp, h1, h2⟩
      · obtain ⟨l, h3, h4⟩ := callbacks_step s e
        rw [h3] at h
        rcases List.mem_append.1 h with h | h
        · exact Or.inl h
        · rcases h4 _ h with ⟨_, hacc⟩ | ⟨h5, _⟩ | ⟨h5, _⟩
          · obtain ⟨sp, i, c, he, rest⟩ := hacc
            subst he
            exact Or.inr ⟨[], es, sp, by simp, sp, i, c, rfl, rest⟩
          · cases h5
          · cases h5
      · exact Or.inr ⟨e :: pre, post, sp, by simp [h1], h2⟩
  rcases key evs {} h with h | h
  · simp at h
  · exact h

/-! ### 13. Closed carries the error that ended the connection -/

/-- Every `Closed` report carries a non-nil error, and it is the error that `Err()` returns (now and, since
    the error is stored once, for ever). -/
theorem closed_carries_error (evs : List Ev) (e : Option ErrClass)
    (h : (ConnState.closed, e) ∈ (run evs).callbacks) : e = (run evs).err ∧ e ≠ none :=
  (CbInv.onRun evs).closedErr e h

/-! ### 14. Err() stays nil while healthy, and after a graceful Disconnect -/

/-- the error is only ever set by the reader finishing -/
theorem err_nil_while_healthy (evs : List Ev) (h : (run evs).err ≠ none) : (run evs).doneClosed = true :=
  (CbInv.onRun evs).errDone h

theorem err_nil_of_not_done (evs : List Ev) (h : (run evs).doneClosed = false) : (run evs).err = none := by
  cases he : (run evs).err with
  | none => rfl
  | some x => have := err_nil_while_healthy evs (by rw [he]; simp); rw [h] at this; cases this

/-- If Disconnect is called before the connection has ended (whether or not its DISCONNECT packet can be
    written), then for ever after: the state is Disconnected, Err() is nil, and Closed is never reported. -/
theorem graceful_disconnect (evs₁ evs₂ : List Ev) (id : Nat) (h : (run evs₁).doneClosed = false) :
    let s := run (evs₁ ++ .call .disconnect id :: evs₂)
    s.state = .disconnected ∧ s.err = none ∧ ConnState.closed ∉ cbStates s := by
  have g : Graceful (conn (run (evs₁ ++ .call .disconnect id :: evs₂))) := by
    rw [run_append, List.foldl_cons]
    exact Graceful.onFoldl evs₂ _ (Graceful.ofDisconnect (step_rel _ _) (CbInv.onRun evs₁) h)
  exact ⟨g.state, g.err, g.noClosed⟩

/-- the error, once stored, never changes -/
theorem err_stable (s : St) (e : Ev) (x : ErrClass) (h : s.err = some x) : (step s e).err = some x := by
  have hc := conn_step (step_rel s e)
  have : (step s e).err = (conn (step s e)).err := rfl
  rw [this]
  generalize conn (step s e) = c' at hc
  have fin : ∀ (c : Conn) er, c.err = some x → (c.finish er).err = some x := by
    intro c er hx
    unfold Conn.finish
    simp only
    split
    · next hcnd => rw [hx] at hcnd; simp at hcnd
    · simpa using hx
  cases hc with
  | same => exact h
  | disc id he hw => exact h
  | discEnd id he hw hi hd => exact fin _ _ h
  | active sp i c he hi hd hm hc hp => exact h
  | finish er hi hd he => exact fin _ _ h

/-! ### 15. Disconnected exactly once -/

theorem state_disconnected_iff (evs : List Ev) :
    (run evs).state = .disconnected ↔ ∃ id, Ev.call .disconnect id ∈ evs := by
  have key : ∀ (evs : List Ev) (s : St),
      (evs.foldl step s).state = .disconnected ↔ (s.state = .disconnected ∨ ∃ id, Ev.call .disconnect id ∈ evs) := by
    intro evs
    induction evs with
    | nil => intro s; simp
    | cons e es ih =>
      intro s
      simp only [List.foldl_cons]
      rw [ih, state_disconnected_step (step_rel s e)]
      constructor
      · rintro ((h | ⟨id, h⟩) | ⟨id, h⟩)
        · exact Or.inl h
        · exact Or.inr ⟨id, by simp [h]⟩
        · exact Or.inr ⟨id, List.mem_cons_of_mem _ h⟩
      · rintro (h | ⟨id, h⟩)
        · exact Or.inl (Or.inl h)
        · rcases List.mem_cons.1 h with h | h
          · exact Or.inl (Or.inr ⟨id, h.symm⟩)
          · exact Or.inr ⟨id, h⟩
  have := key evs {}
  simpa [run] using this

theorem count_disconnected (evs : List Ev) :
    (cbStates (run evs)).count .disconnected = if (run evs).state = .disconnected then 1 else 0 := by
  have h := callbacks_by_state evs
  cases hst : (run evs).state <;> rw [hst] at h <;> simp only [Shape] at h
  · simp [h.1]
  · simp [h.1]
  · rcases h.1 with h | h <;> simp [h]
  · rcases h with h | h | h | h <;> simp [h]

/-- If Disconnect is called (at least once, at any point) exactly one Disconnected callback is reported,
    the state moves to Disconnected at the first such call and never leaves it; if it is never called,
    none is reported. -/
theorem disconnected_exactly_once (evs : List Ev) :
    ((∃ id, Ev.call .disconnect id ∈ evs) →
        (cbStates (run evs)).count .disconnected = 1 ∧ (run evs).state = .disconnected) ∧
    ((¬ ∃ id, Ev.call .disconnect id ∈ evs) → (cbStates (run evs)).count .disconnected = 0) := by
  rw [count_disconnected, ← state_disconnected_iff]
  constructor
  · intro h; simp [h]
  · intro h; simp [h]

/-- the state Disconnected is never left -/
theorem disconnected_absorbing (s : St) (e : Ev) (h : s.state = .disconnected) : (step s e).state = .disconnected :=
  (state_disconnected_step (step_rel s e)).2 (Or.inl h)

/-! ### Closed exactly once when the connection ends without Disconnect -/

theorem closed_exactly_once (evs : List Ev) (hd : (run evs).doneClosed = true)
    (hno : ¬ ∃ id, Ev.call .disconnect id ∈ evs) :
    (cbStates (run evs)).count .closed = 1 ∧ (run evs).state = .closed ∧ (run evs).err ≠ none := by
  have h := callbacks_by_state evs
  have hnd : (run evs).state ≠ .disconnected := fun h => hno ((state_disconnected_iff evs).1 h)
  have hcnt : (cbStates (run evs)).count .closed = 1 ∧ (run evs).state = .closed := by
    cases hst : (run evs).state <;> rw [hst] at h <;> simp only [Shape] at h
    · rw [hd] at h; cases h.2
    · rw [hd] at h; cases h.2
    · rcases h.1 with h | h <;> simp [h]
    · exact absurd hst hnd
  refine ⟨hcnt.1, hcnt.2, ?_⟩
  have hmem : ConnState.closed ∈ cbStates (run evs) := by
    apply List.count_pos_iff.1; rw [hcnt.1]; exact Nat.one_pos
  obtain ⟨⟨st, e⟩, hm, hst⟩ := List.mem_map.1 hmem
  simp only at hst; subst hst
  obtain ⟨h1, h2⟩ := closed_carries_error evs e hm
  rw [← h1]; exact h2

/-- no Closed before the connection has ended -/
theorem no_closed_before_end (evs : List Ev) (hd : (run evs).doneClosed = false) :
    ConnState.closed ∉ cbStates (run evs) := by
  intro h
  have := (CbInv.onRun evs).closedDone h
  simp [conn, hd] at this

/-! ### Done() is closed iff the connection has ended -/

theorem done_iff_ended (evs : List Ev) : (run evs).doneClosed = true ↔ C11.endedBy evs = true :=
  C11.done_iff_reader_finished evs

/-! ### Inbound application messages: a failing acknowledgement write closes the connection, once, with its error -/

/-- `s'` is `s` after its connection — live, not yet failed, Disconnect not called — was ended with error `e`:
    Done() is closed; Err() was nil and is now `e`; the state is Closed; exactly one more callback was made,
    `(Closed, e)`, and it is the only Closed report; every call that was blocked has returned
    ErrClosedTransport, every other call keeps its result, nobody is blocked any more; nothing was written. -/
structure ClosedWith (s s' : St) (e : ErrClass) : Prop where
  done : s'.doneClosed = true
  errBefore : s.err = none
  err : s'.err = some e
  state : s'.state = .closed
  callbacks : s'.callbacks = s.callbacks ++ [(.closed, some e)]
  closedOnce : (cbStates s').count .closed = 1
  released : ∀ (j : Nat) (c : Call), s.calls[j]? = some c → blocked c = true →
    s'.calls[j]? = some { c with phase := .returned (.closed (ctxRetry c.phase)) }
  kept : ∀ (j : Nat) (c : Call), s.calls[j]? = some c → blocked c = false → s'.calls[j]? = some c
  noneBlocked : ∀ (j : Nat) (c' : Call), s'.calls[j]? = some c' → blocked c' = false
  writes : s'.writes = s.writes

/-- one step, any state: what the failing acknowledgement write does to the connection-level fields -/
theorem ack_write_failure_step (s : St) (p : In) (hi : s.inited = true) (hd : s.doneClosed = false)
    (hf : ackFails s p = true) :
    let s' := step s (.inb p)
    s'.doneClosed = true ∧ s'.transportOpen = false ∧ s'.writes = s.writes ∧
    s'.err = (if s.state ≠ .disconnected ∧ s.err = none then some .other else s.err) ∧
    s'.state = (if s.state = .disconnected then .disconnected else .closed) ∧
    s'.callbacks =
      (if s.state = .disconnected ∨ s.state = .closed then s.callbacks else s.callbacks ++ [(.closed, s'.err)]) := by
  simp only [step]
  rw [inbound_ack_fails s p hi hd hf]
  refine ⟨by simp, by simp, by simp, ?_, ?_, ?_⟩
  · simp only [endNow_err, endErr, appDropped_state, appDropped_err]
    cases s.err <;> simp
  · simp [nextState]
  · simp only [endNow_callbacks, nextState, endNow_err, endErr, appDropped_state, appDropped_err,
      appDropped_callbacks]
    by_cases h1 : s.state = .disconnected <;> by_cases h2 : s.state = .closed <;> simp [h1, h2]

/-- In every reachable state with a live reader on which Disconnect has not been called and which cannot
    write (transport closed under it, or refusing writes): an inbound PUBLISH with QoS ≠ 0, or a PUBREL of a
    remembered id, ends the connection: `ClosedWith … .other`, and the event is a connection end in the sense
    of C11 (so `C11.connection_end_releases_all`, `C11.connection_end_result`, `C11.no_stuck_call` apply). -/
theorem ack_write_failure_closes (evs : List Ev) (p : In)
    (hi : (run evs).inited = true) (hd : (run evs).doneClosed = false)
    (hst : (run evs).state ≠ .disconnected) (hw : canWrite (run evs) = false)
    (hp : (∃ q id, p = .publish q id ∧ q ≠ 0) ∨ (∃ id, p = .pubrel id ∧ id ∈ (run evs).inQ2)) :
    ClosedWith (run evs) (run (evs ++ [.inb p])) .other ∧ C11.IsConnEnd (run evs) (.inb p) := by
  have hf : ackFails (run evs) p = true := (C11.ackFails_iff _ p).2 ⟨hw, hp⟩
  have hce : C11.IsConnEnd (run evs) (.inb p) := Or.inr (Or.inr (Or.inr ⟨p, rfl, hf⟩))
  have herr := err_nil_of_not_done evs hd
  have hnc := no_closed_before_end evs hd
  have hsh := callbacks_by_state evs
  have hncl : (run evs).state ≠ .closed := by
    intro h; rw [h] at hsh; simp only [Shape] at hsh; rw [hd] at hsh; cases hsh.2
  rw [run_snoc]
  obtain ⟨h1, _, h3, h4, h5, h6⟩ := ack_write_failure_step (run evs) p hi hd hf
  generalize run evs = s at *
  have hall := C11.connection_end_releases_all s (.inb p) hce hi hd
  have herr' : (step s (.inb p)).err = some .other := by rw [h4, if_pos ⟨hst, herr⟩]
  have hcb : (step s (.inb p)).callbacks = s.callbacks ++ [(.closed, some .other)] := by
    rw [h6, if_neg (by simp [hst, hncl]), herr']
  refine ⟨⟨h1, herr, herr', by rw [h5, if_neg hst], hcb, ?_, ?_, hall.2.2.2.2.1, hall.2.2.1, h3⟩, hce⟩
  · have : cbStates (step s (.inb p)) = cbStates s ++ [.closed] := by simp [cbStates, hcb]
    rw [this, List.count_append, List.count_eq_zero.2 hnc]; rfl
  · intro j c hc hb
    exact C11.connection_end_result s (.inb p) hce hi hd j c hc hb

/-- the two cases by name, with the hypotheses spelled out -/
theorem ack_write_failure_closes_publish (evs : List Ev) (q id : Nat) (hq : q = 1 ∨ q = 2)
    (hi : (run evs).inited = true) (hd : (run evs).doneClosed = false)
    (hst : (run evs).state ≠ .disconnected) (hw : canWrite (run evs) = false) :
    ClosedWith (run evs) (run (evs ++ [.inb (.publish q id)])) .other :=
  (ack_write_failure_closes evs _ hi hd hst hw (Or.inl ⟨q, id, rfl, by omega⟩)).1

theorem ack_write_failure_closes_pubrel (evs : List Ev) (id : Nat) (hm : id ∈ (run evs).inQ2)
    (hi : (run evs).inited = true) (hd : (run evs).doneClosed = false)
    (hst : (run evs).state ≠ .disconnected) (hw : canWrite (run evs) = false) :
    ClosedWith (run evs) (run (evs ++ [.inb (.pubrel id)])) .other :=
  (ack_write_failure_closes evs _ hi hd hst hw (Or.inr ⟨id, rfl, hm⟩)).1

/-- After Disconnect the same event still ends the reader (Done() closed, calls released: C11), but, as for
    every other connection end, no Closed is reported and Err() stays nil: `graceful_disconnect`. -/
theorem ack_write_failure_after_disconnect (s : St) (p : In) (hi : s.inited = true) (hd : s.doneClosed = false)
    (hf : ackFails s p = true) (hst : s.state = .disconnected) :
    (step s (.inb p)).doneClosed = true ∧ (step s (.inb p)).err = s.err ∧
    (step s (.inb p)).callbacks = s.callbacks ∧ (step s (.inb p)).state = .disconnected := by
  obtain ⟨h1, _, _, h4, h5, h6⟩ := ack_write_failure_step s p hi hd hf
  refine ⟨h1, ?_, ?_, ?_⟩
  · rw [h4, if_neg (by simp [hst])]
  · rw [h6, if_pos (Or.inl hst)]
  · rw [h5, if_pos hst]

/-! ### … and while the client can write, application traffic only writes acknowledgements -/

/-- With a live reader and a transport that accepts writes, an inbound PUBLISH / PUBREL changes only `writes`
    — appending exactly the acknowledgement that the MQTT flow prescribes: PUBACK id for QoS 1, PUBREC id for
    QoS 2, PUBCOMP id for the PUBREL of a remembered id, nothing for QoS 0 or an unknown PUBREL — and `inQ2`
    (QoS 2: the id is remembered; PUBREL: it is forgotten).  Every other field — the call records, the signaller
    maps, the callbacks, `err`, `state`, `doneClosed` — is untouched, so the theorems about calls (C07) are not
    disturbed by application traffic. -/
theorem inbound_publish_inert_when_writable (s : St) (hi : s.inited = true) (hd : s.doneClosed = false)
    (hw : canWrite s = true) :
    (∀ q id, step s (.inb (.publish q id)) =
      { s with writes := s.writes ++ (if q = 0 then [] else if q = 1 then [.puback id] else [.pubrec id]),
               inQ2 := if q = 0 ∨ q = 1 then s.inQ2 else id :: s.inQ2.filter (· ≠ id) }) ∧
    (∀ id, step s (.inb (.pubrel id)) =
      { s with writes := s.writes ++ (if id ∈ s.inQ2 then [.pubcomp id] else []),
               inQ2 := s.inQ2.filter (· ≠ id) }) := by
  constructor
  · intro q id
    simp only [step]
    rw [inbound_app_eq s _ hi hd rfl]
    by_cases h0 : q = 0
    · simp [needsAck, h0]
    · by_cases h1 : q = 1 <;> simp [needsAck, h0, h1, hw, appAcked, appWrites, appQ2]
  · intro id
    simp only [step]
    rw [inbound_app_eq s _ hi hd rfl]
    by_cases hm : id ∈ s.inQ2
    · simp [needsAck, hm, hw, appAcked, appWrites, appQ2]
    · have hfl : s.inQ2.filter (fun x => !decide (x = id)) = s.inQ2 :=
        List.filter_eq_self.2 (fun a ha => by simp; rintro rfl; exact hm ha)
      simp [needsAck, hm]
      rw [hfl]

/-- the same, field by field, for ANY state in which the client can write (a reader that is not running
    ignores the packet altogether) and for both packet kinds at once -/
theorem inbound_publish_only_writes (s : St) (p : In) (hp : isApp p = true) (hw : canWrite s = true) :
    let s' := step s (.inb p)
    s'.calls = s.calls ∧ s'.callbacks = s.callbacks ∧ s'.err = s.err ∧ s'.state = s.state ∧
    s'.doneClosed = s.doneClosed ∧ s'.inited = s.inited ∧ s'.transportOpen = s.transportOpen ∧
    s'.writeFails = s.writeFails ∧ s'.pubAck = s.pubAck ∧ s'.pubRec = s.pubRec ∧ s'.pubComp = s.pubComp ∧
    s'.subAck = s.subAck ∧ s'.unsubAck = s.unsubAck ∧ s'.connAck = s.connAck ∧ s'.pingResp = s.pingResp ∧
    ∃ l, s'.writes = s.writes ++ l ∧ (∀ w ∈ l, isInAckW w = true) ∧
      (l = [] ∨ (s.inited = true ∧ s.doneClosed = false ∧ needsAck s p = true ∧ l = appWrites p)) := by
  intro s'
  have nil : ∃ l : List W, s.writes = s.writes ++ l ∧ (∀ w ∈ l, isInAckW w = true) ∧
      (l = [] ∨ (s.inited = true ∧ s.doneClosed = false ∧ needsAck s p = true ∧ l = appWrites p)) :=
    ⟨[], by simp, by simp, Or.inl rfl⟩
  by_cases hl : s.doneClosed = true ∨ s.inited = false
  · have : s' = s := inbound_not_live s p hl
    rw [this]
    exact ⟨rfl, rfl, rfl, rfl, rfl, rfl, rfl, rfl, rfl, rfl, rfl, rfl, rfl, rfl, rfl, nil⟩
  · have hi : s.inited = true := by cases h' : s.inited <;> simp_all
    have hd : s.doneClosed = false := by cases h' : s.doneClosed <;> simp_all
    have e : s' = if needsAck s p = true then appAcked s p else s := by
      show inbound s p = _
      rw [inbound_app_eq s p hi hd hp, if_pos hw]
    rcases Bool.eq_false_or_eq_true (needsAck s p) with hn | hn
    · rw [if_pos hn] at e
      rw [e]
      refine ⟨rfl, rfl, rfl, rfl, rfl, rfl, rfl, rfl, rfl, rfl, rfl, rfl, rfl, rfl, rfl,
        appWrites p, rfl, ?_, Or.inr ⟨hi, hd, hn, rfl⟩⟩
      cases p <;> first | (simp [needsAck] at hn; done) | skip
      · intro w hw'; simp only [appWrites] at hw'; split at hw' <;> simp at hw' <;> subst hw' <;> rfl
      · intro w hw'; simp only [appWrites, List.mem_singleton] at hw'; subst hw'; rfl
    · rw [if_neg (by simp [hn])] at e
      rw [e]
      exact ⟨rfl, rfl, rfl, rfl, rfl, rfl, rfl, rfl, rfl, rfl, rfl, rfl, rfl, rfl, rfl, nil⟩

/-- in a reachable state "can write" already implies that the reader is running (a finished reader has
    closed the transport), so only `inited` has to be assumed -/
theorem inbound_publish_inert_reachable (evs : List Ev) (hi : (run evs).inited = true)
    (hw : canWrite (run evs) = true) (q id : Nat) :
    run (evs ++ [.inb (.publish q id)]) =
      { run evs with
          writes := (run evs).writes ++ (if q = 0 then [] else if q = 1 then [.puback id] else [.pubrec id]),
          inQ2 := if q = 0 ∨ q = 1 then (run evs).inQ2 else id :: (run evs).inQ2.filter (· ≠ id) } := by
  rw [run_snoc]
  exact (inbound_publish_inert_when_writable _ hi ((Live.onRun evs).not_done_of_canWrite hw) hw).1 q id

/-! ### the inbound QoS 2 flow: PUBLISH → PUBREC, PUBREL → PUBCOMP -/

/-- an id is remembered at most once -/
theorem inQ2_nodup (evs : List Ev) : (run evs).inQ2.Nodup :=
  run_inv (fun s => s.inQ2.Nodup) List.nodup_nil (fun s e h => inQ2_nodup_step (step_rel s e) h) evs

/-- the invariant behind `pubrel_acked_once`: for every id, the PUBCOMPs written, plus one if the id is still
    remembered (a PUBCOMP still owed), never exceed the PUBRECs written -/
theorem q2inv_reachable (evs : List Ev) : Q2Inv (run evs) :=
  run_inv Q2Inv Q2Inv.init (fun s e h => h.onStep (step_rel s e)) evs

theorem pubrec_count_foldl (id : Nat) : ∀ (evs : List Ev) (s : St),
    (evs.foldl step s).writes.count (.pubrec id) ≤ s.writes.count (.pubrec id) + evs.countP (isQ2Pub id)
  | [], s => by simp
  | e :: es, s => by
    have h1 := pubrec_count_foldl id es (step s e)
    have h2 := pubrec_count_step (step_rel s e) id
    simp only [List.foldl_cons, List.countP_cons]
    omega

theorem pubcomp_count_foldl (id : Nat) : ∀ (evs : List Ev) (s : St),
    (evs.foldl step s).writes.count (.pubcomp id) ≤ s.writes.count (.pubcomp id) + evs.countP (isPubrelEv id)
  | [], s => by simp
  | e :: es, s => by
    have h1 := pubcomp_count_foldl id es (step s e)
    have h2 := pubcomp_count_step (step_rel s e) id
    simp only [List.foldl_cons, List.countP_cons]
    omega

/-- Along any run, for every packet id: a PUBCOMP is only ever sent for a message that was PUBREC'd
    (#PUBCOMP id written ≤ #PUBREC id written; one less while the id is still remembered), a PUBREC only for
    an inbound QoS 2 PUBLISH with that id (`isQ2Pub`: the reader treats every QoS other than 0 and 1 as 2),
    and a PUBCOMP only for an inbound PUBREL with that id. -/
theorem pubrel_acked_once (evs : List Ev) (id : Nat) :
    (run evs).writes.count (.pubcomp id) ≤ (run evs).writes.count (.pubrec id) ∧
    (run evs).writes.count (.pubrec id) ≤ evs.countP (isQ2Pub id) ∧
    (run evs).writes.count (.pubcomp id) + (if id ∈ (run evs).inQ2 then 1 else 0) ≤
      (run evs).writes.count (.pubrec id) ∧
    (run evs).writes.count (.pubcomp id) ≤ evs.countP (isPubrelEv id) := by
  have h1 := q2inv_reachable evs id
  have h2 := pubrec_count_foldl id evs {}
  have h3 := pubcomp_count_foldl id evs {}
  simp only [List.count_nil, Nat.zero_add] at h2 h3
  refine ⟨?_, h2, h1, h3⟩
  split at h1 <;> omega

/-! ### Non-vacuity -/

def cbs (evs : List Ev) : List (ConnState × Option ErrClass) := (run evs).callbacks

example : cbs [.call .connect 0, .inb (.connack false 0)] = [(.active, none)] := by decide
-- a refused CONNACK, or a CONNACK nobody waits for, reports nothing
example : cbs [.call .connect 0, .inb (.connack false 5)] = [] := by decide
example : cbs [.call .connect 0, .cancel 0, .inb (.connack false 0)] = [] := by decide
-- EOF: Closed with the error, Err() returns it, Done() closed
example : cbs [.call .connect 0, .inb (.connack false 0), .peerClose] = [(.active, none), (.closed, some .eof)] := by
  decide
example : (run [.call .connect 0, .inb (.connack false 0), .peerClose]).err = some .eof := by decide
example : cbs [.call .connect 0, .peerClose, .localClose, .peerClose] = [(.closed, some .eof)] := by decide
-- graceful Disconnect: Disconnected once, no Closed, Err() nil, Done() closed
example : cbs [.call .connect 0, .inb (.connack false 0), .call .disconnect 0, .peerClose, .call .disconnect 0] =
    [(.active, none), (.disconnected, none)] := by decide
example : (run [.call .connect 0, .inb (.connack false 0), .call .disconnect 0, .peerClose]).err = none ∧
    (run [.call .connect 0, .inb (.connack false 0), .call .disconnect 0, .peerClose]).doneClosed = true := by decide
-- Disconnect after the connection was lost: Closed, then Disconnected (all three states reported)
example : cbs [.call .connect 0, .inb (.connack false 0), .peerClose, .call .disconnect 0] =
    [(.active, none), (.closed, some .eof), (.disconnected, some .eof)] := by decide
-- a second Connect does not produce a second Active
example : cbs [.call .connect 0, .inb (.connack false 0), .call .connect 0, .inb (.connack false 0)] =
    [(.active, none)] := by decide


-- the acknowledgement of an inbound PUBREL cannot be written: Closed once, with the error; Done() closed
def ackFailRun : List Ev :=
  [.call .connect 0, .inb (.connack false 0), .inb (.publish 2 5), .writeFail true, .inb (.pubrel 5)]

example : cbs ackFailRun = [(.active, none), (.closed, some .other)] := by decide
example : (run ackFailRun).err = some .other ∧ (run ackFailRun).doneClosed = true ∧
    (run ackFailRun).state = .closed ∧ (run ackFailRun).transportOpen = false ∧ (run ackFailRun).inQ2 = [] ∧
    (run ackFailRun).writes = [.connect, .pubrec 5] := by decide
-- the hypotheses of `ack_write_failure_closes_pubrel` / `_publish` hold on the state before the last event
example : ClosedWith (run (ackFailRun.take 4)) (run ackFailRun) .other :=
  ack_write_failure_closes_pubrel (ackFailRun.take 4) 5 (by decide) (by decide) (by decide) (by decide) (by decide)
example : ClosedWith (run [.call .connect 0, .writeFail true])
    (run ([.call .connect 0, .writeFail true] ++ [.inb (.publish 1 7)])) .other :=
  ack_write_failure_closes_publish _ 1 7 (Or.inl rfl) (by decide) (by decide) (by decide) (by decide)
example : cbs [.call .connect 0, .inb (.connack false 0), .writeFail true, .inb (.publish 1 7), .inb (.publish 2 8),
    .peerClose] = [(.active, none), (.closed, some .other)] := by decide     -- reported once
-- a blocked call is released by it
example : (run [.call .connect 0, .inb (.connack false 0), .call .pub1 3, .writeFail true, .inb (.publish 2 7)]).calls.map
    (·.phase) = [.returned .ok, .returned (.closed true)] := by decide
-- QoS 0 / an unknown PUBREL need no acknowledgement: nothing happens even though the client cannot write
example : cbs [.call .connect 0, .inb (.connack false 0), .writeFail true, .inb (.publish 0 7), .inb (.pubrel 7)] =
    [(.active, none)] := by decide
-- after Disconnect: no Closed, Err() nil
example : cbs [.call .connect 0, .inb (.connack false 0), .writeFail true, .call .disconnect 0, .inb (.publish 1 7)] =
    [(.active, none), (.disconnected, none)] ∧
    (run [.call .connect 0, .inb (.connack false 0), .writeFail true, .call .disconnect 0, .inb (.publish 1 7)]).doneClosed
      = true := by decide

-- while writable: exactly the prescribed acknowledgements, in order; nothing else moves
example : (run [.call .connect 0, .inb (.connack false 0), .inb (.publish 0 1), .inb (.publish 1 2), .inb (.publish 2 3),
    .inb (.pubrel 9), .inb (.pubrel 3), .inb (.pubrel 3)]).writes = [.connect, .puback 2, .pubrec 3, .pubcomp 3] := by
  decide
example : (run [.call .connect 0, .inb (.connack false 0), .inb (.publish 2 3), .inb (.publish 2 4), .inb (.publish 2 3)]).inQ2
    = [3, 4] := by decide        -- a re-delivered QoS 2 PUBLISH is PUBREC'd again but remembered once
example : cbs [.call .connect 0, .inb (.connack false 0), .inb (.publish 1 2), .inb (.publish 2 3), .inb (.pubrel 3)] =
    [(.active, none)] := by decide
-- the counting theorem is tight: two PUBLISH 2 3, one PUBREL 3 answered, a second PUBREL 3 ignored
example : let s := run [.call .connect 0, .inb (.connack false 0), .inb (.publish 2 3), .inb (.publish 2 3),
      .inb (.pubrel 3), .inb (.pubrel 3)]
    s.writes.count (.pubrec 3) = 2 ∧ s.writes.count (.pubcomp 3) = 1 := by decide

end Mqtt.C16
