/-
  C02 — QoS 2 exactly once: against a broker that follows the MQTT 3.1.1 QoS 2 receiver rules and
  keeps the session state, a QoS 2 message is never delivered onward twice, and once the client
  received PUBCOMP for it, it has been delivered exactly once and nothing is transmitted for it any
  more — for every script (all event lists, fault lists, configurations, both receiver methods) in
  which the application submits each message index at most once.
  Property theorems only; the invariants (`Mqtt.Retry.Inv02`, `KInv`) live in Proofs/RetryQos2.
-/
import MqttVerif.Proofs.RetryQos2

namespace Mqtt.C02
open Mqtt.Retry

/-- onward deliveries of message `m` by the broker -/
def deliveries (w : World) (m : Nat) : Nat := w.broker.delivered.count m

/-- every PUBLISH request of the script has a valid QoS (the model, unlike the library, lets the
    application submit any natural number; the broker treats QoS ≥ 3 like QoS 2, the client like an
    acknowledged QoS without PUBREL, so such a request leaves its identifier in flight for ever) -/
def ValidQos (s : Script) : Prop := ∀ m q, Ev.app (.pub m q) ∈ s.evs → q ≤ 2

/-- `Mqtt.Retry.SessionsKept s`: every `.connackOk sp _` event except the first has `sp = true` -/
example (s : Script) : SessionsKept s = ∀ sp ∈ (connacks s.evs).tail, sp = true := rfl

/-- a QoS 2 message is delivered onward at most once, for both receiver methods
    (`s.method` is arbitrary) and every pattern of connection breaks -/
theorem at_most_once (s : Script) (hd : s.DistinctMsgs) (hk : SessionsKept s) (m q : Nat)
    (hq : Ev.app (.pub m q) ∈ s.evs) (h2 : q = 2) : deliveries (exec s) m ≤ 1 := by
  subst h2
  obtain ⟨hF, hacc⟩ := exec_full s hd hk
  have hok : Q2ok (exec s) m := by
    intro q' hq'
    have := pub_unique hd hq (hacc _ hq')
    omega
  have := hF.i.x.base.bb.atMost m hok
  unfold load cnt at this
  unfold deliveries
  omega

/-- PUBCOMP received ⇒ delivered exactly once -/
theorem delivered_when_acked (s : Script) (hd : s.DistinctMsgs) (hk : SessionsKept s)
    (hv : ValidQos s) (m : Nat) :
    Req.pub m 2 ∈ (exec s).broker.acked → deliveries (exec s) m = 1 := by
  intro ha
  obtain ⟨hF, hacc⟩ := exec_full s hd hk
  have hva : ValidAcc (exec s) := fun m' q' h => hv m' q' (hacc _ h)
  have h1 : 1 ≤ cnt (exec s).broker m := hF.i.x.base.ackedCnt hva m ha
  have hev : Ev.app (.pub m 2) ∈ s.evs := hacc _ (hF.i.x.base.ackedAcc m ha)
  have h2 := at_most_once s hd hk m 2 hev rfl
  unfold deliveries at *
  unfold cnt at h1
  omega

/-- after PUBCOMP was received (a PUBREL with wire `.sent .ok`) nothing is transmitted for `m` -/
theorem silent_after_pubcomp (s : Script) (hd : s.DistinctMsgs) (m i : Nat)
    (pre post : List (Pkt × Wire))
    (h : allPkts (exec s) = pre ++ [(.pubrel i m, .sent .ok)] ++ post) :
    ∀ pw ∈ post, (∀ q j d, pw.1 ≠ .publish m q j d) ∧ (∀ j, pw.1 ≠ .pubrel j m) := by
  intro pw hpw
  have hfin := ((exec_inv s hd).good m).fin
  unfold msgPkts at hfin
  rw [h, List.filter_append, List.filter_append] at hfin
  have h2 := (List.pairwise_append.1 hfin).2.2
  have key : about m pw.1 = true → False := by
    intro hab
    exact h2 (Pkt.pubrel i m, .sent .ok) (by simp [about]) pw
      (by rw [List.mem_filter]; exact ⟨hpw, hab⟩) ⟨rfl, rfl⟩
  constructor
  · intro q j d he; apply key; rw [he]; simp [about]
  · intro j he; apply key; rw [he]; simp [about]

/-- the hypothesis `ValidQos` of `delivered_when_acked` cannot be dropped: a QoS 3 request leaves
    its identifier 11 in the broker's in-flight set; message 2 draws the same identifier on the next
    connection (its counter starts at 10 again), its PUBLISH is taken for a duplicate, and
    PUBCOMP arrives without any delivery -/
def qos3 : Script :=
  { evs := [.start, .dialOk 10, .connackOk false [], .app (.pub 1 3), .peerClose, .waitElapsed,
            .dialOk 10, .connackOk true [], .app (.pub 2 2)] }

example : qos3.DistinctMsgs ∧ SessionsKept qos3 ∧ Req.pub 2 2 ∈ (exec qos3).broker.acked ∧
    deliveries (exec qos3) 2 = 0 := by
  refine ⟨by unfold Script.DistinctMsgs; decide, by unfold SessionsKept; decide, ?_, ?_⟩
  · decide +kernel
  · decide +kernel

/-! Non-vacuity: the QoS 2 exchange of message 1 is cut three times (PUBLISH processed but PUBREC
    lost, PUBREL lost, PUBREL processed but PUBCOMP lost) and spans four connections; the adversarial
    start value makes message 2 draw the same identifier 11. Both receiver methods deliver each
    message exactly once. Every redial happens after the back-off timer fired (`.waitElapsed`). -/

def demo (meth : Method) : Script :=
  { method := meth,
    faults := [.lostAck, .ok, .lostReq, .lostAck, .ok, .ok, .silent],
    cfg := { respTimeout := true },
    evs := [.start, .dialOk 10, .connackOk false [], .app (.pub 1 2), .app (.pub 2 2),
            .waitElapsed, .dialOk 500, .connackOk true [], .waitElapsed, .dialOk 600,
            .connackOk true [], .waitElapsed, .dialOk 10, .connackOk true [],
            .waitElapsed, .dialOk 10, .connackOk true []] }

example : (demo .onPublish).DistinctMsgs ∧ SessionsKept (demo .onPublish) ∧
    ValidQos (demo .onPublish) := by
  refine ⟨by unfold Script.DistinctMsgs; decide, by unfold SessionsKept; decide, ?_⟩
  intro m q h
  simp [demo] at h
  omega

example : (exec (demo .onPublish)).broker.delivered = [1, 2] ∧
    (exec (demo .onPubrel)).broker.delivered = [1, 2] := by decide +kernel

example : msgPkts (exec (demo .onPubrel)) 1 =
    [(.publish 1 2 11 false, .sent .lostAck), (.publish 1 2 11 true, .sent .ok),
     (.pubrel 11 1, .sent .lostReq), (.pubrel 11 1, .sent .lostAck),
     (.pubrel 11 1, .sent .ok)] := by decide +kernel

example : (exec (demo .onPubrel)).conns.length = 5 ∧
    lookupPid (exec (demo .onPubrel)) 2 = some 11 ∧
    (exec (demo .onPubrel)).broker.acked = [.pub 1 2, .pub 2 2] ∧
    (exec (demo .onPubrel)).dials = 5 ∧ (exec (demo .onPubrel)).waits = [0, 0, 0, 0] := by
  decide +kernel

/-! The theorems above quantify over all event lists and configurations, so `.waitElapsed`,
    `.cancelCtx` and Disconnect in any phase of the reconnect loop, and a dialer that ignores its
    context (`cfg.deafDialer`), are covered without a hypothesis. The scripts below exercise
    them (both receiver methods). -/

/-- Disconnect while the loop backs off after PUBREC was lost: the loop exits, nothing is redialled;
    the broker has the message (delivered under `onPublish`, stashed under `onPubrel`) and the
    exchange is never completed: at most once, no PUBCOMP -/
def discBackoff (meth : Method) : Script :=
  { method := meth, faults := [.lostAck],
    evs := [.start, .dialOk 10, .connackOk false [], .app (.pub 1 2), .disconnect,
            .waitElapsed, .dialOk 20, .connackOk true []] }

example : (exec { discBackoff .onPublish with evs := (discBackoff .onPublish).evs.take 4 }).phase
      = .backoff ∧
    (exec (discBackoff .onPublish)).phase = .exited ∧
    deliveries (exec (discBackoff .onPublish)) 1 = 1 ∧
    deliveries (exec (discBackoff .onPubrel)) 1 = 0 ∧
    (exec (discBackoff .onPubrel)).broker.stash = [(11, 1)] ∧
    (exec (discBackoff .onPubrel)).broker.acked = [] ∧
    (exec (discBackoff .onPubrel)).conns.length = 1 := by decide +kernel

example : ∀ meth, (discBackoff meth).DistinctMsgs ∧ SessionsKept (discBackoff meth) := by
  intro meth
  cases meth <;> exact ⟨by unfold Script.DistinctMsgs; decide, by unfold SessionsKept; decide⟩

/-- Disconnect while DialContext is in flight, PUBCOMP of the first PUBREL lost before: the dial
    completes, CONNECT and CONNACK are exchanged on the second connection, but `Retry` is not run
    any more: PUBREL is not repeated, the message was delivered once, PUBCOMP never arrives -/
def discDial (meth : Method) : Script :=
  { method := meth, faults := [.ok, .lostAck],
    evs := [.start, .dialOk 10, .connackOk false [], .app (.pub 1 2), .waitElapsed, .disconnect,
            .dialOk 20, .connackOk true []] }

example : (exec { discDial .onPubrel with evs := (discDial .onPubrel).evs.take 6 }).phase
      = .dialGate ∧
    (exec { discDial .onPubrel with evs := (discDial .onPubrel).evs.take 7 }).phase
      = .connackGate 1 ∧
    (exec (discDial .onPubrel)).phase = .exited ∧ (exec (discDial .onPubrel)).conns.length = 2 ∧
    deliveries (exec (discDial .onPublish)) 1 = 1 ∧ deliveries (exec (discDial .onPubrel)) 1 = 1 ∧
    (exec (discDial .onPubrel)).broker.acked = [] ∧
    (exec (discDial .onPubrel)).retryQ = [.rePubRel 1] ∧
    msgPkts (exec (discDial .onPubrel)) 1 =
      [(.publish 1 2 11 false, .sent .ok), (.pubrel 11 1, .sent .lostAck)] := by decide +kernel

example : ∀ meth, (discDial meth).DistinctMsgs ∧ SessionsKept (discDial meth) := by
  intro meth
  cases meth <;> exact ⟨by unfold Script.DistinctMsgs; decide, by unfold SessionsKept; decide⟩

/-- the context given to Connect is cancelled while CONNACK is awaited (`cancelGate`) or while the
    loop backs off after a refused CONNECT (`cancelBackoff`): the loop exits, the request accepted
    before is attempted on the closed transport only; the broker sees nothing -/
def cancelGate (meth : Method) : Script :=
  { method := meth,
    evs := [.start, .app (.pub 1 2), .dialOk 10, .cancelCtx, .waitElapsed, .dialOk 20,
            .connackOk true []] }

def cancelBackoff (meth : Method) : Script :=
  { method := meth,
    evs := [.start, .app (.pub 1 2), .dialOk 10, .connackRefused, .cancelCtx, .waitElapsed,
            .dialOk 20, .connackOk true []] }

example : (exec (cancelGate .onPubrel)).phase = .exited ∧
    (exec (cancelGate .onPubrel)).connectErr = true ∧
    msgPkts (exec (cancelGate .onPubrel)) 1 = [(.publish 1 2 11 false, .dead)] ∧
    deliveries (exec (cancelGate .onPublish)) 1 = 0 ∧
    (exec (cancelGate .onPubrel)).broker.stash = [] ∧
    (exec { cancelBackoff .onPubrel with evs := (cancelBackoff .onPubrel).evs.take 4 }).phase
      = .backoff ∧
    (exec (cancelBackoff .onPubrel)).phase = .exited ∧
    (exec (cancelBackoff .onPubrel)).connectErr = true ∧
    (exec (cancelBackoff .onPubrel)).conns.length = 1 ∧
    deliveries (exec (cancelBackoff .onPublish)) 1 = 0 := by decide +kernel

example : ∀ meth, (cancelGate meth).DistinctMsgs ∧ SessionsKept (cancelGate meth) ∧
    (cancelBackoff meth).DistinctMsgs ∧ SessionsKept (cancelBackoff meth) := by
  intro meth
  cases meth <;> exact ⟨by unfold Script.DistinctMsgs; decide, by unfold SessionsKept; decide,
    by unfold Script.DistinctMsgs; decide, by unfold SessionsKept; decide⟩

/-- a dialer that ignores its context (`cfg.deafDialer`), the Connect context cancelled during the
    first dial: the transport that arrives afterwards (`deafOk`) gets CONNECT and is closed at once,
    the QoS 2 request accepted before is attempted on the closed transport only; if the dial fails
    (`deafFail`) the loop exits without a connection. Either way the broker sees nothing, and the
    theorems above (no hypothesis on `cfg`) cover these runs -/
def deafOk (meth : Method) : Script :=
  { method := meth, cfg := { deafDialer := true },
    evs := [.start, .app (.pub 1 2), .cancelCtx, .dialOk 10, .waitElapsed, .dialOk 20,
            .connackOk true []] }

def deafFail (meth : Method) : Script :=
  { method := meth, cfg := { deafDialer := true },
    evs := [.start, .app (.pub 1 2), .cancelCtx, .dialFail, .waitElapsed, .dialOk 20,
            .connackOk true []] }

example : (exec { deafOk .onPubrel with evs := (deafOk .onPubrel).evs.take 3 }).phase = .dialGate ∧
    (exec (deafOk .onPubrel)).phase = .exited ∧ (exec (deafOk .onPubrel)).connectErr = true ∧
    allPkts (exec (deafOk .onPubrel)) = [(.connect, .sent .ok), (.publish 1 2 11 false, .dead)] ∧
    (exec (deafOk .onPubrel)).conns.map (·.alive) = [false] ∧
    deliveries (exec (deafOk .onPublish)) 1 = 0 ∧ (exec (deafOk .onPubrel)).broker.stash = [] ∧
    (exec (deafOk .onPubrel)).broker.q2 = [] ∧ (exec (deafOk .onPubrel)).broker.acked = [] ∧
    (exec (deafFail .onPubrel)).phase = .exited ∧ (exec (deafFail .onPubrel)).connectErr = true ∧
    (exec (deafFail .onPubrel)).conns.length = 0 ∧ (exec (deafFail .onPubrel)).waits = [] ∧
    msgPkts (exec (deafFail .onPubrel)) 1 = [] ∧
    deliveries (exec (deafFail .onPublish)) 1 = 0 := by decide

example : ∀ meth, (deafOk meth).DistinctMsgs ∧ SessionsKept (deafOk meth) ∧
    (deafFail meth).DistinctMsgs ∧ SessionsKept (deafFail meth) := by
  intro meth
  cases meth <;> exact ⟨by unfold Script.DistinctMsgs; decide, by unfold SessionsKept; decide,
    by unfold Script.DistinctMsgs; decide, by unfold SessionsKept; decide⟩

end Mqtt.C02
