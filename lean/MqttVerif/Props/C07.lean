/-
  C07 — A blocking Publish (QoS 1/2), Subscribe or Unsubscribe on the base client returns success only
  after the acknowledgement of the right kind carrying that request's own packet identifier has arrived
  (PUBREC then PUBCOMP for QoS 2); acknowledgements with other identifiers, of other kinds, or unsolicited
  ones neither complete nor disturb it, for any number of concurrent callers and any order in which the
  broker answers.  Subscribe returns the granted QoS per filter in request order and fails with
  ErrInvalidSubAck when the count differs.

  Model: `MqttVerif/Model/BaseClient.lean` (`BC.step`, `BC.run`).  Helper lemmas: `Proofs/BaseClient.lean`.
  All statements are for arbitrary states / arbitrary event lists: no bound on the number of calls,
  callers or events.

  Well-formedness.  The single-step theorems are stated for states satisfying `BC.Sound`
  (every signaller entry `id ↦ i` points at an existing call whose packet id is `id`, and the phase a
  call waits in is one its kind can be in).  `Sound` holds in every reachable state, unconditionally
  (`sound_reachable`), and is preserved by every step (`sound_step`); without it the statements are false
  for arbitrary (unreachable) record values, e.g. a state whose PUBACK map sends id 7 to a call with id 3.
-/
import MqttVerif.Proofs.BaseClient

namespace Mqtt.C07
open Mqtt.BC

/-! ### Well-formedness of reachable states -/

theorem sound_reachable (evs : List Ev) : Sound (run evs) := Sound.onRun evs

theorem sound_step (s : St) (e : Ev) (h : Sound s) : Sound (step s e) := h.onStep (step_rel s e)

/-! ### 1. success only by the call's own acknowledgement -/

/-- the successful results -/
def isSuccess : Ret → Bool
  | .ok | .okSub _ => true
  | _ => false

/-
  `BC.OwnAck c e r` ("`e` is the acknowledgement that belongs to the blocked call `c`, which then
  returns `r`") is, by the phase `c` waits in:
    waitConnAck   c.kind = connect ∧ ∃ sp, e = inb (connack sp 0)           ∧ r = ok
    waitPubAck    c.kind = pub1    ∧ e = inb (puback c.id)                  ∧ r = ok
    waitPubRec    False                      -- no single event lets a QoS 2 publish succeed from here
    waitPubComp   c.kind = pub2    ∧ e = inb (pubcomp c.id)                 ∧ r = ok
    waitSubAck    ∃ codes, c.kind = sub codes.length ∧ e = inb (suback c.id codes) ∧ r = okSub codes
    waitUnsubAck  c.kind = unsub   ∧ e = inb (unsuback c.id)                ∧ r = ok
    waitPingResp  c.kind = ping    ∧ e = inb pingresp                       ∧ r = ok
  The unfolding lemmas below make this explicit.
-/

theorem ownAck_connect {c : Call} {e : Ev} {r : Ret} (h : c.phase = .waitConnAck) :
    OwnAck c e r ↔ c.kind = .connect ∧ (∃ sp, e = .inb (.connack sp 0)) ∧ r = .ok := by
  unfold OwnAck; rw [h]
theorem ownAck_pub1 {c : Call} {e : Ev} {r : Ret} (h : c.phase = .waitPubAck) :
    OwnAck c e r ↔ c.kind = .pub1 ∧ e = .inb (.puback c.id) ∧ r = .ok := by
  unfold OwnAck; rw [h]
theorem ownAck_pub2_rec {c : Call} {e : Ev} {r : Ret} (h : c.phase = .waitPubRec) : ¬ OwnAck c e r := by
  unfold OwnAck; rw [h]; exact id
theorem ownAck_pub2_comp {c : Call} {e : Ev} {r : Ret} (h : c.phase = .waitPubComp) :
    OwnAck c e r ↔ c.kind = .pub2 ∧ e = .inb (.pubcomp c.id) ∧ r = .ok := by
  unfold OwnAck; rw [h]
theorem ownAck_sub {c : Call} {e : Ev} {r : Ret} (h : c.phase = .waitSubAck) :
    OwnAck c e r ↔ ∃ codes, c.kind = .sub codes.length ∧ e = .inb (.suback c.id codes) ∧ r = .okSub codes := by
  unfold OwnAck; rw [h]
theorem ownAck_unsub {c : Call} {e : Ev} {r : Ret} (h : c.phase = .waitUnsubAck) :
    OwnAck c e r ↔ c.kind = .unsub ∧ e = .inb (.unsuback c.id) ∧ r = .ok := by
  unfold OwnAck; rw [h]
theorem ownAck_ping {c : Call} {e : Ev} {r : Ret} (h : c.phase = .waitPingResp) :
    OwnAck c e r ↔ c.kind = .ping ∧ e = .inb .pingresp ∧ r = .ok := by
  unfold OwnAck; rw [h]
theorem ownAck_returned {c : Call} {e : Ev} {r r' : Ret} (h : c.phase = .returned r') : ¬ OwnAck c e r := by
  unfold OwnAck; rw [h]; exact id

/-- A blocked call returns success in one step only if the event of that step is the acknowledgement
    of the right kind carrying the call's own packet id (`OwnAck`), and that acknowledgement was routed to
    it through the signaller entry registered under its id (`regOf s c = some i`).
    A Disconnect call is never blocked, so it does not occur here (`disconnect_never_blocked`). -/
theorem success_only_by_own_ack (s : St) (hs : Sound s) (e : Ev) (i : Nat) (c c' : Call)
    (hc : s.calls[i]? = some c) (hb : blocked c = true)
    (hc' : (step s e).calls[i]? = some c') (r : Ret) (hr : c'.phase = .returned r)
    (hsucc : isSuccess r = true) :
    OwnAck c e r ∧ regOf s c = some i ∧ s.inited = true ∧ s.doneClosed = false := by
  obtain ⟨c'', h1, h2⟩ := call_step (step_rel s e) hs hc hb
  rw [hc'] at h1; cases h1
  cases h2 with
  | same => unfold blocked at hb; rw [hr] at hb; cases hb
  | cancelled he => simp only at hr; cases hr; cases hsucc
  | released hi hd hd' =>
    obtain ⟨x, hx⟩ := release_phase_of_blocked c hb
    rw [hx] at hr; cases hr; cases hsucc
  | acked r0 hown hreg hi hd => simp only at hr; cases hr; exact ⟨hown, hreg, hi, hd⟩
  | refused sp code hp he h0 hm hi hd => simp only at hr; cases hr; cases hsucc
  | pubrec hp hk he hm hi hd =>
    simp only at hr
    split at hr
    · cases hr
    · cases hr; cases hsucc
  | badSubAck codes n hp hk hl he hm hd' hi hd => simp only at hr; cases hr; cases hsucc

/-- the same along any run -/
theorem success_only_by_own_ack_run (evs : List Ev) (e : Ev) (i : Nat) (c c' : Call)
    (hc : (run evs).calls[i]? = some c) (hb : blocked c = true)
    (hc' : (run (evs ++ [e])).calls[i]? = some c') (r : Ret) (hr : c'.phase = .returned r)
    (hsucc : isSuccess r = true) :
    OwnAck c e r ∧ regOf (run evs) c = some i := by
  rw [run_snoc] at hc'
  have := success_only_by_own_ack (run evs) (sound_reachable evs) e i c c' hc hb hc' r hr hsucc
  exact ⟨this.1, this.2.1⟩

/-- a Disconnect call is never blocked (in any reachable state) -/
theorem disconnect_never_blocked (s : St) (hs : Sound s) (i : Nat) (c : Call) (hc : s.calls[i]? = some c)
    (hk : c.kind = .disconnect) : blocked c = false := by
  have := hs.kp i c hc
  unfold KindPhase at this
  unfold blocked
  cases hp : c.phase <;> rw [hp] at this <;> simp_all

/-- once returned, a call's result never changes -/
theorem result_final (s : St) (e : Ev) (i : Nat) (c : Call) (hc : s.calls[i]? = some c)
    (hb : blocked c = false) : (step s e).calls[i]? = some c :=
  returned_stable (step_rel s e) hc hb

/-! ### 2. QoS 2: PUBREC, then PUBCOMP -/

/-- A QoS 2 publish waiting for PUBREC moves on to waiting for PUBCOMP only by the PUBREC carrying its own
    id, found through its own PUBREC registration, with the transport accepting the PUBREL that is then
    written (and the PUBCOMP waiter registered under the same id); and no single step lets it return
    success from `waitPubRec`. -/
theorem qos2_needs_pubrec_then_pubcomp (s : St) (hs : Sound s) (e : Ev) (i : Nat) (c c' : Call)
    (hc : s.calls[i]? = some c) (hp : c.phase = .waitPubRec)
    (hc' : (step s e).calls[i]? = some c') :
    c.kind = .pub2 ∧
    (c'.phase = .waitPubComp →
      e = .inb (.pubrec c.id) ∧ mapGet s.pubRec c.id = some i ∧ canWrite s = true ∧
      (step s e).writes = s.writes ++ [.pubrel c.id] ∧ mapGet (step s e).pubComp c.id = some i) ∧
    (∀ r, c'.phase = .returned r → isSuccess r = false) := by
  have hb : blocked c = true := by simp [blocked, hp]
  have hk : c.kind = .pub2 := by
    have := hs.kp i c hc; unfold KindPhase at this; rw [hp] at this; exact this
  refine ⟨hk, ?_, ?_⟩
  · intro hp'
    obtain ⟨c'', h1, h2⟩ := call_step (step_rel s e) hs hc hb
    rw [hc'] at h1; cases h1
    cases h2 with
    | same => rw [hp] at hp'; cases hp'
    | cancelled he => cases hp'
    | released hi hd hd' =>
      obtain ⟨x, hx⟩ := release_phase_of_blocked c hb
      rw [hx] at hp'; cases hp'
    | acked r0 hown hreg hi hd => cases hp'
    | refused sp code hp1 he h0 hm hi hd => cases hp'
    | badSubAck codes n hp1 hk1 hl he hm hd' hi hd => cases hp'
    | pubrec hp1 hk1 he hm hi hd =>
      simp only at hp'
      by_cases hw : canWrite s = true
      · subst he
        refine ⟨rfl, hm, hw, ?_, ?_⟩
        · simp only [step]
          rw [inbound_pubrec hi hd hc c.id hm hp, if_pos hw]; rfl
        · simp only [step]
          rw [inbound_pubrec hi hd hc c.id hm hp, if_pos hw]
          simp [mapGet_mapSet]
      · rw [if_neg hw] at hp'; cases hp'
  · intro r hr
    cases hsr : isSuccess r with
    | false => rfl
    | true =>
      have := (success_only_by_own_ack s hs e i c c' hc hb hc' r hr hsr).1
      exact absurd this (ownAck_pub2_rec hp)

/-! ### 3. foreign acknowledgements are inert -/

/-- An acknowledgement that finds no waiter (nothing registered under its id, resp. the CONNACK / PINGRESP
    slot empty) changes nothing at all.
    The hypothesis `needsAck s p = false` holds by `rfl` for each of the seven acknowledgement kinds
    (`isAck_needsAck`); it is there because `In` also has the application messages PUBLISH / PUBREL, which have
    no waiter (`target s p = none`) either but which the reader answers (`needsAck`: a PUBLISH with QoS ≠ 0, a
    PUBREL of a remembered id) — for those see `inbound_publish_never_completes_a_call` below and
    C16 `inbound_publish_inert_when_writable`.  A QoS 0 PUBLISH and an unknown PUBREL are covered here. -/
theorem foreign_ack_inert (s : St) (p : In) (hp : p ≠ .malformed) (ht : target s p = none)
    (hn : needsAck s p = false) :
    inbound s p = s := inbound_no_target s p hp ht hn

/-- the seven acknowledgement kinds, in one statement -/
theorem foreign_ack_inert' (s : St) (p : In) (hp : isAck p = true) (ht : target s p = none) :
    inbound s p = s :=
  foreign_ack_inert s p (by rintro rfl; cases hp) ht (isAck_needsAck s hp)

theorem foreign_puback_inert (s : St) (id : Nat) (h : mapGet s.pubAck id = none) :
    step s (.inb (.puback id)) = s := foreign_ack_inert s (.puback id) (by simp) h rfl
theorem foreign_pubrec_inert (s : St) (id : Nat) (h : mapGet s.pubRec id = none) :
    step s (.inb (.pubrec id)) = s := foreign_ack_inert s (.pubrec id) (by simp) h rfl
theorem foreign_pubcomp_inert (s : St) (id : Nat) (h : mapGet s.pubComp id = none) :
    step s (.inb (.pubcomp id)) = s := foreign_ack_inert s (.pubcomp id) (by simp) h rfl
theorem foreign_suback_inert (s : St) (id : Nat) (codes : List Nat) (h : mapGet s.subAck id = none) :
    step s (.inb (.suback id codes)) = s := foreign_ack_inert s (.suback id codes) (by simp) h rfl
theorem foreign_unsuback_inert (s : St) (id : Nat) (h : mapGet s.unsubAck id = none) :
    step s (.inb (.unsuback id)) = s := foreign_ack_inert s (.unsuback id) (by simp) h rfl
theorem unsolicited_connack_inert (s : St) (sp : Bool) (code : Nat) (h : s.connAck = none) :
    step s (.inb (.connack sp code)) = s := foreign_ack_inert s (.connack sp code) (by simp) h rfl
theorem unsolicited_pingresp_inert (s : St) (h : s.pingResp = none) :
    step s (.inb .pingresp) = s := foreign_ack_inert s .pingresp (by simp) h rfl
/-- a QoS 0 PUBLISH, and a PUBREL whose id is not remembered, change nothing at all -/
theorem inbound_qos0_publish_inert (s : St) (id : Nat) : step s (.inb (.publish 0 id)) = s :=
  foreign_ack_inert s (.publish 0 id) (by simp) rfl rfl
theorem unknown_pubrel_inert (s : St) (id : Nat) (h : id ∉ s.inQ2) : step s (.inb (.pubrel id)) = s :=
  foreign_ack_inert s (.pubrel id) (by simp) rfl (by simpa [needsAck] using h)

/-- An acknowledgement that IS registered (to call `i`) changes no call other than `i` — except when it
    is a SUBACK with the wrong number of return codes, which ends the connection (`suback_result`). -/
theorem registered_ack_touches_only_its_call (s : St) (p : In) (i j : Nat) (ht : target s p = some i)
    (hj : j ≠ i) (hm : subAckMismatch s p = false) :
    (step s (.inb p)).calls[j]? = s.calls[j]? := inbound_other_calls s p i j ht hj hm

/-- An acknowledgement of another kind, or with another id, than the one a blocked call waits for does not
    complete it and does not change it, whoever else it may be registered to
    (the connection ends excepted — bad SUBACK, malformed packet, failed acknowledgement write for an inbound
    PUBLISH / PUBREL: hypothesis `hlive`).  Inbound application messages are included: for `p = publish _ _`
    and `p = pubrel _` the hypotheses `hother`, `hnotrec`, `hnotref` hold trivially. -/
theorem other_ack_does_not_disturb (s : St) (hs : Sound s) (p : In) (i : Nat) (c : Call)
    (hc : s.calls[i]? = some c) (hb : blocked c = true)
    (hother : ∀ r, ¬ OwnAck c (.inb p) r)
    (hnotrec : ¬ (c.phase = .waitPubRec ∧ p = .pubrec c.id))
    (hnotref : ¬ (c.phase = .waitConnAck ∧ ∃ sp code, p = .connack sp code))
    (hlive : (step s (.inb p)).doneClosed = s.doneClosed) :
    (step s (.inb p)).calls[i]? = some c := by
  obtain ⟨c', h1, h2⟩ := call_step (step_rel s (.inb p)) hs hc hb
  rw [h1]
  cases h2 with
  | same => rfl
  | cancelled he => cases he
  | released hi hd hd' => rw [hlive, hd] at hd'; cases hd'
  | acked r0 hown hreg hi hd => exact absurd hown (hother r0)
  | refused sp code hp1 he h0 hm hi hd => cases he; exact absurd ⟨hp1, sp, code, rfl⟩ hnotref
  | pubrec hp1 hk1 he hm hi hd => cases he; exact absurd ⟨hp1, rfl⟩ hnotrec
  | badSubAck codes n hp1 hk1 hl he hm hd' hi hd => rw [hlive, hd] at hd'; cases hd'

/-- Inbound application messages (PUBLISH, PUBREL) are not acknowledgements of any request: for EVERY state
    (no well-formedness needed) they leave all call records exactly as they are — unless the reader cannot
    write the acknowledgement it owes (`ackFails`), which ends the connection and releases every blocked call
    with ErrClosedTransport (`release`). -/
theorem inbound_publish_calls (s : St) (p : In) (hp : isApp p = true) :
    ((step s (.inb p)).calls = s.calls ∧ (step s (.inb p)).doneClosed = s.doneClosed) ∨
    (s.inited = true ∧ s.doneClosed = false ∧ ackFails s p = true ∧
      (step s (.inb p)).calls = s.calls.map release ∧ (step s (.inb p)).doneClosed = true) :=
  inbound_app_calls s p hp

/-- No call returns success (`.ok` / `.okSub`) because of an inbound PUBLISH or PUBREL, in any state:
    a blocked call is either still exactly as it was, or has returned ErrClosedTransport. -/
theorem inbound_publish_never_completes_a_call (s : St) (p : In) (hp : isApp p = true) (i : Nat) (c c' : Call)
    (hc : s.calls[i]? = some c) (hb : blocked c = true) (hc' : (step s (.inb p)).calls[i]? = some c') :
    (c' = c ∨ c' = { c with phase := .returned (.closed (ctxRetry c.phase)) }) ∧
    (∀ r, c'.phase = .returned r → isSuccess r = false) := by
  have key : c' = c ∨ c' = { c with phase := .returned (.closed (ctxRetry c.phase)) } := by
    rcases inbound_publish_calls s p hp with ⟨h, _⟩ | ⟨_, _, _, h, _⟩
    · rw [h, hc] at hc'; cases hc'; exact Or.inl rfl
    · rw [h, List.getElem?_map, hc] at hc'
      cases hc'
      right
      cases c with | mk k id ph =>
      cases ph <;> first | rfl | (simp [blocked] at hb)
  refine ⟨key, ?_⟩
  intro r hr
  rcases key with rfl | rfl
  · unfold blocked at hb; rw [hr] at hb; cases hb
  · cases hr; rfl

/-- the two packet kinds by name -/
theorem inbound_publish_never_completes (s : St) (q id : Nat) (i : Nat) (c c' : Call)
    (hc : s.calls[i]? = some c) (hb : blocked c = true)
    (hc' : (step s (.inb (.publish q id))).calls[i]? = some c') (r : Ret) (hr : c'.phase = .returned r) :
    isSuccess r = false :=
  (inbound_publish_never_completes_a_call s _ rfl i c c' hc hb hc').2 r hr

theorem inbound_pubrel_never_completes (s : St) (id : Nat) (i : Nat) (c c' : Call)
    (hc : s.calls[i]? = some c) (hb : blocked c = true)
    (hc' : (step s (.inb (.pubrel id))).calls[i]? = some c') (r : Ret) (hr : c'.phase = .returned r) :
    isSuccess r = false :=
  (inbound_publish_never_completes_a_call s _ rfl i c c' hc hb hc').2 r hr

/-- ... and a call that has returned keeps its result (`result_final`), so along any run the set of calls
    that have returned success is the same before and after an application message. -/
theorem inbound_publish_success_unchanged (s : St) (p : In) (hp : isApp p = true) (i : Nat) (r : Ret)
    (hsucc : isSuccess r = true) :
    (∃ c', (step s (.inb p)).calls[i]? = some c' ∧ c'.phase = .returned r) ↔
    (∃ c, s.calls[i]? = some c ∧ c.phase = .returned r) := by
  constructor
  · rintro ⟨c', hc', hr⟩
    cases hc : s.calls[i]? with
    | none =>
      exfalso
      rcases inbound_publish_calls s p hp with ⟨h, _⟩ | ⟨_, _, _, h, _⟩
      · rw [h, hc] at hc'; cases hc'
      · rw [h, List.getElem?_map, hc] at hc'; cases hc'
    | some c =>
      cases hb : blocked c with
      | false =>
        have := result_final s (.inb p) i c hc hb
        rw [this] at hc'
        have : c = c' := Option.some.inj hc'
        exact ⟨c, rfl, by rw [this]; exact hr⟩
      | true =>
        have := (inbound_publish_never_completes_a_call s p hp i c c' hc hb hc').2 r hr
        rw [hsucc] at this; cases this
  · rintro ⟨c, hc, hr⟩
    have hb : blocked c = false := by simp [blocked, hr]
    exact ⟨c, result_final s (.inb p) i c hc hb, hr⟩

/-! ### 4. the converse: the own acknowledgement completes the call -/

/-- If call `i` is blocked, registered under its own id in the map of the kind it waits for, and the
    connection has not ended, then its acknowledgement makes it return success (with exactly the result
    `r` determined by `OwnAck`). -/
theorem own_ack_completes (s : St) (e : Ev) (i : Nat) (c : Call) (r : Ret)
    (hc : s.calls[i]? = some c) (hreg : regOf s c = some i)
    (hi : s.inited = true) (hd : s.doneClosed = false) (hown : OwnAck c e r) :
    (step s e).calls[i]? = some { c with phase := .returned r } := by
  unfold OwnAck at hown
  unfold regOf at hreg
  cases hp : c.phase <;> rw [hp] at hown hreg <;> simp only at hown hreg
  · obtain ⟨_, ⟨sp, rfl⟩, rfl⟩ := hown
    simp only [step]
    rw [inbound_connack_ok hi hd hc sp hreg hp, setPhase_getElem?_self]; simp [hc]
  · obtain ⟨_, rfl, rfl⟩ := hown
    simp only [step]
    rw [inbound_puback hi hd hc c.id hreg hp, setPhase_getElem?_self]; simp [hc]
  · obtain ⟨_, rfl, rfl⟩ := hown
    simp only [step]
    rw [inbound_pubcomp hi hd hc c.id hreg hp, setPhase_getElem?_self]; simp [hc]
  · obtain ⟨codes, hk, rfl, rfl⟩ := hown
    simp only [step]
    rw [inbound_suback hi hd hc c.id codes.length codes hreg hp hk, if_neg (by simp), setPhase_getElem?_self]
    simp [hc]
  · obtain ⟨_, rfl, rfl⟩ := hown
    simp only [step]
    rw [inbound_unsuback hi hd hc c.id hreg hp, setPhase_getElem?_self]; simp [hc]
  · obtain ⟨_, rfl, rfl⟩ := hown
    simp only [step]
    rw [inbound_pingresp hi hd hc hreg hp, setPhase_getElem?_self]; simp [hc]

/-- The PUBREC with the call's own id advances a QoS 2 publish to `waitPubComp`, writes PUBREL and
    registers the PUBCOMP waiter, when the transport accepts writes; otherwise the call fails with the
    write error (and a retry handle). -/
theorem own_pubrec_advances (s : St) (i : Nat) (c : Call)
    (hc : s.calls[i]? = some c) (hp : c.phase = .waitPubRec) (hreg : mapGet s.pubRec c.id = some i)
    (hi : s.inited = true) (hd : s.doneClosed = false) :
    let s' := step s (.inb (.pubrec c.id))
    (canWrite s = true → s'.calls[i]? = some { c with phase := .waitPubComp } ∧
        s'.writes = s.writes ++ [.pubrel c.id] ∧ mapGet s'.pubComp c.id = some i) ∧
    (canWrite s = false → s'.calls[i]? = some { c with phase := .returned (.writeErr true) }) := by
  simp only [step]
  rw [inbound_pubrec hi hd hc c.id hreg hp]
  constructor
  · intro hw
    rw [if_pos hw]
    refine ⟨?_, rfl, ?_⟩
    · rw [setPhase_getElem?_self]; simp [hc]
    · simp [mapGet_mapSet]
  · intro hw
    rw [if_neg (by simp [hw]), setPhase_getElem?_self]; simp [hc]

/-! ### 5. `WFIds` : along well-formed runs every blocked call stays registered under its own id -/

/-- `clash false k id k' id'` : two requests of the same kind-class carrying the same packet id -/
theorem clash_ids_iff (k k' : Kind) (id id' : Nat) :
    clash false k id k' id' = true ↔
      id = id' ∧ ((k = .pub1 ∧ k' = .pub1) ∨ (k = .pub2 ∧ k' = .pub2) ∨
        ((∃ n, k = .sub n) ∧ ∃ m, k' = .sub m) ∨ (k = .unsub ∧ k' = .unsub)) := by
  cases k <;> cases k' <;> simp [clash]

/-- No two calls of the same kind-class (QoS 1 publish / QoS 2 publish / subscribe / unsubscribe) are
    started with the same packet id while the earlier one is still blocked. -/
def WFIds (evs : List Ev) : Prop := WFFrom false {} evs

/-- `WFIds`, and in addition at most one Connect and at most one Ping are blocked at any time. -/
def WFAll (evs : List Ev) : Prop := WFFrom true {} evs

/-- every blocked id-carrying call is found, under its own id, in the signaller map of the phase it is in -/
def Registered (s : St) : Prop :=
  ∀ (i : Nat) (c : Call), s.calls[i]? = some c → slot false c.phase = true → regOf s c = some i

/-- the same for every blocked call, Connect (CONNACK slot) and Ping (PINGRESP slot) included -/
def RegisteredAll (s : St) : Prop :=
  ∀ (i : Nat) (c : Call), s.calls[i]? = some c → blocked c = true → regOf s c = some i

theorem slot_false_iff (ph : Phase) : slot false ph = true ↔
    ph = .waitPubAck ∨ ph = .waitPubRec ∨ ph = .waitPubComp ∨ ph = .waitSubAck ∨ ph = .waitUnsubAck := by
  cases ph <;> simp [slot]

theorem slot_true_iff (c : Call) : slot true c.phase = true ↔ blocked c = true := by
  unfold blocked; cases c.phase <;> simp [slot]

/-- the invariant (`Sound`, `Registered`, and no two blocked calls competing for one entry) is preserved
    by every step whose new call, if any, uses a fresh id -/
theorem registered_step (b : Bool) (s : St) (e : Ev) (h : RegInv b s)
    (hf : ∀ k id, e = .call k id → Fresh b s k id) : RegInv b (step s e) :=
  h.onStep (step_rel s e) hf

theorem registered_of_wfids (evs : List Ev) (h : WFIds evs) : Registered (run evs) :=
  (RegInv.onFoldl evs {} (RegInv.init false) h).reg

theorem registered_all_of_wfall (evs : List Ev) (h : WFAll evs) : RegisteredAll (run evs) := by
  intro i c hc hb
  exact (RegInv.onFoldl evs {} (RegInv.init true) h).reg i c hc ((slot_true_iff c).2 hb)

/-- 4 + 5 : along a well-formed run, whatever happened before and however many other callers there are,
    the acknowledgement carrying a blocked call's own id completes it. -/
theorem own_ack_completes_run (evs : List Ev) (hwf : WFIds evs) (e : Ev) (i : Nat) (c : Call) (r : Ret)
    (hc : (run evs).calls[i]? = some c) (hslot : slot false c.phase = true) (hown : OwnAck c e r) :
    (run (evs ++ [e])).calls[i]? = some { c with phase := .returned r } := by
  rw [run_snoc]
  have hl := (Live.onRun evs).blk i c hc (slot_blocked hslot)
  exact own_ack_completes (run evs) e i c r hc (registered_of_wfids evs hwf i c hc hslot) hl.1 hl.2 hown

/-- a Boolean checker for `Fresh` / `WFIds`, so that concrete event lists can be checked by `decide` -/
def freshB (b : Bool) (s : St) (k : Kind) (id : Nat) : Bool :=
  s.calls.all fun c => !(blocked c && clash b c.kind c.id k id)

def wfFromB (b : Bool) (s : St) : List Ev → Bool
  | [] => true
  | e :: es => (match e with | .call k id => freshB b s k id | _ => true) && wfFromB b (step s e) es

theorem fresh_of_freshB {b : Bool} {s : St} {k : Kind} {id : Nat} (h : freshB b s k id = true) : Fresh b s k id := by
  intro j c hc hb
  have hmem : c ∈ s.calls := List.mem_of_getElem? hc
  have := List.all_eq_true.1 h c hmem
  simpa [hb] using this

theorem wfFrom_of_wfFromB {b : Bool} : ∀ (evs : List Ev) (s : St), wfFromB b s evs = true → WFFrom b s evs := by
  intro evs
  induction evs with
  | nil => intro s _; trivial
  | cons e es ih =>
    intro s h
    simp only [wfFromB, Bool.and_eq_true] at h
    refine ⟨?_, ih _ h.2⟩
    intro k id he
    subst he
    exact fresh_of_freshB h.1

theorem wfIds_of_check (evs : List Ev) (h : wfFromB false {} evs = true) : WFIds evs := wfFrom_of_wfFromB evs {} h
theorem wfAll_of_check (evs : List Ev) (h : wfFromB true {} evs = true) : WFAll evs := wfFrom_of_wfFromB evs {} h

/-! ### 6. the result of Subscribe -/

/-- SUBACK for a blocked Subscribe with `n` filters, registered under `id`: with `n` return codes the call
    returns them (in order); with any other number it fails with ErrInvalidSubAck and the connection ends. -/
theorem suback_result (s : St) (i n : Nat) (c : Call) (codes : List Nat)
    (hc : s.calls[i]? = some c) (hp : c.phase = .waitSubAck) (hk : c.kind = .sub n)
    (hreg : mapGet s.subAck c.id = some i) (hi : s.inited = true) (hd : s.doneClosed = false) :
    let s' := step s (.inb (.suback c.id codes))
    (codes.length = n → s'.calls[i]? = some { c with phase := .returned (.okSub codes) }) ∧
    (codes.length ≠ n → s'.calls[i]? = some { c with phase := .returned .invalidSubAck } ∧
        s'.doneClosed = true ∧ ∀ (j : Nat) (cj : Call), s'.calls[j]? = some cj → blocked cj = false) := by
  simp only [step]
  rw [inbound_suback hi hd hc c.id n codes hreg hp hk]
  constructor
  · intro hl
    rw [if_neg (by simp [hl]), setPhase_getElem?_self]; simp [hc]
  · intro hl
    rw [if_pos hl]
    refine ⟨?_, by simp, endNow_no_blocked _ _⟩
    rw [endNow_getElem?, setPhase_getElem?_self]
    simp [hc, release]

/-! ### Non-vacuity -/

/-- phases of all calls after a run -/
def phases (evs : List Ev) : List Phase := (run evs).calls.map (·.phase)

-- QoS 2 publish with id 6: a PUBACK 6, a PUBREC 9 and a PUBCOMP 6 arriving early do nothing;
-- PUBREC 6 advances it; only the final PUBCOMP 6 completes it.
example : phases [.call .connect 0, .inb (.connack false 0), .call .pub2 6, .inb (.puback 6), .inb (.pubrec 9),
    .inb (.pubcomp 6)] = [.returned .ok, .waitPubRec] := by decide
example : phases [.call .connect 0, .inb (.connack false 0), .call .pub2 6, .inb (.puback 6), .inb (.pubrec 9),
    .inb (.pubrec 6)] = [.returned .ok, .waitPubComp] := by decide
example : phases [.call .connect 0, .inb (.connack false 0), .call .pub2 6, .inb (.puback 6), .inb (.pubrec 9),
    .inb (.pubrec 6), .inb (.pubcomp 6)] = [.returned .ok, .returned .ok] := by decide
example : (run [.call .connect 0, .inb (.connack false 0), .call .pub2 6, .inb (.pubrec 6)]).writes =
    [.connect, .publish 2 6, .pubrel 6] := by decide

-- three concurrent callers answered in reverse order
example : phases [.call .connect 0, .inb (.connack false 0), .call .pub1 1, .call (.sub 2) 2, .call .unsub 3,
    .inb (.unsuback 3), .inb (.suback 2 [1, 0]), .inb (.puback 1)] =
    [.returned .ok, .returned .ok, .returned (.okSub [1, 0]), .returned .ok] := by decide
example : phases [.call .connect 0, .inb (.connack false 0), .call .pub1 1, .call (.sub 2) 2, .call .unsub 3,
    .inb (.unsuback 3)] = [.returned .ok, .waitPubAck, .waitSubAck, .returned .ok] := by decide

-- acknowledgements of the wrong kind for the same id do not complete a call
example : phases [.call .connect 0, .inb (.connack false 0), .call .pub1 5, .inb (.pubrec 5), .inb (.pubcomp 5),
    .inb (.suback 5 [0]), .inb (.unsuback 5), .inb .pingresp] = [.returned .ok, .waitPubAck] := by decide

-- inbound application messages complete nothing: PUBLISH 5 / PUBREL 5 against a QoS 2 publish with id 5 that
-- waits for PUBREC, then for PUBCOMP (the ids coincide, the flows are independent)
example : phases [.call .connect 0, .inb (.connack false 0), .call .pub2 5, .inb (.publish 1 5), .inb (.publish 2 5),
    .inb (.pubrel 5)] = [.returned .ok, .waitPubRec] := by decide
example : phases [.call .connect 0, .inb (.connack false 0), .call .pub2 5, .inb (.pubrec 5), .inb (.publish 2 5),
    .inb (.pubrel 5), .inb (.pubrel 5)] = [.returned .ok, .waitPubComp] := by decide
example : (run [.call .connect 0, .inb (.connack false 0), .call .pub2 5, .inb (.pubrec 5), .inb (.publish 2 5),
    .inb (.pubrel 5), .inb (.pubrel 5)]).writes = [.connect, .publish 2 5, .pubrel 5, .pubrec 5, .pubcomp 5] := by decide
-- ... and when the acknowledgement cannot be written the blocked call fails with ErrClosedTransport
example : phases [.call .connect 0, .inb (.connack false 0), .call .pub1 5, .writeFail true, .inb (.publish 1 5)] =
    [.returned .ok, .returned (.closed true)] := by decide

-- SUBACK with the wrong count: ErrInvalidSubAck, the connection ends and the other caller is released
example : phases [.call .connect 0, .inb (.connack false 0), .call (.sub 2) 4, .call .pub1 9, .inb (.suback 4 [0])] =
    [.returned .ok, .returned .invalidSubAck, .returned (.closed true)] := by decide
example : (run [.call .connect 0, .inb (.connack false 0), .call (.sub 2) 4, .inb (.suback 4 [0])]).doneClosed = true := by
  decide

-- `WFIds` is satisfiable: ids may be re-used once the earlier call has returned, and across kinds
example : WFIds [.call .connect 0, .inb (.connack false 0), .call .pub1 7, .call .pub2 7, .call (.sub 1) 7,
    .inb (.puback 7), .call .pub1 7, .cancel 2, .call .pub2 7] := wfIds_of_check _ (by decide)
example : WFAll [.call .connect 0, .inb (.connack false 0), .call .ping 0, .inb .pingresp, .call .ping 0] :=
  wfAll_of_check _ (by decide)
example : wfFromB false {} [.call .connect 0, .inb (.connack false 0), .call .pub1 7, .call .pub1 7] = false := by
  decide

-- why `WFIds` is needed: a second QoS 1 publish re-using id 7 while the first still waits steals the entry
example : phases [.call .connect 0, .inb (.connack false 0), .call .pub1 7, .call .pub1 7, .inb (.puback 7)] =
    [.returned .ok, .waitPubAck, .returned .ok] := by decide

end Mqtt.C07
