/-
  C13 / C18 (options): the keep-alive loop started by the reconnecting client always has a positive ping
  timeout, and the CONNECT exchange is bounded whenever any of the three knobs (WithTimeout,
  WithPingInterval, the KeepAlive connect option) is set — for ALL option values.
  Model: Model/ReconnOpts.lean (tied to reconnclient.go by the `ropts` correspondence stream, which reads the
  options of the real client after Connect through the hook VerifReconnOptions).
-/
import MqttVerif.Model.ReconnOpts

namespace Mqtt.C13.Opts
open Mqtt.ReconnOpts

/-- the defaults, spelled out: nothing set → both are the KeepAlive interval -/
theorem defaults (ka : Nat) : effective {} ka = { pingInterval := (ka : Int) * second, timeout := (ka : Int) * second } := by
  simp [effective]

/-- explicit settings win -/
theorem explicit (p t : Int) (hp : p ≠ 0) (ht : t ≠ 0) (ka : Nat) :
    effective { pingInterval := p, timeout := t } ka = { pingInterval := p, timeout := t } := by
  simp [effective, hp, ht]

/-- WithPingInterval alone: the ping timeout is the ping interval (never 0) -/
theorem ping_only (p : Int) (hp : p ≠ 0) (ka : Nat) :
    effective { pingInterval := p } ka = { pingInterval := p, timeout := p } := by
  simp [effective, hp]

/-- whenever the keep-alive loop runs, its ping timeout is not "expired at once": it is positive unless the
    application itself asked for a negative timeout -/
theorem ping_timeout_pos (o : Opts) (ka : Nat) (ht : 0 ≤ o.timeout)
    (hr : keepAliveRuns (effective o ka) = true) : 0 < (effective o ka).timeout := by
  by_cases h : o.timeout = 0 <;> by_cases h' : o.pingInterval = 0 <;>
    simp [keepAliveRuns, effective, h, h'] at hr ⊢ <;> omega

/-- the keep-alive loop runs iff a positive interval was configured one way or the other -/
theorem keepAlive_runs_iff (o : Opts) (ka : Nat) :
    keepAliveRuns (effective o ka) = true ↔ (0 < o.pingInterval ∨ (o.pingInterval = 0 ∧ 0 < ka)) := by
  by_cases h' : o.pingInterval = 0 <;> simp [keepAliveRuns, effective, second, h'] <;> omega

/-- CONNECT is unbounded only if nothing at all was configured -/
theorem connect_unbounded_iff (o : Opts) (ka : Nat) :
    connectBounded (effective o ka) = false ↔ (o.timeout = 0 ∧ o.pingInterval = 0 ∧ ka = 0) := by
  by_cases h : o.timeout = 0 <;> by_cases h' : o.pingInterval = 0 <;>
    simp [connectBounded, effective, second, h, h'] <;> omega

/-- applying the defaults twice changes nothing (Connect mutates the options it was given) -/
theorem effective_idem (o : Opts) (ka : Nat) : effective (effective o ka) ka = effective o ka := by
  by_cases h : o.timeout = 0 <;> by_cases h' : o.pingInterval = 0 <;>
    simp [effective, h, h'] <;> (try (intro h''; simp [h'']))

/-- non-vacuity: the configuration of the seeded change C16-D (ping interval set, nothing else) -/
example : effective { pingInterval := 25000000 } 0 = { pingInterval := 25000000, timeout := 25000000 } := by decide
example : keepAliveRuns (effective { pingInterval := 25000000 } 0) = true ∧ (0:Int) ≤ ({ pingInterval := 25000000 } : Opts).timeout := by decide

end Mqtt.C13.Opts
