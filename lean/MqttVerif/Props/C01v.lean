/-
  C01, the recorded exception (known finding `oversized-before-setclient`, D18): the full statement
  "every accepted QoS>=1 publish is eventually carried out" is FALSE of the code for a publish accepted
  before the first client is set whose payload reaches the later client's MaxPayloadLen. The negation is
  proved on a concrete witness; with a client already set the request is never accepted and dropped.
-/
import MqttVerif.Model.RetryValidate

namespace Mqtt.C01.Validate
open Mqtt.RetryValidate

def witness : Message := { topic := [98, 105, 103], id := 0, qos := 1, retain := false, dup := false, payload := List.replicate 20 0 }

/-- accepted (returned nil) before SetClient, dropped by the task once a client with MaxPayloadLen 10 is set -/
theorem oversized_before_setclient_counterexample :
    apiPublish none witness = .accepted ∧ taskPublish 10 witness = .dropped := by decide

/-- the exception needs the "no client yet" window: whenever a client with the same limit is already set,
    a message the task would drop is rejected by the API call itself -/
theorem never_accepted_and_dropped_with_client (max : Nat) (m : Message) :
    apiPublish (some max) m = .accepted → taskPublish max m = .transmittedOrQueued := by
  unfold apiPublish taskPublish
  cases h : validateMessage max m with
  | ok _ => simp
  | err e => intro h'; simp [h] at h'
  | panic => intro h'; simp [h] at h'

/-- and without a limit (MaxPayloadLen = 0) nothing with a valid QoS is ever dropped -/
theorem unlimited_never_drops (m : Message) (hq : m.qos ≤ 2) : taskPublish 0 m = .transmittedOrQueued := by
  unfold taskPublish validateMessage
  have : ¬ m.qos > 2 := by omega
  simp [this]

end Mqtt.C01.Validate
