/- C05, tie to the source: the constants and the shape of `remainingLength` used by the model are the ones in the Go files today (Generated/Facts.lean is regenerated on every run). -/
import MqttVerif.Proofs.FactsTie
namespace Mqtt.C05.Tie
open Mqtt.FactsTie

theorem packet_constants :
    agrees Generated.packetConnect packetConnect ∧ agrees Generated.packetConnAck packetConnAck ∧
    agrees Generated.packetPublish packetPublish ∧ agrees Generated.packetPubAck packetPubAck ∧
    agrees Generated.packetPubRec packetPubRec ∧ agrees Generated.packetPubRel packetPubRel ∧
    agrees Generated.packetPubComp packetPubComp ∧ agrees Generated.packetSubscribe packetSubscribe ∧
    agrees Generated.packetSubAck packetSubAck ∧ agrees Generated.packetUnsubscribe packetUnsubscribe ∧
    agrees Generated.packetUnsubAck packetUnsubAck ∧ agrees Generated.packetPingReq packetPingReq ∧
    agrees Generated.packetPingResp packetPingResp ∧ agrees Generated.packetDisconnect packetDisconnect ∧
    agrees Generated.packetFromClient packetFromClient := by decide

theorem flag_constants :
    agrees Generated.publishFlagRetain publishFlagRetain ∧ agrees Generated.publishFlagQoS1 publishFlagQoS1 ∧
    agrees Generated.publishFlagQoS2 publishFlagQoS2 ∧ agrees Generated.publishFlagQoSMask publishFlagQoSMask ∧
    agrees Generated.publishFlagDup publishFlagDup ∧
    agrees Generated.connectFlagCleanSession connectFlagCleanSession ∧ agrees Generated.connectFlagWill connectFlagWill ∧
    agrees Generated.connectFlagWillQoS1 connectFlagWillQoS1 ∧ agrees Generated.connectFlagWillQoS2 connectFlagWillQoS2 ∧
    agrees Generated.connectFlagWillRetain connectFlagWillRetain ∧ agrees Generated.connectFlagPassword connectFlagPassword ∧
    agrees Generated.connectFlagUserName connectFlagUserName ∧
    agrees Generated.subscribeFlagQoS1 1 ∧ agrees Generated.subscribeFlagQoS2 2 ∧ agrees Generated.protocolLevel4 4 := by decide

theorem remaining_length_shape :
    agreesL Generated.rlThresholds [rlMax1, rlMax2, rlMax3, rlMax4] ∧ agreesL Generated.rlShifts [7, 14, 21] := by decide

end Mqtt.C05.Tie
