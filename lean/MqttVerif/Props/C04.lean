/-
  C04 — Inbound QoS 0/1/2 flows.
  For every sequence of PUBLISH (QoS 0/1/2, any identifier, any dup flag) and PUBREL (known and unknown
  identifiers) packets a broker sends on a connection, with and without a registered handler:
    A. the reader loop at message level (`runIn`, Model/Inbound.lean) produces exactly the timeline
       that the declarative MQTT 3.1.1 §4.3 receiver rules (`Spec.timeline`, Spec/InboundSpec.lean)
       prescribe;
    B. the rules imply the delivery guarantees of the property text (each stated on `Spec.timeline`
       / `Spec.eventAt`, hence by A on the model);
    C. the byte-level reader loop (`serveStep` / `serveStream`, Model/Parse.lean) on the wire encoding
       of such a sequence is the message-level model, hence produces the same timeline.
  Property theorems only; helper lemmas live in Proofs/Inbound.lean.

  "QoS 2" in the observers below is `2 ≤ m.qos`, which is how both the Go code (`else` branch after
  QoS 0 and QoS 1) and `Spec.releasable` classify; for well-formed packets (`InPkt.WF`) it is
  `m.qos = 2`.
-/
import MqttVerif.Proofs.Inbound

namespace Mqtt.C04

open Spec

/-! ## A. the model refines the declarative rules -/

/-- Without any hypothesis on the packets: the model and the rules agree on every sequence. -/
theorem refines_any (handler : Bool) (ps : List InPkt) :
    ∃ sb, runIn handler [] ps = some (sb, Spec.timeline handler ps) := by
  obtain ⟨sb, h, _⟩ := runIn_spec handler ps [] [] bufInv_nil
  exact ⟨sb, h⟩

/-- Main refinement theorem, as stated in the property (the well-formedness hypothesis is not
    needed: see `refines_any`). -/
theorem refines (handler : Bool) (ps : List InPkt) (_wf : ∀ p ∈ ps, p.WF) :
    ∃ sb, runIn handler [] ps = some (sb, Spec.timeline handler ps) :=
  refines_any handler ps

/-- The generalisation that is proved by induction: from any buffer that agrees with the rules on
    the packets received so far, the model emits the rest of the timeline and ends in a buffer that
    again agrees with the rules. -/
theorem refines_from (handler : Bool) (sb : SubBuffer) (rp ps : List InPkt)
    (inv : ∀ id, sb.find id = Spec.releasable id rp) :
    ∃ sb', runIn handler sb ps = some (sb', Spec.timelineFrom handler rp ps) ∧
      ∀ id, sb'.find id = Spec.releasable id (ps.reverse ++ rp) :=
  runIn_spec handler ps sb rp inv

/-- One iteration: the model emits exactly the events the rules prescribe at this position. -/
theorem step_refines (handler : Bool) (sb : SubBuffer) (rp : List InPkt) (p : InPkt)
    (inv : ∀ id, sb.find id = Spec.releasable id rp) :
    ∃ sb', inStep sb handler p = .ok (sb', Spec.eventAt handler rp p) ∧
      ∀ id, sb'.find id = Spec.releasable id (p :: rp) :=
  inStep_spec sb rp handler p inv

/-- the acknowledgements the model writes are the standard's four-byte packets -/
theorem acks (id : Nat) :
    packPubAck id = .ok (Spec.ackBytes 0x40 id) ∧ packPubRec id = .ok (Spec.ackBytes 0x50 id) ∧
    packPubComp id = .ok (Spec.ackBytes 0x70 id) :=
  ⟨packPubAck_eq id, packPubRec_eq id, packPubComp_eq id⟩

/-! ### non-vacuity: a concrete sequence -/

/-- "t", payload 01 -/
def msg (id qos : Nat) (dup : Bool) : Message :=
  { topic := [0x74], id, qos, retain := false, dup, payload := [1] }

/-- QoS 1 id 7; QoS 2 id 9; the same QoS 2 id 9 retransmitted with dup; PUBREL 9; PUBREL 9 again;
    PUBREL 5 (unknown) -/
def sample : List InPkt :=
  [.publish (msg 7 1 false), .publish (msg 9 2 false), .publish (msg 9 2 true),
   .pubrel 9, .pubrel 9, .pubrel 5]

example : ∀ p ∈ sample, p.WF := by decide

/-- hand-over then PUBACK 7; PUBREC 9; PUBREC 9; hand-over of the retransmission then PUBCOMP 9;
    nothing for the repeated PUBREL; nothing for the unknown PUBREL -/
example : Spec.timeline true sample =
    [.handOver (msg 7 1 false), .write [0x40, 2, 0, 7],
     .write [0x50, 2, 0, 9],
     .write [0x50, 2, 0, 9],
     .handOver (msg 9 2 true), .write [0x70, 2, 0, 9]] := by decide

example : runIn true [] sample = some ([], Spec.timeline true sample) := by decide

example : runIn false [] sample =
    some ([], [.write [0x40, 2, 0, 7], .write [0x50, 2, 0, 9], .write [0x50, 2, 0, 9],
               .write [0x70, 2, 0, 9]]) := by decide

/-- a sequence that ends with a QoS 2 message still waiting for its PUBREL -/
example : runIn true [] [.publish (msg 9 2 false)] =
    some ([(9, msg 9 2 false)], [.write [0x50, 2, 0, 9]]) := by decide

/-! ## B. what the rules guarantee -/

/-- splitting the received sequence: the timeline of the first part does not depend on what
    follows, and the rest continues from the reversed first part -/
theorem timeline_append (h : Bool) (a b : List InPkt) :
    Spec.timeline h (a ++ b) = Spec.timeline h a ++ Spec.timelineFrom h a.reverse b := by
  simpa [timeline] using timelineFrom_append h a b []

/-- Each QoS 0 and QoS 1 PUBLISH is handed to the handler exactly once, in arrival order: the
    hand-overs of QoS 0/1 messages in the timeline are the QoS 0/1 messages of the sequence. -/
theorem qos01_once_in_order (ps : List InPkt) :
    (Spec.timeline true ps).filterMap Out.ho01 = ps.filterMap InPkt.pub01 :=
  timelineFrom_ho01 ps []

/-- At a QoS 1 PUBLISH: hand-over, then the PUBACK with its identifier. -/
theorem puback_event (rp : List InPkt) (m : Message) (hq : m.qos = 1) :
    Spec.eventAt true rp (.publish m) = [.handOver m, .write (Spec.ackBytes 0x40 m.id)] := by
  simp [eventAt, hq]

/-- Each QoS 1 PUBLISH is answered by exactly one PUBACK with its identifier, placed immediately
    after (never before) the hand-over of that message. -/
theorem puback_after_handler (pre post : List InPkt) (m : Message) (hq : m.qos = 1) :
    Spec.timeline true (pre ++ [.publish m] ++ post) =
      Spec.timeline true pre ++ [.handOver m, .write (Spec.ackBytes 0x40 m.id)] ++
        Spec.timelineFrom true (.publish m :: pre.reverse) post := by
  rw [timeline_append, timeline_append]
  simp [timelineFrom, puback_event _ m hq]

/-- At a QoS 0 PUBLISH: the hand-over and nothing else. -/
theorem qos0_event (rp : List InPkt) (m : Message) (hq : m.qos = 0) :
    Spec.eventAt true rp (.publish m) = [.handOver m] := by
  simp [eventAt, hq]

/-- A QoS 2 PUBLISH is answered by PUBREC and hands nothing over at its own position. -/
theorem qos2_not_before_pubrel (h : Bool) (rp : List InPkt) (m : Message) (hq : m.qos = 2) :
    Spec.eventAt h rp (.publish m) = [.write (Spec.ackBytes 0x50 m.id)] := by
  simp [eventAt, hq]

/-- the same on the whole timeline -/
theorem qos2_timeline (h : Bool) (pre post : List InPkt) (m : Message) (hq : m.qos = 2) :
    Spec.timeline h (pre ++ [.publish m] ++ post) =
      Spec.timeline h pre ++ [.write (Spec.ackBytes 0x50 m.id)] ++
        Spec.timelineFrom h (.publish m :: pre.reverse) post := by
  rw [timeline_append, timeline_append]
  simp [timelineFrom, qos2_not_before_pubrel h _ m hq]

/-- The message is handed over when the matching PUBREL arrives, that PUBREL being answered by
    PUBCOMP: `mid` is what arrived between the PUBLISH and its PUBREL. -/
theorem pubrel_releases (rp mid : List InPkt) (m : Message) (id : Nat)
    (hq : 2 ≤ m.qos) (hid : m.id = id) (hrel : .pubrel id ∉ mid)
    (hpub : ∀ m', .publish m' ∈ mid → 2 ≤ m'.qos → m'.id ≠ id) :
    Spec.eventAt true (mid ++ .publish m :: rp) (.pubrel id) =
      [.handOver m, .write (Spec.ackBytes 0x70 id)] := by
  simp [eventAt, releasable_latest id mid rp m hq hid hrel hpub]

/-- what a PUBREL hands over is a QoS 2 PUBLISH received earlier under that identifier -/
theorem pubrel_handover_origin (h : Bool) (rp : List InPkt) (id : Nat) (m : Message)
    (hm : .handOver m ∈ Spec.eventAt h rp (.pubrel id)) :
    2 ≤ m.qos ∧ m.id = id ∧ .publish m ∈ rp := by
  cases hf : releasable id rp with
  | none => simp [eventAt, hf] at hm
  | some m' =>
    cases h <;> simp [eventAt, hf] at hm
    subst hm
    exact releasable_some hf

/-- A repeated PUBREL releases nothing: directly after a PUBREL `id` … -/
theorem pubrel_releases_once_adjacent (id : Nat) (rp : List InPkt) :
    Spec.releasable id (.pubrel id :: rp) = none := by
  simp [releasable]

/-- … and more generally as long as no QoS 2 PUBLISH with that identifier arrived in between. -/
theorem pubrel_releases_once (id : Nat) (mid rp : List InPkt)
    (hmid : ∀ m, .publish m ∈ mid → 2 ≤ m.qos → m.id ≠ id) :
    Spec.releasable id (mid ++ .pubrel id :: rp) = none :=
  releasable_after_pubrel id mid rp hmid

/-- the same for well-formed packets, with "QoS 2" read as `m.qos = 2` -/
theorem pubrel_releases_once_wf (id : Nat) (mid rp : List InPkt) (wf : ∀ p ∈ mid, p.WF)
    (hmid : ∀ m, .publish m ∈ mid → m.qos = 2 → m.id ≠ id) :
    Spec.releasable id (mid ++ .pubrel id :: rp) = none := by
  refine releasable_after_pubrel id mid rp (fun m hm h2 => hmid m hm ?_)
  have := (wf _ hm).1
  omega

/-- hence the repeated PUBREL causes no event at all: no second hand-over, no PUBCOMP -/
theorem repeated_pubrel_silent (h : Bool) (id : Nat) (mid rp : List InPkt)
    (hmid : ∀ m, .publish m ∈ mid → 2 ≤ m.qos → m.id ≠ id) :
    Spec.eventAt h (mid ++ .pubrel id :: rp) (.pubrel id) = [] := by
  simp [eventAt, releasable_after_pubrel id mid rp hmid]

/-- a PUBREL with an identifier never seen in a QoS 2 PUBLISH causes no event -/
theorem unknown_pubrel_silent (h : Bool) (id : Nat) (rp : List InPkt)
    (hrp : ∀ m, .publish m ∈ rp → 2 ≤ m.qos → m.id ≠ id) :
    Spec.eventAt h rp (.pubrel id) = [] := by
  cases hf : releasable id rp with
  | none => simp [eventAt, hf]
  | some m =>
    have := releasable_some hf
    exact absurd this.2.1 (hrp m this.2.2 this.1)

/-- A retransmitted QoS 2 PUBLISH (same identifier, before the PUBREL) does not cause a second
    hand-over. First half: at the PUBREL exactly one message is handed over, the latest. -/
theorem dup_publish_single_handover (pre mid : List InPkt) (m1 m2 : Message) (id : Nat)
    (_q1 : m1.qos = 2) (q2 : m2.qos = 2) (_i1 : m1.id = id) (i2 : m2.id = id) :
    Spec.eventAt true (pre ++ [InPkt.publish m1] ++ mid ++ [InPkt.publish m2]).reverse (.pubrel id) =
      [.handOver m2, .write (Spec.ackBytes 0x70 id)] := by
  have := pubrel_releases (mid.reverse ++ .publish m1 :: pre.reverse) [] m2 id (by omega) i2
    (by simp) (by simp)
  simpa using this

/-- Second half: over the whole exchange PUBLISH, …, PUBLISH (retransmission), PUBREL — with no
    PUBREL `id` among the packets in between — the hand-overs of QoS 2 messages with that identifier
    are exactly one, of the retransmission; neither PUBLISH position hands anything over. -/
theorem dup_publish_single_handover_timeline (pre mid : List InPkt) (m1 m2 : Message) (id : Nat)
    (q1 : m1.qos = 2) (q2 : m2.qos = 2) (i1 : m1.id = id) (i2 : m2.id = id)
    (hmid : .pubrel id ∉ mid) :
    (Spec.timelineFrom true pre.reverse ([.publish m1] ++ mid ++ [.publish m2] ++ [.pubrel id])).filter
        (Out.isHo2Id id) = [.handOver m2] := by
  have hc := timelineFrom_countHo2Id_le true id mid (.publish m1 :: pre.reverse)
  rw [List.count_eq_zero_of_not_mem hmid, Nat.le_zero, List.countP_eq_zero] at hc
  have hf : (timelineFrom true (.publish m1 :: pre.reverse) mid).filter (Out.isHo2Id id) = [] :=
    List.filter_eq_nil_iff.2 hc
  have he := dup_publish_single_handover pre mid m1 m2 id q1 q2 i1 i2
  rw [timelineFrom_append, timelineFrom_append, timelineFrom_append]
  simp only [timelineFrom_singleton, qos2_not_before_pubrel true _ m1 q1,
    qos2_not_before_pubrel true _ m2 q2]
  simp only [List.reverse_append, List.reverse_cons, List.reverse_nil, List.nil_append,
    List.cons_append, List.append_assoc] at he ⊢
  rw [he]
  simp [hf, q2, i2]

/-- each PUBREL hands over at most one message -/
theorem pubrel_at_most_one_handover (h : Bool) (rp : List InPkt) (id : Nat) :
    (Spec.eventAt h rp (.pubrel id)).countP Out.isHandOver ≤ 1 := by
  cases hf : releasable id rp with
  | none => simp [eventAt, hf]
  | some m => cases h <;> simp [eventAt, hf, List.countP_cons]

/-- No QoS 2 message is handed over twice: the hand-overs of QoS 2 messages number at most the
    PUBREL packets and at most the QoS 2 PUBLISH packets received. -/
theorem handover_count_qos2 (ps : List InPkt) :
    (Spec.timeline true ps).countP Out.isHo2 ≤ ps.countP InPkt.isPubrel ∧
    (Spec.timeline true ps).countP Out.isHo2 ≤ ps.countP InPkt.isPub2 :=
  ⟨timelineFrom_countHo2_le_pubrel true ps [], timeline_countHo2_le_pub2 true ps⟩

/-- per identifier: at most as many hand-overs of QoS 2 messages `id` as PUBREL `id` packets -/
theorem handover_count_qos2_id (id : Nat) (ps : List InPkt) :
    (Spec.timeline true ps).countP (Out.isHo2Id id) ≤ ps.count (.pubrel id) :=
  timelineFrom_countHo2Id_le true id ps []

/-- Without a handler the same acknowledgements are written, in the same order, and nothing is
    handed over: the handler-less timeline is the `write` events of the timeline with handler. -/
theorem no_handler_timeline (ps : List InPkt) :
    Spec.timeline false ps = (Spec.timeline true ps).filter Out.isWrite :=
  timelineFrom_false ps []

theorem no_handler_same_acks (ps : List InPkt) :
    (Spec.timeline false ps).filter Out.isWrite = (Spec.timeline true ps).filter Out.isWrite ∧
    ∀ o ∈ Spec.timeline false ps, Out.isHandOver o = false := by
  rw [no_handler_timeline]
  refine ⟨by simp, fun o ho => ?_⟩
  have := (List.mem_filter.1 ho).2
  cases o <;> simp_all [Out.isWrite, Out.isHandOver]

-- non-vacuity of the observers on the sample sequence
example : (Spec.timeline true sample).filterMap Out.ho01 = [msg 7 1 false] := by decide
example : (Spec.timeline true sample).countP Out.isHo2 = 1 ∧ sample.countP InPkt.isPubrel = 3 ∧
    sample.countP InPkt.isPub2 = 2 := by decide
example : (Spec.timeline true sample).filter (Out.isHo2Id 9) = [.handOver (msg 9 2 true)] := by decide

/-! ## C. the byte-level reader loop on the wire encoding is the message-level model -/

/-- ASCII topics without NUL satisfy `TopicOk` -/
theorem topicOk_ascii (t : Bytes) (hl : t.length ≤ 65535) (h : ∀ b ∈ t, 0 < b ∧ b < 128) :
    TopicOk t :=
  Mqtt.topicOk_ascii t hl h

/-- `readPacket` undoes `pack`: header nibbles, body, and the following bytes untouched -/
theorem readPacket_pack (t : Nat) (cs : List Bytes) (hl : cs.flatten.length ≤ 268435455) :
    ∃ bs, pack t cs = .ok bs ∧ ∀ rest, (readPacket (bs ++ rest)).res =
      .ok ({ ptype := t &&& 0xF0, flag := t &&& 0x0F, contents := cs.flatten }, rest) :=
  readPacket_frame t cs hl

/-- A well-formed PUBLISH survives encoding by `packPublish`, framing by `readPacket` and parsing
    by `parsePublish` unchanged (QoS 0: the identifier is not transmitted and parses as 0, hence
    `m.qos = 0 → m.id = 0` in `WF`). -/
theorem parse_publish_roundtrip (m : Message) (wf : (InPkt.publish m).WF) (ht : TopicOk m.topic)
    (hb : (publishBody m).length ≤ 268435455) :
    ∃ bs, packPublish m = .ok bs ∧ ∀ rest, ∃ p, (readPacket (bs ++ rest)).res = .ok (p, rest) ∧
      p.ptype = packetPublish ∧ parsePublish p.flag p.contents = .ok m :=
  publish_roundtrip_frame m wf ht hb

theorem parse_pubrel_roundtrip (id : Nat) (hid : id < 65536) :
    ∃ bs, packPubRel id = .ok bs ∧ ∀ rest, ∃ p, (readPacket (bs ++ rest)).res = .ok (p, rest) ∧
      p.ptype = packetPubRel ∧ parseIdOnly 2 p.flag p.contents = .ok id :=
  pubrel_roundtrip_frame id hid

/-- One iteration of the Go reader loop on the wire encoding of a packet is `inStep`, whatever the
    buffer and whatever follows on the stream. -/
theorem serveStep_encoded (sb : SubBuffer) (handler : Bool) (pk : InPkt) (wf : pk.WF)
    (ht : ∀ m, pk = .publish m → TopicOk m.topic ∧ (publishBody m).length ≤ 268435455) :
    ∃ bs, encodeIn pk = .ok bs ∧ ∀ rest, ∃ p, (readPacket (bs ++ rest)).res = .ok (p, rest) ∧
      serveStep sb handler p = inStep sb handler pk := by
  refine Mqtt.serveStep_encoded sb handler pk wf ?_
  cases pk with
  | publish m => exact ht m rfl
  | pubrel id => trivial

/-- The whole reader loop on the concatenated wire encodings of any well-formed sequence: the
    encoders succeed, the loop emits exactly the declarative timeline, processes every packet, and
    ends with EOF after the last one. -/
theorem serveStream_refines (handler : Bool) (ps : List InPkt) (wf : ∀ p ∈ ps, p.WF)
    (ht : ∀ m, .publish m ∈ ps → TopicOk m.topic ∧ (publishBody m).length ≤ 268435455) :
    ∃ bs, encodeStream ps = .ok bs ∧
      (serveStream [] handler bs).outs = Spec.timeline handler ps ∧
      (serveStream [] handler bs).outcome = .err .eof ∧
      (serveStream [] handler bs).processed = ps.length := by
  refine serveStream_spec handler ps wf (fun p hp => ?_) [] [] bufInv_nil
  cases p with
  | publish m => exact ht m hp
  | pubrel id => trivial

/-- … and from any buffer that agrees with the rules on what was received before -/
theorem serveStream_refines_from (handler : Bool) (sb : SubBuffer) (rp ps : List InPkt)
    (inv : ∀ id, sb.find id = Spec.releasable id rp) (wf : ∀ p ∈ ps, p.WF)
    (he : ∀ p ∈ ps, p.Encodable) :
    ∃ bs, encodeStream ps = .ok bs ∧
      (serveStream sb handler bs).outs = Spec.timelineFrom handler rp ps ∧
      (serveStream sb handler bs).outcome = .err .eof ∧
      (serveStream sb handler bs).processed = ps.length :=
  serveStream_spec handler ps wf he sb rp inv

/-! ### non-vacuity: the sample sequence on the wire -/

def sampleBytes : Bytes :=
  [0x32, 6, 0, 1, 0x74, 0, 7, 1,   0x34, 6, 0, 1, 0x74, 0, 9, 1,   0x3C, 6, 0, 1, 0x74, 0, 9, 1,
   0x62, 2, 0, 9,   0x62, 2, 0, 9,   0x62, 2, 0, 5]

example : TopicOk [0x74] := by decide
example : ∀ p ∈ sample, p.Encodable := by decide
example : encodeStream sample = .ok sampleBytes := by decide

example :
    let run := serveStream [] true sampleBytes
    run.outs = Spec.timeline true sample ∧ run.outcome = .err .eof ∧ run.processed = 6 := by
  decide

example : (serveStream [] false sampleBytes).outs = Spec.timeline false sample := by decide

/-- the same stream with the last PUBREL cut short: the five complete packets are processed
    as before, then the link ends -/
example :
    let run := serveStream [] true (sampleBytes.take 35)
    run.processed = 5 ∧ run.outcome = .err .unexpectedEOF ∧ run.outs = Spec.timeline true sample := by
  decide

/-- a QoS 0 PUBLISH on the wire carries no identifier and parses with id 0 -/
example : packPublish (msg 0 0 false) = .ok [0x30, 4, 0, 1, 0x74, 1] ∧
    parsePublish 0 [0, 1, 0x74, 1] = .ok (msg 0 0 false) := by decide

end Mqtt.C04
