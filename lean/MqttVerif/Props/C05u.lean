/-
  C05, inbound half, UTF-8 — the hypothesis `TopicOk` of "an inbound PUBLISH is delivered with exactly
  the encoded topic" (C04/C05) holds for EVERY well-formed UTF-8 string without U+0000, not only for
  ASCII. Well-formedness is the Unicode 15 Table 3-7 definition of `Spec/Utf8Spec.lean`; the model of
  Go's `[]rune(string(b))` / `string(rs)` is `Model/Utf8.lean`.

    * `decodeRune_wf`             one well-formed sequence decodes to its scalar value with its full
                                  width, and encodes back to itself
    * `decode_encode_wellformed`  `string([]rune(t)) = t`
    * `no_bad_rune_wellformed`    no U+0000 / surrogate among the runes
    * `topicOk_wellformed`        hence `TopicOk t`
    * `unpackString_wellformed`   the topic is delivered byte for byte
    * `nul_rejected`              a topic containing U+0000 ends the link with `invalidRune`
    * `topicOk_iff_wellformed`    conversely, nothing but well-formed UTF-8 survives the round trip
  Recorded observation: ill-formed input is not rejected but rewritten (U+FFFD per offending byte).
-/
import MqttVerif.Proofs.Utf8
import MqttVerif.Proofs.Inbound

namespace Mqtt.C05.Utf8

open Mqtt.Spec Mqtt.Utf8

/-- one well-formed sequence at the front of any input: the model reads exactly that sequence, as the
    scalar value the Unicode bit layout assigns, and writes that scalar value back as the same bytes;
    the value is a Unicode scalar value (≤ U+10FFFF, no surrogate) and is U+0000 only for `[0]` -/
theorem decodeRune_wf (s rest : Bytes) (h : WFSeq s) :
    decodeRune (s ++ rest) = (scalarOf s, s.length) ∧ encodeRune (scalarOf s) = s ∧
      scalarOf s ≤ 0x10FFFF ∧ ¬ (0xD800 ≤ scalarOf s ∧ scalarOf s ≤ 0xDFFF) ∧
      (scalarOf s = 0 ↔ s = [0]) :=
  ⟨decodeRune_scalarOf s rest h, encodeRune_scalarOf s h, (scalarOf_isScalar s h).1,
    (scalarOf_isScalar s h).2, scalarOf_eq_zero s h⟩

/-- `string([]rune(t)) = t` for every well-formed UTF-8 string -/
theorem decode_encode_wellformed (t : Bytes) (h : WellFormed t) : encodeRunes (decodeRunes t) = t := by
  induction h with
  | nil => rfl
  | cons s rest hs _ ih =>
    rw [decodeRunes_append s rest hs, encodeRunes_cons, encodeRune_scalarOf s hs, ih]

/-- no rune of a well-formed string without NUL bytes is U+0000 or a surrogate -/
theorem no_bad_rune_wellformed (t : Bytes) (h : WellFormed t) (h0 : 0 ∉ t) :
    (decodeRunes t).any badRune = false := by
  rw [List.any_eq_false]
  intro r hr
  obtain ⟨⟨_, hs⟩, hz⟩ := decodeRunes_wellFormed_mem t h r hr
  have h1 : ¬ r = 0 := fun e => h0 (hz e)
  simp only [badRune, Bool.or_eq_true, decide_eq_true_eq, Bool.and_eq_true, not_or]
  exact ⟨h1, hs⟩

/-- the hypothesis of the C04/C05 inbound theorems, discharged -/
theorem topicOk_wellformed (t : Bytes) (h : WellFormed t) (h0 : 0 ∉ t) (hl : t.length ≤ 65535) :
    TopicOk t :=
  ⟨hl, by simp [no_bad_rune_wellformed t h h0], decode_encode_wellformed t h⟩

/-- a length-prefixed well-formed topic without U+0000 is delivered byte for byte -/
theorem unpackString_wellformed (t rest : Bytes) (h : WellFormed t) (h0 : 0 ∉ t)
    (hl : t.length ≤ 65535) :
    unpackString ([t.length / 256, t.length % 256] ++ t ++ rest) = .ok (t.length + 2, t) := by
  have := unpackString_lp t rest (topicOk_wellformed t h h0 hl)
  rw [u16be_cons, show t.length / 256 % 256 = t.length / 256 by omega] at this
  simpa using this

/-- U+0000 in the topic: `unpackString` fails with `invalidRune` (and `serve` ends the link) -/
theorem nul_rejected (t rest : Bytes) (_h : WellFormed t) (h0 : 0 ∈ t) (hl : t.length ≤ 65535) :
    unpackString ([t.length / 256, t.length % 256] ++ t ++ rest) = .err .invalidRune := by
  have hz : (decodeRunes t).any badRune = true :=
    List.any_eq_true.2 ⟨0, decodeRunes_zero h0, by simp [badRune]⟩
  have e : [t.length / 256, t.length % 256] ++ t ++ rest =
      (t.length / 256 % 256) :: (t.length % 256) :: (t ++ rest) := by
    rw [show t.length / 256 % 256 = t.length / 256 by omega]; simp
  rw [e, unpackString_cons, be16_u16 _ (by omega)]
  have h1 : ¬ t.length > (t ++ rest).length := by simp only [List.length_append]; omega
  rw [if_neg h1, List.take_left, hz]
  rfl

/-- the inbound C05 theorem with the topic hypothesis discharged: a PUBLISH whose topic is any
    well-formed UTF-8 string without U+0000 is parsed back to exactly the message that was encoded -/
theorem inbound_publish_delivered_exactly_utf8 (m : Message) (wf : (InPkt.publish m).WF)
    (ht : WellFormed m.topic) (h0 : 0 ∉ m.topic) (hl : m.topic.length ≤ 65535)
    (hb : (publishBody m).length ≤ 268435455) :
    ∃ bs, packPublish m = .ok bs ∧ ∀ rest, ∃ p, (readPacket (bs ++ rest)).res = .ok (p, rest) ∧
      p.ptype = packetPublish ∧ parsePublish p.flag p.contents = .ok m :=
  publish_roundtrip_frame m wf (topicOk_wellformed _ ht h0 hl) hb

/-! ### the converse: the model accepts nothing else as-is

  Not asked for by C05 itself, but it closes the comparison of the model with Table 3-7 in the other
  direction: a byte string that comes out of Go's `string([]rune(·))` unchanged is well-formed UTF-8,
  so `TopicOk` is exactly "well-formed, no U+0000, at most 65535 bytes". -/

theorem wellformed_of_decode_encode (t : Bytes) (h : encodeRunes (decodeRunes t) = t) : WellFormed t :=
  wellFormed_of_roundtrip t.length t (Nat.le_refl _) h

theorem topicOk_iff_wellformed (t : Bytes) :
    TopicOk t ↔ WellFormed t ∧ 0 ∉ t ∧ t.length ≤ 65535 := by
  refine ⟨fun ⟨hl, hbad, henc⟩ => ⟨wellformed_of_decode_encode t henc, fun h0 => hbad ?_, hl⟩,
    fun ⟨h, h0, hl⟩ => topicOk_wellformed t h h0 hl⟩
  exact List.any_eq_true.2 ⟨0, decodeRunes_zero h0, by simp [badRune]⟩

/-! ### non-vacuity -/

/-- é = C3 A9 -/
example : WFSeq [0xC3, 0xA9] := .two _ _ (by decide) (by decide) (by decide)
example : scalarOf [0xC3, 0xA9] = 0xE9 := by decide
example : decodeRunes [0xC3, 0xA9] = [0xE9] := by decide
example : TopicOk [0xC3, 0xA9] := by decide
/-- 日 = E6 97 A5 -/
example : WFSeq [0xE6, 0x97, 0xA5] := .three _ _ _ (by decide) (by decide)
example : scalarOf [0xE6, 0x97, 0xA5] = 0x65E5 := by decide
example : decodeRunes [0xE6, 0x97, 0xA5] = [0x65E5] := by decide
example : TopicOk [0xE6, 0x97, 0xA5] := by decide
/-- 😀 = F0 9F 98 80 -/
example : WFSeq [0xF0, 0x9F, 0x98, 0x80] := .four _ _ _ _ (by decide) (by decide) (by decide)
example : scalarOf [0xF0, 0x9F, 0x98, 0x80] = 0x1F600 := by decide
example : decodeRunes [0xF0, 0x9F, 0x98, 0x80] = [0x1F600] := by decide
example : TopicOk [0xF0, 0x9F, 0x98, 0x80] := by decide

/-- the boundary sequences of Table 3-7 -/
example : WFSeq [0xE0, 0xA0, 0x80] ∧ scalarOf [0xE0, 0xA0, 0x80] = 0x800 ∧
    decodeRunes [0xE0, 0xA0, 0x80] = [0x800] ∧ TopicOk [0xE0, 0xA0, 0x80] :=
  ⟨.three _ _ _ (by decide) (by decide), by decide, by decide, by decide⟩
example : WFSeq [0xED, 0x9F, 0xBF] ∧ scalarOf [0xED, 0x9F, 0xBF] = 0xD7FF ∧
    decodeRunes [0xED, 0x9F, 0xBF] = [0xD7FF] ∧ TopicOk [0xED, 0x9F, 0xBF] :=
  ⟨.three _ _ _ (by decide) (by decide), by decide, by decide, by decide⟩
example : WFSeq [0xEE, 0x80, 0x80] ∧ scalarOf [0xEE, 0x80, 0x80] = 0xE000 ∧
    decodeRunes [0xEE, 0x80, 0x80] = [0xE000] ∧ TopicOk [0xEE, 0x80, 0x80] :=
  ⟨.three _ _ _ (by decide) (by decide), by decide, by decide, by decide⟩
example : WFSeq [0xF0, 0x90, 0x80, 0x80] ∧ scalarOf [0xF0, 0x90, 0x80, 0x80] = 0x10000 ∧
    decodeRunes [0xF0, 0x90, 0x80, 0x80] = [0x10000] ∧ TopicOk [0xF0, 0x90, 0x80, 0x80] :=
  ⟨.four _ _ _ _ (by decide) (by decide) (by decide), by decide, by decide, by decide⟩
example : WFSeq [0xF4, 0x8F, 0xBF, 0xBF] ∧ scalarOf [0xF4, 0x8F, 0xBF, 0xBF] = 0x10FFFF ∧
    decodeRunes [0xF4, 0x8F, 0xBF, 0xBF] = [0x10FFFF] ∧ TopicOk [0xF4, 0x8F, 0xBF, 0xBF] :=
  ⟨.four _ _ _ _ (by decide) (by decide) (by decide), by decide, by decide, by decide⟩

/-- a mixed string "a/é/日/😀", through the theorems and by evaluation -/
example : WellFormed [0x61, 0x2F, 0xC3, 0xA9, 0x2F, 0xE6, 0x97, 0xA5, 0x2F, 0xF0, 0x9F, 0x98, 0x80] :=
  .cons [0x61] _ (.one _ (by decide)) <| .cons [0x2F] _ (.one _ (by decide)) <|
  .cons [0xC3, 0xA9] _ (.two _ _ (by decide) (by decide) (by decide)) <|
  .cons [0x2F] _ (.one _ (by decide)) <|
  .cons [0xE6, 0x97, 0xA5] _ (.three _ _ _ (by decide) (by decide)) <|
  .cons [0x2F] _ (.one _ (by decide)) <|
  .cons [0xF0, 0x9F, 0x98, 0x80] _ (.four _ _ _ _ (by decide) (by decide) (by decide)) .nil
example : unpackString [0, 13, 0x61, 0x2F, 0xC3, 0xA9, 0x2F, 0xE6, 0x97, 0xA5, 0x2F, 0xF0, 0x9F, 0x98,
    0x80, 0x12, 0x34] =
    .ok (15, [0x61, 0x2F, 0xC3, 0xA9, 0x2F, 0xE6, 0x97, 0xA5, 0x2F, 0xF0, 0x9F, 0x98, 0x80]) := by decide

/-- the hypotheses of `nul_rejected` are satisfiable: U+0000 is itself well-formed UTF-8 -/
example : WellFormed [0x61, 0] ∧ unpackString [0, 2, 0x61, 0] = .err .invalidRune :=
  ⟨.cons [0x61] _ (.one _ (by decide)) (.cons [0] _ (.one _ (by decide)) .nil), by decide⟩

/-! ### the neighbours of the boundary sequences are NOT well-formed, and the model agrees

  The sequences just outside Table 3-7 (overlong E0 9F BF / F0 8F BF BF / C1 BF, the first surrogate
  ED A0 80, the first value above U+10FFFF F4 90 80 80) do not survive the round trip: Go replaces
  every byte by U+FFFD. -/
example : ¬ TopicOk [0xE0, 0x9F, 0xBF] := by decide
example : ¬ TopicOk [0xED, 0xA0, 0x80] := by decide
example : ¬ TopicOk [0xF0, 0x8F, 0xBF, 0xBF] := by decide
example : ¬ TopicOk [0xF4, 0x90, 0x80, 0x80] := by decide
example : ¬ TopicOk [0xC1, 0xBF] := by decide
example : decodeRunes [0xED, 0xA0, 0x80] = [0xFFFD, 0xFFFD, 0xFFFD] := by decide

/-! ### recorded observation (not a property): ill-formed input is NOT rejected but rewritten

  `unpackString` only looks for U+0000 and surrogates among the decoded runes; Go's conversion never
  produces a surrogate and turns every offending byte into U+FFFD, so an ill-formed topic is accepted
  and handed over with different bytes (each bad byte becomes EF BF BD), although MQTT 3.1.1
  [MQTT-1.5.3-1] requires the receiver to close the network connection. -/
example : unpackString [0, 2, 0xFF, 0xFE] = .ok (4, [0xEF, 0xBF, 0xBD, 0xEF, 0xBF, 0xBD]) := by decide

end Mqtt.C05.Utf8
