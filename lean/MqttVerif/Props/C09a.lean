/-
  C09 (back-off arithmetic) — after a connection ends unexpectedly the client waits at least the
  base delay, at least doubling that lower bound per consecutive failure up to the maximum, and
  starts from the base again after a success. For all base / max settings and all outcome sequences.
-/
import MqttVerif.Model.Backoff

namespace Mqtt.C09
open Mqtt.Backoff

theorem next_le_max (max w : Nat) (h : w ≤ max) : next max w ≤ max := by
  unfold next; split <;> omega

theorem next_ge (max w : Nat) : next max w ≥ min (2 * w) max := by
  unfold next; split <;> omega

/-- closed form: min(base·2^j, max) once the clamp is reachable (base ≤ max); the first wait is always base -/
theorem waitAfter_closed (base max : Nat) (hb : base ≤ max) (j : Nat) :
    waitAfter base max j = min (base * 2 ^ j) max := by
  induction j with
  | zero => simp [waitAfter]; omega
  | succ j ih =>
    simp only [waitAfter, ih, next, Nat.pow_succ]
    have : base * (2 ^ j * 2) = 2 * (base * 2 ^ j) := by
      rw [Nat.mul_comm (2 ^ j) 2, ← Nat.mul_assoc, Nat.mul_comm base 2, Nat.mul_assoc]
    rw [this]
    split <;> omega

/-- every wait is at least min(base, max) … -/
theorem waitAfter_ge_base (base max : Nat) (j : Nat) : waitAfter base max j ≥ min base max := by
  induction j with
  | zero => simp [waitAfter]; omega
  | succ j ih =>
    simp only [waitAfter]
    have := next_ge max (waitAfter base max j)
    omega

/-- … and each consecutive failure at least doubles it, up to the maximum -/
theorem waitAfter_doubles (base max : Nat) (j : Nat) :
    waitAfter base max (j + 1) ≥ min (2 * waitAfter base max j) max := by
  simpa [waitAfter] using next_ge max (waitAfter base max j)

theorem waitAfter_mono (base max : Nat) (hb : base ≤ max) (j : Nat) :
    waitAfter base max j ≤ waitAfter base max (j + 1) := by
  rw [waitAfter_closed base max hb, waitAfter_closed base max hb, Nat.pow_succ]
  have : base * 2 ^ j ≤ base * (2 ^ j * 2) := Nat.mul_le_mul_left _ (by omega)
  omega

/-- the waits of a whole run: after the k-th consecutive failure since the last success the wait is
    `waitAfter base max k`; an established connection restarts the count -/
def consecutive : Nat → List Attempt → List Nat
  | _, [] => []
  | k, .failed :: rest => k :: consecutive (k + 1) rest
  | _, .established :: rest => 0 :: consecutive 1 rest

theorem waits_spec (base max : Nat) (k : Nat) (as : List Attempt) :
    waits base max (waitAfter base max k) as = (consecutive k as).map (waitAfter base max) := by
  induction as generalizing k with
  | nil => simp [waits, consecutive]
  | cons a as ih =>
    cases a with
    | failed =>
      simp only [waits, consecutive, List.map_cons]
      have : next max (waitAfter base max k) = waitAfter base max (k + 1) := rfl
      rw [this, ih (k + 1)]
    | established =>
      simp only [waits, consecutive, List.map_cons]
      have h0 : base = waitAfter base max 0 := rfl
      have : next max base = waitAfter base max 1 := rfl
      rw [this, ih 1]
      rfl

/-- for all sequences of dial errors, refused / absent CONNACKs and lost connections: the j-th wait
    is `waitAfter` of the number of consecutive failures since the last success -/
theorem run_spec (base max : Nat) (as : List Attempt) :
    run base max as = (consecutive 0 as).map (waitAfter base max) := by
  simpa [run, waitAfter] using waits_spec base max 0 as

theorem run_all_ge_base (base max : Nat) (as : List Attempt) : ∀ w ∈ run base max as, w ≥ min base max := by
  rw [run_spec]
  intro w hw
  rcases List.mem_map.1 hw with ⟨k, _, rfl⟩
  exact waitAfter_ge_base base max k

-- non-vacuity: base 4, max 16: 4, 8, 16, 16; reset after a success
example : run 4 16 [.failed, .failed, .failed, .failed, .established, .failed] = [4, 8, 16, 16, 4, 8] := by decide
example : run 5 3 [.failed, .failed] = [5, 3] := by decide      -- base above max: first wait is base, then max

end Mqtt.C09
