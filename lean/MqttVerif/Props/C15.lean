/-
  C15 — Packet identifiers: never 0, and any 65535 consecutively issued identifiers are pairwise
  distinct (for every start value of the counter, across the uint16 and the uint32 wrap-around).
  Property theorems only; helper lemmas live in Proofs/PacketId.
  None of the statements needs the counter to be `< 2^32`: the model reduces it mod 2^32 first.
-/
import MqttVerif.Proofs.PacketId

namespace Mqtt.C15

/-- the Go recursion (`if id == 0 { return c.newID() }`) happens at most once -/
theorem newID_fuel_enough (c : Nat) : ∃ r, newIDFuel 2 c = some r :=
  ⟨_, newIDFuel_two c⟩

theorem newID_nonzero (c : Nat) : (newID c).2 ≠ 0 :=
  Nat.ne_of_gt (newID_snd_pos c)

theorem newID_range (c : Nat) :
    0 < (newID c).2 ∧ (newID c).2 < 65536 ∧ (newID c).1 < 4294967296 :=
  ⟨newID_snd_pos c, newID_snd_lt c, newID_fst_lt c⟩

/-- the ids are "+1 in the cyclic group of the 65535 non-zero ids", across uint16 and uint32
    wrap-around -/
theorem newID_succ (c : Nat) : (newID (newID c).1).2 = (newID c).2 % 65535 + 1 :=
  newID_snd_succ c

theorem ids_closed_form (c n k : Nat) (hk : k < n) :
    (idsFrom c n)[k]? = some (((newID c).2 - 1 + k) % 65535 + 1) :=
  idsFrom_getElem? c n k hk

/-- any 65535 consecutively issued ids are pairwise distinct, for EVERY start value of the
    counter -/
theorem window_nodup (c n : Nat) (hn : n ≤ 65535) : (idsFrom c n).Nodup :=
  idsFrom_nodup c n hn

/-- … and 65535 is tight: the 65536-th id equals the first (this is why a request that stays
    outstanding while 65535 others are issued sees its id reused) -/
theorem window_tight (c : Nat) : (idsFrom c 65536)[65535]? = (idsFrom c 65536)[0]? := by
  rw [ids_closed_form c 65536 65535 (by omega), ids_closed_form c 65536 0 (by omega)]
  simp only [Option.some.injEq]
  omega

/-- concurrent callers: `atomic.AddUint32` linearises the increments, so G callers obtain the ids
    of G consecutive counter values in some order; stated as: any sub-multiset of a 65535-window
    is duplicate free -/
theorem concurrent_nodup (c n : Nat) (hn : n ≤ 65535) (l : List Nat)
    (hl : l.Sublist (idsFrom c n) ∨ l.Perm (idsFrom c n)) : l.Nodup := by
  cases hl with
  | inl h => exact h.nodup (window_nodup c n hn)
  | inr h => exact h.nodup_iff.mpr (window_nodup c n hn)

/-- an identifier the caller already put on the message is used unchanged -/
theorem caller_id_kept (max c : Nat) (m : Message) (h : m.id ≠ 0) :
    (publishCall max c m).msgId = m.id := by
  unfold publishCall
  split
  · rfl
  · rfl
  · simp only [if_neg h]
    split <;> rfl

theorem fresh_id_nonzero (max c : Nat) (m : Message) (h : m.id = 0)
    (hv : validateMessage max m = .ok ()) : (publishCall max c m).msgId ≠ 0 := by
  have hn := newID_nonzero c
  unfold publishCall
  rw [hv]
  simp only [if_pos h]
  split <;> exact hn

/-! Non-vacuity: concrete windows across the uint16 wrap (id 0 skipped) and the uint32 wrap. -/

example : idsFrom 65534 5 = [65535, 1, 2, 3, 4] := by decide
example : idsFrom 4294967294 4 = [65535, 1, 2, 3] := by decide
example : counterAfter 4294967294 4 = 3 := by decide
example : newIDFuel 1 65535 = none := by decide  -- one round is not enough: the retry is taken
example : (idsFrom 7 65536)[65535]? = some 8 ∧ (idsFrom 7 65536)[0]? = some 8 := by
  rw [ids_closed_form 7 65536 65535 (by omega), ids_closed_form 7 65536 0 (by omega)]
  decide

end Mqtt.C15
