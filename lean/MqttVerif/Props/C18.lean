/-
  C18 — with a response timeout, a silent broker cannot stall the client: a request whose
  acknowledgement does not arrive in time is abandoned on that connection; the client reports a
  RequestTimeoutError through OnError, closes the connection so that a new one is established, and
  keeps the request for retransmission — for first transmissions and retransmissions alike.

  Helper lemmas: `MqttVerif/Proofs/RetryTimeout.lean` (and `RetryHandler.lean` for the frames).
-/
import MqttVerif.Proofs.RetryTimeout

namespace Mqtt.C18
open Mqtt.Retry

/-! ### the task goroutine never blocks for ever -/

/-- for all scripts, hence all prefixes -/
theorem never_stuck (s : Script) (ht : s.cfg.respTimeout = true) : (exec s).stuck = false :=
  (Q_exec s ⟨Or.inl ht, rfl⟩).2

/-- without a response timeout, only a silent broker can block it -/
theorem stuck_only_by_silence (s : Script) (hs : Fault.silent ∉ s.faults) : (exec s).stuck = false :=
  (Q_exec s ⟨Or.inr hs, rfl⟩).2

/-! ### one attempt meeting a silent broker: timeout error, the very same request kept as retry
    handle, the connection still open (it is closed after the task) -/

theorem attempt_timeout_pub (w : World) (k m qos : Nat) (dup : Bool) (ht : w.cfg.respTimeout = true)
    (ha : (getConn w k).alive = true) (hq : qos ≠ 0) (rest : List Fault) (hf : w.faults = .silent :: rest) :
    (pubAttempt w k m qos dup).2 = .fail (some (.rePublish m qos)) .timeout :=
  pubAttempt_silent w k m qos dup rest ht ha hq hf

/-- QoS 2, second phase: the PUBLISH is answered, the PUBREL is not -/
theorem attempt_timeout_pub_rel (w : World) (k m : Nat) (dup : Bool) (ht : w.cfg.respTimeout = true)
    (ha : (getConn w k).alive = true) (rest : List Fault) (hf : w.faults = .ok :: .silent :: rest) :
    (pubAttempt w k m 2 dup).2 = .fail (some (.rePubRel m)) .timeout :=
  pubAttempt_silent_rel w k m dup rest ht ha hf

theorem attempt_timeout_rel (w : World) (k m id : Nat) (ht : w.cfg.respTimeout = true)
    (ha : (getConn w k).alive = true) (rest : List Fault) (hf : w.faults = .silent :: rest) :
    (relAttempt w k m id).2 = .fail (some (.rePubRel m)) .timeout :=
  relAttempt_silent w k m id rest ht ha hf

theorem attempt_timeout_sub (w : World) (k : Nat) (subs : List Subscription) (ht : w.cfg.respTimeout = true)
    (ha : (getConn w k).alive = true) (rest : List Fault) (hf : w.faults = .silent :: rest) :
    (subAttempt w k subs).2 = .fail (some (.reSub subs)) .timeout :=
  subAttempt_silent w k subs rest ht ha hf

theorem attempt_timeout_unsub (w : World) (k : Nat) (ts : List Bytes) (ht : w.cfg.respTimeout = true)
    (ha : (getConn w k).alive = true) (rest : List Fault) (hf : w.faults = .silent :: rest) :
    (unsubAttempt w k ts).2 = .fail (some (.reUnsub ts)) .timeout :=
  unsubAttempt_silent w k ts rest ht ha hf

/-- the connection is still open after the attempt: closing it is the task goroutine's job -/
theorem attempt_keeps_open (w : World) (k : Nat) (p : Pkt) (ht : w.cfg.respTimeout = true)
    (ha : (getConn w k).alive = true) (rest : List Fault) (hf : w.faults = .silent :: rest) :
    (send w k p true).2 = .timedOut ∧ (getConn (send w k p true).1 k).alive = true := by
  refine ⟨send_silent w k p rest ht ha hf, ?_⟩
  unfold send nextFault
  rw [if_neg (by simp [ha]), hf]
  dsimp only
  rw [if_neg (by simp), if_pos (by exact ht)]
  exact (alive_logPkt _ _ _ _ _).trans ha

/-! ### first transmissions: the closure reports the timeout through OnError, keeps the handle and
    marks the connection for closing -/

theorem first_tx_timeout (w : World) (k m qos : Nat) (ht : w.cfg.respTimeout = true)
    (ha : (getConn w k).alive = true) (hq : qos ≠ 0) (rest : List Fault) (hf : w.faults = .silent :: rest)
    (hst : w.stuck = false) :
    let w' := firstPub w k m qos
    w'.onErrors = w.onErrors ++ [.timeout] ∧ w'.retryQ = w.retryQ ++ [.rePublish m qos] ∧
    w'.closeAfterTask = true ∧ w'.stuck = false :=
  absorb_of_fail w _ _ _ (af_pubAttempt w k m qos false) (pubAttempt_silent w k m qos false rest ht ha hq hf) hst

/-- QoS 2 whose PUBREL meets the silent broker: the PUBREL is what is kept -/
theorem first_tx_timeout_rel (w : World) (k m : Nat) (ht : w.cfg.respTimeout = true)
    (ha : (getConn w k).alive = true) (rest : List Fault) (hf : w.faults = .ok :: .silent :: rest)
    (hst : w.stuck = false) :
    let w' := firstPub w k m 2
    w'.onErrors = w.onErrors ++ [.timeout] ∧ w'.retryQ = w.retryQ ++ [.rePubRel m] ∧
    w'.closeAfterTask = true ∧ w'.stuck = false :=
  absorb_of_fail w _ _ _ (af_pubAttempt w k m 2 false) (pubAttempt_silent_rel w k m false rest ht ha hf) hst

theorem first_tx_timeout_sub (w : World) (k : Nat) (subs : List Subscription) (ht : w.cfg.respTimeout = true)
    (ha : (getConn w k).alive = true) (rest : List Fault) (hf : w.faults = .silent :: rest)
    (hst : w.stuck = false) :
    let w' := firstSub w k subs
    w'.onErrors = w.onErrors ++ [.timeout] ∧ w'.retryQ = w.retryQ ++ [.reSub subs] ∧
    w'.closeAfterTask = true ∧ w'.stuck = false :=
  absorb_of_fail w _ _ _ (af_subAttempt w k subs) (subAttempt_silent w k subs rest ht ha hf) hst

theorem first_tx_timeout_unsub (w : World) (k : Nat) (ts : List Bytes) (ht : w.cfg.respTimeout = true)
    (ha : (getConn w k).alive = true) (rest : List Fault) (hf : w.faults = .silent :: rest)
    (hst : w.stuck = false) :
    let w' := firstUnsub w k ts
    w'.onErrors = w.onErrors ++ [.timeout] ∧ w'.retryQ = w.retryQ ++ [.reUnsub ts] ∧
    w'.closeAfterTask = true ∧ w'.stuck = false :=
  absorb_of_fail w _ _ _ (af_unsubAttempt w k ts) (unsubAttempt_silent w k ts rest ht ha hf) hst

/-! ### retransmissions (the `Retry` task): the same, and the untried rest of the queue stays behind
    the handle -/

theorem retry_timeout (w : World) (k : Nat) (e : Entry) (rest : List Entry) (he : e.isRaw = true)
    (ht : w.cfg.respTimeout = true) (ha : (getConn w k).alive = true) (frest : List Fault)
    (hf : w.faults = .silent :: frest) (hst : w.stuck = false) :
    let w' := retryLoop w k (e :: rest)
    w'.onErrors = w.onErrors ++ [.timeout] ∧ w'.retryQ = w.retryQ ++ [e] ++ rest ∧ w'.closeAfterTask = true := by
  have h := retryLoop_of_fail w k e e .timeout rest hst (af_runEntry_raw _ k e he)
    (runEntry_raw_silent { w with totalRetries := w.totalRetries + 1 } k e frest he ht ha hf)
  exact ⟨h.1, h.2.1, h.2.2.1⟩

/-- … and the goroutine is not blocked -/
theorem retry_timeout_not_stuck (w : World) (k : Nat) (e : Entry) (rest : List Entry) (he : e.isRaw = true)
    (ht : w.cfg.respTimeout = true) (ha : (getConn w k).alive = true) (frest : List Fault)
    (hf : w.faults = .silent :: frest) (hst : w.stuck = false) :
    (retryLoop w k (e :: rest)).stuck = false :=
  (retryLoop_of_fail w k e e .timeout rest hst (af_runEntry_raw _ k e he)
    (runEntry_raw_silent { w with totalRetries := w.totalRetries + 1 } k e frest he ht ha hf)).2.2.2.1

/-! ### the task goroutine then closes the connection, and the reconnect loop backs off and (when the
    back-off timer fires: `.waitElapsed`) dials again -/

/-- one iteration of the task goroutine whose task ends with the close mark set: the current connection
    is closed, the mark cleared, the goroutine goes on from there; errors and retry queue untouched -/
theorem close_after_task (fuel : Nat) (w : World) (k : Nat) (t : Task) (rest : List Task)
    (hg : w.goroutine = true) (hs : w.stuck = false) (hc : w.gConnected = true ∨ w.connReady = true)
    (hq : w.taskQ = t :: rest) (hk : w.cli = some k) (hlt : k < w.conns.length) :
    let w1 := runTask { w with gConnected := true, taskQ := rest, totalTasks := w.totalTasks + 1 } k t
    w1.stuck = false → w1.closeAfterTask = true →
    ∃ w2, runTasks (fuel + 1) w = runTasks fuel w2 ∧ (getConn w2 k).alive = false ∧
      w2.closeAfterTask = false ∧ w2.gConnected = false ∧ w2.stuck = false ∧
      w2.onErrors = w1.onErrors ∧ w2.retryQ = w1.retryQ ∧ view w2 = view w := by
  intro w1 h1 h2
  refine ⟨{ kill w1 k with gConnected := false, closeAfterTask := false }, ?_, ?_, rfl, rfl, h1, rfl, rfl, ?_⟩
  · rw [runTasks_succ fuel w k t rest hg hs hc hq hk]
    dsimp only
    rw [if_neg (by simp; exact h1), if_pos h2]
  · have hl : w1.conns.length = w.conns.length :=
      (lle_runTask { w with gConnected := true, taskQ := rest, totalTasks := w.totalTasks + 1 } k t).1
    exact alive_kill w1 k (by rw [hl]; exact hlt)
  · have hv : view w1 = view w :=
      view_runTask { w with gConnected := true, taskQ := rest, totalTasks := w.totalTasks + 1 } k t
    rw [← hv]
    simp [view, kill, setConn]

/-- the reconnect loop: connection `k` has ended and the client has not been stopped → the loop backs
    off (the wait is logged; no DialContext call yet) and dials again when the back-off timer fires -/
theorem loop_redials (w : World) (k : Nat) (hp : w.phase = .up k) (hd : (getConn w k).alive = false)
    (hs : w.stopped = false) :
    (loopReact w).phase = .backoff ∧ (loopReact w).dials = w.dials ∧
    (loopReact w).waits = w.waits ++ [w.waitExp] ∧
    (step (loopReact w) .waitElapsed).phase = .dialGate ∧
    (step (loopReact w) .waitElapsed).dials = w.dials + 1 := by
  rw [waitElapsed_step _ (by rw [loopReact_backoff w k hp hd hs]), loopReact_backoff w k hp hd hs]
  exact ⟨rfl, rfl, rfl, rfl, rfl⟩

/-- what "a new connection is established" means for the world `w'` reached from `w` (reconnect loop on
    connection `k`) by a task that timed out:
    connection `k` is closed and the loop is backing off (the wait is logged, no DialContext call yet,
    the close mark has been honoured); the back-off timer then makes the loop call DialContext, and does
    nothing else; cancelling the context once given to ReconnectClient.Connect cannot prevent that
    (Connect has returned: `exec_UpReturned` discharges the premise for every reachable `w`);
    only Disconnect can: the loop then exits without dialling. -/
structure Redials (w w' : World) (k : Nat) : Prop where
  closed : (getConn w' k).alive = false
  backoff : w'.phase = .backoff
  noDialYet : w'.dials = w.dials
  waitLogged : w'.waits = w.waits ++ [w.waitExp]
  markCleared : w'.stuck = false → w'.closeAfterTask = false
  timer : step w' .waitElapsed = { w' with phase := .dialGate, dials := w.dials + 1 }
  cancel : w.connectReturned.isSome = true → step w' .cancelCtx = w'
  disconnect : (step w' .disconnect).phase = .exited ∧ (step w' .disconnect).dials = w.dials

/-- the old conclusions, now after the timer event: connection closed, the loop inside DialContext, one
    more dial, the close mark honoured -/
theorem Redials.after_timer {w w' : World} {k : Nat} (h : Redials w w' k) :
    let w'' := step w' .waitElapsed
    (getConn w'' k).alive = false ∧ w''.phase = .dialGate ∧ w''.dials = w.dials + 1 ∧
    (w''.stuck = false → w''.closeAfterTask = false) := by
  dsimp only
  rw [h.timer]
  exact ⟨h.closed, rfl, rfl, h.markCleared⟩

/-- both together, for a whole `progress`: whatever tasks are still queued behind it, a task that ends
    with the close mark set leaves connection `k` closed and the reconnect loop backing off, to dial
    again when the timer fires -/
theorem closes_and_redials (w : World) (k : Nat) (t : Task) (rest : List Task)
    (hp : w.phase = .up k) (hstop : w.stopped = false)
    (hg : w.goroutine = true) (hs : w.stuck = false) (hc : w.gConnected = true ∨ w.connReady = true)
    (hq : w.taskQ = t :: rest) (hk : w.cli = some k) (hlt : k < w.conns.length) :
    let w1 := runTask { w with gConnected := true, taskQ := rest, totalTasks := w.totalTasks + 1 } k t
    w1.stuck = false → w1.closeAfterTask = true →
    Redials w (progress w) k := by
  intro w1 h1 h2
  obtain ⟨w2, e, hd, hf, _, _, _, _, hv⟩ :=
    close_after_task (rest.length + 1) w k t rest hg hs hc hq hk hlt h1 h2
  have hw' : progress w = loopReact (runTasks (rest.length + 1) w2) := by
    show loopReact (runTasks (w.taskQ.length + 1) w) = _
    rw [hq, List.length_cons, e]
  have hv3 : view (runTasks (rest.length + 1) w2) = view w := (view_runTasks _ _).trans hv
  have hd3 := runTasks_dead (rest.length + 1) w2 k hd
  simp only [view, View.mk.injEq] at hv3
  obtain ⟨_, _, _, _, p5, p6, p7, p8, p9, _, _, _, p13, _⟩ := hv3
  have hr := loopReact_backoff (runTasks (rest.length + 1) w2) k (p5.trans hp) hd3 (p7.trans hstop)
  have hflag : (progress w).stuck = false → (progress w).closeAfterTask = false := by
    rw [hw', hr]; intro hst; exact runTasks_flag _ _ hf hst
  have hph : (progress w).phase = .backoff := by rw [hw', hr]
  have hdl : (progress w).dials = w.dials := by rw [hw', hr]; exact p6
  have hsp : (progress w).stopped = false := by rw [hw', hr]; exact p7.trans hstop
  have hcr : (progress w).connectReturned = w.connectReturned := by rw [hw', hr]; exact p13
  refine ⟨?_, hph, hdl, ?_, hflag, ?_, ?_, ?_⟩
  · rw [hw', hr]; exact hd3
  · rw [hw', hr]; show _ ++ [_] = _; rw [p8, p9]
  · rw [waitElapsed_step _ hph, hdl]
  · intro h; exact cancelCtx_noop _ (by rw [hcr]; exact h)
  · obtain ⟨d1, d2, _⟩ := disconnect_in_backoff _ hph hsp
    exact ⟨d1, d2.trans hdl⟩

/-- first transmission of a QoS ≥ 1 PUBLISH meeting a silent broker, end to end -/
theorem silent_publish_redials (w : World) (k m qos : Nat) (rest : List Task) (frest : List Fault)
    (ht : w.cfg.respTimeout = true) (hq0 : qos ≠ 0) (hf : w.faults = .silent :: frest)
    (ha : (getConn w k).alive = true) (hr : w.retryQ = [])
    (hp : w.phase = .up k) (hstop : w.stopped = false)
    (hg : w.goroutine = true) (hs : w.stuck = false) (hc : w.gConnected = true ∨ w.connReady = true)
    (hq : w.taskQ = .req (.pub m qos) :: rest) (hk : w.cli = some k) (hlt : k < w.conns.length) :
    Redials w (progress w) k := by
  have h := first_tx_timeout { w with gConnected := true, taskQ := rest, totalTasks := w.totalTasks + 1 } k m qos
    ht ha hq0 frest hf hs
  have he : runTask { w with gConnected := true, taskQ := rest, totalTasks := w.totalTasks + 1 } k (.req (.pub m qos))
      = firstPub { w with gConnected := true, taskQ := rest, totalTasks := w.totalTasks + 1 } k m qos := by
    simp [runTask, hr]
  exact closes_and_redials w k _ rest hp hstop hg hs hc hq hk hlt (by rw [he]; exact h.2.2.2) (by rw [he]; exact h.2.2.1)

/-- retransmission by the `Retry` task meeting a silent broker, end to end -/
theorem silent_retry_redials (w : World) (k : Nat) (e : Entry) (es : List Entry) (rest : List Task)
    (frest : List Fault) (he : e.isRaw = true)
    (ht : w.cfg.respTimeout = true) (hf : w.faults = .silent :: frest)
    (ha : (getConn w k).alive = true) (hr : w.retryQ = e :: es)
    (hp : w.phase = .up k) (hstop : w.stopped = false)
    (hg : w.goroutine = true) (hs : w.stuck = false) (hc : w.gConnected = true ∨ w.connReady = true)
    (hq : w.taskQ = .retry :: rest) (hk : w.cli = some k) (hlt : k < w.conns.length) :
    Redials w (progress w) k := by
  have h1 := retry_timeout
    { w with gConnected := true, taskQ := rest, totalTasks := w.totalTasks + 1, retryQ := [] } k e es he ht ha frest hf hs
  have h2 := retry_timeout_not_stuck
    { w with gConnected := true, taskQ := rest, totalTasks := w.totalTasks + 1, retryQ := [] } k e es he ht ha frest hf hs
  have hrt : runTask { w with gConnected := true, taskQ := rest, totalTasks := w.totalTasks + 1 } k .retry
      = retryLoop { w with gConnected := true, taskQ := rest, totalTasks := w.totalTasks + 1, retryQ := [] } k (e :: es) := by
    simp [runTask, hr]
  exact closes_and_redials w k _ rest hp hstop hg hs hc hq hk hlt (by rw [hrt]; exact h2) (by rw [hrt]; exact h1.2.2)

/-- in every reachable world with a connection up, ReconnectClient.Connect has returned: the premise of
    `Redials.cancel` holds, cancelling the old context changes nothing -/
theorem up_connect_returned (s : Script) (k : Nat) (h : (exec s).phase = .up k) :
    (exec s).connectReturned.isSome = true ∧ step (exec s) .cancelCtx = exec s :=
  ⟨exec_UpReturned s k h, cancelCtx_noop _ (exec_UpReturned s k h)⟩

/-! ### after Disconnect the reconnect loop never dials again

  The hypothesis `phase ≠ .idle` is needed: Disconnect before ReconnectClient.Connect leaves the loop
  un-started, and a later Connect does dial once (see the example below). For an arbitrary world the
  hypothesis `phase ≠ .backoff` is needed as well (a stopped world in `.backoff` would dial on
  `.waitElapsed`); no reachable world is like that (`stopped_not_backoff`: Disconnect releases the
  back-off select, and every failure path tests `stopped` before backing off), so the statement about
  runs needs no such hypothesis. A DialContext call in flight when Disconnect arrives is not a new call:
  its result is acted on (`.dialOk`: CONNECT goes out on the new transport, then the loop exits). -/

theorem no_dial_after_disconnect (w : World) (es : List Ev) (hs : w.stopped = true) (hp : w.phase ≠ .idle)
    (hb : w.phase ≠ .backoff) :
    (es.foldl step w).dials = w.dials ∧ (es.foldl step w).stopped = true := by
  induction es generalizing w with
  | nil => exact ⟨rfl, hs⟩
  | cons e es ih =>
    obtain ⟨h2, h4, h13⟩ := step_stopped w e hs hb
    obtain ⟨h1, h3⟩ := h13 hp
    obtain ⟨i1, i2⟩ := ih (step w e) h2 h3 h4
    exact ⟨i1.trans h1, i2⟩

/-- in particular: whatever happens after a run that ended stopped, no further DialContext call -/
theorem no_dial_after_disconnect_run (s : Script) (es : List Ev) (hs : (exec s).stopped = true)
    (hp : (exec s).phase ≠ .idle) :
    (exec { s with evs := s.evs ++ es }).dials = (exec s).dials := by
  have := (no_dial_after_disconnect (exec s) es hs hp (stopped_not_backoff s hs)).1
  simpa [exec, init, List.foldl_append] using this

/-- Disconnect while the CONNACK is outstanding, then the Connect fails: the loop exits, no back-off, no
    new dial (not even when a timer event arrives) -/
example : let s : Script := { evs := [.start, .dialOk 0, .disconnect, .connackRefused, .waitElapsed, .dialOk 0] }
    (exec s).dials = 1 ∧ (exec s).phase = .exited ∧ (exec s).conns.length = 1 ∧ (exec s).waits = [] := by decide

/-- Disconnect while the loop is backing off (after a refused CONNECT): the loop exits; the timer event
    that arrives afterwards does not make it dial -/
example : let s : Script := { evs := [.start, .dialOk 0, .connackRefused, .disconnect, .waitElapsed, .dialOk 0] }
    (exec s).dials = 1 ∧ (exec s).phase = .exited ∧ (exec s).conns.length = 1 ∧ (exec s).waits = [0] := by decide

/-- Disconnect while DialContext is in flight, the dial then succeeds: the connection is created and
    CONNECT goes out on it (that call had started before Disconnect); after the CONNACK the queued
    Disconnect task writes DISCONNECT and closes it, the loop exits; no second DialContext call -/
example : let s : Script := { evs := [.start, .disconnect, .dialOk 0, .connackOk false [], .waitElapsed, .dialOk 0] }
    (exec s).dials = 1 ∧ (exec s).phase = .exited ∧ (exec s).conns.length = 1 ∧
    (getConn (exec s) 0).pkts = [(.connect, .sent .ok), (.disconnect, .sent .ok)] ∧
    (getConn (exec s) 0).alive = false ∧ (exec s).stopped = true := by decide

/-- … and if that dial fails, the loop exits without backing off -/
example : let s : Script := { evs := [.start, .disconnect, .dialFail, .waitElapsed, .dialOk 0] }
    (exec s).dials = 1 ∧ (exec s).phase = .exited ∧ (exec s).conns.length = 0 ∧ (exec s).waits = [] := by decide

/-- why `phase ≠ .idle` is needed -/
example : (exec { evs := [.disconnect] }).dials = 0 ∧ (exec { evs := [.disconnect, .start] }).dials = 1 := by decide

/-! ### non-vacuity: one QoS 1 message over three connections; the PUBACK is lost on the first, the
    broker is silent on the second (retransmission), the third delivers. Each redial needs the back-off
    timer event. -/

def evs : List Ev :=
  [.start, .dialOk 0, .connackOk false [], .app (.pub 0 1),
   .waitElapsed, .dialOk 0, .connackOk true [], .waitElapsed, .dialOk 0, .connackOk true []]

def demo : Script := { cfg := { respTimeout := true }, faults := [.lostAck, .silent], evs := evs }

/-- the same script without ResponseTimeout -/
def demoNoTimeout : Script := { faults := [.lostAck, .silent], evs := evs }

example : (exec demo).broker.acked = [.pub 0 1] ∧ (exec demo).onErrors = [.retryable, .timeout] ∧
    (exec demo).conns.length = 3 ∧ (exec demo).stuck = false ∧ (exec demo).retryQ = [] ∧
    (exec demo).phase = .up 2 ∧ (exec demo).dials = 3 ∧ (exec demo).waits = [0, 0] := by decide

/-- without the timer events the loop stays in the back-off: `.dialOk` alone does nothing -/
example : let s : Script := { demo with evs := evs.filter (fun e => match e with | .waitElapsed => false | _ => true) }
    (exec s).phase = .backoff ∧ (exec s).conns.length = 1 ∧ (exec s).dials = 1 ∧
    (exec s).retryQ = [.rePublish 0 1] := by decide

/-- this is why the property needs the timeout -/
example : (exec demoNoTimeout).stuck = true ∧ (exec demoNoTimeout).broker.acked = [] ∧
    (exec demoNoTimeout).conns.length = 2 := by decide

/-- the hypotheses of `silent_publish_redials` are satisfiable: a first transmission meeting a silent broker -/
def demoFirst : Script :=
  { cfg := { respTimeout := true }, faults := [.silent],
    evs := [.start, .dialOk 0, .connackOk false [], .app (.pub 0 2)] }

example : (exec demoFirst).phase = .backoff ∧ (exec demoFirst).dials = 1 ∧ (exec demoFirst).waits = [0] ∧
    (exec demoFirst).onErrors = [.timeout] ∧ (exec demoFirst).retryQ = [.rePublish 0 2] ∧
    (getConn (exec demoFirst) 0).alive = false ∧ (exec demoFirst).stuck = false := by decide

/-- the timer fires: the loop is inside DialContext again, second call -/
example : let s : Script := { demoFirst with evs := demoFirst.evs ++ [.waitElapsed] }
    (exec s).phase = .dialGate ∧ (exec s).dials = 2 ∧ (exec s).retryQ = [.rePublish 0 2] := by decide

/-- cancelling the context once given to ReconnectClient.Connect while the loop backs off after the
    timeout changes nothing (Connect has returned): the redial happens, the request is retransmitted -/
example : let s : Script := { demoFirst with evs := demoFirst.evs ++ [.cancelCtx, .waitElapsed, .dialOk 0, .connackOk true []] }
    (exec s).phase = .up 1 ∧ (exec s).dials = 2 ∧ (exec s).broker.acked = [.pub 0 2] ∧ (exec s).retryQ = [] ∧
    (exec s).ctxCancelled = false ∧ (exec s).connectErr = false := by decide

/-- Disconnect during that back-off: the loop exits, no redial, the request stays in the retry queue -/
example : let s : Script := { demoFirst with evs := demoFirst.evs ++ [.disconnect, .waitElapsed, .dialOk 0] }
    (exec s).phase = .exited ∧ (exec s).dials = 1 ∧ (exec s).conns.length = 1 ∧
    (exec s).retryQ = [.rePublish 0 2] := by decide

/-! ### a dialer that ignores its context (`Cfg.deafDialer`, e.g. `NoContextDialer`)

  Every theorem above is stated and proved for all configurations, `deafDialer = true` included; no
  statement had to change (`Redials.cancel` / `up_connect_returned`: once a connection is up Connect has
  returned, and `.cancelCtx` is then a no-op whatever the dialer; `no_dial_after_disconnect`: a dial in
  flight is acted upon, late or not, without a new DialContext call). New with such a dialer: the dial in
  flight when the context of the first Connect is cancelled goes on, and the loop acts on its result. -/

/-- cancellation while a deaf dialer is dialling: Connect returns the context's error, the loop stays
    inside DialContext (same call: `dials` unchanged) -/
theorem cancel_during_deaf_dial (w : World) (hd : w.cfg.deafDialer = true) (hp : w.phase = .dialGate)
    (hc : w.ctxCancelled = false) (hr : w.connectReturned = none) :
    step w .cancelCtx = { w with ctxCancelled := true, connectErr := true } :=
  cancel_deaf_dial w hd hp hc hr

/-- the transport then arrives: one more connection object (the client's current one, with the registered
    handler), closed from the start, carrying CONNECT only if no request was waiting; the loop has exited:
    no back-off, no DialContext call, Connect has returned nothing but the context's error. Requests that
    were waiting are run by the task goroutine on that closed connection: they fail at once with a
    retryable error and are kept (`never_stuck` covers them: nothing blocks). -/
theorem late_transport (w : World) (i : Nat) (hp : w.phase = .dialGate) (hc : w.ctxCancelled = true)
    (hr : w.connectReturned = none) :
    let w' := step w (.dialOk i)
    w'.phase = .exited ∧ w'.cli = some w.conns.length ∧ w'.conns.length = w.conns.length + 1 ∧
    (getConn w' w.conns.length).alive = false ∧ (getConn w' w.conns.length).handler = w.handler ∧
    w'.dials = w.dials ∧ w'.waits = w.waits ∧ w'.waitExp = w.waitExp ∧
    w'.connectReturned = none ∧ w'.connectErr = w.connectErr ∧
    (w.taskQ = [] → (getConn w' w.conns.length).pkts = [(.connect, .sent .ok)]) := by
  obtain ⟨h1, h2, h3, h4, h5, _, _, h8, h9, h10, h11, h12, _, h14⟩ := late_dialOk w i hp hc hr
  exact ⟨h1, h2, h3, h4, h5, h8, h9, h10, h11, h12, h14⟩

/-- … or the dial fails: the loop exits, no back-off; nothing else changes -/
theorem late_dial_failure (w : World) (hp : w.phase = .dialGate) (hc : w.ctxCancelled = true)
    (hr : w.connectReturned = none) : step w .dialFail = { w with phase := .exited } :=
  late_dialFail w hp hc hr

/-- either way the loop is gone for good: whatever happens next, no further DialContext call -/
theorem no_dial_after_late_result (w : World) (e : Ev) (es : List Ev)
    (he : (∃ i, e = .dialOk i) ∨ e = .dialFail)
    (hp : w.phase = .dialGate) (hc : w.ctxCancelled = true) (hr : w.connectReturned = none) :
    (es.foldl step (step w e)).dials = w.dials ∧ (es.foldl step (step w e)).phase = .exited := by
  have hx : (step w e).phase = .exited ∧ (step w e).dials = w.dials := by
    rcases he with ⟨i, rfl⟩ | rfl
    · obtain ⟨h1, _, _, _, _, _, _, h8, _⟩ := late_dialOk w i hp hc hr
      exact ⟨h1, h8⟩
    · rw [late_dialFail w hp hc hr]; exact ⟨rfl, rfl⟩
  obtain ⟨a, b⟩ := exited_foldl_dials es _ hx.1
  exact ⟨b.trans hx.2, a⟩

/-- with a dialer that honours its context this situation does not arise in any run: the model is then
    the one without `deafDialer` -/
theorem late_result_needs_deaf_dialer (s : Script) (h : s.cfg.deafDialer = false) :
    ¬ ((exec s).phase = .dialGate ∧ (exec s).ctxCancelled = true ∧ (exec s).connectReturned = none) :=
  no_late_dial s h

/-- cancellation during the first dial, the transport arrives: a closed connection with CONNECT only,
    the loop exited, Connect returned the context's error; later timer / dial events do nothing -/
example : let s : Script :=
      { cfg := { deafDialer := true, respTimeout := true }, evs := [.start, .cancelCtx, .dialOk 0, .waitElapsed, .dialOk 5] }
    (exec s).phase = .exited ∧ (exec s).connectErr = true ∧ (exec s).connectReturned = none ∧
    (exec s).dials = 1 ∧ (exec s).waits = [] ∧ (exec s).conns.length = 1 ∧ (exec s).cli = some 0 ∧
    (getConn (exec s) 0).alive = false ∧ (getConn (exec s) 0).pkts = [(.connect, .sent .ok)] ∧
    (exec s).stuck = false := by decide

/-- the state in between: Connect has returned the error, the loop is still inside DialContext -/
example : let s : Script := { cfg := { deafDialer := true }, evs := [.start, .cancelCtx] }
    (exec s).phase = .dialGate ∧ (exec s).connectErr = true ∧ (exec s).ctxCancelled = true ∧
    (exec s).dials = 1 := by decide

/-- the dial fails instead: exited, no back-off, no redial -/
example : let s : Script :=
      { cfg := { deafDialer := true }, evs := [.start, .cancelCtx, .dialFail, .waitElapsed, .dialOk 5] }
    (exec s).phase = .exited ∧ (exec s).connectErr = true ∧ (exec s).dials = 1 ∧ (exec s).waits = [] ∧
    (exec s).conns.length = 0 := by decide

/-- Connect called with a context that is already done: the deaf dialer dials all the same -/
example : let s : Script := { cfg := { deafDialer := true }, evs := [.cancelCtx, .start, .dialOk 0] }
    (exec s).phase = .exited ∧ (exec s).connectErr = true ∧ (exec s).dials = 1 ∧ (exec s).conns.length = 1 ∧
    (getConn (exec s) 0).alive = false := by decide

/-- a request made before Connect is run on the late, closed connection: it fails at once (retryable, not
    a timeout), is kept for retransmission, and the task goroutine is not blocked -/
example : let s : Script :=
      { cfg := { deafDialer := true, respTimeout := true }, faults := [.silent],
        evs := [.app (.pub 0 1), .start, .cancelCtx, .dialOk 0] }
    (exec s).phase = .exited ∧ (exec s).retryQ = [.rePublish 0 1] ∧ (exec s).onErrors = [.retryable] ∧
    (exec s).stuck = false ∧ (exec s).faults = [.silent] ∧ (exec s).dials = 1 ∧
    (getConn (exec s) 0).pkts = [(.connect, .sent .ok), (.publish 0 1 1 false, .dead)] := by decide

/-- Disconnect between the cancellation and the late transport: DISCONNECT is attempted on the closed
    connection, no further dial -/
example : let s : Script := { cfg := { deafDialer := true }, evs := [.start, .cancelCtx, .disconnect, .dialOk 0, .waitElapsed] }
    (exec s).phase = .exited ∧ (exec s).dials = 1 ∧ (exec s).stopped = true ∧
    (getConn (exec s) 0).pkts = [(.connect, .sent .ok), (.disconnect, .dead)] := by decide

/-- the same events with a dialer that honours its context: the loop leaves at the cancellation -/
example : let s : Script := { evs := [.start, .cancelCtx, .dialOk 0] }
    (exec s).phase = .exited ∧ (exec s).connectErr = true ∧ (exec s).dials = 1 ∧ (exec s).conns.length = 0 := by decide

end Mqtt.C18
