/- C09, tie to the source: the back-off factor and defaults in reconnclient.go. -/
import MqttVerif.Proofs.FactsTie
namespace Mqtt.C09.Tie
open Mqtt.FactsTie

theorem backoff_shape :
    agrees Generated.reconnWaitFactor 2 ∧
    agrees Generated.reconnWaitBaseDefault 1000000000 ∧ agrees Generated.reconnWaitMaxDefault 10000000000 := by decide

theorem backoff_next_is_double_clamped (max w : Nat) : Backoff.next max w = min (2 * w) max := by
  unfold Backoff.next; split <;> omega

end Mqtt.C09.Tie
