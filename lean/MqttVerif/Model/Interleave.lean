/-
  client.go:95-107 `(*BaseClient).write`: every packet is written under `muWrite`
      c.muWrite.Lock(); defer c.muWrite.Unlock(); for … { c.Transport.Write(chunk) }
  Model: any number of threads (API callers, the reader goroutine acknowledging inbound traffic),
  each with a list of packets to write, each packet a list of chunks (a Transport may take a packet
  in several Write calls). One scheduler step lets one thread perform its next atomic action:
  acquire the lock, write one chunk, or release. A thread that finds the lock taken does not move.
-/
import MqttVerif.Model.Basic

namespace Mqtt.Interleave

abbrev Packet := List Bytes          -- chunks

structure Thread where
  todo : List Packet                 -- packets not yet started
  cur : Option (List Bytes)          -- holding the lock: chunks of the current packet still to write
  deriving Repr

structure St where
  threads : List Thread
  holder : Option Nat := none        -- who holds muWrite
  out : Bytes := []                  -- what the transport has received so far
  started : List Packet := []        -- packets in the order their writers acquired the lock
  deriving Repr

def setThread (s : St) (i : Nat) (t : Thread) : St := { s with threads := s.threads.set i t }

/-- one atomic action of thread `i` -/
def step (s : St) (i : Nat) : St :=
  match s.threads[i]? with
  | none => s
  | some t =>
    match t.cur with
    | some [] =>
      -- all chunks written: `defer c.muWrite.Unlock()`
      if s.holder = some i then { setThread s i { t with cur := none } with holder := none } else s
    | some (c :: rest) =>
      if s.holder = some i then { setThread s i { t with cur := some rest } with out := s.out ++ c } else s
    | none =>
      match t.todo with
      | [] => s
      | p :: ps =>
        -- `c.muWrite.Lock()` succeeds only when the lock is free
        if s.holder.isNone then
          { setThread s i { todo := ps, cur := some p } with holder := some i, started := s.started ++ [p] }
        else s

def run (s : St) (sched : List Nat) : St := sched.foldl step s

def init (ths : List (List Packet)) : St := { threads := ths.map (fun ps => { todo := ps, cur := none }) }

def flat (p : Packet) : Bytes := p.flatten

end Mqtt.Interleave
