/-
  error.go: the library's error wrappers and their `Is`, together with the standard library's
  `errors.Is` / `errors.As` algorithm (which consults a node's `Is` method, then unwraps).
  Every error value has an identity (`id`): Go compares error interfaces holding pointers by
  pointer identity, and a sentinel (`errors.New` at package level) is one such pointer.
-/
import MqttVerif.Model.Basic

namespace Mqtt

inductive E
  | leaf (id : Nat)                    -- sentinel / context error / any leaf: no Unwrap, no Is, no `Err` field
  | wrap (id : Nat) (inner : E)        -- *Error{Err: inner}                     (wrapError, wrapErrorf)
  | retry (id wid : Nat) (inner : E)   -- *errorWithRetry{errorInterface: *Error(wid){Err: inner}}
  | fmtw (id : Nat) (inner : E)        -- fmt.Errorf("…%w", inner): Unwrap only
  | conn (id : Nat) (inner : E)        -- *ConnectionError{Err: inner}: Unwrap only
  | rto (id : Nat) (inner : E)         -- *RequestTimeoutError{error: inner}: embeds, so neither Unwrap nor an `Err` field
  | field (id : Nat) (inner : E)       -- pointer to a struct with an exported `Err error` field and no Unwrap
  deriving Repr, DecidableEq

def E.id : E → Nat
  | .leaf i | .wrap i _ | .retry i _ _ | .fmtw i _ | .conn i _ | .rto i _ | .field i _ => i

/-- error.go:87-113: the loop of `(*Error).Is` starting from `e.Err`. -/
def E.walk : E → Nat → Bool
  | .leaf i, t => i = t
  | .wrap i e, t => i = t || e.walk t            -- has Unwrap
  | .retry i _ e, t => i = t || e.walk t         -- Unwrap promoted from the embedded *Error
  | .fmtw i e, t => i = t || e.walk t
  | .conn i e, t => i = t || e.walk t
  | .rto i _, t => i = t                         -- no Unwrap, pointer to struct without field `Err`
  | .field i e, t => i = t || e.walk t           -- reflective `Err` field walk (error.go:97-108)

/-- error.go:80 `(*Error).Is(target)` for the node with identity `self` and `Err = inner`. -/
def libIs (self : Nat) (inner : E) (t : Nat) : Bool := self = t || inner.walk t

/-- `errors.Is(err, target)` for non-nil err and comparable non-nil target. -/
def stdIs : E → Nat → Bool
  | .leaf i, t => i = t
  | .wrap i e, t => i = t || libIs i e t || stdIs e t
  | .retry i w e, t => i = t || libIs w e t || stdIs e t
  | .fmtw i e, t => i = t || stdIs e t
  | .conn i e, t => i = t || stdIs e t
  | .rto i _, t => i = t
  | .field i _, t => i = t

/-- identities reachable by `Unwrap` (the standard notion of "the chain") -/
def E.chain : E → List Nat
  | .leaf i => [i]
  | .wrap i e | .retry i _ e | .fmtw i e | .conn i e => i :: e.chain
  | .rto i _ => [i]
  | .field i _ => [i]

/-- identities reachable by `Unwrap` or an exported `Err` field or as the embedded *Error of a retry node -/
def E.causes : E → List Nat
  | .leaf i => [i]
  | .wrap i e | .fmtw i e | .conn i e | .field i e => i :: e.causes
  | .retry i w e => i :: w :: e.causes
  | .rto i _ => [i]

/-- `errors.As(err, *RequestTimeoutError)`: first rto node on the Unwrap chain -/
def stdAsRto : E → Option Nat
  | .leaf _ => none
  | .wrap _ e | .retry _ _ e | .fmtw _ e | .conn _ e => stdAsRto e
  | .rto i _ => some i
  | .field _ _ => none

/-- `err.(ErrorWithRetry)` on the outermost node -/
def hasRetry : E → Bool
  | .retry _ _ _ => true
  | _ => false

/-- error.go:117-139 `wrapErrorImpl`: io.EOF and nil are passed through unwrapped.
    `Option E` with `none` = nil; `eofId` is the identity of io.EOF. -/
def eofId : Nat := 0

def wrapError (e : Option E) (fresh : Nat) : Option E :=
  match e with
  | none => none
  | some (.leaf i) => if i = eofId then some (.leaf i) else some (.wrap fresh (.leaf i))
  | some x => some (.wrap fresh x)

/-- error.go:145 `wrapErrorWithRetry`. -/
def wrapErrorWithRetry (e : Option E) (fresh wfresh : Nat) : Option E :=
  match wrapError e wfresh with
  | some (.wrap w x) => some (.retry fresh w x)
  | other => other

end Mqtt
