/-
  Decoder side, transcribed from
    serve.go:21-45   readPacket            serve.go:47-187  (*BaseClient).serve  (one iteration = `serveStep`)
    packet.go:152-173 unpackUint16, unpackString
    connack.go puback.go pubrec.go pubrel.go pubcomp.go suback.go unsuback.go pingresp.go publish.go (Parse)
  Every Go operation that can panic (index, slice, make) is an explicit `.panic` branch, so that
  "never panics" is a theorem about this model and not an artefact of totalisation.
-/
import MqttVerif.Model.Codec
import MqttVerif.Model.Utf8

namespace Mqtt

/-- packet.go:152 `unpackUint16`: indexes b[0], b[1]. -/
def unpackUint16 : Bytes → Res Nat
  | b0 :: b1 :: _ => .ok ((b0 <<< 8) ||| b1)
  | _ => .panic

def badRune (r : Nat) : Bool := r = 0 || (0xD800 ≤ r && r ≤ 0xDFFF)

/-- packet.go:156 `unpackString`: returns (bytes consumed, string). -/
def unpackString (b : Bytes) : Res (Nat × Bytes) :=
  if b.length < 2 then .err .invalidPacketLength
  else match unpackUint16 b with
    | .ok n =>
      if n + 2 > b.length then .err .invalidPacketLength
      else
        let rs := decodeRunes ((b.drop 2).take n)
        if rs.any badRune then .err .invalidRune
        else .ok (n + 2, encodeRunes rs)
    | .err e => .err e
    | .panic => .panic

/-- connack.go:55 -/
def parseConnAck (flag : Nat) (contents : Bytes) : Res (Bool × Nat) :=
  if flag ≠ 0 then .err .invalidPacket
  else if contents.length ≠ 2 then .err .invalidPacketLength
  else match contents with
    | c0 :: c1 :: _ => .ok (c0 &&& 0x01 ≠ 0, c1)
    | _ => .panic

/-- puback.go / pubrec.go / pubcomp.go / unsuback.go `Parse` (expected flag 0),
    pubrel.go `Parse` (expected flag 2). -/
def parseIdOnly (expectFlag flag : Nat) (contents : Bytes) : Res Nat :=
  if flag ≠ expectFlag then .err .invalidPacket
  else if contents.length < 2 then .err .invalidPacketLength
  else unpackUint16 contents

/-- suback.go:22 (with the length check). -/
def parseSubAck (flag : Nat) (contents : Bytes) : Res (Nat × Bytes) :=
  if flag ≠ 0 then .err .invalidPacket
  else if contents.length < 2 then .err .invalidPacketLength
  else match unpackUint16 contents with
    | .ok id => .ok (id, contents.drop 2)
    | .err e => .err e
    | .panic => .panic

/-- pingresp.go:20 -/
def parsePingResp (flag : Nat) (_contents : Bytes) : Res Unit :=
  if flag ≠ 0 then .err .invalidPacket else .ok ()

/-- publish.go:45-77 `pktPublish.Parse`. -/
def parsePublish (flag : Nat) (contents : Bytes) : Res Message :=
  let dup := flag &&& publishFlagDup ≠ 0
  let retain := flag &&& publishFlagRetain ≠ 0
  let qosR : Res Nat :=
    if flag &&& publishFlagQoSMask = 0 then .ok 0
    else if flag &&& publishFlagQoSMask = publishFlagQoS1 then .ok 1
    else if flag &&& publishFlagQoSMask = publishFlagQoS2 then .ok 2
    else .err .invalidPacket
  match qosR with
  | .ok qos =>
    match unpackString contents with
    | .ok (n, topic) =>
      if qos ≠ 0 then
        if contents.length - n < 2 then .err .invalidPacketLength
        else if n > contents.length then .panic         -- contents[n:]
        else match unpackUint16 (contents.drop n) with
          | .ok id =>
            if n + 2 > contents.length then .panic       -- contents[n+nID:]
            else .ok { topic, id, qos, retain, dup, payload := contents.drop (n + 2) }
          | .err e => .err e
          | .panic => .panic
      else
        if n > contents.length then .panic
        else .ok { topic, id := 0, qos, retain, dup, payload := contents.drop n }
    | .err e => .err e
    | .panic => .panic
  | .err e => .err e
  | .panic => .panic

/-! ### readPacket -/

/-- Maximum value of the remaining-length field (MQTT 3.1.1 §2.2.3). -/
def maxRemainingLength : Nat := 268435455

/-- serve.go:29-41, the length loop after the first two bytes were read into `buf`.
    `b1` is `buf[1]`, `rest` the unread stream. Returns (remaining length, unread stream). -/
def readLen (shift acc b1 : Nat) (rest : Bytes) : Res (Nat × Bytes) :=
  let acc := acc ||| ((b1 &&& 0x7F) <<< shift)
  if b1 &&& 0x80 = 0 then .ok (acc, rest)
  else if shift ≥ 21 then .err .invalidPacketLength
  else match rest with
    | [] => .err .eof                                   -- io.ReadFull of 1 byte on EOF
    | b :: rest' => readLen (shift + 7) acc b rest'

structure Packet where
  ptype : Nat
  flag : Nat
  contents : Bytes
  deriving DecidableEq, Repr

structure ReadOut where
  res : Res (Packet × Bytes)     -- packet and the unread rest of the stream
  alloc : Option Nat             -- argument of `make([]byte, remainingLength)` if reached
  deriving Repr

/-- serve.go:21 `readPacket` on a stream that ends (EOF) after `bs`. -/
def readPacket (bs : Bytes) : ReadOut :=
  match bs with
  | [] => { res := .err .eof, alloc := none }
  | [_] => { res := .err .unexpectedEOF, alloc := none }
  | b0 :: b1 :: rest =>
    match readLen 0 0 b1 rest with
    | .ok (rl, rest') =>
      -- `make([]byte, rl)` panics for a negative or absurd length; Go's int is 64 bit
      if rl ≥ 2 ^ 47 then { res := .panic, alloc := some rl }
      else if rl = 0 then
        { res := .ok ({ ptype := b0 &&& 0xF0, flag := b0 &&& 0x0F, contents := [] }, rest'), alloc := some 0 }
      else if rest'.length = 0 then { res := .err .eof, alloc := some rl }
      else if rest'.length < rl then { res := .err .unexpectedEOF, alloc := some rl }
      else { res := .ok ({ ptype := b0 &&& 0xF0, flag := b0 &&& 0x0F, contents := rest'.take rl },
                         rest'.drop rl), alloc := some rl }
    | .err e => { res := .err e, alloc := none }
    | .panic => { res := .panic, alloc := none }

/-! ### one iteration of serve -/

inductive Out
  | handOver (m : Message)
  | write (pkt : Bytes)
  | connAck (sessionPresent : Bool) (code : Nat)
  | ack (kind : Nat) (id : Nat)              -- PUBACK / PUBREC / PUBCOMP / UNSUBACK to a waiter map
  | subAck (id : Nat) (codes : Bytes)
  | pingResp
  deriving DecidableEq, Repr

/-- `subBuffer` (serve.go:49): map id → message, as an association list (insert replaces). -/
abbrev SubBuffer := List (Nat × Message)

def SubBuffer.insert (sb : SubBuffer) (id : Nat) (m : Message) : SubBuffer :=
  (id, m) :: sb.filter (fun e => e.1 ≠ id)

def SubBuffer.find (sb : SubBuffer) (id : Nat) : Option Message :=
  (sb.find? (fun e => e.1 = id)).map (·.2)

def SubBuffer.erase (sb : SubBuffer) (id : Nat) : SubBuffer :=
  sb.filter (fun e => e.1 ≠ id)

def liftPack (r : Res Bytes) (k : Bytes → Res α) : Res α :=
  match r with
  | .ok b => k b
  | .err e => .err e
  | .panic => .panic

/-- serve.go:57-185, the body of the loop for one packet. `handler` says whether a handler is
    registered. An error result means `serve` returns that error (the connection ends). -/
def serveStep (sb : SubBuffer) (handler : Bool) (p : Packet) : Res (SubBuffer × List Out) :=
  if p.ptype = packetConnAck then
    match parseConnAck p.flag p.contents with
    | .ok (sp, code) => .ok (sb, [.connAck sp code])
    | .err e => .err e | .panic => .panic
  else if p.ptype = packetPublish then
    match parsePublish p.flag p.contents with
    | .ok m =>
      let ho : List Out := if handler then [.handOver m] else []
      if m.qos = 0 then .ok (sb, ho)
      else if m.qos = 1 then liftPack (packPubAck m.id) fun b => .ok (sb, ho ++ [.write b])
      else liftPack (packPubRec m.id) fun b => .ok (sb.insert m.id m, [.write b])
    | .err e => .err e | .panic => .panic
  else if p.ptype = packetPubAck then
    match parseIdOnly 0 p.flag p.contents with
    | .ok id => .ok (sb, [.ack packetPubAck id]) | .err e => .err e | .panic => .panic
  else if p.ptype = packetPubRec then
    match parseIdOnly 0 p.flag p.contents with
    | .ok id => .ok (sb, [.ack packetPubRec id]) | .err e => .err e | .panic => .panic
  else if p.ptype = packetPubRel then
    match parseIdOnly 2 p.flag p.contents with
    | .ok id =>
      match sb.find id with
      | some m =>
        let ho : List Out := if handler then [.handOver m] else []
        liftPack (packPubComp id) fun b => .ok (sb.erase id, ho ++ [.write b])
      | none => .ok (sb, [])
    | .err e => .err e | .panic => .panic
  else if p.ptype = packetPubComp then
    match parseIdOnly 0 p.flag p.contents with
    | .ok id => .ok (sb, [.ack packetPubComp id]) | .err e => .err e | .panic => .panic
  else if p.ptype = packetSubAck then
    match parseSubAck p.flag p.contents with
    | .ok (id, codes) => .ok (sb, [.subAck id codes]) | .err e => .err e | .panic => .panic
  else if p.ptype = packetUnsubAck then
    match parseIdOnly 0 p.flag p.contents with
    | .ok id => .ok (sb, [.ack packetUnsubAck id]) | .err e => .err e | .panic => .panic
  else if p.ptype = packetPingResp then
    match parsePingResp p.flag p.contents with
    | .ok _ => .ok (sb, [.pingResp]) | .err e => .err e | .panic => .panic
  else .err .invalidPacket

/-- Result of feeding a whole byte stream (ending in EOF) to `serve`. -/
structure ServeRun where
  outs : List Out
  processed : Nat               -- number of packets fully processed
  allocs : List Nat
  outcome : Res Unit            -- `.err e`: serve returned e; `.panic`; (never `.ok`: the stream ends)
  deriving Repr

def serveFuel : Nat → SubBuffer → Bool → Bytes → ServeRun
  | 0, _, _, _ => { outs := [], processed := 0, allocs := [], outcome := .err .other }
  | fuel + 1, sb, handler, bs =>
    let r := readPacket bs
    let al := r.alloc.toList
    match r.res with
    | .ok (p, rest) =>
      match serveStep sb handler p with
      | .ok (sb', outs) =>
        let run := serveFuel fuel sb' handler rest
        { run with outs := outs ++ run.outs, processed := run.processed + 1, allocs := al ++ run.allocs }
      | .err e => { outs := [], processed := 0, allocs := al, outcome := .err e }
      | .panic => { outs := [], processed := 0, allocs := al, outcome := .panic }
    | .err e => { outs := [], processed := 0, allocs := al, outcome := .err e }
    | .panic => { outs := [], processed := 0, allocs := al, outcome := .panic }

/-- Every packet consumes at least two bytes, so `length + 1` iterations always suffice. -/
def serveStream (sb : SubBuffer) (handler : Bool) (bs : Bytes) : ServeRun :=
  serveFuel (bs.length + 1) sb handler bs

end Mqtt
