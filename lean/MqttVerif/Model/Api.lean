/-
  API-level glue around the codec on the base client (what reaches the transport):
    publish.go:125-226  Publish / publishImpl (validation, id assignment, DUP, first write)
    connect.go:107-165  Connect (option defaults, CONNECT packet)
-/
import MqttVerif.Model.Codec
import MqttVerif.Model.PacketId

namespace Mqtt

structure PublishCall where
  result : Res Unit        -- what the call returns when its context is already cancelled
  written : Bytes          -- bytes handed to Transport.Write
  msgId : Nat              -- message.ID after the call
  counter : Nat            -- idLast after the call
  deriving Repr

/-- `BaseClient.Publish(ctx, m)` with `ctx` already cancelled, on a connected client whose
    transport accepts every write. `dupIn` is ignored by the first transmission (set to false). -/
def publishCall (maxPayload : Nat) (counter : Nat) (m : Message) : PublishCall :=
  match validateMessage maxPayload m with
  | .err e => { result := .err e, written := [], msgId := m.id, counter }
  | .panic => { result := .panic, written := [], msgId := m.id, counter }
  | .ok _ =>
    let (counter', id) := if m.id = 0 then newID counter else (counter, m.id)
    let m' := { m with id := id, dup := false }
    match packPublish m' with
    | .ok b => { result := if m.qos = 0 then .ok () else .err .ctx, written := b, msgId := id, counter := counter' }
    | .err e => { result := .err e, written := [], msgId := id, counter := counter' }
    | .panic => { result := .panic, written := [], msgId := id, counter := counter' }

structure ConnectCallOpts where
  clientID : Bytes
  userName : Bytes
  password : Bytes
  cleanSession : Bool
  protocolLevel : Nat      -- 0 = option not given
  keepAlive : Nat
  will : Option Will

/-- connect.go:109-150: defaults (`ProtocolLevel4`) and the CONNECT packet that is written. -/
def connectPkt (o : ConnectCallOpts) : ConnectPkt :=
  { protocolLevel := if o.protocolLevel = 0 then 4 else o.protocolLevel
    cleanSession := o.cleanSession, keepAlive := o.keepAlive, clientID := o.clientID
    userName := o.userName, password := o.password, will := o.will }

end Mqtt
