/-
  Go's `[]rune(string(b))` and `string(rs)` as used by packet.go:165-172 (`unpackString`).
  Transcribed from the Go runtime / unicode/utf8 tables:
    * decoding yields U+FFFD (RuneError) of width 1 for every byte that does not start a
      well-formed sequence (including truncated sequences, overlongs, surrogates, > U+10FFFF),
    * encoding maps surrogates and values > U+10FFFF to U+FFFD.
  Tied to the implementation by correspondence (engine `ustr`), not by proof.
-/
import MqttVerif.Model.Basic

namespace Mqtt

def runeError : Nat := 0xFFFD

def isCont (b : Nat) : Bool := 0x80 ≤ b && b ≤ 0xBF

/-- Decode one rune from the front: returns (rune, width). Width is ≥ 1 on non-empty input. -/
def decodeRune : Bytes → Nat × Nat
  | [] => (runeError, 0)
  | p0 :: rest =>
    if p0 < 0x80 then (p0, 1)
    else if p0 < 0xC2 then (runeError, 1)
    else if p0 < 0xE0 then
      match rest with
      | b1 :: _ => if isCont b1 then (((p0 &&& 0x1F) <<< 6) ||| (b1 &&& 0x3F), 2) else (runeError, 1)
      | [] => (runeError, 1)
    else if p0 < 0xF0 then
      let lo := if p0 = 0xE0 then 0xA0 else 0x80
      let hi := if p0 = 0xED then 0x9F else 0xBF
      match rest with
      | b1 :: b2 :: _ =>
        if lo ≤ b1 && b1 ≤ hi && isCont b2 then
          (((p0 &&& 0x0F) <<< 12) ||| ((b1 &&& 0x3F) <<< 6) ||| (b2 &&& 0x3F), 3)
        else (runeError, 1)
      | _ => (runeError, 1)
    else if p0 < 0xF5 then
      let lo := if p0 = 0xF0 then 0x90 else 0x80
      let hi := if p0 = 0xF4 then 0x8F else 0xBF
      match rest with
      | b1 :: b2 :: b3 :: _ =>
        if lo ≤ b1 && b1 ≤ hi && isCont b2 && isCont b3 then
          (((p0 &&& 0x07) <<< 18) ||| ((b1 &&& 0x3F) <<< 12) ||| ((b2 &&& 0x3F) <<< 6) ||| (b3 &&& 0x3F), 4)
        else (runeError, 1)
      | _ => (runeError, 1)
    else (runeError, 1)

/-- `[]rune(string(b))`, with fuel (the length of `b` always suffices: width ≥ 1). -/
def decodeRunesFuel : Nat → Bytes → List Nat
  | 0, _ => []
  | _, [] => []
  | fuel + 1, b =>
    let (r, w) := decodeRune b
    r :: decodeRunesFuel fuel (b.drop (max w 1))

def decodeRunes (b : Bytes) : List Nat := decodeRunesFuel b.length b

def encodeRune (r : Nat) : Bytes :=
  if r ≤ 0x7F then [r]
  else if r ≤ 0x7FF then [0xC0 ||| (r >>> 6), 0x80 ||| (r &&& 0x3F)]
  else if r > 0x10FFFF ∨ (0xD800 ≤ r ∧ r ≤ 0xDFFF) then [0xEF, 0xBF, 0xBD]
  else if r ≤ 0xFFFF then [0xE0 ||| (r >>> 12), 0x80 ||| ((r >>> 6) &&& 0x3F), 0x80 ||| (r &&& 0x3F)]
  else [0xF0 ||| (r >>> 18), 0x80 ||| ((r >>> 12) &&& 0x3F), 0x80 ||| ((r >>> 6) &&& 0x3F), 0x80 ||| (r &&& 0x3F)]

/-- `string(rs)` -/
def encodeRunes (rs : List Nat) : Bytes := (rs.map encodeRune).flatten

end Mqtt
